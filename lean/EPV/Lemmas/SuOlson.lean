/-
Lemmas for C18 (Su–Olson): separable modes of the linear system, the Marshak phase,
linear superposition, and the change of variables between the dimensionless and the
physical system.  Nothing here mentions the generated models.
-/
import EPV.Spec.SuOlson
import Mathlib.Analysis.Calculus.Deriv.CompMul

set_option linter.all false

namespace EPV.Spec.SuOlson

noncomputable section

open Real

/-! ### derivatives of a mode -/

theorem mode_hasDerivAt_τ (W s γ θ x τ : ℝ) :
    HasDerivAt (fun σ => mode W s γ θ x σ) (-s * mode W s γ θ x τ) τ := by
  unfold mode
  have h1 : HasDerivAt (fun σ : ℝ => -(s * σ)) (-s) τ :=
    (EPV.D.neg (EPV.D.const_mul s (hasDerivAt_id' τ))).congr_deriv (by ring)
  have h2 := ((h1.exp).const_mul W).mul_const (Real.sin (γ * x + θ))
  refine h2.congr_deriv ?_
  ring

theorem mode_hasDerivAt_x (W s γ θ x τ : ℝ) :
    HasDerivAt (fun y => mode W s γ θ y τ) (W * Real.exp (-(s * τ)) * γ * Real.cos (γ * x + θ)) x := by
  unfold mode
  have h1 : HasDerivAt (fun y : ℝ => γ * y + θ) γ x := by
    simpa using ((hasDerivAt_id x).const_mul γ).add_const θ
  have h2 := (h1.sin).const_mul (W * Real.exp (-(s * τ)))
  refine h2.congr_deriv ?_
  ring

theorem dτ_mode (W s γ θ x τ : ℝ) : dτ (mode W s γ θ) x τ = -s * mode W s γ θ x τ :=
  (mode_hasDerivAt_τ W s γ θ x τ).deriv

theorem dx_mode (W s γ θ x τ : ℝ) :
    dx (mode W s γ θ) x τ = W * Real.exp (-(s * τ)) * γ * Real.cos (γ * x + θ) :=
  (mode_hasDerivAt_x W s γ θ x τ).deriv

theorem dx_mode_hasDerivAt (W s γ θ x τ : ℝ) :
    HasDerivAt (fun y => dx (mode W s γ θ) y τ) (-(γ ^ 2) * mode W s γ θ x τ) x := by
  have e : (fun y => dx (mode W s γ θ) y τ)
      = fun y => W * Real.exp (-(s * τ)) * γ * Real.cos (γ * y + θ) := by
    funext y; exact dx_mode W s γ θ y τ
  rw [e]
  have h1 : HasDerivAt (fun y : ℝ => γ * y + θ) γ x := by
    simpa using ((hasDerivAt_id x).const_mul γ).add_const θ
  have h2 := (h1.cos).const_mul (W * Real.exp (-(s * τ)) * γ)
  refine h2.congr_deriv ?_
  unfold mode
  ring

theorem dxx_mode (W s γ θ x τ : ℝ) : dxx (mode W s γ θ) x τ = -(γ ^ 2) * mode W s γ θ x τ :=
  (dx_mode_hasDerivAt W s γ θ x τ).deriv

theorem mode_smooth (W s γ θ x τ : ℝ) : Smooth (mode W s γ θ) x τ :=
  ⟨(mode_hasDerivAt_τ W s γ θ x τ).differentiableAt, (mode_hasDerivAt_x W s γ θ x τ).differentiableAt,
    (dx_mode_hasDerivAt W s γ θ x τ).differentiableAt⟩

/-- the material companion of a mode: v = u / (1 - s) -/
def vmode (W s γ θ : ℝ) : Field := fun x τ => mode W s γ θ x τ / (1 - s)

theorem vmode_eq (W s γ θ : ℝ) : vmode W s γ θ = mode (W / (1 - s)) s γ θ := by
  funext x τ; unfold vmode mode; ring

/-- v_τ = u - v holds for every mode pair (s ≠ 1) -/
theorem mode_matEq (W s γ θ x τ : ℝ) (hs : s ≠ 1) :
    MatEq (mode W s γ θ) (vmode W s γ θ) x τ := by
  unfold MatEq
  rw [vmode_eq, dτ_mode]
  have h : (1 : ℝ) - s ≠ 0 := sub_ne_zero.mpr (Ne.symm hs)
  unfold mode
  field_simp
  ring

/-- **mode ⇔ dispersion relation**: at a point where the mode does not vanish, the radiation
equation ε u_τ = u_xx + v - u holds for (u, u/(1-s)) iff γ² = ε s + s/(1-s). -/
theorem mode_radEq_iff (ε W s γ θ x τ : ℝ) (hs : s ≠ 1) (hu : mode W s γ θ x τ ≠ 0) :
    RadEq ε (mode W s γ θ) (vmode W s γ θ) x τ ↔ Dispersion ε s γ := by
  unfold RadEq Dispersion
  rw [dτ_mode, dxx_mode]
  have h : (1 : ℝ) - s ≠ 0 := sub_ne_zero.mpr (Ne.symm hs)
  unfold vmode
  set m := mode W s γ θ x τ with hm
  constructor
  · intro H
    have hq : m / (1 - s) - m = m * (s / (1 - s)) := by field_simp; ring
    have H2 : m * (γ ^ 2) = m * (ε * s + s / (1 - s)) := by
      linear_combination H + hq
    exact mul_left_cancel₀ hu H2
  · intro H
    rw [H]
    field_simp
    ring

/-- the dispersion relation is sufficient at every point (also where the mode vanishes) -/
theorem mode_radEq (ε W s γ θ x τ : ℝ) (hs : s ≠ 1) (hd : Dispersion ε s γ) :
    RadEq ε (mode W s γ θ) (vmode W s γ θ) x τ := by
  unfold RadEq
  rw [dτ_mode, dxx_mode]
  unfold Dispersion at hd
  have h : (1 : ℝ) - s ≠ 0 := sub_ne_zero.mpr (Ne.symm hs)
  unfold vmode
  rw [hd]
  field_simp
  ring

theorem mode_solvesAt (ε W s γ θ x τ : ℝ) (hs : s ≠ 1) (hd : Dispersion ε s γ) :
    SolvesAt ε (mode W s γ θ) (vmode W s γ θ) x τ := by
  refine ⟨mode_smooth W s γ θ x τ, ?_, mode_radEq ε W s γ θ x τ hs hd, mode_matEq W s γ θ x τ hs⟩
  rw [vmode_eq]
  exact (mode_hasDerivAt_τ _ s γ θ x τ).differentiableAt

/-- a mode with the Marshak phase satisfies the homogeneous Marshak condition at x = 0 -/
theorem mode_marshak (W s γ θ τ : ℝ) (hθ : MarshakPhase γ θ) : Marshak (mode W s γ θ) τ 0 := by
  unfold Marshak
  rw [dx_mode]
  unfold MarshakPhase at hθ
  unfold mode
  simp only [mul_zero, zero_add]
  rw [hθ]
  ring

/-- the coded phase θ = arccos √(3/(3+4γ²)) is the Marshak phase (γ ≥ 0) -/
theorem marshakPhase_arccos (γ : ℝ) (hγ : 0 ≤ γ) :
    MarshakPhase γ (Real.arccos (Real.sqrt (3 / (3 + 4 * γ ^ 2)))) := by
  unfold MarshakPhase
  have hpos : (0 : ℝ) < 3 + 4 * γ ^ 2 := by positivity
  have hq0 : (0 : ℝ) ≤ 3 / (3 + 4 * γ ^ 2) := by positivity
  have hq1 : (3 : ℝ) / (3 + 4 * γ ^ 2) ≤ 1 := by
    rw [div_le_one hpos]; nlinarith [sq_nonneg γ]
  have hs0 : (0 : ℝ) ≤ Real.sqrt (3 / (3 + 4 * γ ^ 2)) := Real.sqrt_nonneg _
  have hs1 : Real.sqrt (3 / (3 + 4 * γ ^ 2)) ≤ 1 := by
    have := Real.sqrt_le_sqrt hq1
    simpa using this
  rw [Real.sin_arccos, Real.cos_arccos (by linarith) hs1, Real.sq_sqrt hq0]
  have e1 : (1 : ℝ) - 3 / (3 + 4 * γ ^ 2) = (2 * γ) ^ 2 / (3 + 4 * γ ^ 2) := by
    field_simp; ring
  rw [e1, Real.sqrt_div (sq_nonneg _), Real.sqrt_sq (by positivity), Real.sqrt_div (by norm_num)]
  have h3 : (0 : ℝ) < Real.sqrt 3 := Real.sqrt_pos.mpr (by norm_num)
  have hd : (0 : ℝ) < Real.sqrt (3 + 4 * γ ^ 2) := Real.sqrt_pos.mpr hpos
  have e3 : Real.sqrt 3 * Real.sqrt 3 = 3 := Real.mul_self_sqrt (by norm_num)
  field_simp

/-! ### the constant state and superposition -/

/-- the constant pair (1, 1) solves both equations and carries the Marshak datum 1 -/
theorem const_one_solvesAt (ε x τ : ℝ) : SolvesAt ε (fun _ _ => 1) (fun _ _ => 1) x τ := by
  refine ⟨⟨differentiableAt_const _, differentiableAt_const _, ?_⟩, differentiableAt_const _, ?_, ?_⟩
  · have : (fun y => dx (fun _ _ => (1 : ℝ)) y τ) = fun _ => 0 := by
      funext y; simp [dx]
    rw [this]; exact differentiableAt_const _
  · simp [RadEq, dτ, dxx, dx]
  · simp [MatEq, dτ]

theorem const_one_marshak (τ : ℝ) : Marshak (fun _ _ => 1) τ 1 := by
  simp [Marshak, dx]

/-- solutions of the (linear) system are closed under  (u, v) ↦ (u₁ + k u₂, v₁ + k v₂) -/
theorem SolvesAt.add_smul {ε : ℝ} {u₁ v₁ u₂ v₂ : Field} {x τ : ℝ} (k : ℝ)
    (h1 : SolvesAt ε u₁ v₁ x τ) (h2 : SolvesAt ε u₂ v₂ x τ)
    (hx1 : ∀ᶠ y in nhds x, DifferentiableAt ℝ (fun z => u₁ z τ) y)
    (hx2 : ∀ᶠ y in nhds x, DifferentiableAt ℝ (fun z => u₂ z τ) y) :
    SolvesAt ε (fun x τ => u₁ x τ + k * u₂ x τ) (fun x τ => v₁ x τ + k * v₂ x τ) x τ := by
  obtain ⟨⟨a1, b1, c1⟩, d1, r1, m1⟩ := h1
  obtain ⟨⟨a2, b2, c2⟩, d2, r2, m2⟩ := h2
  have hdx : (fun y => dx (fun x τ => u₁ x τ + k * u₂ x τ) y τ)
      =ᶠ[nhds x] fun y => dx u₁ y τ + k * dx u₂ y τ := by
    filter_upwards [hx1, hx2] with y hy1 hy2
    unfold dx
    rw [deriv_fun_add hy1 (hy2.const_mul k), deriv_const_mul_field]
  have hdxx : dxx (fun x τ => u₁ x τ + k * u₂ x τ) x τ = dxx u₁ x τ + k * dxx u₂ x τ := by
    unfold dxx
    rw [hdx.deriv_eq, deriv_fun_add c1 (c2.const_mul k), deriv_const_mul_field]
  have hdτ : dτ (fun x τ => u₁ x τ + k * u₂ x τ) x τ = dτ u₁ x τ + k * dτ u₂ x τ := by
    unfold dτ
    rw [deriv_fun_add a1 (a2.const_mul k), deriv_const_mul_field]
  have hdτv : dτ (fun x τ => v₁ x τ + k * v₂ x τ) x τ = dτ v₁ x τ + k * dτ v₂ x τ := by
    unfold dτ
    rw [deriv_fun_add d1 (d2.const_mul k), deriv_const_mul_field]
  refine ⟨⟨a1.add (a2.const_mul k), b1.add (b2.const_mul k), ?_⟩, d1.add (d2.const_mul k), ?_, ?_⟩
  · exact (c1.add (c2.const_mul k)).congr_of_eventuallyEq hdx
  · unfold RadEq at *
    rw [hdτ, hdxx]
    linear_combination r1 + k * r2
  · unfold MatEq at *
    rw [hdτv]
    linear_combination m1 + k * m2

/-- the Marshak condition is affine: data add up -/
theorem Marshak.add_smul {u₁ u₂ : Field} {τ b₁ b₂ : ℝ} (k : ℝ)
    (h1 : Marshak u₁ τ b₁) (h2 : Marshak u₂ τ b₂)
    (d1 : DifferentiableAt ℝ (fun z => u₁ z τ) 0) (d2 : DifferentiableAt ℝ (fun z => u₂ z τ) 0) :
    Marshak (fun x τ => u₁ x τ + k * u₂ x τ) τ (b₁ + k * b₂) := by
  unfold Marshak dx at *
  rw [deriv_fun_add d1 (d2.const_mul k), deriv_const_mul_field]
  linear_combination h1 + k * h2

/-! ### change of variables: dimensionless ⇒ physical -/

section Physical

variable (u v : Field) (c a κ α Tb : ℝ)

/-- radiation energy density  E(z,t) = u(√3 κ z, (4acκ/α) t) · a T_bc⁴ -/
def physE : Field := fun z t => u (Real.sqrt 3 * κ * z) (4 * a * c * κ / α * t) * (a * Tb ^ 4)

/-- material temperature  T(z,t) = (v(√3 κ z, (4acκ/α) t) · T_bc⁴)^{1/4} -/
def physT : Field := fun z t => (v (Real.sqrt 3 * κ * z) (4 * a * c * κ / α * t) * Tb ^ 4) ^ ((1 : ℝ) / 4)

theorem dτ_physE (z t : ℝ) :
    dτ (physE u c a κ α Tb) z t
      = 4 * a * c * κ / α * dτ u (Real.sqrt 3 * κ * z) (4 * a * c * κ / α * t) * (a * Tb ^ 4) := by
  unfold dτ physE
  rw [deriv_mul_const_field]
  have := deriv_comp_mul_left (4 * a * c * κ / α) (fun s => u (Real.sqrt 3 * κ * z) s) t
  simp only [smul_eq_mul] at this
  rw [this]

theorem dx_physE (z t : ℝ) :
    dx (physE u c a κ α Tb) z t
      = Real.sqrt 3 * κ * dx u (Real.sqrt 3 * κ * z) (4 * a * c * κ / α * t) * (a * Tb ^ 4) := by
  unfold dx physE
  rw [deriv_mul_const_field]
  have := deriv_comp_mul_left (Real.sqrt 3 * κ) (fun y => u y (4 * a * c * κ / α * t)) z
  simp only [smul_eq_mul] at this
  rw [this]

theorem dxx_physE (z t : ℝ) :
    dxx (physE u c a κ α Tb) z t
      = 3 * κ ^ 2 * dxx u (Real.sqrt 3 * κ * z) (4 * a * c * κ / α * t) * (a * Tb ^ 4) := by
  unfold dxx
  have e : (fun y => dx (physE u c a κ α Tb) y t)
      = fun y => Real.sqrt 3 * κ * dx u (Real.sqrt 3 * κ * y) (4 * a * c * κ / α * t) * (a * Tb ^ 4) := by
    funext y; exact dx_physE u c a κ α Tb y t
  rw [e, deriv_mul_const_field, deriv_const_mul_field]
  have := deriv_comp_mul_left (Real.sqrt 3 * κ) (fun y => dx u y (4 * a * c * κ / α * t)) z
  simp only [smul_eq_mul] at this
  rw [this]
  have e3 : Real.sqrt 3 * Real.sqrt 3 = 3 := Real.mul_self_sqrt (by norm_num)
  linear_combination (κ ^ 2 * deriv (fun y => dx u y (4 * a * c * κ / α * t)) (Real.sqrt 3 * κ * z)
    * (a * Tb ^ 4)) * e3

/-- (aT⁴)(z,t) = v · a T_bc⁴ where v ≥ 0 -/
theorem physT_pow4 (z t : ℝ) (hv : 0 ≤ v (Real.sqrt 3 * κ * z) (4 * a * c * κ / α * t)) :
    physT v c a κ α Tb z t ^ 4 = v (Real.sqrt 3 * κ * z) (4 * a * c * κ / α * t) * Tb ^ 4 := by
  unfold physT
  have h : 0 ≤ v (Real.sqrt 3 * κ * z) (4 * a * c * κ / α * t) * Tb ^ 4 := by positivity
  rw [← Real.rpow_natCast, ← Real.rpow_mul h]
  norm_num

/-- **radiation equation**, physical form, from the dimensionless one (ε = 4a/α) -/
theorem physRadEq_of_radEq (z t : ℝ) (hκ : κ ≠ 0) (hα : α ≠ 0)
    (hv : 0 ≤ v (Real.sqrt 3 * κ * z) (4 * a * c * κ / α * t))
    (h : RadEq (4 * a / α) u v (Real.sqrt 3 * κ * z) (4 * a * c * κ / α * t)) :
    PhysRadEq c a κ (physE u c a κ α Tb) (physT v c a κ α Tb) z t := by
  unfold PhysRadEq
  rw [dτ_physE, dxx_physE, physT_pow4 v c a κ α Tb z t hv]
  unfold RadEq at h
  unfold physE
  set X := Real.sqrt 3 * κ * z
  set τ := 4 * a * c * κ / α * t
  rw [← sub_eq_zero]
  have key : 4 * a * c * κ / α * dτ u X τ * (a * Tb ^ 4) - c / (3 * κ) * (3 * κ ^ 2 * dxx u X τ * (a * Tb ^ 4))
      - c * κ * (a * (v X τ * Tb ^ 4) - u X τ * (a * Tb ^ 4))
      = c * κ * (a * Tb ^ 4) * (4 * a / α * dτ u X τ - (dxx u X τ + (v X τ - u X τ))) := by
    field_simp
    ring
  rw [key, sub_eq_zero.mpr h]
  ring

/-- **material equation**, physical form, from the dimensionless one, where v > 0 -/
theorem physMatEq_of_matEq (z t : ℝ) (hα : α ≠ 0) (hTb : 0 < Tb)
    (hv : 0 < v (Real.sqrt 3 * κ * z) (4 * a * c * κ / α * t))
    (hd : DifferentiableAt ℝ (fun s => v (Real.sqrt 3 * κ * z) s) (4 * a * c * κ / α * t))
    (h : MatEq u v (Real.sqrt 3 * κ * z) (4 * a * c * κ / α * t)) :
    PhysMatEq c a κ α (physE u c a κ α Tb) (physT v c a κ α Tb) z t := by
  unfold PhysMatEq
  set X := Real.sqrt 3 * κ * z with hX
  set k := 4 * a * c * κ / α with hk
  have hw : 0 < v X (k * t) * Tb ^ 4 := by positivity
  -- derivative of T in time
  have h1 : HasDerivAt (fun s => v X (k * s)) (k * dτ v X (k * t)) t := by
    have := hd.hasDerivAt.comp t ((hasDerivAt_id t).const_mul k)
    simpa [dτ, Function.comp_def, mul_comm] using this
  have h2 : HasDerivAt (fun s => v X (k * s) * Tb ^ 4) (k * dτ v X (k * t) * Tb ^ 4) t :=
    h1.mul_const _
  have h3 := h2.rpow_const (p := (1 : ℝ) / 4) (Or.inl hw.ne')
  have hT : dτ (physT v c a κ α Tb) z t
      = k * dτ v X (k * t) * Tb ^ 4 * (1 / 4) * (v X (k * t) * Tb ^ 4) ^ ((1 : ℝ) / 4 - 1) := by
    unfold dτ physT
    exact h3.deriv
  have hT3 : physT v c a κ α Tb z t ^ 3 = (v X (k * t) * Tb ^ 4) ^ ((3 : ℝ) / 4) := by
    unfold physT
    rw [← Real.rpow_natCast, ← Real.rpow_mul hw.le]
    norm_num
  have hprod : (v X (k * t) * Tb ^ 4) ^ ((3 : ℝ) / 4) * (v X (k * t) * Tb ^ 4) ^ ((1 : ℝ) / 4 - 1) = 1 := by
    rw [← Real.rpow_add hw]
    norm_num
  rw [hT, hT3, physT_pow4 v c a κ α Tb z t hv.le]
  unfold MatEq at h
  rw [h]
  unfold physE
  rw [← hX, ← hk]
  have : α * (v X (k * t) * Tb ^ 4) ^ ((3 : ℝ) / 4)
      * (k * (u X (k * t) - v X (k * t)) * Tb ^ 4 * (1 / 4) * (v X (k * t) * Tb ^ 4) ^ ((1 : ℝ) / 4 - 1))
      = α * (k * (u X (k * t) - v X (k * t)) * Tb ^ 4 * (1 / 4))
        * ((v X (k * t) * Tb ^ 4) ^ ((3 : ℝ) / 4) * (v X (k * t) * Tb ^ 4) ^ ((1 : ℝ) / 4 - 1)) := by ring
  rw [this, hprod, hk]
  field_simp

/-- **Marshak condition**, physical form: E - (2/(3κ)) E_z = b · a T_bc⁴ at z = 0 -/
theorem physMarshak_of_marshak (t b : ℝ) (hκ : κ ≠ 0)
    (h : Marshak u (4 * a * c * κ / α * t) b) :
    PhysMarshak κ (physE u c a κ α Tb) t (b * (a * Tb ^ 4)) := by
  unfold PhysMarshak
  rw [dx_physE]
  unfold Marshak at h
  unfold physE
  simp only [mul_zero] at *
  have h3 : (0 : ℝ) < Real.sqrt 3 := Real.sqrt_pos.mpr (by norm_num)
  have e3 : Real.sqrt 3 * Real.sqrt 3 = 3 := Real.mul_self_sqrt (by norm_num)
  rw [← h]
  have e : 2 / (3 * κ) * (Real.sqrt 3 * κ) = 2 / Real.sqrt 3 := by
    rw [div_mul_eq_mul_div, div_eq_div_iff (mul_ne_zero three_ne_zero hκ) h3.ne']
    linear_combination (2 * κ) * e3
  set T := 4 * a * c * κ / α * t
  rw [← sub_eq_zero]
  have key : u 0 T * (a * Tb ^ 4) - 2 / (3 * κ) * (Real.sqrt 3 * κ * dx u 0 T * (a * Tb ^ 4))
      - (u 0 T - 2 / Real.sqrt 3 * dx u 0 T) * (a * Tb ^ 4)
      = -(dx u 0 T * (a * Tb ^ 4)) * (2 / (3 * κ) * (Real.sqrt 3 * κ) - 2 / Real.sqrt 3) := by ring
  rw [key, e]
  ring

end Physical

/-! ### congruence: the equations only look at the fields near the point -/

theorem dτ_congr {f g : Field} {x τ : ℝ} (h : ∀ᶠ s in nhds τ, f x s = g x s) : dτ f x τ = dτ g x τ :=
  Filter.EventuallyEq.deriv_eq h

theorem dx_congr_all {f g : Field} {τ : ℝ} (h : ∀ y, f y τ = g y τ) (x : ℝ) : dx f x τ = dx g x τ := by
  unfold dx
  have : (fun y => f y τ) = fun y => g y τ := funext h
  rw [this]

theorem dxx_congr_all {f g : Field} {τ : ℝ} (h : ∀ y, f y τ = g y τ) (x : ℝ) : dxx f x τ = dxx g x τ := by
  unfold dxx
  have : (fun y => dx f y τ) = fun y => dx g y τ := funext (dx_congr_all h)
  rw [this]

theorem PhysRadEq.congr {c a κ : ℝ} {E E' T T' : Field} {z t : ℝ} (hEz : ∀ y, E y t = E' y t)
    (hEt : ∀ᶠ s in nhds t, E z s = E' z s) (hT : T z t = T' z t) (h : PhysRadEq c a κ E' T' z t) :
    PhysRadEq c a κ E T z t := by
  unfold PhysRadEq at *
  rw [dτ_congr hEt, dxx_congr_all hEz, hEz z, hT]
  exact h

theorem PhysMatEq.congr {c a κ α : ℝ} {E E' T T' : Field} {z t : ℝ} (hE : E z t = E' z t)
    (hTt : ∀ᶠ s in nhds t, T z s = T' z s) (h : PhysMatEq c a κ α E' T' z t) :
    PhysMatEq c a κ α E T z t := by
  unfold PhysMatEq at *
  rw [dτ_congr hTt, hE, hTt.self_of_nhds]
  exact h

theorem PhysMarshak.congr {κ : ℝ} {E E' : Field} {t b : ℝ} (hEz : ∀ y, E y t = E' y t)
    (h : PhysMarshak κ E' t b) : PhysMarshak κ E t b := by
  unfold PhysMarshak at *
  rw [dx_congr_all hEz, hEz 0]
  exact h

end

end EPV.Spec.SuOlson
