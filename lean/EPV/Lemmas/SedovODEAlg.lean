/-
Sedov (C01 growth): the algebra behind "the similarity functions solve the similarity ODEs".

Each of λ, f, g, h of `sedov_funcs_standard` is a product of real powers (and, in the two ω-special
branches, an exponential) of functions of v that are affine (rational in the exponential), so its
logarithmic derivative is a rational function of v; with them the three parametric ODE residuals
factor as (positive function) × (bracket), `massODEv_factor` … below, where the bracket is a
rational function of v and of the constants a0…a5, a_val, c_val, e_val, xg2.

For each branch (standard: `s…`, omega2: `o…`, omega3: `t…`) and each bracket:
  * `…_num`: bracket = (numerator polynomial in v) / (product of the pole factors), for ARBITRARY
    values of the constants (proof: clear denominators, `ring`);
  * `…_c<i>`: every coefficient of that numerator vanishes once the constants have the values the
    constructor computes from (γ, k, ω) (sedov.py:81-137; in the ω-special branches: at the exactly
    special ω) — identities of rational functions of (γ, k, ω);
  * `…_bracket`: hence the bracket is 0.
The numerator polynomials were computed with a computer-algebra system and pasted; nothing about
them is trusted: Lean checks both the expansion and the vanishing of each coefficient.
Also: d log λ/dv = (positive) · N(v)/(…) with N(v) = γ(γ+1)X²v² - 4(γ+1)Xv + 8 > 0 (`N_pos`), which
gives dλ/dv ≠ 0 strictly inside each branch.
-/
import Mathlib.Tactic
import EPV.Spec.SedovODE

set_option linter.all false
set_option maxRecDepth 100000

open EPV.Spec.SedovODE

namespace EPV.Sedov.Alg

noncomputable section

/-! ### The three brackets, for arbitrary logarithmic derivatives lL, lG, lH (lF = 1/v + lL) -/

/-- mass bracket; s = X v/2 = (2/(γ+1)) a_val v -/
def Bmass (X k omega v lL lG : ℝ) : ℝ :=
  (X / 2 * v - 1) * lG + X / 2 * v * (1 / v + lL) + ((k - 1) * (X / 2 * v) - omega) * lL
/-- energy bracket -/
def Benergy (X gamma k omega v lL lG lH : ℝ) : ℝ :=
  -(k - omega) * lL + (X / 2 * v - 1) * (lH - lG) + (gamma - 1) * (X / 2 * v * (1 / v + lL) + (k - 1) * (X / 2 * v) * lL)
/-- momentum bracket; the factor of lH is ((γ-1)/(γ+1)) x1 x4/x2 -/
def Bmom (X c gamma k omega v lL lH : ℝ) : ℝ :=
  (X / 2 * v - 1) * (1 / v + lL) - (k - omega) / 2 * lL + (gamma - 1) * X * v * (2 - X * v) / (8 * (c * v - 1)) * lH

/-- mass ODE residual = G · L · bracket, when F = x1 L, L' = L lL, F' = F (1/v + lL), G' = G lG
and (2/(γ+1)) x1 = X v/2 -/
theorem massODEv_factor (gamma k omega X v L G x1 lL lG : ℝ) (hL : L ≠ 0) (hv : v ≠ 0) (hg : gamma + 1 ≠ 0)
    (hs : 2 / (gamma + 1) * x1 = X / 2 * v) :
    massODEv gamma k omega L (x1 * L) G (L * lL) (x1 * L * (1 / v + lL)) (G * lG) = G * L * Bmass X k omega v lL lG := by
  unfold massODEv Bmass
  rw [← hs]
  field_simp
  ring

theorem energyODEv_factor (gamma k omega X v L G H x1 lL lG lH : ℝ) (hL : L ≠ 0) (hG : G ≠ 0) (hv : v ≠ 0)
    (hg : gamma + 1 ≠ 0) (hs : 2 / (gamma + 1) * x1 = X / 2 * v) :
    energyODEv gamma k omega L (x1 * L) G H (L * lL) (x1 * L * (1 / v + lL)) (G * lG) (H * lH)
      = H / G * L * Benergy X gamma k omega v lL lG lH := by
  unfold energyODEv Benergy
  rw [← hs]
  field_simp
  ring

/-- momentum; `hH`: H x2 = G x1² L² x4 (the exponents of the four bases add up), with
x2 = b (c v - 1), x4 = b (1 - X v/2) -/
theorem momODEv_factor (gamma k omega X c v L G H x1 lL lH : ℝ) (hL : L ≠ 0) (hG : G ≠ 0) (hv : v ≠ 0)
    (hg : gamma + 1 ≠ 0) (h2 : c * v - 1 ≠ 0) (hs : 2 / (gamma + 1) * x1 = X / 2 * v)
    (hH : H * (c * v - 1) = G * x1 ^ 2 * L ^ 2 * (1 - X / 2 * v)) :
    momODEv gamma k omega L (x1 * L) G (L * lL) (x1 * L * (1 / v + lL)) (H * lH)
      = x1 * L ^ 2 * Bmom X c gamma k omega v lL lH := by
  have hHe : H = G * x1 ^ 2 * L ^ 2 * (1 - X / 2 * v) / (c * v - 1) := by
    rw [eq_div_iff h2]; exact hH
  have hx1 : x1 = (gamma + 1) / 2 * (X / 2 * v) := by
    rw [← hs]; field_simp
  unfold momODEv Bmom
  rw [hHe, hx1]
  generalize hD2 : c * v - 1 = D2 at h2 ⊢
  field_simp
  ring

/-- N(v) = γ(γ+1)X²v² - 4(γ+1)Xv + 8 has no real root for γ > 1 -/
theorem N_pos (gamma X v : ℝ) (hg : 1 < gamma) :
    0 < gamma * (gamma + 1) * X ^ 2 * v ^ 2 - 4 * (gamma + 1) * X * v + 8 := by
  have h : 0 < gamma * (gamma * (gamma + 1) * X ^ 2 * v ^ 2 - 4 * (gamma + 1) * X * v + 8) := by
    nlinarith [sq_nonneg (gamma * X * v - 2), mul_nonneg (by linarith : (0:ℝ) ≤ gamma + 1) (sq_nonneg (gamma * X * v - 2))]
  exact (mul_pos_iff_of_pos_left (by linarith : (0:ℝ) < gamma)).mp h


/-! ### Standard branch -/

def sL (a0 a1 a2 c e v : ℝ) : ℝ :=
  -(a0 / v + a2 * c / (c * v - 1) - a1 * e / (1 - e * v))

def sG (a0 a1 a2 a3 a4 a5 c e X omega v : ℝ) : ℝ :=
  a0 * omega / v + (a3 + a2 * omega) * c / (c * v - 1) - (a4 + a1 * omega) * e / (1 - e * v) - a5 * X / (2 - X * v)

def sH (a0 a1 a4 a5 e X k omega v : ℝ) : ℝ :=
  a0 * k / v - (a4 + a1 * (omega - 2)) * e / (1 - e * v) - (1 + a5) * X / (2 - X * v)

def s_mass_c1 (a0 a1 a2 a3 a4 a5 c e X gamma k omega : ℝ) : ℝ :=
  X*a0*k/2 - X*a0*omega/2 - X*a5/2 - X/2 - a3*c - a4*e

def s_mass_c2 (a0 a1 a2 a3 a4 a5 c e X gamma k omega : ℝ) : ℝ :=
  -X*a0*c*k/2 + X*a0*c*omega/2 - X*a0*e*k/2 + X*a0*e*omega/2 - X*a1*e*k/2 + X*a1*e*omega/2 - X*a2*c*k/2 + X*a2*c*omega/2 + X*a3*c/2 + X*a4*e/2 + X*a5*c/2 + X*a5*e/2 + X*c/2 + X*e/2 + a3*c*e + a4*c*e

def s_mass_c3 (a0 a1 a2 a3 a4 a5 c e X gamma k omega : ℝ) : ℝ :=
  X*a0*c*e*k/2 - X*a0*c*e*omega/2 + X*a1*c*e*k/2 - X*a1*c*e*omega/2 + X*a2*c*e*k/2 - X*a2*c*e*omega/2 - X*a3*c*e/2 - X*a4*c*e/2 - X*a5*c*e/2 - X*c*e/2

theorem s_mass_num (a0 a1 a2 a3 a4 a5 c e X gamma k omega v : ℝ) (h0 : v ≠ 0) (h2 : c * v - 1 ≠ 0) (h3 : 1 - e * v ≠ 0) (h4 : 2 - X * v ≠ 0) :
    Bmass X k omega v (sL a0 a1 a2 c e v) (sG a0 a1 a2 a3 a4 a5 c e X omega v)
      = (s_mass_c1 a0 a1 a2 a3 a4 a5 c e X gamma k omega * v ^ 1 + s_mass_c2 a0 a1 a2 a3 a4 a5 c e X gamma k omega * v ^ 2 + s_mass_c3 a0 a1 a2 a3 a4 a5 c e X gamma k omega * v ^ 3) / (v * (c * v - 1) * (1 - e * v)) := by
  simp only [sL, sG, sH, Bmass, Benergy, Bmom, s_mass_c1, s_mass_c2, s_mass_c3]
  generalize hD2 : c * v - 1 = D2 at h2 ⊢
  generalize hD3 : 1 - e * v = D3 at h3 ⊢
  generalize hD4 : 2 - X * v = D4 at h4 ⊢
  field_simp
  subst hD2 hD3 hD4
  ring

theorem s_mass_c1_zero (gamma k omega X d2 d3 E a0 a1 a2 a3 a4 a5 c e : ℝ)
    (hX0 : X ≠ 0) (hd20 : d2 ≠ 0) (hd30 : d3 ≠ 0) (hE0 : E ≠ 0) (hg0 : gamma ≠ 0)
    (hX : X = k + 2 - omega) (hd2 : d2 = 2 * (gamma - 1) + k - gamma * omega) (hd3 : d3 = k * (2 - gamma) - omega)
    (hE : E = 2 + k * (gamma - 1))
    (ha0 : a0 = 2 / X) (ha2 : a2 = -(gamma - 1) / d2) (ha1 : a1 = X * gamma / E * (2 * d3 / (gamma * X * X) - a2))
    (ha3 : a3 = (k - omega) / d2) (ha4 : a4 = X * (k - omega) * a1 / d3) (ha5 : a5 = (omega * (gamma + 1) - 2 * k) / d3)
    (hc : c = 1 / 2 * X * gamma) (he : e = 1 / 2 * E) :
    s_mass_c1 a0 a1 a2 a3 a4 a5 c e X gamma k omega = 0 := by
  unfold s_mass_c1
  subst ha4 ha1 ha0 ha2 ha3 ha5 hc he
  field_simp
  subst hX hd2 hd3 hE
  ring

theorem s_mass_c2_zero (gamma k omega X d2 d3 E a0 a1 a2 a3 a4 a5 c e : ℝ)
    (hX0 : X ≠ 0) (hd20 : d2 ≠ 0) (hd30 : d3 ≠ 0) (hE0 : E ≠ 0) (hg0 : gamma ≠ 0)
    (hX : X = k + 2 - omega) (hd2 : d2 = 2 * (gamma - 1) + k - gamma * omega) (hd3 : d3 = k * (2 - gamma) - omega)
    (hE : E = 2 + k * (gamma - 1))
    (ha0 : a0 = 2 / X) (ha2 : a2 = -(gamma - 1) / d2) (ha1 : a1 = X * gamma / E * (2 * d3 / (gamma * X * X) - a2))
    (ha3 : a3 = (k - omega) / d2) (ha4 : a4 = X * (k - omega) * a1 / d3) (ha5 : a5 = (omega * (gamma + 1) - 2 * k) / d3)
    (hc : c = 1 / 2 * X * gamma) (he : e = 1 / 2 * E) :
    s_mass_c2 a0 a1 a2 a3 a4 a5 c e X gamma k omega = 0 := by
  unfold s_mass_c2
  subst ha4 ha1 ha0 ha2 ha3 ha5 hc he
  field_simp
  subst hX hd2 hd3 hE
  ring

theorem s_mass_c3_zero (gamma k omega X d2 d3 E a0 a1 a2 a3 a4 a5 c e : ℝ)
    (hX0 : X ≠ 0) (hd20 : d2 ≠ 0) (hd30 : d3 ≠ 0) (hE0 : E ≠ 0) (hg0 : gamma ≠ 0)
    (hX : X = k + 2 - omega) (hd2 : d2 = 2 * (gamma - 1) + k - gamma * omega) (hd3 : d3 = k * (2 - gamma) - omega)
    (hE : E = 2 + k * (gamma - 1))
    (ha0 : a0 = 2 / X) (ha2 : a2 = -(gamma - 1) / d2) (ha1 : a1 = X * gamma / E * (2 * d3 / (gamma * X * X) - a2))
    (ha3 : a3 = (k - omega) / d2) (ha4 : a4 = X * (k - omega) * a1 / d3) (ha5 : a5 = (omega * (gamma + 1) - 2 * k) / d3)
    (hc : c = 1 / 2 * X * gamma) (he : e = 1 / 2 * E) :
    s_mass_c3 a0 a1 a2 a3 a4 a5 c e X gamma k omega = 0 := by
  unfold s_mass_c3
  subst ha4 ha1 ha0 ha2 ha3 ha5 hc he
  field_simp
  subst hX hd2 hd3 hE
  ring

/-- the mass bracket of the std branch vanishes for the constants of `__init__` -/
theorem s_mass_bracket (gamma k omega X d2 d3 E a0 a1 a2 a3 a4 a5 c e v : ℝ)
    (hX0 : X ≠ 0) (hd20 : d2 ≠ 0) (hd30 : d3 ≠ 0) (hE0 : E ≠ 0) (hg0 : gamma ≠ 0)
    (hX : X = k + 2 - omega) (hd2 : d2 = 2 * (gamma - 1) + k - gamma * omega) (hd3 : d3 = k * (2 - gamma) - omega)
    (hE : E = 2 + k * (gamma - 1))
    (ha0 : a0 = 2 / X) (ha2 : a2 = -(gamma - 1) / d2) (ha1 : a1 = X * gamma / E * (2 * d3 / (gamma * X * X) - a2))
    (ha3 : a3 = (k - omega) / d2) (ha4 : a4 = X * (k - omega) * a1 / d3) (ha5 : a5 = (omega * (gamma + 1) - 2 * k) / d3)
    (hc : c = 1 / 2 * X * gamma) (he : e = 1 / 2 * E)
    (h0 : v ≠ 0) (h2 : c * v - 1 ≠ 0) (h3 : 1 - e * v ≠ 0) (h4 : 2 - X * v ≠ 0) :
    Bmass X k omega v (sL a0 a1 a2 c e v) (sG a0 a1 a2 a3 a4 a5 c e X omega v) = 0 := by
  rw [s_mass_num a0 a1 a2 a3 a4 a5 c e X gamma k omega v h0 h2 h3 h4, s_mass_c1_zero gamma k omega X d2 d3 E a0 a1 a2 a3 a4 a5 c e hX0 hd20 hd30 hE0 hg0 hX hd2 hd3 hE ha0 ha2 ha1 ha3 ha4 ha5 hc he, s_mass_c2_zero gamma k omega X d2 d3 E a0 a1 a2 a3 a4 a5 c e hX0 hd20 hd30 hE0 hg0 hX hd2 hd3 hE ha0 ha2 ha1 ha3 ha4 ha5 hc he, s_mass_c3_zero gamma k omega X d2 d3 E a0 a1 a2 a3 a4 a5 c e hX0 hd20 hd30 hE0 hg0 hX hd2 hd3 hE ha0 ha2 ha1 ha3 ha4 ha5 hc he]
  simp

def s_energy_c1 (a0 a1 a2 a3 a4 a5 c e X gamma k omega : ℝ) : ℝ :=
  X*a0*gamma*k/2 - X*a0*k + X*a0*omega/2 - X*gamma/2 + a1*e*k - a1*e*omega + 2*a1*e + a2*c*k + a3*c

def s_energy_c2 (a0 a1 a2 a3 a4 a5 c e X gamma k omega : ℝ) : ℝ :=
  -X*a0*c*gamma*k/2 + X*a0*c*k - X*a0*c*omega/2 - X*a0*e*gamma*k/2 + X*a0*e*k - X*a0*e*omega/2 - X*a1*e*gamma*k/2 + X*a1*e*k/2 - X*a1*e - X*a2*c*gamma*k/2 + X*a2*c*k/2 - X*a2*c*omega/2 - X*a3*c/2 + X*c*gamma/2 + X*e*gamma/2 - a1*c*e*k + a1*c*e*omega - 2*a1*c*e - a2*c*e*k - a3*c*e

def s_energy_c3 (a0 a1 a2 a3 a4 a5 c e X gamma k omega : ℝ) : ℝ :=
  X*a0*c*e*gamma*k/2 - X*a0*c*e*k + X*a0*c*e*omega/2 + X*a1*c*e*gamma*k/2 - X*a1*c*e*k/2 + X*a1*c*e + X*a2*c*e*gamma*k/2 - X*a2*c*e*k/2 + X*a2*c*e*omega/2 + X*a3*c*e/2 - X*c*e*gamma/2

theorem s_energy_num (a0 a1 a2 a3 a4 a5 c e X gamma k omega v : ℝ) (h0 : v ≠ 0) (h2 : c * v - 1 ≠ 0) (h3 : 1 - e * v ≠ 0) (h4 : 2 - X * v ≠ 0) :
    Benergy X gamma k omega v (sL a0 a1 a2 c e v) (sG a0 a1 a2 a3 a4 a5 c e X omega v) (sH a0 a1 a4 a5 e X k omega v)
      = (s_energy_c1 a0 a1 a2 a3 a4 a5 c e X gamma k omega * v ^ 1 + s_energy_c2 a0 a1 a2 a3 a4 a5 c e X gamma k omega * v ^ 2 + s_energy_c3 a0 a1 a2 a3 a4 a5 c e X gamma k omega * v ^ 3) / (v * (c * v - 1) * (1 - e * v)) := by
  simp only [sL, sG, sH, Bmass, Benergy, Bmom, s_energy_c1, s_energy_c2, s_energy_c3]
  generalize hD2 : c * v - 1 = D2 at h2 ⊢
  generalize hD3 : 1 - e * v = D3 at h3 ⊢
  generalize hD4 : 2 - X * v = D4 at h4 ⊢
  field_simp
  subst hD2 hD3 hD4
  ring

theorem s_energy_c1_zero (gamma k omega X d2 d3 E a0 a1 a2 a3 a4 a5 c e : ℝ)
    (hX0 : X ≠ 0) (hd20 : d2 ≠ 0) (hd30 : d3 ≠ 0) (hE0 : E ≠ 0) (hg0 : gamma ≠ 0)
    (hX : X = k + 2 - omega) (hd2 : d2 = 2 * (gamma - 1) + k - gamma * omega) (hd3 : d3 = k * (2 - gamma) - omega)
    (hE : E = 2 + k * (gamma - 1))
    (ha0 : a0 = 2 / X) (ha2 : a2 = -(gamma - 1) / d2) (ha1 : a1 = X * gamma / E * (2 * d3 / (gamma * X * X) - a2))
    (ha3 : a3 = (k - omega) / d2) (ha4 : a4 = X * (k - omega) * a1 / d3) (ha5 : a5 = (omega * (gamma + 1) - 2 * k) / d3)
    (hc : c = 1 / 2 * X * gamma) (he : e = 1 / 2 * E) :
    s_energy_c1 a0 a1 a2 a3 a4 a5 c e X gamma k omega = 0 := by
  unfold s_energy_c1
  subst ha4 ha1 ha0 ha2 ha3 ha5 hc he
  field_simp
  subst hX hd2 hd3 hE
  ring

theorem s_energy_c2_zero (gamma k omega X d2 d3 E a0 a1 a2 a3 a4 a5 c e : ℝ)
    (hX0 : X ≠ 0) (hd20 : d2 ≠ 0) (hd30 : d3 ≠ 0) (hE0 : E ≠ 0) (hg0 : gamma ≠ 0)
    (hX : X = k + 2 - omega) (hd2 : d2 = 2 * (gamma - 1) + k - gamma * omega) (hd3 : d3 = k * (2 - gamma) - omega)
    (hE : E = 2 + k * (gamma - 1))
    (ha0 : a0 = 2 / X) (ha2 : a2 = -(gamma - 1) / d2) (ha1 : a1 = X * gamma / E * (2 * d3 / (gamma * X * X) - a2))
    (ha3 : a3 = (k - omega) / d2) (ha4 : a4 = X * (k - omega) * a1 / d3) (ha5 : a5 = (omega * (gamma + 1) - 2 * k) / d3)
    (hc : c = 1 / 2 * X * gamma) (he : e = 1 / 2 * E) :
    s_energy_c2 a0 a1 a2 a3 a4 a5 c e X gamma k omega = 0 := by
  unfold s_energy_c2
  subst ha4 ha1 ha0 ha2 ha3 ha5 hc he
  field_simp
  subst hX hd2 hd3 hE
  ring

theorem s_energy_c3_zero (gamma k omega X d2 d3 E a0 a1 a2 a3 a4 a5 c e : ℝ)
    (hX0 : X ≠ 0) (hd20 : d2 ≠ 0) (hd30 : d3 ≠ 0) (hE0 : E ≠ 0) (hg0 : gamma ≠ 0)
    (hX : X = k + 2 - omega) (hd2 : d2 = 2 * (gamma - 1) + k - gamma * omega) (hd3 : d3 = k * (2 - gamma) - omega)
    (hE : E = 2 + k * (gamma - 1))
    (ha0 : a0 = 2 / X) (ha2 : a2 = -(gamma - 1) / d2) (ha1 : a1 = X * gamma / E * (2 * d3 / (gamma * X * X) - a2))
    (ha3 : a3 = (k - omega) / d2) (ha4 : a4 = X * (k - omega) * a1 / d3) (ha5 : a5 = (omega * (gamma + 1) - 2 * k) / d3)
    (hc : c = 1 / 2 * X * gamma) (he : e = 1 / 2 * E) :
    s_energy_c3 a0 a1 a2 a3 a4 a5 c e X gamma k omega = 0 := by
  unfold s_energy_c3
  subst ha4 ha1 ha0 ha2 ha3 ha5 hc he
  field_simp
  subst hX hd2 hd3 hE
  ring

/-- the energy bracket of the std branch vanishes for the constants of `__init__` -/
theorem s_energy_bracket (gamma k omega X d2 d3 E a0 a1 a2 a3 a4 a5 c e v : ℝ)
    (hX0 : X ≠ 0) (hd20 : d2 ≠ 0) (hd30 : d3 ≠ 0) (hE0 : E ≠ 0) (hg0 : gamma ≠ 0)
    (hX : X = k + 2 - omega) (hd2 : d2 = 2 * (gamma - 1) + k - gamma * omega) (hd3 : d3 = k * (2 - gamma) - omega)
    (hE : E = 2 + k * (gamma - 1))
    (ha0 : a0 = 2 / X) (ha2 : a2 = -(gamma - 1) / d2) (ha1 : a1 = X * gamma / E * (2 * d3 / (gamma * X * X) - a2))
    (ha3 : a3 = (k - omega) / d2) (ha4 : a4 = X * (k - omega) * a1 / d3) (ha5 : a5 = (omega * (gamma + 1) - 2 * k) / d3)
    (hc : c = 1 / 2 * X * gamma) (he : e = 1 / 2 * E)
    (h0 : v ≠ 0) (h2 : c * v - 1 ≠ 0) (h3 : 1 - e * v ≠ 0) (h4 : 2 - X * v ≠ 0) :
    Benergy X gamma k omega v (sL a0 a1 a2 c e v) (sG a0 a1 a2 a3 a4 a5 c e X omega v) (sH a0 a1 a4 a5 e X k omega v) = 0 := by
  rw [s_energy_num a0 a1 a2 a3 a4 a5 c e X gamma k omega v h0 h2 h3 h4, s_energy_c1_zero gamma k omega X d2 d3 E a0 a1 a2 a3 a4 a5 c e hX0 hd20 hd30 hE0 hg0 hX hd2 hd3 hE ha0 ha2 ha1 ha3 ha4 ha5 hc he, s_energy_c2_zero gamma k omega X d2 d3 E a0 a1 a2 a3 a4 a5 c e hX0 hd20 hd30 hE0 hg0 hX hd2 hd3 hE ha0 ha2 ha1 ha3 ha4 ha5 hc he, s_energy_c3_zero gamma k omega X d2 d3 E a0 a1 a2 a3 a4 a5 c e hX0 hd20 hd30 hE0 hg0 hX hd2 hd3 hE ha0 ha2 ha1 ha3 ha4 ha5 hc he]
  simp

def s_mom_c0 (a0 a1 a2 a3 a4 a5 c e X gamma k omega : ℝ) : ℝ :=
  -a0*k/2 + a0*omega/2 - a0 + 1

def s_mom_c1 (a0 a1 a2 a3 a4 a5 c e X gamma k omega : ℝ) : ℝ :=
  X*a0*gamma*k/4 - X*a0*k/4 + X*a0/2 - X/2 + a0*c*k/2 - a0*c*omega/2 + a0*c + a0*e*k/2 - a0*e*omega/2 + a0*e + a1*e*k/2 - a1*e*omega/2 + a1*e + a2*c*k/2 - a2*c*omega/2 + a2*c - c - e

def s_mom_c2 (a0 a1 a2 a3 a4 a5 c e X gamma k omega : ℝ) : ℝ :=
  -X^2*a0*gamma*k/8 + X^2*a0*k/8 - X^2*a5*gamma/8 + X^2*a5/8 - X^2*gamma/8 + X^2/8 - X*a0*c/2 - X*a0*e*gamma*k/4 + X*a0*e*k/4 - X*a0*e/2 - X*a1*e*gamma*omega/4 + X*a1*e*gamma/2 + X*a1*e*omega/4 - X*a1*e - X*a2*c/2 - X*a4*e*gamma/4 + X*a4*e/4 + X*c/2 + X*e/2 - a0*c*e*k/2 + a0*c*e*omega/2 - a0*c*e - a1*c*e*k/2 + a1*c*e*omega/2 - a1*c*e - a2*c*e*k/2 + a2*c*e*omega/2 - a2*c*e + c*e

def s_mom_c3 (a0 a1 a2 a3 a4 a5 c e X gamma k omega : ℝ) : ℝ :=
  X^2*a0*e*gamma*k/8 - X^2*a0*e*k/8 + X^2*a1*e*gamma*omega/8 - X^2*a1*e*gamma/4 - X^2*a1*e*omega/8 + X^2*a1*e/4 + X^2*a4*e*gamma/8 - X^2*a4*e/8 + X^2*a5*e*gamma/8 - X^2*a5*e/8 + X^2*e*gamma/8 - X^2*e/8 + X*a0*c*e/2 + X*a1*c*e/2 + X*a2*c*e/2 - X*c*e/2

theorem s_mom_num (a0 a1 a2 a3 a4 a5 c e X gamma k omega v : ℝ) (h0 : v ≠ 0) (h2 : c * v - 1 ≠ 0) (h3 : 1 - e * v ≠ 0) (h4 : 2 - X * v ≠ 0) :
    Bmom X c gamma k omega v (sL a0 a1 a2 c e v) (sH a0 a1 a4 a5 e X k omega v)
      = (s_mom_c0 a0 a1 a2 a3 a4 a5 c e X gamma k omega * v ^ 0 + s_mom_c1 a0 a1 a2 a3 a4 a5 c e X gamma k omega * v ^ 1 + s_mom_c2 a0 a1 a2 a3 a4 a5 c e X gamma k omega * v ^ 2 + s_mom_c3 a0 a1 a2 a3 a4 a5 c e X gamma k omega * v ^ 3) / (v * (c * v - 1) * (1 - e * v)) := by
  simp only [sL, sG, sH, Bmass, Benergy, Bmom, s_mom_c0, s_mom_c1, s_mom_c2, s_mom_c3]
  generalize hD2 : c * v - 1 = D2 at h2 ⊢
  generalize hD3 : 1 - e * v = D3 at h3 ⊢
  generalize hD4 : 2 - X * v = D4 at h4 ⊢
  field_simp
  subst hD2 hD3 hD4
  ring

theorem s_mom_c0_zero (gamma k omega X d2 d3 E a0 a1 a2 a3 a4 a5 c e : ℝ)
    (hX0 : X ≠ 0) (hd20 : d2 ≠ 0) (hd30 : d3 ≠ 0) (hE0 : E ≠ 0) (hg0 : gamma ≠ 0)
    (hX : X = k + 2 - omega) (hd2 : d2 = 2 * (gamma - 1) + k - gamma * omega) (hd3 : d3 = k * (2 - gamma) - omega)
    (hE : E = 2 + k * (gamma - 1))
    (ha0 : a0 = 2 / X) (ha2 : a2 = -(gamma - 1) / d2) (ha1 : a1 = X * gamma / E * (2 * d3 / (gamma * X * X) - a2))
    (ha3 : a3 = (k - omega) / d2) (ha4 : a4 = X * (k - omega) * a1 / d3) (ha5 : a5 = (omega * (gamma + 1) - 2 * k) / d3)
    (hc : c = 1 / 2 * X * gamma) (he : e = 1 / 2 * E) :
    s_mom_c0 a0 a1 a2 a3 a4 a5 c e X gamma k omega = 0 := by
  unfold s_mom_c0
  subst ha4 ha1 ha0 ha2 ha3 ha5 hc he
  field_simp
  subst hX hd2 hd3 hE
  ring

theorem s_mom_c1_zero (gamma k omega X d2 d3 E a0 a1 a2 a3 a4 a5 c e : ℝ)
    (hX0 : X ≠ 0) (hd20 : d2 ≠ 0) (hd30 : d3 ≠ 0) (hE0 : E ≠ 0) (hg0 : gamma ≠ 0)
    (hX : X = k + 2 - omega) (hd2 : d2 = 2 * (gamma - 1) + k - gamma * omega) (hd3 : d3 = k * (2 - gamma) - omega)
    (hE : E = 2 + k * (gamma - 1))
    (ha0 : a0 = 2 / X) (ha2 : a2 = -(gamma - 1) / d2) (ha1 : a1 = X * gamma / E * (2 * d3 / (gamma * X * X) - a2))
    (ha3 : a3 = (k - omega) / d2) (ha4 : a4 = X * (k - omega) * a1 / d3) (ha5 : a5 = (omega * (gamma + 1) - 2 * k) / d3)
    (hc : c = 1 / 2 * X * gamma) (he : e = 1 / 2 * E) :
    s_mom_c1 a0 a1 a2 a3 a4 a5 c e X gamma k omega = 0 := by
  unfold s_mom_c1
  subst ha4 ha1 ha0 ha2 ha3 ha5 hc he
  field_simp
  subst hX hd2 hd3 hE
  ring

theorem s_mom_c2_zero (gamma k omega X d2 d3 E a0 a1 a2 a3 a4 a5 c e : ℝ)
    (hX0 : X ≠ 0) (hd20 : d2 ≠ 0) (hd30 : d3 ≠ 0) (hE0 : E ≠ 0) (hg0 : gamma ≠ 0)
    (hX : X = k + 2 - omega) (hd2 : d2 = 2 * (gamma - 1) + k - gamma * omega) (hd3 : d3 = k * (2 - gamma) - omega)
    (hE : E = 2 + k * (gamma - 1))
    (ha0 : a0 = 2 / X) (ha2 : a2 = -(gamma - 1) / d2) (ha1 : a1 = X * gamma / E * (2 * d3 / (gamma * X * X) - a2))
    (ha3 : a3 = (k - omega) / d2) (ha4 : a4 = X * (k - omega) * a1 / d3) (ha5 : a5 = (omega * (gamma + 1) - 2 * k) / d3)
    (hc : c = 1 / 2 * X * gamma) (he : e = 1 / 2 * E) :
    s_mom_c2 a0 a1 a2 a3 a4 a5 c e X gamma k omega = 0 := by
  unfold s_mom_c2
  subst ha4 ha1 ha0 ha2 ha3 ha5 hc he
  field_simp
  subst hX hd2 hd3 hE
  ring

theorem s_mom_c3_zero (gamma k omega X d2 d3 E a0 a1 a2 a3 a4 a5 c e : ℝ)
    (hX0 : X ≠ 0) (hd20 : d2 ≠ 0) (hd30 : d3 ≠ 0) (hE0 : E ≠ 0) (hg0 : gamma ≠ 0)
    (hX : X = k + 2 - omega) (hd2 : d2 = 2 * (gamma - 1) + k - gamma * omega) (hd3 : d3 = k * (2 - gamma) - omega)
    (hE : E = 2 + k * (gamma - 1))
    (ha0 : a0 = 2 / X) (ha2 : a2 = -(gamma - 1) / d2) (ha1 : a1 = X * gamma / E * (2 * d3 / (gamma * X * X) - a2))
    (ha3 : a3 = (k - omega) / d2) (ha4 : a4 = X * (k - omega) * a1 / d3) (ha5 : a5 = (omega * (gamma + 1) - 2 * k) / d3)
    (hc : c = 1 / 2 * X * gamma) (he : e = 1 / 2 * E) :
    s_mom_c3 a0 a1 a2 a3 a4 a5 c e X gamma k omega = 0 := by
  unfold s_mom_c3
  subst ha4 ha1 ha0 ha2 ha3 ha5 hc he
  field_simp
  subst hX hd2 hd3 hE
  ring

/-- the mom bracket of the std branch vanishes for the constants of `__init__` -/
theorem s_mom_bracket (gamma k omega X d2 d3 E a0 a1 a2 a3 a4 a5 c e v : ℝ)
    (hX0 : X ≠ 0) (hd20 : d2 ≠ 0) (hd30 : d3 ≠ 0) (hE0 : E ≠ 0) (hg0 : gamma ≠ 0)
    (hX : X = k + 2 - omega) (hd2 : d2 = 2 * (gamma - 1) + k - gamma * omega) (hd3 : d3 = k * (2 - gamma) - omega)
    (hE : E = 2 + k * (gamma - 1))
    (ha0 : a0 = 2 / X) (ha2 : a2 = -(gamma - 1) / d2) (ha1 : a1 = X * gamma / E * (2 * d3 / (gamma * X * X) - a2))
    (ha3 : a3 = (k - omega) / d2) (ha4 : a4 = X * (k - omega) * a1 / d3) (ha5 : a5 = (omega * (gamma + 1) - 2 * k) / d3)
    (hc : c = 1 / 2 * X * gamma) (he : e = 1 / 2 * E)
    (h0 : v ≠ 0) (h2 : c * v - 1 ≠ 0) (h3 : 1 - e * v ≠ 0) (h4 : 2 - X * v ≠ 0) :
    Bmom X c gamma k omega v (sL a0 a1 a2 c e v) (sH a0 a1 a4 a5 e X k omega v) = 0 := by
  rw [s_mom_num a0 a1 a2 a3 a4 a5 c e X gamma k omega v h0 h2 h3 h4, s_mom_c0_zero gamma k omega X d2 d3 E a0 a1 a2 a3 a4 a5 c e hX0 hd20 hd30 hE0 hg0 hX hd2 hd3 hE ha0 ha2 ha1 ha3 ha4 ha5 hc he, s_mom_c1_zero gamma k omega X d2 d3 E a0 a1 a2 a3 a4 a5 c e hX0 hd20 hd30 hE0 hg0 hX hd2 hd3 hE ha0 ha2 ha1 ha3 ha4 ha5 hc he, s_mom_c2_zero gamma k omega X d2 d3 E a0 a1 a2 a3 a4 a5 c e hX0 hd20 hd30 hE0 hg0 hX hd2 hd3 hE ha0 ha2 ha1 ha3 ha4 ha5 hc he, s_mom_c3_zero gamma k omega X d2 d3 E a0 a1 a2 a3 a4 a5 c e hX0 hd20 hd30 hE0 hg0 hX hd2 hd3 hE ha0 ha2 ha1 ha3 ha4 ha5 hc he]
  simp


/-! ### omega2 branch -/

/-- d/dv of pp2 = (γ+1) β0 (1-x1)/(x1-c2), as coded (`dpp2dv`) -/
def dpp2 (b0 av c2 gamma v : ℝ) : ℝ := -(gamma + 1) * b0 * av * (1 / (av * v - c2)) * (1 + (1 - av * v) / (av * v - c2))

def oL (a0 b0 av c c2 gamma v : ℝ) : ℝ :=
  -a0 / v + (gamma - 1) * b0 * c / (c * v - 1) + dpp2 b0 av c2 gamma v

def oG (a0 a5 b0 av c c2 X gamma k omega v : ℝ) : ℝ :=
  a0 * omega / v + (4 - k - 2 * gamma) * b0 * c / (c * v - 1) - a5 * X / (2 - X * v) - 2 * dpp2 b0 av c2 gamma v

def oH (a0 a5 b0 c X gamma k v : ℝ) : ℝ :=
  a0 * k / v + (-k * gamma) * b0 * c / (c * v - 1) - (1 + a5) * X / (2 - X * v)

def o_mass_c1 (a0 a5 b0 av c c2 X gamma k omega : ℝ) : ℝ :=
  -X*a0*c2^2*k/2 + X*a0*c2^2*omega/2 + X*a5*c2^2/2 + X*c2^2/2 - av*b0*c2*gamma*omega + 2*av*b0*c2*gamma - av*b0*c2*omega + 2*av*b0*c2 + av*b0*gamma*omega - 2*av*b0*gamma + av*b0*omega - 2*av*b0 + b0*c*c2^2*gamma*omega - 2*b0*c*c2^2*gamma - b0*c*c2^2*k - b0*c*c2^2*omega + 4*b0*c*c2^2

def o_mass_c2 (a0 a5 b0 av c c2 X gamma k omega : ℝ) : ℝ :=
  X*a0*av*c2*k - X*a0*av*c2*omega + X*a0*c*c2^2*k - X*a0*c*c2^2*omega - X*a5*av*c2 - X*a5*c*c2^2 + X*av*b0*c2*gamma*k/2 - X*av*b0*c2*gamma + X*av*b0*c2*k/2 - X*av*b0*c2 - X*av*b0*gamma*k/2 + X*av*b0*gamma - X*av*b0*k/2 + X*av*b0 - X*av*c2 - X*b0*c*c2^2*gamma*k/2 + X*b0*c*c2^2*gamma + X*b0*c*c2^2*k - 2*X*b0*c*c2^2 - X*c*c2^2 + 2*av*b0*c*c2*k + 4*av*b0*c*c2*omega - 12*av*b0*c*c2 - 2*av*b0*c*gamma*omega + 4*av*b0*c*gamma - 2*av*b0*c*omega + 4*av*b0*c - b0*c^2*c2^2*gamma*omega + 2*b0*c^2*c2^2*gamma + b0*c^2*c2^2*k + b0*c^2*c2^2*omega - 4*b0*c^2*c2^2

def o_mass_c3 (a0 a5 b0 av c c2 X gamma k omega : ℝ) : ℝ :=
  -X*a0*av^2*k/2 + X*a0*av^2*omega/2 - 2*X*a0*av*c*c2*k + 2*X*a0*av*c*c2*omega - X*a0*c^2*c2^2*k/2 + X*a0*c^2*c2^2*omega/2 + X*a5*av^2/2 + 2*X*a5*av*c*c2 + X*a5*c^2*c2^2/2 + X*av^2/2 - 3*X*av*b0*c*c2*k + 6*X*av*b0*c*c2 + X*av*b0*c*gamma*k - 2*X*av*b0*c*gamma + X*av*b0*c*k - 2*X*av*b0*c + 2*X*av*c*c2 + X*b0*c^2*c2^2*gamma*k/2 - X*b0*c^2*c2^2*gamma - X*b0*c^2*c2^2*k + 2*X*b0*c^2*c2^2 + X*c^2*c2^2/2 + av^2*b0*c*gamma*omega - 2*av^2*b0*c*gamma - av^2*b0*c*k - av^2*b0*c*omega + 4*av^2*b0*c + av*b0*c^2*c2*gamma*omega - 2*av*b0*c^2*c2*gamma - 2*av*b0*c^2*c2*k - 3*av*b0*c^2*c2*omega + 10*av*b0*c^2*c2 + av*b0*c^2*gamma*omega - 2*av*b0*c^2*gamma + av*b0*c^2*omega - 2*av*b0*c^2

def o_mass_c4 (a0 a5 b0 av c c2 X gamma k omega : ℝ) : ℝ :=
  X*a0*av^2*c*k - X*a0*av^2*c*omega + X*a0*av*c^2*c2*k - X*a0*av*c^2*c2*omega - X*a5*av^2*c - X*a5*av*c^2*c2 - X*av^2*b0*c*gamma*k/2 + X*av^2*b0*c*gamma + X*av^2*b0*c*k - 2*X*av^2*b0*c - X*av^2*c - X*av*b0*c^2*c2*gamma*k/2 + X*av*b0*c^2*c2*gamma + 5*X*av*b0*c^2*c2*k/2 - 5*X*av*b0*c^2*c2 - X*av*b0*c^2*gamma*k/2 + X*av*b0*c^2*gamma - X*av*b0*c^2*k/2 + X*av*b0*c^2 - X*av*c^2*c2 - av^2*b0*c^2*gamma*omega + 2*av^2*b0*c^2*gamma + av^2*b0*c^2*k + av^2*b0*c^2*omega - 4*av^2*b0*c^2

def o_mass_c5 (a0 a5 b0 av c c2 X gamma k omega : ℝ) : ℝ :=
  -X*a0*av^2*c^2*k/2 + X*a0*av^2*c^2*omega/2 + X*a5*av^2*c^2/2 + X*av^2*b0*c^2*gamma*k/2 - X*av^2*b0*c^2*gamma - X*av^2*b0*c^2*k + 2*X*av^2*b0*c^2 + X*av^2*c^2/2

theorem o_mass_num (a0 a5 b0 av c c2 X gamma k omega v : ℝ) (h0 : v ≠ 0) (h2 : c * v - 1 ≠ 0) (h3 : av * v - c2 ≠ 0) (h4 : 2 - X * v ≠ 0) :
    Bmass X k omega v (oL a0 b0 av c c2 gamma v) (oG a0 a5 b0 av c c2 X gamma k omega v)
      = (o_mass_c1 a0 a5 b0 av c c2 X gamma k omega * v ^ 1 + o_mass_c2 a0 a5 b0 av c c2 X gamma k omega * v ^ 2 + o_mass_c3 a0 a5 b0 av c c2 X gamma k omega * v ^ 3 + o_mass_c4 a0 a5 b0 av c c2 X gamma k omega * v ^ 4 + o_mass_c5 a0 a5 b0 av c c2 X gamma k omega * v ^ 5) / (v * (c * v - 1) ^ 2 * (av * v - c2) ^ 2) := by
  simp only [oL, oG, oH, dpp2, Bmass, Benergy, Bmom, o_mass_c1, o_mass_c2, o_mass_c3, o_mass_c4, o_mass_c5]
  generalize hD2 : c * v - 1 = D2 at h2 ⊢
  generalize hDy : av * v - c2 = Dy at h3 ⊢
  generalize hD4 : 2 - X * v = D4 at h4 ⊢
  field_simp
  subst hD2 hDy hD4
  ring

theorem o_mass_c1_zero (gamma k omega X E a0 a5 b0 av c c2 : ℝ)
    (hE0 : E ≠ 0) (hg0 : gamma ≠ 0) (hg1 : gamma - 1 ≠ 0)
    (hE : E = 2 + k * (gamma - 1)) (hX : X = E / gamma) (hω : omega = k + 2 - E / gamma)
    (ha0 : a0 = 2 / X) (ha5 : a5 = (omega * (gamma + 1) - 2 * k) / (-(gamma - 1) * E / gamma))
    (hb0 : b0 = 1 / E) (hc : c = 1 / 2 * X * gamma) (hav : av = 1 / 4 * X * (gamma + 1)) (hc2 : c2 = (gamma + 1) / 2 / gamma) :
    o_mass_c1 a0 a5 b0 av c c2 X gamma k omega = 0 := by
  unfold o_mass_c1
  subst ha0 ha5 hb0 hc hav hc2 hX hω
  field_simp
  subst hE
  ring

theorem o_mass_c2_zero (gamma k omega X E a0 a5 b0 av c c2 : ℝ)
    (hE0 : E ≠ 0) (hg0 : gamma ≠ 0) (hg1 : gamma - 1 ≠ 0)
    (hE : E = 2 + k * (gamma - 1)) (hX : X = E / gamma) (hω : omega = k + 2 - E / gamma)
    (ha0 : a0 = 2 / X) (ha5 : a5 = (omega * (gamma + 1) - 2 * k) / (-(gamma - 1) * E / gamma))
    (hb0 : b0 = 1 / E) (hc : c = 1 / 2 * X * gamma) (hav : av = 1 / 4 * X * (gamma + 1)) (hc2 : c2 = (gamma + 1) / 2 / gamma) :
    o_mass_c2 a0 a5 b0 av c c2 X gamma k omega = 0 := by
  unfold o_mass_c2
  subst ha0 ha5 hb0 hc hav hc2 hX hω
  field_simp
  subst hE
  ring

theorem o_mass_c3_zero (gamma k omega X E a0 a5 b0 av c c2 : ℝ)
    (hE0 : E ≠ 0) (hg0 : gamma ≠ 0) (hg1 : gamma - 1 ≠ 0)
    (hE : E = 2 + k * (gamma - 1)) (hX : X = E / gamma) (hω : omega = k + 2 - E / gamma)
    (ha0 : a0 = 2 / X) (ha5 : a5 = (omega * (gamma + 1) - 2 * k) / (-(gamma - 1) * E / gamma))
    (hb0 : b0 = 1 / E) (hc : c = 1 / 2 * X * gamma) (hav : av = 1 / 4 * X * (gamma + 1)) (hc2 : c2 = (gamma + 1) / 2 / gamma) :
    o_mass_c3 a0 a5 b0 av c c2 X gamma k omega = 0 := by
  unfold o_mass_c3
  subst ha0 ha5 hb0 hc hav hc2 hX hω
  field_simp
  subst hE
  ring

theorem o_mass_c4_zero (gamma k omega X E a0 a5 b0 av c c2 : ℝ)
    (hE0 : E ≠ 0) (hg0 : gamma ≠ 0) (hg1 : gamma - 1 ≠ 0)
    (hE : E = 2 + k * (gamma - 1)) (hX : X = E / gamma) (hω : omega = k + 2 - E / gamma)
    (ha0 : a0 = 2 / X) (ha5 : a5 = (omega * (gamma + 1) - 2 * k) / (-(gamma - 1) * E / gamma))
    (hb0 : b0 = 1 / E) (hc : c = 1 / 2 * X * gamma) (hav : av = 1 / 4 * X * (gamma + 1)) (hc2 : c2 = (gamma + 1) / 2 / gamma) :
    o_mass_c4 a0 a5 b0 av c c2 X gamma k omega = 0 := by
  unfold o_mass_c4
  subst ha0 ha5 hb0 hc hav hc2 hX hω
  field_simp
  subst hE
  ring

theorem o_mass_c5_zero (gamma k omega X E a0 a5 b0 av c c2 : ℝ)
    (hE0 : E ≠ 0) (hg0 : gamma ≠ 0) (hg1 : gamma - 1 ≠ 0)
    (hE : E = 2 + k * (gamma - 1)) (hX : X = E / gamma) (hω : omega = k + 2 - E / gamma)
    (ha0 : a0 = 2 / X) (ha5 : a5 = (omega * (gamma + 1) - 2 * k) / (-(gamma - 1) * E / gamma))
    (hb0 : b0 = 1 / E) (hc : c = 1 / 2 * X * gamma) (hav : av = 1 / 4 * X * (gamma + 1)) (hc2 : c2 = (gamma + 1) / 2 / gamma) :
    o_mass_c5 a0 a5 b0 av c c2 X gamma k omega = 0 := by
  unfold o_mass_c5
  subst ha0 ha5 hb0 hc hav hc2 hX hω
  field_simp
  subst hE
  ring

/-- the mass bracket of the o2 branch vanishes for the constants of `__init__` -/
theorem o_mass_bracket (gamma k omega X E a0 a5 b0 av c c2 v : ℝ)
    (hE0 : E ≠ 0) (hg0 : gamma ≠ 0) (hg1 : gamma - 1 ≠ 0)
    (hE : E = 2 + k * (gamma - 1)) (hX : X = E / gamma) (hω : omega = k + 2 - E / gamma)
    (ha0 : a0 = 2 / X) (ha5 : a5 = (omega * (gamma + 1) - 2 * k) / (-(gamma - 1) * E / gamma))
    (hb0 : b0 = 1 / E) (hc : c = 1 / 2 * X * gamma) (hav : av = 1 / 4 * X * (gamma + 1)) (hc2 : c2 = (gamma + 1) / 2 / gamma)
    (h0 : v ≠ 0) (h2 : c * v - 1 ≠ 0) (h3 : av * v - c2 ≠ 0) (h4 : 2 - X * v ≠ 0) :
    Bmass X k omega v (oL a0 b0 av c c2 gamma v) (oG a0 a5 b0 av c c2 X gamma k omega v) = 0 := by
  rw [o_mass_num a0 a5 b0 av c c2 X gamma k omega v h0 h2 h3 h4, o_mass_c1_zero gamma k omega X E a0 a5 b0 av c c2 hE0 hg0 hg1 hE hX hω ha0 ha5 hb0 hc hav hc2, o_mass_c2_zero gamma k omega X E a0 a5 b0 av c c2 hE0 hg0 hg1 hE hX hω ha0 ha5 hb0 hc hav hc2, o_mass_c3_zero gamma k omega X E a0 a5 b0 av c c2 hE0 hg0 hg1 hE hX hω ha0 ha5 hb0 hc hav hc2, o_mass_c4_zero gamma k omega X E a0 a5 b0 av c c2 hE0 hg0 hg1 hE hX hω ha0 ha5 hb0 hc hav hc2, o_mass_c5_zero gamma k omega X E a0 a5 b0 av c c2 hE0 hg0 hg1 hE hX hω ha0 ha5 hb0 hc hav hc2]
  simp

def o_energy_c1 (a0 a5 b0 av c c2 X gamma k omega : ℝ) : ℝ :=
  -X*a0*c2^2*gamma*k/2 + X*a0*c2^2*k - X*a0*c2^2*omega/2 + X*c2^2*gamma/2 - av*b0*c2*gamma*k + av*b0*c2*gamma*omega - 2*av*b0*c2*gamma - av*b0*c2*k + av*b0*c2*omega - 2*av*b0*c2 + av*b0*gamma*k - av*b0*gamma*omega + 2*av*b0*gamma + av*b0*k - av*b0*omega + 2*av*b0 - b0*c*c2^2*gamma*omega + 2*b0*c*c2^2*gamma + b0*c*c2^2*omega - 4*b0*c*c2^2

def o_energy_c2 (a0 a5 b0 av c c2 X gamma k omega : ℝ) : ℝ :=
  X*a0*av*c2*gamma*k - 2*X*a0*av*c2*k + X*a0*av*c2*omega + X*a0*c*c2^2*gamma*k - 2*X*a0*c*c2^2*k + X*a0*c*c2^2*omega + X*av*b0*c2*gamma^2*k/2 + X*av*b0*c2*gamma - X*av*b0*c2*k/2 + X*av*b0*c2 - X*av*b0*gamma^2*k/2 - X*av*b0*gamma + X*av*b0*k/2 - X*av*b0 - X*av*c2*gamma - X*b0*c*c2^2*gamma^2*k/2 + 3*X*b0*c*c2^2*gamma*k/2 - X*b0*c*c2^2*gamma - X*b0*c*c2^2*k + 2*X*b0*c*c2^2 - X*c*c2^2*gamma + 2*av*b0*c*c2*gamma*k + 2*av*b0*c*c2*k - 4*av*b0*c*c2*omega + 12*av*b0*c*c2 - 2*av*b0*c*gamma*k + 2*av*b0*c*gamma*omega - 4*av*b0*c*gamma - 2*av*b0*c*k + 2*av*b0*c*omega - 4*av*b0*c + b0*c^2*c2^2*gamma*omega - 2*b0*c^2*c2^2*gamma - b0*c^2*c2^2*omega + 4*b0*c^2*c2^2

def o_energy_c3 (a0 a5 b0 av c c2 X gamma k omega : ℝ) : ℝ :=
  -X*a0*av^2*gamma*k/2 + X*a0*av^2*k - X*a0*av^2*omega/2 - 2*X*a0*av*c*c2*gamma*k + 4*X*a0*av*c*c2*k - 2*X*a0*av*c*c2*omega - X*a0*c^2*c2^2*gamma*k/2 + X*a0*c^2*c2^2*k - X*a0*c^2*c2^2*omega/2 + X*av^2*gamma/2 - 3*X*av*b0*c*c2*gamma*k + 3*X*av*b0*c*c2*k - 6*X*av*b0*c*c2 + X*av*b0*c*gamma^2*k + 2*X*av*b0*c*gamma - X*av*b0*c*k + 2*X*av*b0*c + 2*X*av*c*c2*gamma + X*b0*c^2*c2^2*gamma^2*k/2 - 3*X*b0*c^2*c2^2*gamma*k/2 + X*b0*c^2*c2^2*gamma + X*b0*c^2*c2^2*k - 2*X*b0*c^2*c2^2 + X*c^2*c2^2*gamma/2 - av^2*b0*c*gamma*omega + 2*av^2*b0*c*gamma + av^2*b0*c*omega - 4*av^2*b0*c - av*b0*c^2*c2*gamma*k - av*b0*c^2*c2*gamma*omega + 2*av*b0*c^2*c2*gamma - av*b0*c^2*c2*k + 3*av*b0*c^2*c2*omega - 10*av*b0*c^2*c2 + av*b0*c^2*gamma*k - av*b0*c^2*gamma*omega + 2*av*b0*c^2*gamma + av*b0*c^2*k - av*b0*c^2*omega + 2*av*b0*c^2

def o_energy_c4 (a0 a5 b0 av c c2 X gamma k omega : ℝ) : ℝ :=
  X*a0*av^2*c*gamma*k - 2*X*a0*av^2*c*k + X*a0*av^2*c*omega + X*a0*av*c^2*c2*gamma*k - 2*X*a0*av*c^2*c2*k + X*a0*av*c^2*c2*omega - X*av^2*b0*c*gamma^2*k/2 + 3*X*av^2*b0*c*gamma*k/2 - X*av^2*b0*c*gamma - X*av^2*b0*c*k + 2*X*av^2*b0*c - X*av^2*c*gamma - X*av*b0*c^2*c2*gamma^2*k/2 + 3*X*av*b0*c^2*c2*gamma*k - X*av*b0*c^2*c2*gamma - 5*X*av*b0*c^2*c2*k/2 + 5*X*av*b0*c^2*c2 - X*av*b0*c^2*gamma^2*k/2 - X*av*b0*c^2*gamma + X*av*b0*c^2*k/2 - X*av*b0*c^2 - X*av*c^2*c2*gamma + av^2*b0*c^2*gamma*omega - 2*av^2*b0*c^2*gamma - av^2*b0*c^2*omega + 4*av^2*b0*c^2

def o_energy_c5 (a0 a5 b0 av c c2 X gamma k omega : ℝ) : ℝ :=
  -X*a0*av^2*c^2*gamma*k/2 + X*a0*av^2*c^2*k - X*a0*av^2*c^2*omega/2 + X*av^2*b0*c^2*gamma^2*k/2 - 3*X*av^2*b0*c^2*gamma*k/2 + X*av^2*b0*c^2*gamma + X*av^2*b0*c^2*k - 2*X*av^2*b0*c^2 + X*av^2*c^2*gamma/2

theorem o_energy_num (a0 a5 b0 av c c2 X gamma k omega v : ℝ) (h0 : v ≠ 0) (h2 : c * v - 1 ≠ 0) (h3 : av * v - c2 ≠ 0) (h4 : 2 - X * v ≠ 0) :
    Benergy X gamma k omega v (oL a0 b0 av c c2 gamma v) (oG a0 a5 b0 av c c2 X gamma k omega v) (oH a0 a5 b0 c X gamma k v)
      = (o_energy_c1 a0 a5 b0 av c c2 X gamma k omega * v ^ 1 + o_energy_c2 a0 a5 b0 av c c2 X gamma k omega * v ^ 2 + o_energy_c3 a0 a5 b0 av c c2 X gamma k omega * v ^ 3 + o_energy_c4 a0 a5 b0 av c c2 X gamma k omega * v ^ 4 + o_energy_c5 a0 a5 b0 av c c2 X gamma k omega * v ^ 5) / (v * (c * v - 1) ^ 2 * (av * v - c2) ^ 2) := by
  simp only [oL, oG, oH, dpp2, Bmass, Benergy, Bmom, o_energy_c1, o_energy_c2, o_energy_c3, o_energy_c4, o_energy_c5]
  generalize hD2 : c * v - 1 = D2 at h2 ⊢
  generalize hDy : av * v - c2 = Dy at h3 ⊢
  generalize hD4 : 2 - X * v = D4 at h4 ⊢
  field_simp
  subst hD2 hDy hD4
  ring

theorem o_energy_c1_zero (gamma k omega X E a0 a5 b0 av c c2 : ℝ)
    (hE0 : E ≠ 0) (hg0 : gamma ≠ 0) (hg1 : gamma - 1 ≠ 0)
    (hE : E = 2 + k * (gamma - 1)) (hX : X = E / gamma) (hω : omega = k + 2 - E / gamma)
    (ha0 : a0 = 2 / X) (ha5 : a5 = (omega * (gamma + 1) - 2 * k) / (-(gamma - 1) * E / gamma))
    (hb0 : b0 = 1 / E) (hc : c = 1 / 2 * X * gamma) (hav : av = 1 / 4 * X * (gamma + 1)) (hc2 : c2 = (gamma + 1) / 2 / gamma) :
    o_energy_c1 a0 a5 b0 av c c2 X gamma k omega = 0 := by
  unfold o_energy_c1
  subst ha0 ha5 hb0 hc hav hc2 hX hω
  field_simp
  subst hE
  ring

theorem o_energy_c2_zero (gamma k omega X E a0 a5 b0 av c c2 : ℝ)
    (hE0 : E ≠ 0) (hg0 : gamma ≠ 0) (hg1 : gamma - 1 ≠ 0)
    (hE : E = 2 + k * (gamma - 1)) (hX : X = E / gamma) (hω : omega = k + 2 - E / gamma)
    (ha0 : a0 = 2 / X) (ha5 : a5 = (omega * (gamma + 1) - 2 * k) / (-(gamma - 1) * E / gamma))
    (hb0 : b0 = 1 / E) (hc : c = 1 / 2 * X * gamma) (hav : av = 1 / 4 * X * (gamma + 1)) (hc2 : c2 = (gamma + 1) / 2 / gamma) :
    o_energy_c2 a0 a5 b0 av c c2 X gamma k omega = 0 := by
  unfold o_energy_c2
  subst ha0 ha5 hb0 hc hav hc2 hX hω
  field_simp
  subst hE
  ring

theorem o_energy_c3_zero (gamma k omega X E a0 a5 b0 av c c2 : ℝ)
    (hE0 : E ≠ 0) (hg0 : gamma ≠ 0) (hg1 : gamma - 1 ≠ 0)
    (hE : E = 2 + k * (gamma - 1)) (hX : X = E / gamma) (hω : omega = k + 2 - E / gamma)
    (ha0 : a0 = 2 / X) (ha5 : a5 = (omega * (gamma + 1) - 2 * k) / (-(gamma - 1) * E / gamma))
    (hb0 : b0 = 1 / E) (hc : c = 1 / 2 * X * gamma) (hav : av = 1 / 4 * X * (gamma + 1)) (hc2 : c2 = (gamma + 1) / 2 / gamma) :
    o_energy_c3 a0 a5 b0 av c c2 X gamma k omega = 0 := by
  unfold o_energy_c3
  subst ha0 ha5 hb0 hc hav hc2 hX hω
  field_simp
  subst hE
  ring

theorem o_energy_c4_zero (gamma k omega X E a0 a5 b0 av c c2 : ℝ)
    (hE0 : E ≠ 0) (hg0 : gamma ≠ 0) (hg1 : gamma - 1 ≠ 0)
    (hE : E = 2 + k * (gamma - 1)) (hX : X = E / gamma) (hω : omega = k + 2 - E / gamma)
    (ha0 : a0 = 2 / X) (ha5 : a5 = (omega * (gamma + 1) - 2 * k) / (-(gamma - 1) * E / gamma))
    (hb0 : b0 = 1 / E) (hc : c = 1 / 2 * X * gamma) (hav : av = 1 / 4 * X * (gamma + 1)) (hc2 : c2 = (gamma + 1) / 2 / gamma) :
    o_energy_c4 a0 a5 b0 av c c2 X gamma k omega = 0 := by
  unfold o_energy_c4
  subst ha0 ha5 hb0 hc hav hc2 hX hω
  field_simp
  subst hE
  ring

theorem o_energy_c5_zero (gamma k omega X E a0 a5 b0 av c c2 : ℝ)
    (hE0 : E ≠ 0) (hg0 : gamma ≠ 0) (hg1 : gamma - 1 ≠ 0)
    (hE : E = 2 + k * (gamma - 1)) (hX : X = E / gamma) (hω : omega = k + 2 - E / gamma)
    (ha0 : a0 = 2 / X) (ha5 : a5 = (omega * (gamma + 1) - 2 * k) / (-(gamma - 1) * E / gamma))
    (hb0 : b0 = 1 / E) (hc : c = 1 / 2 * X * gamma) (hav : av = 1 / 4 * X * (gamma + 1)) (hc2 : c2 = (gamma + 1) / 2 / gamma) :
    o_energy_c5 a0 a5 b0 av c c2 X gamma k omega = 0 := by
  unfold o_energy_c5
  subst ha0 ha5 hb0 hc hav hc2 hX hω
  field_simp
  subst hE
  ring

/-- the energy bracket of the o2 branch vanishes for the constants of `__init__` -/
theorem o_energy_bracket (gamma k omega X E a0 a5 b0 av c c2 v : ℝ)
    (hE0 : E ≠ 0) (hg0 : gamma ≠ 0) (hg1 : gamma - 1 ≠ 0)
    (hE : E = 2 + k * (gamma - 1)) (hX : X = E / gamma) (hω : omega = k + 2 - E / gamma)
    (ha0 : a0 = 2 / X) (ha5 : a5 = (omega * (gamma + 1) - 2 * k) / (-(gamma - 1) * E / gamma))
    (hb0 : b0 = 1 / E) (hc : c = 1 / 2 * X * gamma) (hav : av = 1 / 4 * X * (gamma + 1)) (hc2 : c2 = (gamma + 1) / 2 / gamma)
    (h0 : v ≠ 0) (h2 : c * v - 1 ≠ 0) (h3 : av * v - c2 ≠ 0) (h4 : 2 - X * v ≠ 0) :
    Benergy X gamma k omega v (oL a0 b0 av c c2 gamma v) (oG a0 a5 b0 av c c2 X gamma k omega v) (oH a0 a5 b0 c X gamma k v) = 0 := by
  rw [o_energy_num a0 a5 b0 av c c2 X gamma k omega v h0 h2 h3 h4, o_energy_c1_zero gamma k omega X E a0 a5 b0 av c c2 hE0 hg0 hg1 hE hX hω ha0 ha5 hb0 hc hav hc2, o_energy_c2_zero gamma k omega X E a0 a5 b0 av c c2 hE0 hg0 hg1 hE hX hω ha0 ha5 hb0 hc hav hc2, o_energy_c3_zero gamma k omega X E a0 a5 b0 av c c2 hE0 hg0 hg1 hE hX hω ha0 ha5 hb0 hc hav hc2, o_energy_c4_zero gamma k omega X E a0 a5 b0 av c c2 hE0 hg0 hg1 hE hX hω ha0 ha5 hb0 hc hav hc2, o_energy_c5_zero gamma k omega X E a0 a5 b0 av c c2 hE0 hg0 hg1 hE hX hω ha0 ha5 hb0 hc hav hc2]
  simp

def o_mom_c0 (a0 a5 b0 av c c2 X gamma k omega : ℝ) : ℝ :=
  a0*c2^2*k/2 - a0*c2^2*omega/2 + a0*c2^2 - c2^2

def o_mom_c1 (a0 a5 b0 av c c2 X gamma k omega : ℝ) : ℝ :=
  -X*a0*c2^2*gamma*k/4 + X*a0*c2^2*k/4 - X*a0*c2^2/2 + X*c2^2/2 - a0*av*c2*k + a0*av*c2*omega - 2*a0*av*c2 - a0*c*c2^2*k + a0*c*c2^2*omega - 2*a0*c*c2^2 - av*b0*c2*gamma*k/2 + av*b0*c2*gamma*omega/2 - av*b0*c2*gamma - av*b0*c2*k/2 + av*b0*c2*omega/2 - av*b0*c2 + av*b0*gamma*k/2 - av*b0*gamma*omega/2 + av*b0*gamma + av*b0*k/2 - av*b0*omega/2 + av*b0 + 2*av*c2 + b0*c*c2^2*gamma*k/2 - b0*c*c2^2*gamma*omega/2 + b0*c*c2^2*gamma - b0*c*c2^2*k/2 + b0*c*c2^2*omega/2 - b0*c*c2^2 + 2*c*c2^2

def o_mom_c2 (a0 a5 b0 av c c2 X gamma k omega : ℝ) : ℝ :=
  X^2*a0*c2^2*gamma*k/8 - X^2*a0*c2^2*k/8 + X^2*a5*c2^2*gamma/8 - X^2*a5*c2^2/8 + X^2*c2^2*gamma/8 - X^2*c2^2/8 + X*a0*av*c2*gamma*k/2 - X*a0*av*c2*k/2 + X*a0*av*c2 + X*a0*c*c2^2*gamma*k/4 - X*a0*c*c2^2*k/4 + X*a0*c*c2^2 + X*av*b0*c2*gamma/2 + X*av*b0*c2/2 - X*av*b0*gamma/2 - X*av*b0/2 - X*av*c2 - X*b0*c*c2^2*gamma^2*k/4 + X*b0*c*c2^2*gamma*k/4 - X*b0*c*c2^2*gamma/2 + X*b0*c*c2^2/2 - X*c*c2^2 + a0*av^2*k/2 - a0*av^2*omega/2 + a0*av^2 + 2*a0*av*c*c2*k - 2*a0*av*c*c2*omega + 4*a0*av*c*c2 + a0*c^2*c2^2*k/2 - a0*c^2*c2^2*omega/2 + a0*c^2*c2^2 - av^2 + 2*av*b0*c*c2*k - 2*av*b0*c*c2*omega + 4*av*b0*c*c2 - av*b0*c*gamma*k + av*b0*c*gamma*omega - 2*av*b0*c*gamma - av*b0*c*k + av*b0*c*omega - 2*av*b0*c - 4*av*c*c2 - b0*c^2*c2^2*gamma*k/2 + b0*c^2*c2^2*gamma*omega/2 - b0*c^2*c2^2*gamma + b0*c^2*c2^2*k/2 - b0*c^2*c2^2*omega/2 + b0*c^2*c2^2 - c^2*c2^2

def o_mom_c3 (a0 a5 b0 av c c2 X gamma k omega : ℝ) : ℝ :=
  -X^2*a0*av*c2*gamma*k/4 + X^2*a0*av*c2*k/4 - X^2*a0*c*c2^2*gamma*k/8 + X^2*a0*c*c2^2*k/8 - X^2*a5*av*c2*gamma/4 + X^2*a5*av*c2/4 - X^2*a5*c*c2^2*gamma/8 + X^2*a5*c*c2^2/8 - X^2*av*c2*gamma/4 + X^2*av*c2/4 + X^2*b0*c*c2^2*gamma^2*k/8 - X^2*b0*c*c2^2*gamma*k/8 - X^2*c*c2^2*gamma/8 + X^2*c*c2^2/8 - X*a0*av^2*gamma*k/4 + X*a0*av^2*k/4 - X*a0*av^2/2 - X*a0*av*c*c2*gamma*k/2 + X*a0*av*c*c2*k/2 - 2*X*a0*av*c*c2 - X*a0*c^2*c2^2/2 + X*av^2/2 + X*av*b0*c*c2*gamma^2*k/2 - X*av*b0*c*c2*gamma*k/2 - 2*X*av*b0*c*c2 + X*av*b0*c*gamma + X*av*b0*c + 2*X*av*c*c2 + X*b0*c^2*c2^2*gamma/2 - X*b0*c^2*c2^2/2 + X*c^2*c2^2/2 - a0*av^2*c*k + a0*av^2*c*omega - 2*a0*av^2*c - a0*av*c^2*c2*k + a0*av*c^2*c2*omega - 2*a0*av*c^2*c2 + av^2*b0*c*gamma*k/2 - av^2*b0*c*gamma*omega/2 + av^2*b0*c*gamma - av^2*b0*c*k/2 + av^2*b0*c*omega/2 - av^2*b0*c + 2*av^2*c + av*b0*c^2*c2*gamma*k/2 - av*b0*c^2*c2*gamma*omega/2 + av*b0*c^2*c2*gamma - 3*av*b0*c^2*c2*k/2 + 3*av*b0*c^2*c2*omega/2 - 3*av*b0*c^2*c2 + av*b0*c^2*gamma*k/2 - av*b0*c^2*gamma*omega/2 + av*b0*c^2*gamma + av*b0*c^2*k/2 - av*b0*c^2*omega/2 + av*b0*c^2 + 2*av*c^2*c2

def o_mom_c4 (a0 a5 b0 av c c2 X gamma k omega : ℝ) : ℝ :=
  X^2*a0*av^2*gamma*k/8 - X^2*a0*av^2*k/8 + X^2*a0*av*c*c2*gamma*k/4 - X^2*a0*av*c*c2*k/4 + X^2*a5*av^2*gamma/8 - X^2*a5*av^2/8 + X^2*a5*av*c*c2*gamma/4 - X^2*a5*av*c*c2/4 + X^2*av^2*gamma/8 - X^2*av^2/8 - X^2*av*b0*c*c2*gamma^2*k/4 + X^2*av*b0*c*c2*gamma*k/4 + X^2*av*c*c2*gamma/4 - X^2*av*c*c2/4 + X*a0*av^2*c*gamma*k/4 - X*a0*av^2*c*k/4 + X*a0*av^2*c + X*a0*av*c^2*c2 - X*av^2*b0*c*gamma^2*k/4 + X*av^2*b0*c*gamma*k/4 - X*av^2*b0*c*gamma/2 + X*av^2*b0*c/2 - X*av^2*c - X*av*b0*c^2*c2*gamma/2 + 3*X*av*b0*c^2*c2/2 - X*av*b0*c^2*gamma/2 - X*av*b0*c^2/2 - X*av*c^2*c2 + a0*av^2*c^2*k/2 - a0*av^2*c^2*omega/2 + a0*av^2*c^2 - av^2*b0*c^2*gamma*k/2 + av^2*b0*c^2*gamma*omega/2 - av^2*b0*c^2*gamma + av^2*b0*c^2*k/2 - av^2*b0*c^2*omega/2 + av^2*b0*c^2 - av^2*c^2

def o_mom_c5 (a0 a5 b0 av c c2 X gamma k omega : ℝ) : ℝ :=
  -X^2*a0*av^2*c*gamma*k/8 + X^2*a0*av^2*c*k/8 - X^2*a5*av^2*c*gamma/8 + X^2*a5*av^2*c/8 + X^2*av^2*b0*c*gamma^2*k/8 - X^2*av^2*b0*c*gamma*k/8 - X^2*av^2*c*gamma/8 + X^2*av^2*c/8 - X*a0*av^2*c^2/2 + X*av^2*b0*c^2*gamma/2 - X*av^2*b0*c^2/2 + X*av^2*c^2/2

theorem o_mom_num (a0 a5 b0 av c c2 X gamma k omega v : ℝ) (h0 : v ≠ 0) (h2 : c * v - 1 ≠ 0) (h3 : av * v - c2 ≠ 0) (h4 : 2 - X * v ≠ 0) :
    Bmom X c gamma k omega v (oL a0 b0 av c c2 gamma v) (oH a0 a5 b0 c X gamma k v)
      = (o_mom_c0 a0 a5 b0 av c c2 X gamma k omega * v ^ 0 + o_mom_c1 a0 a5 b0 av c c2 X gamma k omega * v ^ 1 + o_mom_c2 a0 a5 b0 av c c2 X gamma k omega * v ^ 2 + o_mom_c3 a0 a5 b0 av c c2 X gamma k omega * v ^ 3 + o_mom_c4 a0 a5 b0 av c c2 X gamma k omega * v ^ 4 + o_mom_c5 a0 a5 b0 av c c2 X gamma k omega * v ^ 5) / (v * (c * v - 1) ^ 2 * (av * v - c2) ^ 2) := by
  simp only [oL, oG, oH, dpp2, Bmass, Benergy, Bmom, o_mom_c0, o_mom_c1, o_mom_c2, o_mom_c3, o_mom_c4, o_mom_c5]
  generalize hD2 : c * v - 1 = D2 at h2 ⊢
  generalize hDy : av * v - c2 = Dy at h3 ⊢
  generalize hD4 : 2 - X * v = D4 at h4 ⊢
  field_simp
  subst hD2 hDy hD4
  ring

theorem o_mom_c0_zero (gamma k omega X E a0 a5 b0 av c c2 : ℝ)
    (hE0 : E ≠ 0) (hg0 : gamma ≠ 0) (hg1 : gamma - 1 ≠ 0)
    (hE : E = 2 + k * (gamma - 1)) (hX : X = E / gamma) (hω : omega = k + 2 - E / gamma)
    (ha0 : a0 = 2 / X) (ha5 : a5 = (omega * (gamma + 1) - 2 * k) / (-(gamma - 1) * E / gamma))
    (hb0 : b0 = 1 / E) (hc : c = 1 / 2 * X * gamma) (hav : av = 1 / 4 * X * (gamma + 1)) (hc2 : c2 = (gamma + 1) / 2 / gamma) :
    o_mom_c0 a0 a5 b0 av c c2 X gamma k omega = 0 := by
  unfold o_mom_c0
  subst ha0 ha5 hb0 hc hav hc2 hX hω
  field_simp
  subst hE
  ring

theorem o_mom_c1_zero (gamma k omega X E a0 a5 b0 av c c2 : ℝ)
    (hE0 : E ≠ 0) (hg0 : gamma ≠ 0) (hg1 : gamma - 1 ≠ 0)
    (hE : E = 2 + k * (gamma - 1)) (hX : X = E / gamma) (hω : omega = k + 2 - E / gamma)
    (ha0 : a0 = 2 / X) (ha5 : a5 = (omega * (gamma + 1) - 2 * k) / (-(gamma - 1) * E / gamma))
    (hb0 : b0 = 1 / E) (hc : c = 1 / 2 * X * gamma) (hav : av = 1 / 4 * X * (gamma + 1)) (hc2 : c2 = (gamma + 1) / 2 / gamma) :
    o_mom_c1 a0 a5 b0 av c c2 X gamma k omega = 0 := by
  unfold o_mom_c1
  subst ha0 ha5 hb0 hc hav hc2 hX hω
  field_simp
  subst hE
  ring

theorem o_mom_c2_zero (gamma k omega X E a0 a5 b0 av c c2 : ℝ)
    (hE0 : E ≠ 0) (hg0 : gamma ≠ 0) (hg1 : gamma - 1 ≠ 0)
    (hE : E = 2 + k * (gamma - 1)) (hX : X = E / gamma) (hω : omega = k + 2 - E / gamma)
    (ha0 : a0 = 2 / X) (ha5 : a5 = (omega * (gamma + 1) - 2 * k) / (-(gamma - 1) * E / gamma))
    (hb0 : b0 = 1 / E) (hc : c = 1 / 2 * X * gamma) (hav : av = 1 / 4 * X * (gamma + 1)) (hc2 : c2 = (gamma + 1) / 2 / gamma) :
    o_mom_c2 a0 a5 b0 av c c2 X gamma k omega = 0 := by
  unfold o_mom_c2
  subst ha0 ha5 hb0 hc hav hc2 hX hω
  field_simp
  subst hE
  ring

theorem o_mom_c3_zero (gamma k omega X E a0 a5 b0 av c c2 : ℝ)
    (hE0 : E ≠ 0) (hg0 : gamma ≠ 0) (hg1 : gamma - 1 ≠ 0)
    (hE : E = 2 + k * (gamma - 1)) (hX : X = E / gamma) (hω : omega = k + 2 - E / gamma)
    (ha0 : a0 = 2 / X) (ha5 : a5 = (omega * (gamma + 1) - 2 * k) / (-(gamma - 1) * E / gamma))
    (hb0 : b0 = 1 / E) (hc : c = 1 / 2 * X * gamma) (hav : av = 1 / 4 * X * (gamma + 1)) (hc2 : c2 = (gamma + 1) / 2 / gamma) :
    o_mom_c3 a0 a5 b0 av c c2 X gamma k omega = 0 := by
  unfold o_mom_c3
  subst ha0 ha5 hb0 hc hav hc2 hX hω
  field_simp
  subst hE
  ring

theorem o_mom_c4_zero (gamma k omega X E a0 a5 b0 av c c2 : ℝ)
    (hE0 : E ≠ 0) (hg0 : gamma ≠ 0) (hg1 : gamma - 1 ≠ 0)
    (hE : E = 2 + k * (gamma - 1)) (hX : X = E / gamma) (hω : omega = k + 2 - E / gamma)
    (ha0 : a0 = 2 / X) (ha5 : a5 = (omega * (gamma + 1) - 2 * k) / (-(gamma - 1) * E / gamma))
    (hb0 : b0 = 1 / E) (hc : c = 1 / 2 * X * gamma) (hav : av = 1 / 4 * X * (gamma + 1)) (hc2 : c2 = (gamma + 1) / 2 / gamma) :
    o_mom_c4 a0 a5 b0 av c c2 X gamma k omega = 0 := by
  unfold o_mom_c4
  subst ha0 ha5 hb0 hc hav hc2 hX hω
  field_simp
  subst hE
  ring

theorem o_mom_c5_zero (gamma k omega X E a0 a5 b0 av c c2 : ℝ)
    (hE0 : E ≠ 0) (hg0 : gamma ≠ 0) (hg1 : gamma - 1 ≠ 0)
    (hE : E = 2 + k * (gamma - 1)) (hX : X = E / gamma) (hω : omega = k + 2 - E / gamma)
    (ha0 : a0 = 2 / X) (ha5 : a5 = (omega * (gamma + 1) - 2 * k) / (-(gamma - 1) * E / gamma))
    (hb0 : b0 = 1 / E) (hc : c = 1 / 2 * X * gamma) (hav : av = 1 / 4 * X * (gamma + 1)) (hc2 : c2 = (gamma + 1) / 2 / gamma) :
    o_mom_c5 a0 a5 b0 av c c2 X gamma k omega = 0 := by
  unfold o_mom_c5
  subst ha0 ha5 hb0 hc hav hc2 hX hω
  field_simp
  subst hE
  ring

/-- the mom bracket of the o2 branch vanishes for the constants of `__init__` -/
theorem o_mom_bracket (gamma k omega X E a0 a5 b0 av c c2 v : ℝ)
    (hE0 : E ≠ 0) (hg0 : gamma ≠ 0) (hg1 : gamma - 1 ≠ 0)
    (hE : E = 2 + k * (gamma - 1)) (hX : X = E / gamma) (hω : omega = k + 2 - E / gamma)
    (ha0 : a0 = 2 / X) (ha5 : a5 = (omega * (gamma + 1) - 2 * k) / (-(gamma - 1) * E / gamma))
    (hb0 : b0 = 1 / E) (hc : c = 1 / 2 * X * gamma) (hav : av = 1 / 4 * X * (gamma + 1)) (hc2 : c2 = (gamma + 1) / 2 / gamma)
    (h0 : v ≠ 0) (h2 : c * v - 1 ≠ 0) (h3 : av * v - c2 ≠ 0) (h4 : 2 - X * v ≠ 0) :
    Bmom X c gamma k omega v (oL a0 b0 av c c2 gamma v) (oH a0 a5 b0 c X gamma k v) = 0 := by
  rw [o_mom_num a0 a5 b0 av c c2 X gamma k omega v h0 h2 h3 h4, o_mom_c0_zero gamma k omega X E a0 a5 b0 av c c2 hE0 hg0 hg1 hE hX hω ha0 ha5 hb0 hc hav hc2, o_mom_c1_zero gamma k omega X E a0 a5 b0 av c c2 hE0 hg0 hg1 hE hX hω ha0 ha5 hb0 hc hav hc2, o_mom_c2_zero gamma k omega X E a0 a5 b0 av c c2 hE0 hg0 hg1 hE hX hω ha0 ha5 hb0 hc hav hc2, o_mom_c3_zero gamma k omega X E a0 a5 b0 av c c2 hE0 hg0 hg1 hE hX hω ha0 ha5 hb0 hc hav hc2, o_mom_c4_zero gamma k omega X E a0 a5 b0 av c c2 hE0 hg0 hg1 hE hX hω ha0 ha5 hb0 hc hav hc2, o_mom_c5_zero gamma k omega X E a0 a5 b0 av c c2 hE0 hg0 hg1 hE hX hω ha0 ha5 hb0 hc hav hc2]
  simp


/-! ### omega3 branch -/

/-- d/dv of pp3 = -kγ(γ+1) β0 (1-x1)/(c6-x1) -/
def dpp3 (b0 av c6 gamma k v : ℝ) : ℝ := av * b0 * gamma * k * (c6 - 1) * (gamma + 1) / (c6 - av * v) ^ 2

def tL (a0 a1 a2 c X v : ℝ) : ℝ :=
  -(a0 / v + a2 * c / (c * v - 1) - a1 * X / (2 - X * v))

def tG (a0 a2 a3 b0 av c c6 X gamma k omega v : ℝ) : ℝ :=
  a0 * omega / v + (a3 + omega * a2) * c / (c * v - 1) - (1 - 4 * b0) * X / (2 - X * v) + dpp3 b0 av c6 gamma k v

def tH (a0 b0 av c6 X gamma k v : ℝ) : ℝ :=
  a0 * k / v - 2 * (k * (gamma - 1) - gamma) * b0 * X / (2 - X * v) + dpp3 b0 av c6 gamma k v

def t_mass_c1 (a0 a1 a2 a3 b0 av c c6 X gamma k omega : ℝ) : ℝ :=
  X*a0*c6^2*k - X*a0*c6^2*omega + X*a1*c6^2*omega + 4*X*b0*c6^2 - 2*X*c6^2 - 2*a3*c*c6^2 + 2*av*b0*c6*gamma^2*k + 2*av*b0*c6*gamma*k - 2*av*b0*gamma^2*k - 2*av*b0*gamma*k

def t_mass_c2 (a0 a1 a2 a3 b0 av c c6 X gamma k omega : ℝ) : ℝ :=
  -X^2*a0*c6^2*k/2 + X^2*a0*c6^2*omega/2 - X^2*a1*c6^2*k/2 - 2*X^2*b0*c6^2 + X^2*c6^2 - 2*X*a0*av*c6*k + 2*X*a0*av*c6*omega - X*a0*c*c6^2*k + X*a0*c*c6^2*omega - 2*X*a1*av*c6*omega - X*a1*c*c6^2*omega - X*a2*c*c6^2*k + X*a2*c*c6^2*omega + 2*X*a3*c*c6^2 - 2*X*av*b0*c6*gamma^2*k - 2*X*av*b0*c6*gamma*k - 8*X*av*b0*c6 + 2*X*av*b0*gamma^2*k + 2*X*av*b0*gamma*k + 4*X*av*c6 - 4*X*b0*c*c6^2 + 2*X*c*c6^2 + 4*a3*av*c*c6 - 2*av*b0*c*c6*gamma^2*k - 2*av*b0*c*c6*gamma*k + 2*av*b0*c*gamma^2*k + 2*av*b0*c*gamma*k

def t_mass_c3 (a0 a1 a2 a3 b0 av c c6 X gamma k omega : ℝ) : ℝ :=
  X^2*a0*av*c6*k - X^2*a0*av*c6*omega + X^2*a0*c*c6^2*k/2 - X^2*a0*c*c6^2*omega/2 + X^2*a1*av*c6*k + X^2*a1*c*c6^2*k/2 + X^2*a2*c*c6^2*k/2 - X^2*a2*c*c6^2*omega/2 - X^2*a3*c*c6^2/2 + X^2*av*b0*c6*gamma^2*k/2 + X^2*av*b0*c6*gamma*k/2 + 4*X^2*av*b0*c6 - X^2*av*b0*gamma^2*k/2 - X^2*av*b0*gamma*k/2 - 2*X^2*av*c6 + 2*X^2*b0*c*c6^2 - X^2*c*c6^2 + X*a0*av^2*k - X*a0*av^2*omega + 2*X*a0*av*c*c6*k - 2*X*a0*av*c*c6*omega + X*a1*av^2*omega + 2*X*a1*av*c*c6*omega + 2*X*a2*av*c*c6*k - 2*X*a2*av*c*c6*omega - 4*X*a3*av*c*c6 + 4*X*av^2*b0 - 2*X*av^2 + 2*X*av*b0*c*c6*gamma^2*k + 2*X*av*b0*c*c6*gamma*k + 8*X*av*b0*c*c6 - 2*X*av*b0*c*gamma^2*k - 2*X*av*b0*c*gamma*k - 4*X*av*c*c6 - 2*a3*av^2*c

def t_mass_c4 (a0 a1 a2 a3 b0 av c c6 X gamma k omega : ℝ) : ℝ :=
  -X^2*a0*av^2*k/2 + X^2*a0*av^2*omega/2 - X^2*a0*av*c*c6*k + X^2*a0*av*c*c6*omega - X^2*a1*av^2*k/2 - X^2*a1*av*c*c6*k - X^2*a2*av*c*c6*k + X^2*a2*av*c*c6*omega + X^2*a3*av*c*c6 - 2*X^2*av^2*b0 + X^2*av^2 - X^2*av*b0*c*c6*gamma^2*k/2 - X^2*av*b0*c*c6*gamma*k/2 - 4*X^2*av*b0*c*c6 + X^2*av*b0*c*gamma^2*k/2 + X^2*av*b0*c*gamma*k/2 + 2*X^2*av*c*c6 - X*a0*av^2*c*k + X*a0*av^2*c*omega - X*a1*av^2*c*omega - X*a2*av^2*c*k + X*a2*av^2*c*omega + 2*X*a3*av^2*c - 4*X*av^2*b0*c + 2*X*av^2*c

def t_mass_c5 (a0 a1 a2 a3 b0 av c c6 X gamma k omega : ℝ) : ℝ :=
  X^2*a0*av^2*c*k/2 - X^2*a0*av^2*c*omega/2 + X^2*a1*av^2*c*k/2 + X^2*a2*av^2*c*k/2 - X^2*a2*av^2*c*omega/2 - X^2*a3*av^2*c/2 + 2*X^2*av^2*b0*c - X^2*av^2*c

theorem t_mass_num (a0 a1 a2 a3 b0 av c c6 X gamma k omega v : ℝ) (h0 : v ≠ 0) (h2 : c * v - 1 ≠ 0) (h3 : c6 - av * v ≠ 0) (h4 : 2 - X * v ≠ 0) :
    Bmass X k omega v (tL a0 a1 a2 c X v) (tG a0 a2 a3 b0 av c c6 X gamma k omega v)
      = (t_mass_c1 a0 a1 a2 a3 b0 av c c6 X gamma k omega * v ^ 1 + t_mass_c2 a0 a1 a2 a3 b0 av c c6 X gamma k omega * v ^ 2 + t_mass_c3 a0 a1 a2 a3 b0 av c c6 X gamma k omega * v ^ 3 + t_mass_c4 a0 a1 a2 a3 b0 av c c6 X gamma k omega * v ^ 4 + t_mass_c5 a0 a1 a2 a3 b0 av c c6 X gamma k omega * v ^ 5) / (v * (c * v - 1) * (2 - X * v) * (c6 - av * v) ^ 2) := by
  simp only [tL, tG, tH, dpp3, Bmass, Benergy, Bmom, t_mass_c1, t_mass_c2, t_mass_c3, t_mass_c4, t_mass_c5]
  generalize hD2 : c * v - 1 = D2 at h2 ⊢
  generalize hD6 : c6 - av * v = D6 at h3 ⊢
  generalize hD4 : 2 - X * v = D4 at h4 ⊢
  field_simp
  subst hD2 hD6 hD4
  ring

theorem t_mass_c1_zero (gamma k omega X d2 E a0 a1 a2 a3 b0 av c c6 : ℝ)
    (hX0 : X ≠ 0) (hd20 : d2 ≠ 0) (hE0 : E ≠ 0) (hg0 : gamma ≠ 0)
    (hω : omega = k * (2 - gamma)) (hX : X = k + 2 - omega) (hd2 : d2 = 2 * (gamma - 1) + k - gamma * omega)
    (hE : E = 2 + k * (gamma - 1))
    (ha0 : a0 = 2 / X) (ha2 : a2 = -(gamma - 1) / d2) (ha1 : a1 = X * gamma / E * (2 * (k * (2 - gamma) - omega) / (gamma * X * X) - a2))
    (ha3 : a3 = (k - omega) / d2) (hb0 : b0 = 1 / E) (hc : c = 1 / 2 * X * gamma) (hav : av = 1 / 4 * X * (gamma + 1))
    (hc6 : c6 = (gamma + 1) / 2) :
    t_mass_c1 a0 a1 a2 a3 b0 av c c6 X gamma k omega = 0 := by
  unfold t_mass_c1
  subst ha1 ha0 ha2 ha3 hb0 hc hav hc6
  field_simp
  subst hX hd2 hE hω
  ring

theorem t_mass_c2_zero (gamma k omega X d2 E a0 a1 a2 a3 b0 av c c6 : ℝ)
    (hX0 : X ≠ 0) (hd20 : d2 ≠ 0) (hE0 : E ≠ 0) (hg0 : gamma ≠ 0)
    (hω : omega = k * (2 - gamma)) (hX : X = k + 2 - omega) (hd2 : d2 = 2 * (gamma - 1) + k - gamma * omega)
    (hE : E = 2 + k * (gamma - 1))
    (ha0 : a0 = 2 / X) (ha2 : a2 = -(gamma - 1) / d2) (ha1 : a1 = X * gamma / E * (2 * (k * (2 - gamma) - omega) / (gamma * X * X) - a2))
    (ha3 : a3 = (k - omega) / d2) (hb0 : b0 = 1 / E) (hc : c = 1 / 2 * X * gamma) (hav : av = 1 / 4 * X * (gamma + 1))
    (hc6 : c6 = (gamma + 1) / 2) :
    t_mass_c2 a0 a1 a2 a3 b0 av c c6 X gamma k omega = 0 := by
  unfold t_mass_c2
  subst ha1 ha0 ha2 ha3 hb0 hc hav hc6
  field_simp
  subst hX hd2 hE hω
  ring

theorem t_mass_c3_zero (gamma k omega X d2 E a0 a1 a2 a3 b0 av c c6 : ℝ)
    (hX0 : X ≠ 0) (hd20 : d2 ≠ 0) (hE0 : E ≠ 0) (hg0 : gamma ≠ 0)
    (hω : omega = k * (2 - gamma)) (hX : X = k + 2 - omega) (hd2 : d2 = 2 * (gamma - 1) + k - gamma * omega)
    (hE : E = 2 + k * (gamma - 1))
    (ha0 : a0 = 2 / X) (ha2 : a2 = -(gamma - 1) / d2) (ha1 : a1 = X * gamma / E * (2 * (k * (2 - gamma) - omega) / (gamma * X * X) - a2))
    (ha3 : a3 = (k - omega) / d2) (hb0 : b0 = 1 / E) (hc : c = 1 / 2 * X * gamma) (hav : av = 1 / 4 * X * (gamma + 1))
    (hc6 : c6 = (gamma + 1) / 2) :
    t_mass_c3 a0 a1 a2 a3 b0 av c c6 X gamma k omega = 0 := by
  unfold t_mass_c3
  subst ha1 ha0 ha2 ha3 hb0 hc hav hc6
  field_simp
  subst hX hd2 hE hω
  ring

theorem t_mass_c4_zero (gamma k omega X d2 E a0 a1 a2 a3 b0 av c c6 : ℝ)
    (hX0 : X ≠ 0) (hd20 : d2 ≠ 0) (hE0 : E ≠ 0) (hg0 : gamma ≠ 0)
    (hω : omega = k * (2 - gamma)) (hX : X = k + 2 - omega) (hd2 : d2 = 2 * (gamma - 1) + k - gamma * omega)
    (hE : E = 2 + k * (gamma - 1))
    (ha0 : a0 = 2 / X) (ha2 : a2 = -(gamma - 1) / d2) (ha1 : a1 = X * gamma / E * (2 * (k * (2 - gamma) - omega) / (gamma * X * X) - a2))
    (ha3 : a3 = (k - omega) / d2) (hb0 : b0 = 1 / E) (hc : c = 1 / 2 * X * gamma) (hav : av = 1 / 4 * X * (gamma + 1))
    (hc6 : c6 = (gamma + 1) / 2) :
    t_mass_c4 a0 a1 a2 a3 b0 av c c6 X gamma k omega = 0 := by
  unfold t_mass_c4
  subst ha1 ha0 ha2 ha3 hb0 hc hav hc6
  field_simp
  subst hX hd2 hE hω
  ring

theorem t_mass_c5_zero (gamma k omega X d2 E a0 a1 a2 a3 b0 av c c6 : ℝ)
    (hX0 : X ≠ 0) (hd20 : d2 ≠ 0) (hE0 : E ≠ 0) (hg0 : gamma ≠ 0)
    (hω : omega = k * (2 - gamma)) (hX : X = k + 2 - omega) (hd2 : d2 = 2 * (gamma - 1) + k - gamma * omega)
    (hE : E = 2 + k * (gamma - 1))
    (ha0 : a0 = 2 / X) (ha2 : a2 = -(gamma - 1) / d2) (ha1 : a1 = X * gamma / E * (2 * (k * (2 - gamma) - omega) / (gamma * X * X) - a2))
    (ha3 : a3 = (k - omega) / d2) (hb0 : b0 = 1 / E) (hc : c = 1 / 2 * X * gamma) (hav : av = 1 / 4 * X * (gamma + 1))
    (hc6 : c6 = (gamma + 1) / 2) :
    t_mass_c5 a0 a1 a2 a3 b0 av c c6 X gamma k omega = 0 := by
  unfold t_mass_c5
  subst ha1 ha0 ha2 ha3 hb0 hc hav hc6
  field_simp
  subst hX hd2 hE hω
  ring

/-- the mass bracket of the o3 branch vanishes for the constants of `__init__` -/
theorem t_mass_bracket (gamma k omega X d2 E a0 a1 a2 a3 b0 av c c6 v : ℝ)
    (hX0 : X ≠ 0) (hd20 : d2 ≠ 0) (hE0 : E ≠ 0) (hg0 : gamma ≠ 0)
    (hω : omega = k * (2 - gamma)) (hX : X = k + 2 - omega) (hd2 : d2 = 2 * (gamma - 1) + k - gamma * omega)
    (hE : E = 2 + k * (gamma - 1))
    (ha0 : a0 = 2 / X) (ha2 : a2 = -(gamma - 1) / d2) (ha1 : a1 = X * gamma / E * (2 * (k * (2 - gamma) - omega) / (gamma * X * X) - a2))
    (ha3 : a3 = (k - omega) / d2) (hb0 : b0 = 1 / E) (hc : c = 1 / 2 * X * gamma) (hav : av = 1 / 4 * X * (gamma + 1))
    (hc6 : c6 = (gamma + 1) / 2)
    (h0 : v ≠ 0) (h2 : c * v - 1 ≠ 0) (h3 : c6 - av * v ≠ 0) (h4 : 2 - X * v ≠ 0) :
    Bmass X k omega v (tL a0 a1 a2 c X v) (tG a0 a2 a3 b0 av c c6 X gamma k omega v) = 0 := by
  rw [t_mass_num a0 a1 a2 a3 b0 av c c6 X gamma k omega v h0 h2 h3 h4, t_mass_c1_zero gamma k omega X d2 E a0 a1 a2 a3 b0 av c c6 hX0 hd20 hE0 hg0 hω hX hd2 hE ha0 ha2 ha1 ha3 hb0 hc hav hc6, t_mass_c2_zero gamma k omega X d2 E a0 a1 a2 a3 b0 av c c6 hX0 hd20 hE0 hg0 hω hX hd2 hE ha0 ha2 ha1 ha3 hb0 hc hav hc6, t_mass_c3_zero gamma k omega X d2 E a0 a1 a2 a3 b0 av c c6 hX0 hd20 hE0 hg0 hω hX hd2 hE ha0 ha2 ha1 ha3 hb0 hc hav hc6, t_mass_c4_zero gamma k omega X d2 E a0 a1 a2 a3 b0 av c c6 hX0 hd20 hE0 hg0 hω hX hd2 hE ha0 ha2 ha1 ha3 hb0 hc hav hc6, t_mass_c5_zero gamma k omega X d2 E a0 a1 a2 a3 b0 av c c6 hX0 hd20 hE0 hg0 hω hX hd2 hE ha0 ha2 ha1 ha3 hb0 hc hav hc6]
  simp

def t_energy_c1 (a0 a1 a2 a3 b0 av c c6 X gamma k omega : ℝ) : ℝ :=
  X*a0*c6^2*gamma*k - 2*X*a0*c6^2*k + X*a0*c6^2*omega + X*a1*c6^2*k - X*a1*c6^2*omega - 2*X*b0*c6^2*gamma*k + 2*X*b0*c6^2*gamma + 2*X*b0*c6^2*k - 4*X*b0*c6^2 - X*c6^2*gamma + 2*X*c6^2 + 2*a2*c*c6^2*k + 2*a3*c*c6^2

def t_energy_c2 (a0 a1 a2 a3 b0 av c c6 X gamma k omega : ℝ) : ℝ :=
  -X^2*a0*c6^2*gamma*k/2 + X^2*a0*c6^2*k - X^2*a0*c6^2*omega/2 - X^2*a1*c6^2*gamma*k/2 + X^2*a1*c6^2*k/2 + X^2*b0*c6^2*gamma*k - X^2*b0*c6^2*gamma - X^2*b0*c6^2*k + 2*X^2*b0*c6^2 + X^2*c6^2*gamma/2 - X^2*c6^2 - 2*X*a0*av*c6*gamma*k + 4*X*a0*av*c6*k - 2*X*a0*av*c6*omega - X*a0*c*c6^2*gamma*k + 2*X*a0*c*c6^2*k - X*a0*c*c6^2*omega - 2*X*a1*av*c6*k + 2*X*a1*av*c6*omega - X*a1*c*c6^2*k + X*a1*c*c6^2*omega - X*a2*c*c6^2*gamma*k - X*a2*c*c6^2*omega - 2*X*a3*c*c6^2 + 4*X*av*b0*c6*gamma*k - 4*X*av*b0*c6*gamma - 4*X*av*b0*c6*k + 8*X*av*b0*c6 + 2*X*av*c6*gamma - 4*X*av*c6 + 2*X*b0*c*c6^2*gamma*k - 2*X*b0*c*c6^2*gamma - 2*X*b0*c*c6^2*k + 4*X*b0*c*c6^2 + X*c*c6^2*gamma - 2*X*c*c6^2 - 4*a2*av*c*c6*k - 4*a3*av*c*c6

def t_energy_c3 (a0 a1 a2 a3 b0 av c c6 X gamma k omega : ℝ) : ℝ :=
  X^2*a0*av*c6*gamma*k - 2*X^2*a0*av*c6*k + X^2*a0*av*c6*omega + X^2*a0*c*c6^2*gamma*k/2 - X^2*a0*c*c6^2*k + X^2*a0*c*c6^2*omega/2 + X^2*a1*av*c6*gamma*k - X^2*a1*av*c6*k + X^2*a1*c*c6^2*gamma*k/2 - X^2*a1*c*c6^2*k/2 + X^2*a2*c*c6^2*gamma*k/2 - X^2*a2*c*c6^2*k/2 + X^2*a2*c*c6^2*omega/2 + X^2*a3*c*c6^2/2 - 2*X^2*av*b0*c6*gamma*k + 2*X^2*av*b0*c6*gamma + 2*X^2*av*b0*c6*k - 4*X^2*av*b0*c6 - X^2*av*c6*gamma + 2*X^2*av*c6 - X^2*b0*c*c6^2*gamma*k + X^2*b0*c*c6^2*gamma + X^2*b0*c*c6^2*k - 2*X^2*b0*c*c6^2 - X^2*c*c6^2*gamma/2 + X^2*c*c6^2 + X*a0*av^2*gamma*k - 2*X*a0*av^2*k + X*a0*av^2*omega + 2*X*a0*av*c*c6*gamma*k - 4*X*a0*av*c*c6*k + 2*X*a0*av*c*c6*omega + X*a1*av^2*k - X*a1*av^2*omega + 2*X*a1*av*c*c6*k - 2*X*a1*av*c*c6*omega + 2*X*a2*av*c*c6*gamma*k + 2*X*a2*av*c*c6*omega + 4*X*a3*av*c*c6 - 2*X*av^2*b0*gamma*k + 2*X*av^2*b0*gamma + 2*X*av^2*b0*k - 4*X*av^2*b0 - X*av^2*gamma + 2*X*av^2 - 4*X*av*b0*c*c6*gamma*k + 4*X*av*b0*c*c6*gamma + 4*X*av*b0*c*c6*k - 8*X*av*b0*c*c6 - 2*X*av*c*c6*gamma + 4*X*av*c*c6 + 2*a2*av^2*c*k + 2*a3*av^2*c

def t_energy_c4 (a0 a1 a2 a3 b0 av c c6 X gamma k omega : ℝ) : ℝ :=
  -X^2*a0*av^2*gamma*k/2 + X^2*a0*av^2*k - X^2*a0*av^2*omega/2 - X^2*a0*av*c*c6*gamma*k + 2*X^2*a0*av*c*c6*k - X^2*a0*av*c*c6*omega - X^2*a1*av^2*gamma*k/2 + X^2*a1*av^2*k/2 - X^2*a1*av*c*c6*gamma*k + X^2*a1*av*c*c6*k - X^2*a2*av*c*c6*gamma*k + X^2*a2*av*c*c6*k - X^2*a2*av*c*c6*omega - X^2*a3*av*c*c6 + X^2*av^2*b0*gamma*k - X^2*av^2*b0*gamma - X^2*av^2*b0*k + 2*X^2*av^2*b0 + X^2*av^2*gamma/2 - X^2*av^2 + 2*X^2*av*b0*c*c6*gamma*k - 2*X^2*av*b0*c*c6*gamma - 2*X^2*av*b0*c*c6*k + 4*X^2*av*b0*c*c6 + X^2*av*c*c6*gamma - 2*X^2*av*c*c6 - X*a0*av^2*c*gamma*k + 2*X*a0*av^2*c*k - X*a0*av^2*c*omega - X*a1*av^2*c*k + X*a1*av^2*c*omega - X*a2*av^2*c*gamma*k - X*a2*av^2*c*omega - 2*X*a3*av^2*c + 2*X*av^2*b0*c*gamma*k - 2*X*av^2*b0*c*gamma - 2*X*av^2*b0*c*k + 4*X*av^2*b0*c + X*av^2*c*gamma - 2*X*av^2*c

def t_energy_c5 (a0 a1 a2 a3 b0 av c c6 X gamma k omega : ℝ) : ℝ :=
  X^2*a0*av^2*c*gamma*k/2 - X^2*a0*av^2*c*k + X^2*a0*av^2*c*omega/2 + X^2*a1*av^2*c*gamma*k/2 - X^2*a1*av^2*c*k/2 + X^2*a2*av^2*c*gamma*k/2 - X^2*a2*av^2*c*k/2 + X^2*a2*av^2*c*omega/2 + X^2*a3*av^2*c/2 - X^2*av^2*b0*c*gamma*k + X^2*av^2*b0*c*gamma + X^2*av^2*b0*c*k - 2*X^2*av^2*b0*c - X^2*av^2*c*gamma/2 + X^2*av^2*c

theorem t_energy_num (a0 a1 a2 a3 b0 av c c6 X gamma k omega v : ℝ) (h0 : v ≠ 0) (h2 : c * v - 1 ≠ 0) (h3 : c6 - av * v ≠ 0) (h4 : 2 - X * v ≠ 0) :
    Benergy X gamma k omega v (tL a0 a1 a2 c X v) (tG a0 a2 a3 b0 av c c6 X gamma k omega v) (tH a0 b0 av c6 X gamma k v)
      = (t_energy_c1 a0 a1 a2 a3 b0 av c c6 X gamma k omega * v ^ 1 + t_energy_c2 a0 a1 a2 a3 b0 av c c6 X gamma k omega * v ^ 2 + t_energy_c3 a0 a1 a2 a3 b0 av c c6 X gamma k omega * v ^ 3 + t_energy_c4 a0 a1 a2 a3 b0 av c c6 X gamma k omega * v ^ 4 + t_energy_c5 a0 a1 a2 a3 b0 av c c6 X gamma k omega * v ^ 5) / (v * (c * v - 1) * (2 - X * v) * (c6 - av * v) ^ 2) := by
  simp only [tL, tG, tH, dpp3, Bmass, Benergy, Bmom, t_energy_c1, t_energy_c2, t_energy_c3, t_energy_c4, t_energy_c5]
  generalize hD2 : c * v - 1 = D2 at h2 ⊢
  generalize hD6 : c6 - av * v = D6 at h3 ⊢
  generalize hD4 : 2 - X * v = D4 at h4 ⊢
  field_simp
  subst hD2 hD6 hD4
  ring

theorem t_energy_c1_zero (gamma k omega X d2 E a0 a1 a2 a3 b0 av c c6 : ℝ)
    (hX0 : X ≠ 0) (hd20 : d2 ≠ 0) (hE0 : E ≠ 0) (hg0 : gamma ≠ 0)
    (hω : omega = k * (2 - gamma)) (hX : X = k + 2 - omega) (hd2 : d2 = 2 * (gamma - 1) + k - gamma * omega)
    (hE : E = 2 + k * (gamma - 1))
    (ha0 : a0 = 2 / X) (ha2 : a2 = -(gamma - 1) / d2) (ha1 : a1 = X * gamma / E * (2 * (k * (2 - gamma) - omega) / (gamma * X * X) - a2))
    (ha3 : a3 = (k - omega) / d2) (hb0 : b0 = 1 / E) (hc : c = 1 / 2 * X * gamma) (hav : av = 1 / 4 * X * (gamma + 1))
    (hc6 : c6 = (gamma + 1) / 2) :
    t_energy_c1 a0 a1 a2 a3 b0 av c c6 X gamma k omega = 0 := by
  unfold t_energy_c1
  subst ha1 ha0 ha2 ha3 hb0 hc hav hc6
  field_simp
  subst hX hd2 hE hω
  ring

theorem t_energy_c2_zero (gamma k omega X d2 E a0 a1 a2 a3 b0 av c c6 : ℝ)
    (hX0 : X ≠ 0) (hd20 : d2 ≠ 0) (hE0 : E ≠ 0) (hg0 : gamma ≠ 0)
    (hω : omega = k * (2 - gamma)) (hX : X = k + 2 - omega) (hd2 : d2 = 2 * (gamma - 1) + k - gamma * omega)
    (hE : E = 2 + k * (gamma - 1))
    (ha0 : a0 = 2 / X) (ha2 : a2 = -(gamma - 1) / d2) (ha1 : a1 = X * gamma / E * (2 * (k * (2 - gamma) - omega) / (gamma * X * X) - a2))
    (ha3 : a3 = (k - omega) / d2) (hb0 : b0 = 1 / E) (hc : c = 1 / 2 * X * gamma) (hav : av = 1 / 4 * X * (gamma + 1))
    (hc6 : c6 = (gamma + 1) / 2) :
    t_energy_c2 a0 a1 a2 a3 b0 av c c6 X gamma k omega = 0 := by
  unfold t_energy_c2
  subst ha1 ha0 ha2 ha3 hb0 hc hav hc6
  field_simp
  subst hX hd2 hE hω
  ring

theorem t_energy_c3_zero (gamma k omega X d2 E a0 a1 a2 a3 b0 av c c6 : ℝ)
    (hX0 : X ≠ 0) (hd20 : d2 ≠ 0) (hE0 : E ≠ 0) (hg0 : gamma ≠ 0)
    (hω : omega = k * (2 - gamma)) (hX : X = k + 2 - omega) (hd2 : d2 = 2 * (gamma - 1) + k - gamma * omega)
    (hE : E = 2 + k * (gamma - 1))
    (ha0 : a0 = 2 / X) (ha2 : a2 = -(gamma - 1) / d2) (ha1 : a1 = X * gamma / E * (2 * (k * (2 - gamma) - omega) / (gamma * X * X) - a2))
    (ha3 : a3 = (k - omega) / d2) (hb0 : b0 = 1 / E) (hc : c = 1 / 2 * X * gamma) (hav : av = 1 / 4 * X * (gamma + 1))
    (hc6 : c6 = (gamma + 1) / 2) :
    t_energy_c3 a0 a1 a2 a3 b0 av c c6 X gamma k omega = 0 := by
  unfold t_energy_c3
  subst ha1 ha0 ha2 ha3 hb0 hc hav hc6
  field_simp
  subst hX hd2 hE hω
  ring

theorem t_energy_c4_zero (gamma k omega X d2 E a0 a1 a2 a3 b0 av c c6 : ℝ)
    (hX0 : X ≠ 0) (hd20 : d2 ≠ 0) (hE0 : E ≠ 0) (hg0 : gamma ≠ 0)
    (hω : omega = k * (2 - gamma)) (hX : X = k + 2 - omega) (hd2 : d2 = 2 * (gamma - 1) + k - gamma * omega)
    (hE : E = 2 + k * (gamma - 1))
    (ha0 : a0 = 2 / X) (ha2 : a2 = -(gamma - 1) / d2) (ha1 : a1 = X * gamma / E * (2 * (k * (2 - gamma) - omega) / (gamma * X * X) - a2))
    (ha3 : a3 = (k - omega) / d2) (hb0 : b0 = 1 / E) (hc : c = 1 / 2 * X * gamma) (hav : av = 1 / 4 * X * (gamma + 1))
    (hc6 : c6 = (gamma + 1) / 2) :
    t_energy_c4 a0 a1 a2 a3 b0 av c c6 X gamma k omega = 0 := by
  unfold t_energy_c4
  subst ha1 ha0 ha2 ha3 hb0 hc hav hc6
  field_simp
  subst hX hd2 hE hω
  ring

theorem t_energy_c5_zero (gamma k omega X d2 E a0 a1 a2 a3 b0 av c c6 : ℝ)
    (hX0 : X ≠ 0) (hd20 : d2 ≠ 0) (hE0 : E ≠ 0) (hg0 : gamma ≠ 0)
    (hω : omega = k * (2 - gamma)) (hX : X = k + 2 - omega) (hd2 : d2 = 2 * (gamma - 1) + k - gamma * omega)
    (hE : E = 2 + k * (gamma - 1))
    (ha0 : a0 = 2 / X) (ha2 : a2 = -(gamma - 1) / d2) (ha1 : a1 = X * gamma / E * (2 * (k * (2 - gamma) - omega) / (gamma * X * X) - a2))
    (ha3 : a3 = (k - omega) / d2) (hb0 : b0 = 1 / E) (hc : c = 1 / 2 * X * gamma) (hav : av = 1 / 4 * X * (gamma + 1))
    (hc6 : c6 = (gamma + 1) / 2) :
    t_energy_c5 a0 a1 a2 a3 b0 av c c6 X gamma k omega = 0 := by
  unfold t_energy_c5
  subst ha1 ha0 ha2 ha3 hb0 hc hav hc6
  field_simp
  subst hX hd2 hE hω
  ring

/-- the energy bracket of the o3 branch vanishes for the constants of `__init__` -/
theorem t_energy_bracket (gamma k omega X d2 E a0 a1 a2 a3 b0 av c c6 v : ℝ)
    (hX0 : X ≠ 0) (hd20 : d2 ≠ 0) (hE0 : E ≠ 0) (hg0 : gamma ≠ 0)
    (hω : omega = k * (2 - gamma)) (hX : X = k + 2 - omega) (hd2 : d2 = 2 * (gamma - 1) + k - gamma * omega)
    (hE : E = 2 + k * (gamma - 1))
    (ha0 : a0 = 2 / X) (ha2 : a2 = -(gamma - 1) / d2) (ha1 : a1 = X * gamma / E * (2 * (k * (2 - gamma) - omega) / (gamma * X * X) - a2))
    (ha3 : a3 = (k - omega) / d2) (hb0 : b0 = 1 / E) (hc : c = 1 / 2 * X * gamma) (hav : av = 1 / 4 * X * (gamma + 1))
    (hc6 : c6 = (gamma + 1) / 2)
    (h0 : v ≠ 0) (h2 : c * v - 1 ≠ 0) (h3 : c6 - av * v ≠ 0) (h4 : 2 - X * v ≠ 0) :
    Benergy X gamma k omega v (tL a0 a1 a2 c X v) (tG a0 a2 a3 b0 av c c6 X gamma k omega v) (tH a0 b0 av c6 X gamma k v) = 0 := by
  rw [t_energy_num a0 a1 a2 a3 b0 av c c6 X gamma k omega v h0 h2 h3 h4, t_energy_c1_zero gamma k omega X d2 E a0 a1 a2 a3 b0 av c c6 hX0 hd20 hE0 hg0 hω hX hd2 hE ha0 ha2 ha1 ha3 hb0 hc hav hc6, t_energy_c2_zero gamma k omega X d2 E a0 a1 a2 a3 b0 av c c6 hX0 hd20 hE0 hg0 hω hX hd2 hE ha0 ha2 ha1 ha3 hb0 hc hav hc6, t_energy_c3_zero gamma k omega X d2 E a0 a1 a2 a3 b0 av c c6 hX0 hd20 hE0 hg0 hω hX hd2 hE ha0 ha2 ha1 ha3 hb0 hc hav hc6, t_energy_c4_zero gamma k omega X d2 E a0 a1 a2 a3 b0 av c c6 hX0 hd20 hE0 hg0 hω hX hd2 hE ha0 ha2 ha1 ha3 hb0 hc hav hc6, t_energy_c5_zero gamma k omega X d2 E a0 a1 a2 a3 b0 av c c6 hX0 hd20 hE0 hg0 hω hX hd2 hE ha0 ha2 ha1 ha3 hb0 hc hav hc6]
  simp

def t_mom_c0 (a0 a1 a2 a3 b0 av c c6 X gamma k omega : ℝ) : ℝ :=
  -a0*c6^2*k + a0*c6^2*omega - 2*a0*c6^2 + 2*c6^2

def t_mom_c1 (a0 a1 a2 a3 b0 av c c6 X gamma k omega : ℝ) : ℝ :=
  X*a0*c6^2*gamma*k/2 - X*a0*c6^2*omega/2 + 2*X*a0*c6^2 + X*a1*c6^2*k/2 - X*a1*c6^2*omega/2 + X*a1*c6^2 - 2*X*c6^2 + 2*a0*av*c6*k - 2*a0*av*c6*omega + 4*a0*av*c6 + a0*c*c6^2*k - a0*c*c6^2*omega + 2*a0*c*c6^2 + a2*c*c6^2*k - a2*c*c6^2*omega + 2*a2*c*c6^2 - 4*av*c6 - 2*c*c6^2

def t_mom_c2 (a0 a1 a2 a3 b0 av c c6 X gamma k omega : ℝ) : ℝ :=
  -X^2*a0*c6^2*gamma*k/2 + X^2*a0*c6^2*k/2 - X^2*a0*c6^2/2 - X^2*a1*c6^2/2 - X^2*b0*c6^2*gamma^2*k/2 + X^2*b0*c6^2*gamma^2/2 + X^2*b0*c6^2*gamma*k - X^2*b0*c6^2*gamma/2 - X^2*b0*c6^2*k/2 + X^2*c6^2/2 - X*a0*av*c6*gamma*k + X*a0*av*c6*omega - 4*X*a0*av*c6 - X*a0*c*c6^2*k/2 + X*a0*c*c6^2*omega/2 - 2*X*a0*c*c6^2 - X*a1*av*c6*k + X*a1*av*c6*omega - 2*X*a1*av*c6 - X*a1*c*c6^2*k/2 + X*a1*c*c6^2*omega/2 - X*a1*c*c6^2 - X*a2*c*c6^2*k/2 + X*a2*c*c6^2*omega/2 - 2*X*a2*c*c6^2 + X*av*b0*c6*gamma^3*k/2 - X*av*b0*c6*gamma*k/2 - X*av*b0*gamma^3*k/2 + X*av*b0*gamma*k/2 + 4*X*av*c6 + 2*X*c*c6^2 - a0*av^2*k + a0*av^2*omega - 2*a0*av^2 - 2*a0*av*c*c6*k + 2*a0*av*c*c6*omega - 4*a0*av*c*c6 - 2*a2*av*c*c6*k + 2*a2*av*c*c6*omega - 4*a2*av*c*c6 + 2*av^2 + 4*av*c*c6

def t_mom_c3 (a0 a1 a2 a3 b0 av c c6 X gamma k omega : ℝ) : ℝ :=
  X^3*a0*c6^2*gamma*k/8 - X^3*a0*c6^2*k/8 + X^3*b0*c6^2*gamma^2*k/4 - X^3*b0*c6^2*gamma^2/4 - X^3*b0*c6^2*gamma*k/2 + X^3*b0*c6^2*gamma/4 + X^3*b0*c6^2*k/4 + X^2*a0*av*c6*gamma*k - X^2*a0*av*c6*k + X^2*a0*av*c6 + X^2*a0*c*c6^2/2 + X^2*a1*av*c6 + X^2*a1*c*c6^2/2 + X^2*a2*c*c6^2/2 - X^2*av*b0*c6*gamma^3*k/2 + X^2*av*b0*c6*gamma^2*k - X^2*av*b0*c6*gamma^2 - 3*X^2*av*b0*c6*gamma*k/2 + X^2*av*b0*c6*gamma + X^2*av*b0*c6*k + X^2*av*b0*gamma^3*k/2 - X^2*av*b0*gamma*k/2 - X^2*av*c6 - X^2*c*c6^2/2 + X*a0*av^2*gamma*k/2 - X*a0*av^2*omega/2 + 2*X*a0*av^2 + X*a0*av*c*c6*k - X*a0*av*c*c6*omega + 4*X*a0*av*c*c6 + X*a1*av^2*k/2 - X*a1*av^2*omega/2 + X*a1*av^2 + X*a1*av*c*c6*k - X*a1*av*c*c6*omega + 2*X*a1*av*c*c6 + X*a2*av*c*c6*k - X*a2*av*c*c6*omega + 4*X*a2*av*c*c6 - 2*X*av^2 - 4*X*av*c*c6 + a0*av^2*c*k - a0*av^2*c*omega + 2*a0*av^2*c + a2*av^2*c*k - a2*av^2*c*omega + 2*a2*av^2*c - 2*av^2*c

def t_mom_c4 (a0 a1 a2 a3 b0 av c c6 X gamma k omega : ℝ) : ℝ :=
  -X^3*a0*av*c6*gamma*k/4 + X^3*a0*av*c6*k/4 + X^3*av*b0*c6*gamma^3*k/8 - X^3*av*b0*c6*gamma^2*k/2 + X^3*av*b0*c6*gamma^2/2 + 7*X^3*av*b0*c6*gamma*k/8 - X^3*av*b0*c6*gamma/2 - X^3*av*b0*c6*k/2 - X^3*av*b0*gamma^3*k/8 + X^3*av*b0*gamma*k/8 - X^2*a0*av^2*gamma*k/2 + X^2*a0*av^2*k/2 - X^2*a0*av^2/2 - X^2*a0*av*c*c6 - X^2*a1*av^2/2 - X^2*a1*av*c*c6 - X^2*a2*av*c*c6 - X^2*av^2*b0*gamma^2*k/2 + X^2*av^2*b0*gamma^2/2 + X^2*av^2*b0*gamma*k - X^2*av^2*b0*gamma/2 - X^2*av^2*b0*k/2 + X^2*av^2/2 + X^2*av*c*c6 - X*a0*av^2*c*k/2 + X*a0*av^2*c*omega/2 - 2*X*a0*av^2*c - X*a1*av^2*c*k/2 + X*a1*av^2*c*omega/2 - X*a1*av^2*c - X*a2*av^2*c*k/2 + X*a2*av^2*c*omega/2 - 2*X*a2*av^2*c + 2*X*av^2*c

def t_mom_c5 (a0 a1 a2 a3 b0 av c c6 X gamma k omega : ℝ) : ℝ :=
  X^3*a0*av^2*gamma*k/8 - X^3*a0*av^2*k/8 + X^3*av^2*b0*gamma^2*k/4 - X^3*av^2*b0*gamma^2/4 - X^3*av^2*b0*gamma*k/2 + X^3*av^2*b0*gamma/4 + X^3*av^2*b0*k/4 + X^2*a0*av^2*c/2 + X^2*a1*av^2*c/2 + X^2*a2*av^2*c/2 - X^2*av^2*c/2

theorem t_mom_num (a0 a1 a2 a3 b0 av c c6 X gamma k omega v : ℝ) (h0 : v ≠ 0) (h2 : c * v - 1 ≠ 0) (h3 : c6 - av * v ≠ 0) (h4 : 2 - X * v ≠ 0) :
    Bmom X c gamma k omega v (tL a0 a1 a2 c X v) (tH a0 b0 av c6 X gamma k v)
      = (t_mom_c0 a0 a1 a2 a3 b0 av c c6 X gamma k omega * v ^ 0 + t_mom_c1 a0 a1 a2 a3 b0 av c c6 X gamma k omega * v ^ 1 + t_mom_c2 a0 a1 a2 a3 b0 av c c6 X gamma k omega * v ^ 2 + t_mom_c3 a0 a1 a2 a3 b0 av c c6 X gamma k omega * v ^ 3 + t_mom_c4 a0 a1 a2 a3 b0 av c c6 X gamma k omega * v ^ 4 + t_mom_c5 a0 a1 a2 a3 b0 av c c6 X gamma k omega * v ^ 5) / (v * (c * v - 1) * (2 - X * v) * (c6 - av * v) ^ 2) := by
  simp only [tL, tG, tH, dpp3, Bmass, Benergy, Bmom, t_mom_c0, t_mom_c1, t_mom_c2, t_mom_c3, t_mom_c4, t_mom_c5]
  generalize hD2 : c * v - 1 = D2 at h2 ⊢
  generalize hD6 : c6 - av * v = D6 at h3 ⊢
  generalize hD4 : 2 - X * v = D4 at h4 ⊢
  field_simp
  subst hD2 hD6 hD4
  ring

theorem t_mom_c0_zero (gamma k omega X d2 E a0 a1 a2 a3 b0 av c c6 : ℝ)
    (hX0 : X ≠ 0) (hd20 : d2 ≠ 0) (hE0 : E ≠ 0) (hg0 : gamma ≠ 0)
    (hω : omega = k * (2 - gamma)) (hX : X = k + 2 - omega) (hd2 : d2 = 2 * (gamma - 1) + k - gamma * omega)
    (hE : E = 2 + k * (gamma - 1))
    (ha0 : a0 = 2 / X) (ha2 : a2 = -(gamma - 1) / d2) (ha1 : a1 = X * gamma / E * (2 * (k * (2 - gamma) - omega) / (gamma * X * X) - a2))
    (ha3 : a3 = (k - omega) / d2) (hb0 : b0 = 1 / E) (hc : c = 1 / 2 * X * gamma) (hav : av = 1 / 4 * X * (gamma + 1))
    (hc6 : c6 = (gamma + 1) / 2) :
    t_mom_c0 a0 a1 a2 a3 b0 av c c6 X gamma k omega = 0 := by
  unfold t_mom_c0
  subst ha1 ha0 ha2 ha3 hb0 hc hav hc6
  field_simp
  subst hX hd2 hE hω
  ring

theorem t_mom_c1_zero (gamma k omega X d2 E a0 a1 a2 a3 b0 av c c6 : ℝ)
    (hX0 : X ≠ 0) (hd20 : d2 ≠ 0) (hE0 : E ≠ 0) (hg0 : gamma ≠ 0)
    (hω : omega = k * (2 - gamma)) (hX : X = k + 2 - omega) (hd2 : d2 = 2 * (gamma - 1) + k - gamma * omega)
    (hE : E = 2 + k * (gamma - 1))
    (ha0 : a0 = 2 / X) (ha2 : a2 = -(gamma - 1) / d2) (ha1 : a1 = X * gamma / E * (2 * (k * (2 - gamma) - omega) / (gamma * X * X) - a2))
    (ha3 : a3 = (k - omega) / d2) (hb0 : b0 = 1 / E) (hc : c = 1 / 2 * X * gamma) (hav : av = 1 / 4 * X * (gamma + 1))
    (hc6 : c6 = (gamma + 1) / 2) :
    t_mom_c1 a0 a1 a2 a3 b0 av c c6 X gamma k omega = 0 := by
  unfold t_mom_c1
  subst ha1 ha0 ha2 ha3 hb0 hc hav hc6
  field_simp
  subst hX hd2 hE hω
  ring

theorem t_mom_c2_zero (gamma k omega X d2 E a0 a1 a2 a3 b0 av c c6 : ℝ)
    (hX0 : X ≠ 0) (hd20 : d2 ≠ 0) (hE0 : E ≠ 0) (hg0 : gamma ≠ 0)
    (hω : omega = k * (2 - gamma)) (hX : X = k + 2 - omega) (hd2 : d2 = 2 * (gamma - 1) + k - gamma * omega)
    (hE : E = 2 + k * (gamma - 1))
    (ha0 : a0 = 2 / X) (ha2 : a2 = -(gamma - 1) / d2) (ha1 : a1 = X * gamma / E * (2 * (k * (2 - gamma) - omega) / (gamma * X * X) - a2))
    (ha3 : a3 = (k - omega) / d2) (hb0 : b0 = 1 / E) (hc : c = 1 / 2 * X * gamma) (hav : av = 1 / 4 * X * (gamma + 1))
    (hc6 : c6 = (gamma + 1) / 2) :
    t_mom_c2 a0 a1 a2 a3 b0 av c c6 X gamma k omega = 0 := by
  unfold t_mom_c2
  subst ha1 ha0 ha2 ha3 hb0 hc hav hc6
  field_simp
  subst hX hd2 hE hω
  ring

theorem t_mom_c3_zero (gamma k omega X d2 E a0 a1 a2 a3 b0 av c c6 : ℝ)
    (hX0 : X ≠ 0) (hd20 : d2 ≠ 0) (hE0 : E ≠ 0) (hg0 : gamma ≠ 0)
    (hω : omega = k * (2 - gamma)) (hX : X = k + 2 - omega) (hd2 : d2 = 2 * (gamma - 1) + k - gamma * omega)
    (hE : E = 2 + k * (gamma - 1))
    (ha0 : a0 = 2 / X) (ha2 : a2 = -(gamma - 1) / d2) (ha1 : a1 = X * gamma / E * (2 * (k * (2 - gamma) - omega) / (gamma * X * X) - a2))
    (ha3 : a3 = (k - omega) / d2) (hb0 : b0 = 1 / E) (hc : c = 1 / 2 * X * gamma) (hav : av = 1 / 4 * X * (gamma + 1))
    (hc6 : c6 = (gamma + 1) / 2) :
    t_mom_c3 a0 a1 a2 a3 b0 av c c6 X gamma k omega = 0 := by
  unfold t_mom_c3
  subst ha1 ha0 ha2 ha3 hb0 hc hav hc6
  field_simp
  subst hX hd2 hE hω
  ring

theorem t_mom_c4_zero (gamma k omega X d2 E a0 a1 a2 a3 b0 av c c6 : ℝ)
    (hX0 : X ≠ 0) (hd20 : d2 ≠ 0) (hE0 : E ≠ 0) (hg0 : gamma ≠ 0)
    (hω : omega = k * (2 - gamma)) (hX : X = k + 2 - omega) (hd2 : d2 = 2 * (gamma - 1) + k - gamma * omega)
    (hE : E = 2 + k * (gamma - 1))
    (ha0 : a0 = 2 / X) (ha2 : a2 = -(gamma - 1) / d2) (ha1 : a1 = X * gamma / E * (2 * (k * (2 - gamma) - omega) / (gamma * X * X) - a2))
    (ha3 : a3 = (k - omega) / d2) (hb0 : b0 = 1 / E) (hc : c = 1 / 2 * X * gamma) (hav : av = 1 / 4 * X * (gamma + 1))
    (hc6 : c6 = (gamma + 1) / 2) :
    t_mom_c4 a0 a1 a2 a3 b0 av c c6 X gamma k omega = 0 := by
  unfold t_mom_c4
  subst ha1 ha0 ha2 ha3 hb0 hc hav hc6
  field_simp
  subst hX hd2 hE hω
  ring

theorem t_mom_c5_zero (gamma k omega X d2 E a0 a1 a2 a3 b0 av c c6 : ℝ)
    (hX0 : X ≠ 0) (hd20 : d2 ≠ 0) (hE0 : E ≠ 0) (hg0 : gamma ≠ 0)
    (hω : omega = k * (2 - gamma)) (hX : X = k + 2 - omega) (hd2 : d2 = 2 * (gamma - 1) + k - gamma * omega)
    (hE : E = 2 + k * (gamma - 1))
    (ha0 : a0 = 2 / X) (ha2 : a2 = -(gamma - 1) / d2) (ha1 : a1 = X * gamma / E * (2 * (k * (2 - gamma) - omega) / (gamma * X * X) - a2))
    (ha3 : a3 = (k - omega) / d2) (hb0 : b0 = 1 / E) (hc : c = 1 / 2 * X * gamma) (hav : av = 1 / 4 * X * (gamma + 1))
    (hc6 : c6 = (gamma + 1) / 2) :
    t_mom_c5 a0 a1 a2 a3 b0 av c c6 X gamma k omega = 0 := by
  unfold t_mom_c5
  subst ha1 ha0 ha2 ha3 hb0 hc hav hc6
  field_simp
  subst hX hd2 hE hω
  ring

/-- the mom bracket of the o3 branch vanishes for the constants of `__init__` -/
theorem t_mom_bracket (gamma k omega X d2 E a0 a1 a2 a3 b0 av c c6 v : ℝ)
    (hX0 : X ≠ 0) (hd20 : d2 ≠ 0) (hE0 : E ≠ 0) (hg0 : gamma ≠ 0)
    (hω : omega = k * (2 - gamma)) (hX : X = k + 2 - omega) (hd2 : d2 = 2 * (gamma - 1) + k - gamma * omega)
    (hE : E = 2 + k * (gamma - 1))
    (ha0 : a0 = 2 / X) (ha2 : a2 = -(gamma - 1) / d2) (ha1 : a1 = X * gamma / E * (2 * (k * (2 - gamma) - omega) / (gamma * X * X) - a2))
    (ha3 : a3 = (k - omega) / d2) (hb0 : b0 = 1 / E) (hc : c = 1 / 2 * X * gamma) (hav : av = 1 / 4 * X * (gamma + 1))
    (hc6 : c6 = (gamma + 1) / 2)
    (h0 : v ≠ 0) (h2 : c * v - 1 ≠ 0) (h3 : c6 - av * v ≠ 0) (h4 : 2 - X * v ≠ 0) :
    Bmom X c gamma k omega v (tL a0 a1 a2 c X v) (tH a0 b0 av c6 X gamma k v) = 0 := by
  rw [t_mom_num a0 a1 a2 a3 b0 av c c6 X gamma k omega v h0 h2 h3 h4, t_mom_c0_zero gamma k omega X d2 E a0 a1 a2 a3 b0 av c c6 hX0 hd20 hE0 hg0 hω hX hd2 hE ha0 ha2 ha1 ha3 hb0 hc hav hc6, t_mom_c1_zero gamma k omega X d2 E a0 a1 a2 a3 b0 av c c6 hX0 hd20 hE0 hg0 hω hX hd2 hE ha0 ha2 ha1 ha3 hb0 hc hav hc6, t_mom_c2_zero gamma k omega X d2 E a0 a1 a2 a3 b0 av c c6 hX0 hd20 hE0 hg0 hω hX hd2 hE ha0 ha2 ha1 ha3 hb0 hc hav hc6, t_mom_c3_zero gamma k omega X d2 E a0 a1 a2 a3 b0 av c c6 hX0 hd20 hE0 hg0 hω hX hd2 hE ha0 ha2 ha1 ha3 hb0 hc hav hc6, t_mom_c4_zero gamma k omega X d2 E a0 a1 a2 a3 b0 av c c6 hX0 hd20 hE0 hg0 hω hX hd2 hE ha0 ha2 ha1 ha3 hb0 hc hav hc6, t_mom_c5_zero gamma k omega X d2 E a0 a1 a2 a3 b0 av c c6 hX0 hd20 hE0 hg0 hω hX hd2 hE ha0 ha2 ha1 ha3 hb0 hc hav hc6]
  simp


/-! ### d log λ / dv in closed form (sign of dλ/dv) -/

theorem s_L_eq (gamma k omega X d2 d3 E a0 a1 a2 a3 a4 a5 c e v : ℝ)
    (hX0 : X ≠ 0) (hd20 : d2 ≠ 0) (hd30 : d3 ≠ 0) (hE0 : E ≠ 0) (hg0 : gamma ≠ 0)
    (hX : X = k + 2 - omega) (hd2 : d2 = 2 * (gamma - 1) + k - gamma * omega) (hd3 : d3 = k * (2 - gamma) - omega)
    (hE : E = 2 + k * (gamma - 1))
    (ha0 : a0 = 2 / X) (ha2 : a2 = -(gamma - 1) / d2) (ha1 : a1 = X * gamma / E * (2 * d3 / (gamma * X * X) - a2))
    (ha3 : a3 = (k - omega) / d2) (ha4 : a4 = X * (k - omega) * a1 / d3) (ha5 : a5 = (omega * (gamma + 1) - 2 * k) / d3)
    (hc : c = 1 / 2 * X * gamma) (he : e = 1 / 2 * E)
    (h0 : v ≠ 0) (h2 : c * v - 1 ≠ 0) (h3 : 1 - e * v ≠ 0) (h4 : 2 - X * v ≠ 0) :
    sL a0 a1 a2 c e v = (gamma * (gamma + 1) * X ^ 2 * v ^ 2 - 4 * (gamma + 1) * X * v + 8)
      / (4 * X * v * (c * v - 1) * (1 - e * v)) := by
  unfold sL
  generalize hD2 : c * v - 1 = D2 at h2 ⊢
  generalize hD3 : 1 - e * v = D3 at h3 ⊢
  subst ha1 ha0 ha2
  field_simp
  subst hD2 hD3 hc he hX hd2 hd3 hE
  ring

theorem o_L_eq (gamma k omega X E a0 a5 b0 av c c2 v : ℝ)
    (hE0 : E ≠ 0) (hg0 : gamma ≠ 0) (hg1 : gamma - 1 ≠ 0)
    (hE : E = 2 + k * (gamma - 1)) (hX : X = E / gamma) (hω : omega = k + 2 - E / gamma)
    (ha0 : a0 = 2 / X) (ha5 : a5 = (omega * (gamma + 1) - 2 * k) / (-(gamma - 1) * E / gamma))
    (hb0 : b0 = 1 / E) (hc : c = 1 / 2 * X * gamma) (hav : av = 1 / 4 * X * (gamma + 1)) (hc2 : c2 = (gamma + 1) / 2 / gamma)
    (h0 : v ≠ 0) (h2 : c * v - 1 ≠ 0) (h3 : av * v - c2 ≠ 0) (h4 : 2 - X * v ≠ 0) (hgp : gamma + 1 ≠ 0) :
    oL a0 b0 av c c2 gamma v = -(gamma * (gamma * (gamma + 1) * X ^ 2 * v ^ 2 - 4 * (gamma + 1) * X * v + 8))
      / (4 * E * v * (c * v - 1) ^ 2) := by
  have hX0 : X ≠ 0 := by rw [hX]; exact div_ne_zero hE0 hg0
  have hXE : E = X * gamma := by rw [hX]; field_simp
  have hDy : av * v - c2 = (gamma + 1) / (2 * gamma) * (c * v - 1) := by
    subst hav hc hc2; field_simp; ring
  unfold oL dpp2
  rw [hDy]
  generalize hD2 : c * v - 1 = D2 at h2 ⊢
  subst ha0 hb0
  rw [hXE] at hE0 ⊢
  field_simp
  subst hD2 hc hav
  ring

theorem t_L_eq (gamma k omega X d2 E a0 a1 a2 a3 b0 av c c6 v : ℝ)
    (hX0 : X ≠ 0) (hd20 : d2 ≠ 0) (hE0 : E ≠ 0) (hg0 : gamma ≠ 0)
    (hω : omega = k * (2 - gamma)) (hX : X = k + 2 - omega) (hd2 : d2 = 2 * (gamma - 1) + k - gamma * omega)
    (hE : E = 2 + k * (gamma - 1))
    (ha0 : a0 = 2 / X) (ha2 : a2 = -(gamma - 1) / d2) (ha1 : a1 = X * gamma / E * (2 * (k * (2 - gamma) - omega) / (gamma * X * X) - a2))
    (ha3 : a3 = (k - omega) / d2) (hb0 : b0 = 1 / E) (hc : c = 1 / 2 * X * gamma) (hav : av = 1 / 4 * X * (gamma + 1))
    (hc6 : c6 = (gamma + 1) / 2)
    (h0 : v ≠ 0) (h2 : c * v - 1 ≠ 0) (h3 : c6 - av * v ≠ 0) (h4 : 2 - X * v ≠ 0) :
    tL a0 a1 a2 c X v = (gamma * (gamma + 1) * X ^ 2 * v ^ 2 - 4 * (gamma + 1) * X * v + 8)
      / (2 * E * v * (c * v - 1) * (2 - X * v)) := by
  unfold tL
  generalize hD2 : c * v - 1 = D2 at h2 ⊢
  generalize hD4 : 2 - X * v = D4 at h4 ⊢
  subst ha1 ha0 ha2
  field_simp
  subst hD2 hD4 hc hX hd2 hE hω
  ring

end

end EPV.Sedov.Alg
