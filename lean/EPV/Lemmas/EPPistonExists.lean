/-
Non-vacuity of the consistency predicates of the elastic–plastic piston constructor models: for every
choice of the parameters (and of the fsolve atoms) there are attribute values that satisfy every
generated definition — obtained by evaluating the definitions in the order the constructor does.
Used by the `example`s next to the C02 / C03 / C17 theorems.
-/
import EPV.Lemmas.EPPistonModels
import EPV.Lemmas.Bridge.EPPiston
import EPV.Tactics

set_option linter.all false

open EPV EPV.Gen

namespace EPV.EPP

noncomputable section

/-- the constructor's evaluation order, on the generated definitions -/
def hypoSolve (G Y c0 gamma rho0 s0 up wv_pl : ℝ) : EPPistonHypo.P :=
  let q0 : EPPistonHypo.P := ⟨G, Y, c0, 0, gamma, 0, 0, rho0, 0, 0, s0, 0, up, 0, 0, wv_pl⟩
  let q1 : EPPistonHypo.P := { q0 with sdev_y := EPPistonHypo.L4.sdev_y q0, rho_y := EPPistonHypo.L4.rho_y q0 }
  let q2 : EPPistonHypo.P := { q1 with e_y := EPPistonHypo.L4.e_y q1 }
  let q3 : EPPistonHypo.P := { q2 with p_y := EPPistonHypo.L4.p_y q2 }
  let q4 : EPPistonHypo.P := { q3 with wv_el := EPPistonHypo.L4.wv_el q3 }
  let q5 : EPPistonHypo.P := { q4 with vel_y := EPPistonHypo.L4.vel_y q4 }
  let q6 : EPPistonHypo.P := { q5 with p2 := EPPistonHypo.L4.p2 q5, rho2 := EPPistonHypo.L4.rho2 q5 }
  q6

theorem hypoSolve_consistent (G Y c0 gamma rho0 s0 up wv_pl : ℝ) (hG : 0 < G) (hY : 0 < Y) (hρ : 0 < rho0) (hup : 0 ≤ up) :
    EPPistonHypo.outcome (hypoSolve G Y c0 gamma rho0 s0 up wv_pl) = .ok ∧ hypoConsistent (hypoSolve G Y c0 gamma rho0 s0 up wv_pl) := by
  have k0 : ¬ EPPistonHypo.c0 (hypoSolve G Y c0 gamma rho0 s0 up wv_pl) := by simp only [epv_cond, hypoSolve]; linarith
  have k1 : ¬ EPPistonHypo.c1 (hypoSolve G Y c0 gamma rho0 s0 up wv_pl) := by simp only [epv_cond, hypoSolve]; linarith
  have k2 : ¬ EPPistonHypo.c2 (hypoSolve G Y c0 gamma rho0 s0 up wv_pl) := by simp only [epv_cond, hypoSolve]; linarith
  have k3 : ¬ EPPistonHypo.c3 (hypoSolve G Y c0 gamma rho0 s0 up wv_pl) := by simp only [epv_cond, hypoSolve]; linarith
  unfold hypoConsistent
  simp only [epv_tree, if_neg k0, if_neg k1, if_neg k2, if_neg k3, true_and]
  exact ⟨rfl, rfl, rfl, rfl, rfl, rfl, rfl, rfl⟩

/-- the constructor's evaluation order, on the generated definitions -/
def ifinSolve (G Y c0 gamma rho0 s0 up wv_pl : ℝ) : EPPistonIfin.P :=
  let q0 : EPPistonIfin.P := ⟨G, Y, c0, 0, gamma, 0, 0, rho0, 0, 0, s0, 0, up, 0, 0, wv_pl⟩
  let q1 : EPPistonIfin.P := { q0 with sdev_y := EPPistonIfin.L4.sdev_y q0, rho_y := EPPistonIfin.L4.rho_y q0 }
  let q2 : EPPistonIfin.P := { q1 with e_y := EPPistonIfin.L4.e_y q1 }
  let q3 : EPPistonIfin.P := { q2 with p_y := EPPistonIfin.L4.p_y q2 }
  let q4 : EPPistonIfin.P := { q3 with wv_el := EPPistonIfin.L4.wv_el q3 }
  let q5 : EPPistonIfin.P := { q4 with vel_y := EPPistonIfin.L4.vel_y q4 }
  let q6 : EPPistonIfin.P := { q5 with p2 := EPPistonIfin.L4.p2 q5, rho2 := EPPistonIfin.L4.rho2 q5 }
  q6

theorem ifinSolve_consistent (G Y c0 gamma rho0 s0 up wv_pl : ℝ) (hG : 0 < G) (hY : 0 < Y) (hρ : 0 < rho0) (hup : 0 ≤ up) :
    EPPistonIfin.outcome (ifinSolve G Y c0 gamma rho0 s0 up wv_pl) = .ok ∧ ifinConsistent (ifinSolve G Y c0 gamma rho0 s0 up wv_pl) := by
  have k0 : ¬ EPPistonIfin.c0 (ifinSolve G Y c0 gamma rho0 s0 up wv_pl) := by simp only [epv_cond, ifinSolve]; linarith
  have k1 : ¬ EPPistonIfin.c1 (ifinSolve G Y c0 gamma rho0 s0 up wv_pl) := by simp only [epv_cond, ifinSolve]; linarith
  have k2 : ¬ EPPistonIfin.c2 (ifinSolve G Y c0 gamma rho0 s0 up wv_pl) := by simp only [epv_cond, ifinSolve]; linarith
  have k3 : ¬ EPPistonIfin.c3 (ifinSolve G Y c0 gamma rho0 s0 up wv_pl) := by simp only [epv_cond, ifinSolve]; linarith
  unfold ifinConsistent
  simp only [epv_tree, if_neg k0, if_neg k1, if_neg k2, if_neg k3, true_and]
  exact ⟨rfl, rfl, rfl, rfl, rfl, rfl, rfl, rfl⟩

/-- the constructor's evaluation order, on the generated definitions -/
def finSolve (F_y G Y c0 gamma rho0 s0 up wv_pl : ℝ) : EPPistonFin.P :=
  let q0 : EPPistonFin.P := ⟨F_y, G, Y, c0, 0, gamma, 0, 0, rho0, 0, 0, s0, 0, up, 0, 0, wv_pl⟩
  let q1 : EPPistonFin.P := { q0 with sdev_y := EPPistonFin.L4.sdev_y q0, rho_y := EPPistonFin.L4.rho_y q0 }
  let q2 : EPPistonFin.P := { q1 with e_y := EPPistonFin.L4.e_y q1 }
  let q3 : EPPistonFin.P := { q2 with p_y := EPPistonFin.L4.p_y q2 }
  let q4 : EPPistonFin.P := { q3 with wv_el := EPPistonFin.L4.wv_el q3 }
  let q5 : EPPistonFin.P := { q4 with vel_y := EPPistonFin.L4.vel_y q4 }
  let q6 : EPPistonFin.P := { q5 with p2 := EPPistonFin.L4.p2 q5, rho2 := EPPistonFin.L4.rho2 q5 }
  q6

theorem finSolve_consistent (F_y G Y c0 gamma rho0 s0 up wv_pl : ℝ) (hG : 0 < G) (hY : 0 < Y) (hρ : 0 < rho0) (hup : 0 ≤ up) :
    EPPistonFin.outcome (finSolve F_y G Y c0 gamma rho0 s0 up wv_pl) = .ok ∧ finConsistent (finSolve F_y G Y c0 gamma rho0 s0 up wv_pl) := by
  have k0 : ¬ EPPistonFin.c0 (finSolve F_y G Y c0 gamma rho0 s0 up wv_pl) := by simp only [epv_cond, finSolve]; linarith
  have k1 : ¬ EPPistonFin.c1 (finSolve F_y G Y c0 gamma rho0 s0 up wv_pl) := by simp only [epv_cond, finSolve]; linarith
  have k2 : ¬ EPPistonFin.c2 (finSolve F_y G Y c0 gamma rho0 s0 up wv_pl) := by simp only [epv_cond, finSolve]; linarith
  have k3 : ¬ EPPistonFin.c3 (finSolve F_y G Y c0 gamma rho0 s0 up wv_pl) := by simp only [epv_cond, finSolve]; linarith
  unfold finConsistent
  simp only [epv_tree, if_neg k0, if_neg k1, if_neg k2, if_neg k3, true_and]
  exact ⟨rfl, rfl, rfl, rfl, rfl, rfl, rfl, rfl⟩

/-! ### the default problem (model = 'hyperIfin', G = 0.286, Y = 0.0026, c0 = 0.533, Γ = 2, ρ₀ = 2.79,
s0 = 1.34, up = 0.01) with the free fsolve atom set to wv_pl = 1 -/

def ifinDefault : EPPistonIfin.P := ifinSolve (143/500) (13/5000) (533/1000) 2 (279/100) (67/50) (1/100) 1

theorem ifinDefault_ok : EPPistonIfin.outcome ifinDefault = .ok ∧ ifinConsistent ifinDefault :=
  ifinSolve_consistent _ _ _ _ _ _ _ _ (by norm_num) (by norm_num) (by norm_num) (by norm_num)

/-- every side condition of the C02 / C03 / C17 theorems holds for the default problem -/
theorem ifinDefault_hyps :
    ifinDefault.rho_y ≠ 0 ∧ ifinDefault.rho0 - ifinDefault.rho_y ≠ 0 ∧
    2 * ifinDefault.rho0 * ifinDefault.rho_y - ifinDefault.rho_y * ifinDefault.gamma * (ifinDefault.rho_y - ifinDefault.rho0) ≠ 0 ∧
    0 ≤ ifinDefault.rho_y * (ifinDefault.sdev_y - ifinDefault.p_y) / (ifinDefault.rho0 * (ifinDefault.rho0 - ifinDefault.rho_y)) ∧
    ifinDefault.wv_pl - ifinDefault.up ≠ 0 ∧ ifinDefault.wv_pl - ifinDefault.vel_y ≠ 0 ∧
    ifinDefault.Y < 2 * ifinDefault.G ∧ 0 < ifinDefault.rho_y ∧ ifinDefault.up < ifinDefault.wv_pl ∧
    ifinDefault.vel_y < ifinDefault.up := by
  have h1 : ifinDefault.wv_pl = 1 := rfl
  -- the documented formulas of the constructor (bridge), not the shape of the generated definitions
  have hρy : ifinDefault.rho_y ≠ 0 := by
    simp only [ifinDefault, ifinSolve, epv_leaf, Real.rpow_neg_one, Real.rpow_two]; norm_num
  have hdoc := (ifin_doc ifinDefault ifinDefault_ok.1 ifinDefault_ok.2).1
  have h2 : ifinDefault.vel_y = ifinDefault.wv_el * (ifinDefault.rho_y - ifinDefault.rho0) / ifinDefault.rho_y :=
    hdoc.vel_y_eq hρy
  have h3 : ifinDefault.wv_el = Real.sqrt (ifinDefault.rho_y * (ifinDefault.sdev_y - ifinDefault.p_y)
      / (ifinDefault.rho0 * (ifinDefault.rho0 - ifinDefault.rho_y))) := hdoc.wv_el_eq
  have h4 : ifinDefault.wv_el ≤ 1 := by
    rw [h3, Real.sqrt_le_one]
    simp only [ifinDefault, ifinSolve, epv_leaf, Real.rpow_neg_one, Real.rpow_two]; norm_num
  have h5 : 0 ≤ ifinDefault.wv_el := by rw [h3]; exact Real.sqrt_nonneg _
  have h6 : (ifinDefault.rho_y - ifinDefault.rho0) / ifinDefault.rho_y = 13 / 2860 := by
    simp only [ifinDefault, ifinSolve, epv_leaf, Real.rpow_neg_one, Real.rpow_two]; norm_num
  have h7 : ifinDefault.up = 1 / 100 := rfl
  refine ⟨?_, ?_, ?_, ?_, ?_, ?_, ?_, ?_, ?_, ?_⟩
  · simp only [ifinDefault, ifinSolve, epv_leaf, Real.rpow_neg_one, Real.rpow_two]; norm_num
  · simp only [ifinDefault, ifinSolve, epv_leaf, Real.rpow_neg_one, Real.rpow_two]; norm_num
  · simp only [ifinDefault, ifinSolve, epv_leaf, Real.rpow_neg_one, Real.rpow_two]; norm_num
  · simp only [ifinDefault, ifinSolve, epv_leaf, Real.rpow_neg_one, Real.rpow_two]; norm_num
  · rw [h1, h7]; norm_num
  · rw [h1, h2, mul_div_assoc, h6]; nlinarith
  · simp only [ifinDefault, ifinSolve]; norm_num
  · simp only [ifinDefault, ifinSolve, epv_leaf, Real.rpow_neg_one, Real.rpow_two]; norm_num
  · rw [h1, h7]; norm_num
  · rw [h2, mul_div_assoc, h6, h7]; nlinarith

end

end EPV.EPP
