/-
General lemmas about the residuals of `EPV.Spec.Euler1D` (C01).

* no conduction (λ₀ = 0): the flux vanishes and the energy residual is its hydrodynamic part;
* the radiative flux `Spec.heatFlux` computed from a derivative certificate of `a T⁴`
  (pointwise, and as functions near the point, so that `dr (heatFlux …)` can be rewritten with a
  certificate of the generated `heat_flux`);
* the energy residual split into its hydrodynamic part and the divergence of the flux;
* congruence: the residuals at (r, t) depend only on the fields on the line {(x, t)} and on the
  germ of s ↦ f r s at t (`AgreeAt`), so a theorem about one leaf of a traced decision tree
  transfers to the tree-level field wherever the path conditions do not depend on the position.
-/
import EPV.Spec.Euler1D

set_option linter.all false

open Filter Topology

namespace EPV.Spec

/-- no conduction (λ₀ = 0): the flux vanishes identically -/
theorem heatFlux_lam0_zero (ρ T : Field) (c a α β : ℝ) :
    heatFlux ρ T c a 0 α β = fun _ _ => 0 := by
  funext r t
  simp [heatFlux]

/-- no conduction (λ₀ = 0): the energy residual is its hydrodynamic part -/
theorem energyResT_lam0_zero (ρ u T : Field) (Γ γ k c a α β r t : ℝ) :
    energyResT ρ u T Γ γ k c a 0 α β r t = energyHydroT u T Γ γ k r t := by
  unfold energyResT
  rw [heatFlux_lam0_zero]
  simp [dr]

/-- pointwise: the flux from a derivative certificate of `a T⁴` -/
theorem heatFlux_eq_of_hasDerivAt {ρ T : Field} {c a lam0 α β r t g' : ℝ}
    (h : HasDerivAt (fun x => a * T x t ^ (4 : ℕ)) g' r) :
    heatFlux ρ T c a lam0 α β r t = -(c * lam0 * ρ r t ^ α * T r t ^ β / 3) * g' := by
  unfold heatFlux dr
  rw [h.deriv]

/-- as functions near `r`: the flux from derivative certificates of `a T⁴` on a neighbourhood -/
theorem heatFlux_eventuallyEq {ρ T : Field} {c a lam0 α β r t : ℝ} {G' : ℝ → ℝ} {S : Set ℝ}
    (hS : S ∈ 𝓝 r) (h : ∀ x ∈ S, HasDerivAt (fun y => a * T y t ^ (4 : ℕ)) (G' x) x) :
    (fun x => heatFlux ρ T c a lam0 α β x t)
      =ᶠ[𝓝 r] fun x => -(c * lam0 * ρ x t ^ α * T x t ^ β / 3) * G' x := by
  filter_upwards [hS] with x hx
  exact heatFlux_eq_of_hasDerivAt (h x hx)

/-- the energy residual when the flux agrees near `r` with a function `F` of known derivative -/
theorem energyResT_eq_of_flux {ρ u T : Field} {Γ γ k c a lam0 α β r t : ℝ} {F : ℝ → ℝ} {F' : ℝ}
    (hF : (fun x => heatFlux ρ T c a lam0 α β x t) =ᶠ[𝓝 r] F) (hF' : HasDerivAt F F' r) :
    energyResT ρ u T Γ γ k c a lam0 α β r t
      = energyHydroT u T Γ γ k r t + (F' + k * F r / r) / ρ r t := by
  have h1 : dr (heatFlux ρ T c a lam0 α β) r t = F' := by
    unfold dr
    rw [hF.deriv_eq, hF'.deriv]
  have h2 : heatFlux ρ T c a lam0 α β r t = F r := hF.eq_of_nhds
  unfold energyResT
  rw [h1, h2]

/-- hydrodynamic part zero and divergence-free flux give a zero energy residual -/
theorem energyResT_zero_of_split {ρ u T : Field} {Γ γ k c a lam0 α β r t : ℝ} {F : ℝ → ℝ} {F' : ℝ}
    (hF : (fun x => heatFlux ρ T c a lam0 α β x t) =ᶠ[𝓝 r] F) (hF' : HasDerivAt F F' r)
    (hH : energyHydroT u T Γ γ k r t = 0) (hdiv : F' + k * F r / r = 0) :
    energyResT ρ u T Γ γ k c a lam0 α β r t = 0 := by
  rw [energyResT_eq_of_flux hF hF', hH, hdiv]
  simp

/-! ### Congruence -/

/-- `f` and `g` agree on the whole line `{(x, t)}` and, at the position `r`, for all times near `t` -/
def AgreeAt (f g : Field) (r t : ℝ) : Prop :=
  (∀ x, f x t = g x t) ∧ (fun s => f r s) =ᶠ[𝓝 t] fun s => g r s

theorem AgreeAt.eq {f g : Field} {r t : ℝ} (h : AgreeAt f g r t) : f r t = g r t := h.1 r

theorem AgreeAt.dr {f g : Field} {r t : ℝ} (h : AgreeAt f g r t) (x : ℝ) : dr f x t = dr g x t := by
  unfold Spec.dr
  have : (fun y => f y t) = fun y => g y t := funext h.1
  rw [this]

theorem AgreeAt.dt {f g : Field} {r t : ℝ} (h : AgreeAt f g r t) : dt f r t = dt g r t := by
  unfold Spec.dt
  exact h.2.deriv_eq

theorem massRes_congr {ρ ρ' u u' : Field} {k r t : ℝ} (hρ : AgreeAt ρ ρ' r t) (hu : AgreeAt u u' r t) :
    massRes ρ u k r t = massRes ρ' u' k r t := by
  unfold massRes
  rw [hρ.dt, hρ.dr, hu.dr, hρ.eq, hu.eq]

theorem momResT_congr {ρ ρ' u u' T T' : Field} {Γ r t : ℝ} (hρ : AgreeAt ρ ρ' r t) (hu : AgreeAt u u' r t)
    (hT : AgreeAt T T' r t) : momResT ρ u T Γ r t = momResT ρ' u' T' Γ r t := by
  unfold momResT
  rw [hu.dt, hu.dr, hρ.dr, hT.dr, hρ.eq, hu.eq, hT.eq]

theorem energyHydroT_congr {u u' T T' : Field} {Γ γ k r t : ℝ} (hu : AgreeAt u u' r t)
    (hT : AgreeAt T T' r t) : energyHydroT u T Γ γ k r t = energyHydroT u' T' Γ γ k r t := by
  unfold energyHydroT
  rw [hT.dt, hT.dr, hu.dr, hu.eq, hT.eq]

theorem heatFlux_congr {ρ ρ' T T' : Field} {c a lam0 α β r t : ℝ} (hρ : AgreeAt ρ ρ' r t)
    (hT : AgreeAt T T' r t) (x : ℝ) :
    heatFlux ρ T c a lam0 α β x t = heatFlux ρ' T' c a lam0 α β x t := by
  unfold heatFlux Spec.dr
  have h : (fun y => a * T y t ^ (4 : ℕ)) = fun y => a * T' y t ^ (4 : ℕ) := by
    funext y
    rw [hT.1 y]
  rw [h, hρ.1 x, hT.1 x]

theorem energyResT_congr {ρ ρ' u u' T T' : Field} {Γ γ k c a lam0 α β r t : ℝ} (hρ : AgreeAt ρ ρ' r t)
    (hu : AgreeAt u u' r t) (hT : AgreeAt T T' r t) :
    energyResT ρ u T Γ γ k c a lam0 α β r t = energyResT ρ' u' T' Γ γ k c a lam0 α β r t := by
  unfold energyResT
  have h : (fun x => heatFlux ρ T c a lam0 α β x t) = fun x => heatFlux ρ' T' c a lam0 α β x t :=
    funext (heatFlux_congr hρ hT)
  have h1 : dr (heatFlux ρ T c a lam0 α β) r t = dr (heatFlux ρ' T' c a lam0 α β) r t := by
    unfold Spec.dr
    rw [h]
  rw [h1, heatFlux_congr hρ hT r, energyHydroT_congr hu hT, hρ.eq]

end EPV.Spec
