/-
General lemmas about the residuals of `EPV.Spec.Euler1D` (C01).

* no conduction (λ₀ = 0): the flux vanishes and the energy residual is its hydrodynamic part;
* the radiative flux `Spec.heatFlux` computed from a derivative certificate of `a T⁴`
  (pointwise, and as functions near the point, so that `dr (heatFlux …)` can be rewritten with a
  certificate of the generated `heat_flux`);
* the energy residual split into its hydrodynamic part and the divergence of the flux.
-/
import EPV.Spec.Euler1D

set_option linter.all false

open Filter Topology

namespace EPV.Spec

/-- no conduction (λ₀ = 0): the flux vanishes identically -/
theorem heatFlux_lam0_zero (ρ T : Field) (c a α β : ℝ) :
    heatFlux ρ T c a 0 α β = fun _ _ => 0 := by
  funext r t
  simp [heatFlux]

/-- no conduction (λ₀ = 0): the energy residual is its hydrodynamic part -/
theorem energyResT_lam0_zero (ρ u T : Field) (Γ γ k c a α β r t : ℝ) :
    energyResT ρ u T Γ γ k c a 0 α β r t = energyHydroT u T Γ γ k r t := by
  unfold energyResT
  rw [heatFlux_lam0_zero]
  simp [dr]

/-- pointwise: the flux from a derivative certificate of `a T⁴` -/
theorem heatFlux_eq_of_hasDerivAt {ρ T : Field} {c a lam0 α β r t g' : ℝ}
    (h : HasDerivAt (fun x => a * T x t ^ (4 : ℕ)) g' r) :
    heatFlux ρ T c a lam0 α β r t = -(c * lam0 * ρ r t ^ α * T r t ^ β / 3) * g' := by
  unfold heatFlux dr
  rw [h.deriv]

/-- as functions near `r`: the flux from derivative certificates of `a T⁴` on a neighbourhood -/
theorem heatFlux_eventuallyEq {ρ T : Field} {c a lam0 α β r t : ℝ} {G' : ℝ → ℝ} {S : Set ℝ}
    (hS : S ∈ 𝓝 r) (h : ∀ x ∈ S, HasDerivAt (fun y => a * T y t ^ (4 : ℕ)) (G' x) x) :
    (fun x => heatFlux ρ T c a lam0 α β x t)
      =ᶠ[𝓝 r] fun x => -(c * lam0 * ρ x t ^ α * T x t ^ β / 3) * G' x := by
  filter_upwards [hS] with x hx
  exact heatFlux_eq_of_hasDerivAt (h x hx)

/-- the energy residual when the flux agrees near `r` with a function `F` of known derivative -/
theorem energyResT_eq_of_flux {ρ u T : Field} {Γ γ k c a lam0 α β r t : ℝ} {F : ℝ → ℝ} {F' : ℝ}
    (hF : (fun x => heatFlux ρ T c a lam0 α β x t) =ᶠ[𝓝 r] F) (hF' : HasDerivAt F F' r) :
    energyResT ρ u T Γ γ k c a lam0 α β r t
      = energyHydroT u T Γ γ k r t + (F' + k * F r / r) / ρ r t := by
  have h1 : dr (heatFlux ρ T c a lam0 α β) r t = F' := by
    unfold dr
    rw [hF.deriv_eq, hF'.deriv]
  have h2 : heatFlux ρ T c a lam0 α β r t = F r := hF.eq_of_nhds
  unfold energyResT
  rw [h1, h2]

/-- hydrodynamic part zero and divergence-free flux give a zero energy residual -/
theorem energyResT_zero_of_split {ρ u T : Field} {Γ γ k c a lam0 α β r t : ℝ} {F : ℝ → ℝ} {F' : ℝ}
    (hF : (fun x => heatFlux ρ T c a lam0 α β x t) =ᶠ[𝓝 r] F) (hF' : HasDerivAt F F' r)
    (hH : energyHydroT u T Γ γ k r t = 0) (hdiv : F' + k * F r / r = 0) :
    energyResT ρ u T Γ γ k c a lam0 α β r t = 0 := by
  rw [energyResT_eq_of_flux hF hF', hH, hdiv]
  simp

end EPV.Spec
