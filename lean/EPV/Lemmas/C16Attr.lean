/-
Simp set for the C16 proofs: conversions from one record of EOS constants to the parameter
structures of the individual generated models (one model per traced method).
-/
import Mathlib.Tactic.Attr.Register

/-- conversions from hand-written constant records to generated parameter structures (C16) -/
register_simp_attr epv_c16
