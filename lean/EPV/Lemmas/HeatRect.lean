/-
Lemmas for the Rectangle solver: derivatives of the two kinds of separable modes
  D = A sin(p x) sin(q y) e^{-κ (p² + q²) t}      (homogeneous part)
  S = C sin(k x) sinh(k y) / s                     (static part, harmonic)
and of their finite sums, plus the real-number form of the hand model's `rectangle`.
-/
import EPV.Spec.Heat

set_option linter.all false

open EPV EPV.Spec.Heat EPV.Model.HeatSeries Finset Filter Topology

namespace EPV.Lemmas.Heat

noncomputable section

/-- the Rectangle series in Mathlib form, over arbitrary coefficient and wave-number sequences -/
def rect (N : ℕ) (κ : ℝ) (A : ℕ → ℕ → ℝ) (p q C k s : ℕ → ℝ) (x y t : ℝ) : ℝ :=
  (∑ n ∈ range N, ∑ j ∈ range (N - 1),
      A n (j + 1) * Real.sin (p n * x) * Real.sin (q (j + 1) * y) * Real.exp (-κ * (p n * p n + q (j + 1) * q (j + 1)) * t))
    + ∑ i ∈ range (N - 1), C (i + 1) * Real.sin (k (i + 1) * x) * Real.sinh (k (i + 1) * y) / s (i + 1)

def rectX (N : ℕ) (κ : ℝ) (A : ℕ → ℕ → ℝ) (p q C k s : ℕ → ℝ) (x y t : ℝ) : ℝ :=
  (∑ n ∈ range N, ∑ j ∈ range (N - 1),
      A n (j + 1) * (p n * Real.cos (p n * x)) * Real.sin (q (j + 1) * y) * Real.exp (-κ * (p n * p n + q (j + 1) * q (j + 1)) * t))
    + ∑ i ∈ range (N - 1), C (i + 1) * (k (i + 1) * Real.cos (k (i + 1) * x)) * Real.sinh (k (i + 1) * y) / s (i + 1)

def rectXX (N : ℕ) (κ : ℝ) (A : ℕ → ℕ → ℝ) (p q C k s : ℕ → ℝ) (x y t : ℝ) : ℝ :=
  (∑ n ∈ range N, ∑ j ∈ range (N - 1),
      A n (j + 1) * (p n * (-(p n) * Real.sin (p n * x))) * Real.sin (q (j + 1) * y) * Real.exp (-κ * (p n * p n + q (j + 1) * q (j + 1)) * t))
    + ∑ i ∈ range (N - 1), C (i + 1) * (k (i + 1) * (-(k (i + 1)) * Real.sin (k (i + 1) * x))) * Real.sinh (k (i + 1) * y) / s (i + 1)

def rectY (N : ℕ) (κ : ℝ) (A : ℕ → ℕ → ℝ) (p q C k s : ℕ → ℝ) (x y t : ℝ) : ℝ :=
  (∑ n ∈ range N, ∑ j ∈ range (N - 1),
      A n (j + 1) * Real.sin (p n * x) * (q (j + 1) * Real.cos (q (j + 1) * y)) * Real.exp (-κ * (p n * p n + q (j + 1) * q (j + 1)) * t))
    + ∑ i ∈ range (N - 1), C (i + 1) * Real.sin (k (i + 1) * x) * (k (i + 1) * Real.cosh (k (i + 1) * y)) / s (i + 1)

def rectYY (N : ℕ) (κ : ℝ) (A : ℕ → ℕ → ℝ) (p q C k s : ℕ → ℝ) (x y t : ℝ) : ℝ :=
  (∑ n ∈ range N, ∑ j ∈ range (N - 1),
      A n (j + 1) * Real.sin (p n * x) * (q (j + 1) * (-(q (j + 1)) * Real.sin (q (j + 1) * y))) * Real.exp (-κ * (p n * p n + q (j + 1) * q (j + 1)) * t))
    + ∑ i ∈ range (N - 1), C (i + 1) * Real.sin (k (i + 1) * x) * (k (i + 1) * (k (i + 1) * Real.sinh (k (i + 1) * y))) / s (i + 1)

def rectT (N : ℕ) (κ : ℝ) (A : ℕ → ℕ → ℝ) (p q : ℕ → ℝ) (x y t : ℝ) : ℝ :=
  ∑ n ∈ range N, ∑ j ∈ range (N - 1),
      A n (j + 1) * Real.sin (p n * x) * Real.sin (q (j + 1) * y)
        * (Real.exp (-κ * (p n * p n + q (j + 1) * q (j + 1)) * t) * (-κ * (p n * p n + q (j + 1) * q (j + 1))))

private theorem hlin (c z : ℝ) : HasDerivAt (fun u : ℝ => c * u) c z := by
  simpa using (hasDerivAt_id z).const_mul c

theorem rect_hasDerivAt_x (N : ℕ) (κ : ℝ) (A : ℕ → ℕ → ℝ) (p q C k s : ℕ → ℝ) (x y t : ℝ) :
    HasDerivAt (fun u => rect N κ A p q C k s u y t) (rectX N κ A p q C k s x y t) x := by
  unfold rect rectX
  refine HasDerivAt.add ?_ ?_
  · refine HasDerivAt.fun_sum fun n _ => HasDerivAt.fun_sum fun j _ => ?_
    have := ((((hlin (p n) x).sin.const_mul (A n (j + 1))).mul_const (Real.sin (q (j + 1) * y))).mul_const
      (Real.exp (-κ * (p n * p n + q (j + 1) * q (j + 1)) * t)))
    refine this.congr_deriv ?_
    ring
  · refine HasDerivAt.fun_sum fun i _ => ?_
    have := ((((hlin (k (i + 1)) x).sin.const_mul (C (i + 1))).mul_const (Real.sinh (k (i + 1) * y))).div_const (s (i + 1)))
    refine this.congr_deriv ?_
    ring

theorem rectX_hasDerivAt_x (N : ℕ) (κ : ℝ) (A : ℕ → ℕ → ℝ) (p q C k s : ℕ → ℝ) (x y t : ℝ) :
    HasDerivAt (fun u => rectX N κ A p q C k s u y t) (rectXX N κ A p q C k s x y t) x := by
  unfold rectX rectXX
  refine HasDerivAt.add ?_ ?_
  · refine HasDerivAt.fun_sum fun n _ => HasDerivAt.fun_sum fun j _ => ?_
    have := (((((hlin (p n) x).cos.const_mul (p n)).const_mul (A n (j + 1))).mul_const (Real.sin (q (j + 1) * y))).mul_const
      (Real.exp (-κ * (p n * p n + q (j + 1) * q (j + 1)) * t)))
    refine this.congr_deriv ?_
    ring
  · refine HasDerivAt.fun_sum fun i _ => ?_
    have := (((((hlin (k (i + 1)) x).cos.const_mul (k (i + 1))).const_mul (C (i + 1))).mul_const (Real.sinh (k (i + 1) * y))).div_const (s (i + 1)))
    refine this.congr_deriv ?_
    ring

theorem rect_hasDerivAt_y (N : ℕ) (κ : ℝ) (A : ℕ → ℕ → ℝ) (p q C k s : ℕ → ℝ) (x y t : ℝ) :
    HasDerivAt (fun v => rect N κ A p q C k s x v t) (rectY N κ A p q C k s x y t) y := by
  unfold rect rectY
  refine HasDerivAt.add ?_ ?_
  · refine HasDerivAt.fun_sum fun n _ => HasDerivAt.fun_sum fun j _ => ?_
    have := (((hlin (q (j + 1)) y).sin.const_mul (A n (j + 1) * Real.sin (p n * x))).mul_const
      (Real.exp (-κ * (p n * p n + q (j + 1) * q (j + 1)) * t)))
    refine this.congr_deriv ?_
    ring
  · refine HasDerivAt.fun_sum fun i _ => ?_
    have := (((hlin (k (i + 1)) y).sinh.const_mul (C (i + 1) * Real.sin (k (i + 1) * x))).div_const (s (i + 1)))
    refine this.congr_deriv ?_
    ring

theorem rectY_hasDerivAt_y (N : ℕ) (κ : ℝ) (A : ℕ → ℕ → ℝ) (p q C k s : ℕ → ℝ) (x y t : ℝ) :
    HasDerivAt (fun v => rectY N κ A p q C k s x v t) (rectYY N κ A p q C k s x y t) y := by
  unfold rectY rectYY
  refine HasDerivAt.add ?_ ?_
  · refine HasDerivAt.fun_sum fun n _ => HasDerivAt.fun_sum fun j _ => ?_
    have := ((((hlin (q (j + 1)) y).cos.const_mul (q (j + 1))).const_mul (A n (j + 1) * Real.sin (p n * x))).mul_const
      (Real.exp (-κ * (p n * p n + q (j + 1) * q (j + 1)) * t)))
    refine this.congr_deriv ?_
    ring
  · refine HasDerivAt.fun_sum fun i _ => ?_
    have := ((((hlin (k (i + 1)) y).cosh.const_mul (k (i + 1))).const_mul (C (i + 1) * Real.sin (k (i + 1) * x))).div_const (s (i + 1)))
    refine this.congr_deriv ?_
    ring

theorem rect_hasDerivAt_t (N : ℕ) (κ : ℝ) (A : ℕ → ℕ → ℝ) (p q C k s : ℕ → ℝ) (x y t : ℝ) :
    HasDerivAt (fun τ => rect N κ A p q C k s x y τ) (rectT N κ A p q x y t) t := by
  unfold rect rectT
  refine HasDerivAt.add_const _ ?_
  refine HasDerivAt.fun_sum fun n _ => HasDerivAt.fun_sum fun j _ => ?_
  exact ((hlin (-κ * (p n * p n + q (j + 1) * q (j + 1))) t).exp.const_mul (A n (j + 1) * Real.sin (p n * x) * Real.sin (q (j + 1) * y)))

/-- the 2-D heat equation for the series, all coefficients and wave numbers -/
theorem rect_heat_eq (N : ℕ) (κ : ℝ) (A : ℕ → ℕ → ℝ) (p q C k s : ℕ → ℝ) (x y t : ℝ) :
    HeatEq2D κ (rect N κ A p q C k s) x y t := by
  unfold HeatEq2D
  have hx : (fun u => deriv (fun v => rect N κ A p q C k s v y t) u) = fun u => rectX N κ A p q C k s u y t := by
    funext u; exact (rect_hasDerivAt_x N κ A p q C k s u y t).deriv
  have hy : (fun u => deriv (fun v => rect N κ A p q C k s x v t) u) = fun u => rectY N κ A p q C k s x u t := by
    funext u; exact (rect_hasDerivAt_y N κ A p q C k s x u t).deriv
  rw [hx, hy, (rectX_hasDerivAt_x N κ A p q C k s x y t).deriv, (rectY_hasDerivAt_y N κ A p q C k s x y t).deriv,
    (rect_hasDerivAt_t N κ A p q C k s x y t).deriv]
  unfold rectT rectXX rectYY
  have hS : (∑ i ∈ range (N - 1), C (i + 1) * (k (i + 1) * (-(k (i + 1)) * Real.sin (k (i + 1) * x))) * Real.sinh (k (i + 1) * y) / s (i + 1))
      + (∑ i ∈ range (N - 1), C (i + 1) * Real.sin (k (i + 1) * x) * (k (i + 1) * (k (i + 1) * Real.sinh (k (i + 1) * y))) / s (i + 1)) = 0 := by
    rw [← Finset.sum_add_distrib]
    refine Finset.sum_eq_zero fun i _ => ?_
    ring
  have hD : (∑ n ∈ range N, ∑ j ∈ range (N - 1),
        A n (j + 1) * Real.sin (p n * x) * Real.sin (q (j + 1) * y)
          * (Real.exp (-κ * (p n * p n + q (j + 1) * q (j + 1)) * t) * (-κ * (p n * p n + q (j + 1) * q (j + 1)))))
      = κ * ((∑ n ∈ range N, ∑ j ∈ range (N - 1),
          A n (j + 1) * (p n * (-(p n) * Real.sin (p n * x))) * Real.sin (q (j + 1) * y) * Real.exp (-κ * (p n * p n + q (j + 1) * q (j + 1)) * t))
        + ∑ n ∈ range N, ∑ j ∈ range (N - 1),
          A n (j + 1) * Real.sin (p n * x) * (q (j + 1) * (-(q (j + 1)) * Real.sin (q (j + 1) * y))) * Real.exp (-κ * (p n * p n + q (j + 1) * q (j + 1)) * t)) := by
    rw [← Finset.sum_add_distrib, Finset.mul_sum]
    refine Finset.sum_congr rfl fun n _ => ?_
    rw [← Finset.sum_add_distrib, Finset.mul_sum]
    refine Finset.sum_congr rfl fun j _ => ?_
    ring
  linear_combination hD - κ * hS

/-! ### the hand model over ℝ -/

theorem rectKn_real (a : ℝ) (n : ℕ) : rectKn a n = (2 * (n : ℝ) + 1) * Real.pi / a := by
  show ((2 * n + 1 : ℕ) : ℝ) * Real.pi / a = _
  push_cast; ring
theorem rectKm_real (b : ℝ) (m : ℕ) : rectKm b m = m * Real.pi / b := rfl

/-- static amplitude `2 Ttop (1 - (-1)^n)/(n π)` -/
def rectC (Ttop : ℝ) (n : ℕ) : ℝ := 2 * Ttop * (1 - (-1) ^ n) / (n * Real.pi)

theorem rectStaticTerm_real (a b Ttop x y : ℝ) (n : ℕ) :
    rectStaticTerm a b Ttop x y n
      = rectC Ttop n * Real.sin (rectKm a n * x) * Real.sinh (rectKm a n * y) / Real.sinh (rectKm a n * b) := by
  unfold rectStaticTerm
  heat_ops
  rw [negOnePow_real]
  unfold rectC
  simp only [rectKm_real]
  push_cast
  ring

theorem rectDynTerm_real (κ a b Ttop x y t : ℝ) (n m : ℕ) :
    rectDynTerm κ a b Ttop x y t n m
      = rectAnm a b Ttop n m * Real.sin (rectKn a n * x) * Real.sin (rectKm b m * y)
          * Real.exp (-κ * (rectKn a n * rectKn a n + rectKm b m * rectKm b m) * t) := rfl

/-- **the hand model's Rectangle is the Mathlib-form series** -/
theorem rectangle_eq (N : ℕ) (κ a b Ttop : ℝ) :
    (fun x y t => rectangle N κ a b Ttop x y t)
      = rect N κ (rectAnm a b Ttop) (rectKn a) (rectKm b) (rectC Ttop) (rectKm a) (fun n => Real.sinh (rectKm a n * b)) := by
  funext x y t
  unfold rectangle rectDyn rectStatic rect
  rw [add_real, sumTo_real, sumTo_real]
  simp only [sumTo_real, rectDynTerm_real, rectStaticTerm_real]

theorem rectAnm_real (a b Ttop : ℝ) (n m : ℕ) :
    rectAnm a b Ttop n m
      = 4 * Ttop * 2 * (-1) ^ m * (m / (2 * (n : ℝ) + 1)) / (rectKn a n * rectKn a n + rectKm b m * rectKm b m) / (b * b) := by
  unfold rectAnm rectAlpha2
  heat_ops
  rw [negOnePow_real]
  push_cast
  ring

end

end EPV.Lemmas.Heat
