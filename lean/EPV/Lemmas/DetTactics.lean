/-
`epv_split`: case analysis along a traced decision tree, linear in the number of leaves.

Mathlib's `split_ifs` (used by `epv_on_leaves`) becomes very slow on the long else-chains that
constructors with many validation checks followed by a region selection produce (EHEP: 7 checks
+ 8 regions; more than ~15 nested `if`s exceed simp's step limit).  `epv_split1` finds the
outermost `if c then _ else _` of the goal, does `by_cases` on `c` and rewrites with
`if_pos` / `if_neg`; `epv_split` repeats that on every resulting goal.  The hypotheses it
introduces are anonymous: use `simp only [epv_cond] at *` afterwards to expose them.
-/
import EPV.Support

open Lean Elab Tactic Meta

/-- split on the outermost `if` of the goal -/
elab "epv_split1" : tactic => withMainContext do
  let g ← instantiateMVars (← getMainTarget)
  let some e := g.find? (fun e => e.isAppOfArity ``ite 5 && !(e.getArg! 1).hasLooseBVars)
    | throwError "epv_split1: no if-then-else in the goal"
  let stx ← Term.exprToSyntax (e.getArg! 1)
  evalTactic (← `(tactic| by_cases hsplit : $stx <;>
    first | simp only [if_pos hsplit] | simp only [if_neg hsplit]))

/-- split the goal along every `if` it contains, outermost first -/
macro "epv_split" : tactic => `(tactic| repeat' epv_split1)
