/-
Sedov (C01 growth): the constants of the similarity functions.

`sedov_funcs_standard` reads the exponents a0…a5 and the combinations a_val…e_val, xg2, … from the
object; the generated models SedovFuncs / SedovFuncsO2 / SedovFuncsO3 have them as symbols.  This
file says which values they have:

  * `K.*`: the formulas of `__init__` (sedov.py:81-137, Kamm eqs 33-37, 42-47) as functions of (γ, k, ω);
  * `StdConsts p γ k ω`, `O2Consts`, `O3Consts`: "the constants in the parameter record `p` of the
    generated model are the ones `__init__` computes for (γ, k, ω)";
  * `consts_none`, `consts_omega2`, `consts_omega3`: the generated model SedovConsts (the REAL
    constructor traced on symbolic parameters, whole decision tree) returns exactly those values on
    every accepting path with special_singularity none / omega2 / omega3 — so the hypotheses
    `StdConsts …` of the ODE theorems are what the code provides (`stdFuncs_consts` …);
  * the branch intervals: standard type (v2 < vstar) v0 < v < v2, vacuum type (v2 > vstar) v2 < v < vv,
    and the signs of the four power bases on them.
-/
import EPV.Gen.SedovConsts
import EPV.Gen.SedovEnds
import EPV.Gen.SedovFuncs
import EPV.Gen.SedovFuncsO2
import EPV.Gen.SedovFuncsO3
import EPV.Spec.SedovODE
import EPV.Tactics
import EPV.Lemmas.Bridge.SemiTac

set_option linter.all false
set_option maxRecDepth 100000

open EPV EPV.Gen EPV.Spec.SedovODE

namespace EPV.Sedov

noncomputable section

/-! ### The constants of `__init__` -/
namespace K

def xg2 (k ω : ℝ) : ℝ := k + 2 - ω
def denom2 (γ k ω : ℝ) : ℝ := 2 * (γ - 1) + k - γ * ω
def denom3 (γ k ω : ℝ) : ℝ := k * (2 - γ) - ω
def a0 (k ω : ℝ) : ℝ := 2 / (k + 2 - ω)
def a2 (γ k ω : ℝ) : ℝ := -(γ - 1) / (2 * (γ - 1) + k - γ * ω)
def a1 (γ k ω : ℝ) : ℝ :=
  (k + 2 - ω) * γ / (2 + k * (γ - 1)) * (2 * (k * (2 - γ) - ω) / (γ * (k + 2 - ω) * (k + 2 - ω)) - a2 γ k ω)
def a3 (γ k ω : ℝ) : ℝ := (k - ω) / (2 * (γ - 1) + k - γ * ω)
def a4 (γ k ω : ℝ) : ℝ := (k + 2 - ω) * (k - ω) * a1 γ k ω / (k * (2 - γ) - ω)
def a5 (γ k ω : ℝ) : ℝ := (ω * (γ + 1) - 2 * k) / (k * (2 - γ) - ω)
def a_val (γ k ω : ℝ) : ℝ := 1 / 4 * (k + 2 - ω) * (γ + 1)
def b_val (γ : ℝ) : ℝ := (γ + 1) / (γ - 1)
def c_val (γ k ω : ℝ) : ℝ := 1 / 2 * (k + 2 - ω) * γ
def d_val (γ k ω : ℝ) : ℝ := (k + 2 - ω) * (γ + 1) / ((k + 2 - ω) * (γ + 1) - 2 * (2 + k * (γ - 1)))
def e_val (γ k : ℝ) : ℝ := 1 / 2 * (2 + k * (γ - 1))

end K

/-- the constants of the generated model SedovFuncs (special_singularity none) are those of `__init__` -/
structure StdConsts (p : SedovFuncs.P) (γ k ω : ℝ) : Prop where
  geometry : p.geometry = k
  omega : p.omega = ω
  xg2 : p.xg2 = k + 2 - ω
  gamp1 : p.gamp1 = γ + 1
  gpogm : p.gpogm = (γ + 1) / (γ - 1)
  a0 : p.a0 = K.a0 k ω
  a1 : p.a1 = K.a1 γ k ω
  a2 : p.a2 = K.a2 γ k ω
  a3 : p.a3 = K.a3 γ k ω
  a4 : p.a4 = K.a4 γ k ω
  a5 : p.a5 = K.a5 γ k ω
  a_val : p.a_val = K.a_val γ k ω
  b_val : p.b_val = K.b_val γ
  c_val : p.c_val = K.c_val γ k ω
  d_val : p.d_val = K.d_val γ k ω
  e_val : p.e_val = K.e_val γ k

/-- the same for SedovFuncsO2 (special_singularity omega2: the branch reads a0, a5 and the combinations) -/
structure O2Consts (p : SedovFuncsO2.P) (γ k ω : ℝ) : Prop where
  geometry : p.geometry = k
  omega : p.omega = ω
  gamma : p.gamma = γ
  gamm1 : p.gamm1 = γ - 1
  xg2 : p.xg2 = k + 2 - ω
  gamp1 : p.gamp1 = γ + 1
  gpogm : p.gpogm = (γ + 1) / (γ - 1)
  a0 : p.a0 = K.a0 k ω
  a5 : p.a5 = K.a5 γ k ω
  a_val : p.a_val = K.a_val γ k ω
  b_val : p.b_val = K.b_val γ
  c_val : p.c_val = K.c_val γ k ω
  e_val : p.e_val = K.e_val γ k

/-- the same for SedovFuncsO3 (special_singularity omega3: the branch reads a0…a3 and the combinations) -/
structure O3Consts (p : SedovFuncsO3.P) (γ k ω : ℝ) : Prop where
  geometry : p.geometry = k
  omega : p.omega = ω
  gamma : p.gamma = γ
  gamm1 : p.gamm1 = γ - 1
  xg2 : p.xg2 = k + 2 - ω
  gamp1 : p.gamp1 = γ + 1
  gpogm : p.gpogm = (γ + 1) / (γ - 1)
  a0 : p.a0 = K.a0 k ω
  a1 : p.a1 = K.a1 γ k ω
  a2 : p.a2 = K.a2 γ k ω
  a3 : p.a3 = K.a3 γ k ω
  a_val : p.a_val = K.a_val γ k ω
  b_val : p.b_val = K.b_val γ
  c_val : p.c_val = K.c_val γ k ω
  e_val : p.e_val = K.e_val γ k

/-! ### Tie to the traced constructor (generated model SedovConsts) -/

/-- pins: the decisions of the traced constructor (same trace as SedovInit).  The NUMBERING is part of these
statements (a reordering of the constructor's checks renumbers the conditions and falsifies them); the form of
each test is not: the proofs compare up to normalisation (`epv_semi_bridge_cond`). -/
theorem consts_c0 (p : SedovConsts.P) : SedovConsts.c0 p ↔ p.geometry = 1 := by epv_semi_bridge_cond
theorem consts_c2 (p : SedovConsts.P) : SedovConsts.c2 p ↔ p.geometry = 2 := by epv_semi_bridge_cond
theorem consts_c3 (p : SedovConsts.P) : SedovConsts.c3 p ↔ p.geometry = 3 := by epv_semi_bridge_cond
theorem consts_c1 (p : SedovConsts.P) : SedovConsts.c1 p ↔ p.gamma < 1 := by epv_semi_bridge_cond
theorem consts_c4 (p : SedovConsts.P) : SedovConsts.c4 p ↔ p.rho0 < 0 := by epv_semi_bridge_cond
theorem consts_c5 (p : SedovConsts.P) : SedovConsts.c5 p ↔ p.eblast < 0 := by epv_semi_bridge_cond
theorem consts_c6 (p : SedovConsts.P) : SedovConsts.c6 p ↔ p.omega < 0 := by epv_semi_bridge_cond
theorem consts_c7 (p : SedovConsts.P) : SedovConsts.c7 p ↔ p.geometry ≤ p.omega := by epv_semi_bridge_cond
/-- `abs(v2 - vstar) <= osmall`: singular solution type -/
theorem consts_c8 (p : SedovConsts.P) : SedovConsts.c8 p ↔
    |4 / ((p.geometry + 2 - p.omega) * (p.gamma + 1)) - 2 / ((p.gamma - 1) * p.geometry + 2)| ≤ 1 / 10000 := by
  epv_semi_bridge_cond
/-- `abs(denom2) <= osmall`: special singularity omega2 -/
theorem consts_c9 (p : SedovConsts.P) : SedovConsts.c9 p ↔ |K.denom2 p.gamma p.geometry p.omega| ≤ 1 / 10000 := by
  first
  | exact Iff.rfl
  | (simp only [epv_cond, K.denom2] <;>
     first
     | (ring_nf; done)
     | (constructor <;> intro h <;> ring_nf at h ⊢ <;> exact h))
/-- `abs(denom3) <= osmall` (tested only when the omega2 test failed): special singularity omega3 -/
theorem consts_c12 (p : SedovConsts.P) : SedovConsts.c12 p ↔ |K.denom3 p.gamma p.geometry p.omega| ≤ 1 / 10000 := by
  first
  | exact Iff.rfl
  | (simp only [epv_cond, K.denom3] <;>
     first
     | (ring_nf; done)
     | (constructor <;> intro h <;> ring_nf at h ⊢ <;> exact h))

/-- what the constructor's six checks let through (sedov.py:63-77) -/
structure AcceptedC (p : SedovConsts.P) : Prop where
  geo : p.geometry = 1 ∨ p.geometry = 2 ∨ p.geometry = 3
  gamma : ¬ p.gamma < 1
  rho0 : ¬ p.rho0 < 0
  eblast : ¬ p.eblast < 0
  omega0 : ¬ p.omega < 0
  omegak : ¬ p.geometry ≤ p.omega

set_option hygiene false in
/-- case split on the geometry; in each case decide, once, every condition along the spine of the traced tree that the
acceptance facts decide (`epv_semi_facts`: whatever its number, whatever the order of the constructor's checks) and
leave the facts in the context.  `hg : p.geometry = 1 | 2 | 3` is in scope afterwards. -/
macro "consts_geo " A:ident p:ident : tactic =>
  `(tactic| (have hAgamma := (AcceptedC.gamma $A)
             have hArho0 := (AcceptedC.rho0 $A)
             have hAeblast := (AcceptedC.eblast $A)
             have hAomega0 := (AcceptedC.omega0 $A)
             have hAomegak := (AcceptedC.omegak $A)
             rcases (AcceptedC.geo $A) with hg | hg | hg <;> epv_semi_facts (SedovConsts.outcome $p)))

/-- after `consts_geo`: unfold the tree-level definitions, prune the tree by the facts in the context, split what is
left (solution type) and run `tac` on every remaining leaf -/
macro "consts_leaves" " on " defs:Lean.Parser.Tactic.simpLemma,* " with " tac:tacticSeq : tactic =>
  `(tactic| (simp only [$defs,*, if_true, if_false]
             epv_semi_prune
             (try split_ifs) <;> ($tac)))

/-- the stub the real code hands to `sedov_funcs_standard`: the object's own attributes, as the
parameter record of the generated model SedovFuncs -/
def stdFuncs (q : SedovConsts.P) : SedovFuncs.P :=
  { a0 := SedovConsts.a0 q, a1 := SedovConsts.a1 q, a2 := SedovConsts.a2 q, a3 := SedovConsts.a3 q,
    a4 := SedovConsts.a4 q, a5 := SedovConsts.a5 q, a_val := SedovConsts.a_val q, b_val := SedovConsts.b_val q,
    c_val := SedovConsts.c_val q, d_val := SedovConsts.d_val q, e_val := SedovConsts.e_val q,
    gamp1 := SedovConsts.gamp1 q, geometry := q.geometry, gpogm := SedovConsts.gpogm q, omega := q.omega,
    xg2 := SedovConsts.xg2 q }
def o2Funcs (q : SedovConsts.P) : SedovFuncsO2.P :=
  { a0 := SedovConsts.a0 q, a5 := SedovConsts.a5 q, a_val := SedovConsts.a_val q, b_val := SedovConsts.b_val q,
    c_val := SedovConsts.c_val q, e_val := SedovConsts.e_val q, gamm1 := SedovConsts.gamm1 q, gamma := q.gamma,
    gamp1 := SedovConsts.gamp1 q, geometry := q.geometry, gpogm := SedovConsts.gpogm q, omega := q.omega,
    xg2 := SedovConsts.xg2 q }
def o3Funcs (q : SedovConsts.P) : SedovFuncsO3.P :=
  { a0 := SedovConsts.a0 q, a1 := SedovConsts.a1 q, a2 := SedovConsts.a2 q, a3 := SedovConsts.a3 q,
    a_val := SedovConsts.a_val q, b_val := SedovConsts.b_val q,
    c_val := SedovConsts.c_val q, e_val := SedovConsts.e_val q, gamm1 := SedovConsts.gamm1 q, gamma := q.gamma,
    gamp1 := SedovConsts.gamp1 q, geometry := q.geometry, gpogm := SedovConsts.gpogm q, omega := q.omega,
    xg2 := SedovConsts.xg2 q }

/-- the three `raise AttributeError` leaves of the traced tree (solution_type never assigned:
neither |v2 - vstar| ≤ s, nor v2 < vstar - s, nor v2 > vstar + s) are unreachable for real numbers -/
theorem consts_type_trichotomy (p : SedovConsts.P) :
    SedovConsts.c8 p ∨ SedovConsts.c10 p ∨ SedovConsts.c11 p := by
  by_cases h8 : SedovConsts.c8 p
  · exact Or.inl h8
  · right
    by_cases h10 : SedovConsts.c10 p
    · exact Or.inl h10
    · right
      simp only [epv_cond] at *
      epv_semi_abs_lin

/-- special_singularity none: every accepting path of the traced constructor returns the constants `K.*` -/
theorem consts_none (q : SedovConsts.P) (A : AcceptedC q) (h9 : ¬ SedovConsts.c9 q) (h12 : ¬ SedovConsts.c12 q) :
    StdConsts (stdFuncs q) q.gamma q.geometry q.omega := by
  have htri := consts_type_trichotomy q
  consts_geo A q
  all_goals
    refine ⟨rfl, rfl, ?_, ?_, ?_, ?_, ?_, ?_, ?_, ?_, ?_, ?_, ?_, ?_, ?_, ?_⟩ <;>
    · simp only [stdFuncs]
      consts_leaves on SedovConsts.xg2, SedovConsts.gamp1, SedovConsts.gpogm, SedovConsts.a0, SedovConsts.a1,
        SedovConsts.a2, SedovConsts.a3, SedovConsts.a4, SedovConsts.a5, SedovConsts.a_val, SedovConsts.b_val,
        SedovConsts.c_val, SedovConsts.d_val, SedovConsts.e_val, h9, h12 with
        first
        | (simp only [epv_leaf, K.a0, K.a1, K.a2, K.a3, K.a4, K.a5, K.a_val, K.b_val, K.c_val, K.d_val, K.e_val]; done)
        | (exfalso; rcases htri with h | h | h <;> contradiction)
        | (simp only [epv_leaf, K.a0, K.a1, K.a2, K.a3, K.a4, K.a5, K.a_val, K.b_val, K.c_val, K.d_val, K.e_val] <;> epv_semi_eq)

/-- special_singularity omega2 -/
theorem consts_omega2 (q : SedovConsts.P) (A : AcceptedC q) (h9 : SedovConsts.c9 q) :
    O2Consts (o2Funcs q) q.gamma q.geometry q.omega := by
  have htri := consts_type_trichotomy q
  consts_geo A q
  all_goals
    refine ⟨rfl, rfl, rfl, ?_, ?_, ?_, ?_, ?_, ?_, ?_, ?_, ?_, ?_⟩ <;>
    · simp only [o2Funcs]
      consts_leaves on SedovConsts.xg2, SedovConsts.gamm1, SedovConsts.gamp1, SedovConsts.gpogm, SedovConsts.a0,
        SedovConsts.a5, SedovConsts.a_val, SedovConsts.b_val, SedovConsts.c_val, SedovConsts.e_val, h9 with
        first
        | (simp only [epv_leaf, K.a0, K.a5, K.a_val, K.b_val, K.c_val, K.e_val]; done)
        | (exfalso; rcases htri with h | h | h <;> contradiction)
        | (simp only [epv_leaf, K.a0, K.a5, K.a_val, K.b_val, K.c_val, K.e_val] <;> epv_semi_eq)

/-- special_singularity omega3 -/
theorem consts_omega3 (q : SedovConsts.P) (A : AcceptedC q) (h9 : ¬ SedovConsts.c9 q) (h12 : SedovConsts.c12 q) :
    O3Consts (o3Funcs q) q.gamma q.geometry q.omega := by
  have htri := consts_type_trichotomy q
  consts_geo A q
  all_goals
    refine ⟨rfl, rfl, rfl, ?_, ?_, ?_, ?_, ?_, ?_, ?_, ?_, ?_, ?_, ?_, ?_⟩ <;>
    · simp only [o3Funcs]
      consts_leaves on SedovConsts.xg2, SedovConsts.gamm1, SedovConsts.gamp1, SedovConsts.gpogm, SedovConsts.a0,
        SedovConsts.a1, SedovConsts.a2, SedovConsts.a3, SedovConsts.a_val, SedovConsts.b_val, SedovConsts.c_val,
        SedovConsts.e_val, h9, h12 with
        first
        | (simp only [epv_leaf, K.a0, K.a1, K.a2, K.a3, K.a_val, K.b_val, K.c_val, K.e_val]; done)
        | (exfalso; rcases htri with h | h | h <;> contradiction)
        | (simp only [epv_leaf, K.a0, K.a1, K.a2, K.a3, K.a_val, K.b_val, K.c_val, K.e_val] <;> epv_semi_eq)

/-- the end points `__init__` computes (generated model SedovEnds) are the ones of the specification -/
theorem ends_eq (p : SedovEnds.P) :
    SedovEnds.v0 p = v0 p.gamma p.geometry p.omega ∧ SedovEnds.v2 p = v2 p.gamma p.geometry p.omega ∧
    SedovEnds.vstar p = vstar p.gamma p.geometry ∧ SedovEnds.vv p = vv p.geometry p.omega := by
  simp only [epv_tree, epv_leaf, v0, v2, vstar, vv] <;> epv_semi_conj

end

end EPV.Sedov
