/-
Lemmas for C19 (2-D steady Riemann problem): the closed forms coded in `compression_states` and
`expansion_states`, in clean variables, satisfy the oblique-shock and the isentropic-fan relations
of `EPV.Spec.Riemann2D`.  Nothing here mentions the generated models.
-/
import EPV.Spec.Riemann2D

set_option linter.all false

namespace EPV.Spec.Riemann2D

noncomputable section

/-- `compression_states`/`expansion_states` recompute the Mach number from the velocity components
they have just built from it: M₀' = √((u₀² + v₀²)/(γ p₀/ρ₀)) = M₀ -/
theorem recomputed_mach (M c2 θ : ℝ) (hM : 0 ≤ M) (hc : 0 < c2) :
    Real.sqrt (((M * Real.sqrt c2 * Real.cos θ) ^ (2 : ℝ) + (M * Real.sqrt c2 * Real.sin θ) ^ (2 : ℝ)) / c2) = M := by
  rw [Real.rpow_two, Real.rpow_two]
  have h1 : (M * Real.sqrt c2 * Real.cos θ) ^ 2 + (M * Real.sqrt c2 * Real.sin θ) ^ 2
      = M ^ 2 * c2 * (Real.sin θ ^ 2 + Real.cos θ ^ 2) := by
    have := Real.sq_sqrt hc.le
    calc _ = M ^ 2 * Real.sqrt c2 ^ 2 * (Real.sin θ ^ 2 + Real.cos θ ^ 2) := by ring
      _ = _ := by rw [this]
  rw [h1, Real.sin_sq_add_cos_sq, mul_one, mul_div_assoc, div_self hc.ne', mul_one, Real.sqrt_sq hM]

/-- numerator and denominator of the Rankine–Hugoniot density ratio for pressure ratio α -/
def rhoNum (γ α : ℝ) : ℝ := (γ + 1) * α + γ - 1
def rhoDen (γ α : ℝ) : ℝ := (γ - 1) * α + γ + 1

section core
/-! the algebra, with U = un₀², S = s² and N, D kept as atoms until denominators are cleared -/
variable (γ p₀ ρ₀ M α U S N D : ℝ)

theorem core_decomp (hγ : γ ≠ 0) (hρ : ρ₀ ≠ 0) (hN0 : N ≠ 0)
    (hU : U = γ * p₀ / ρ₀ * N / (2 * γ)) (hS : S = 2 * γ * M ^ 2 / N - 1) :
    U + U * S = M ^ 2 * (γ * p₀ / ρ₀) := by
  rw [hU, hS]
  field_simp
  ring

theorem core_speed (hγ : γ ≠ 0) (hρ : ρ₀ ≠ 0) (hα : α ≠ 0) (hN0 : N ≠ 0) (hD0 : D ≠ 0)
    (hN : N = (γ + 1) * α + γ - 1) (hD : D = (γ - 1) * α + γ + 1)
    (hU : U = γ * p₀ / ρ₀ * N / (2 * γ)) (hS : S = 2 * γ * M ^ 2 / N - 1) :
    U * (D ^ 2 / N ^ 2 + S)
      = (M ^ 2 * N - 2 * (α ^ 2 - 1)) / α / D * (γ * (α * p₀) / (ρ₀ * N / D)) := by
  rw [hU, hS]
  field_simp
  rw [hN, hD]
  ring

theorem core_mom (hγ : γ ≠ 0) (hρ : ρ₀ ≠ 0) (hN0 : N ≠ 0) (hD0 : D ≠ 0)
    (hN : N = (γ + 1) * α + γ - 1) (hD : D = (γ - 1) * α + γ + 1)
    (hU : U = γ * p₀ / ρ₀ * N / (2 * γ)) :
    p₀ + ρ₀ * U = α * p₀ + ρ₀ * N / D * (U * (D ^ 2 / N ^ 2)) := by
  rw [hU]
  field_simp
  rw [hN, hD]
  ring

theorem core_energy (hγ : γ ≠ 0) (hγ1 : γ - 1 ≠ 0) (hρ : ρ₀ ≠ 0) (hN0 : N ≠ 0) (hD0 : D ≠ 0)
    (hN : N = (γ + 1) * α + γ - 1) (hD : D = (γ - 1) * α + γ + 1)
    (hU : U = γ * p₀ / ρ₀ * N / (2 * γ)) :
    γ / (γ - 1) * (p₀ / ρ₀) + U / 2
      = γ / (γ - 1) * (α * p₀ / (ρ₀ * N / D)) + U * (D ^ 2 / N ^ 2) / 2 := by
  rw [hU]
  field_simp
  rw [hN, hD]
  ring

theorem core_turn (s : ℝ) (hN0 : N ≠ 0) (hden : γ * M ^ 2 - α + 1 ≠ 0)
    (hN : N = (γ + 1) * α + γ - 1) (hD : D = (γ - 1) * α + γ + 1)
    (hS : s ^ 2 = 2 * γ * M ^ 2 / N - 1) :
    s * ((α - 1) / (γ * M ^ 2 - α + 1)) * (U * (s ^ 2 + D / N)) = U * (s * (1 - D / N)) := by
  rw [hS]
  field_simp
  rw [hN, hD]
  ring

end core

/-- **oblique shock**: the closed forms of `compression_states` — density ratio N/D, downstream
Mach number √((M²N - 2(α²-1))/α/D) and tan δ = √(2γM²/N - 1) (α-1)/(γM² - α + 1) — are the
Rankine–Hugoniot values of the oblique shock with pressure ratio α in a flow of Mach number M. -/
theorem obliqueShock_closed_forms (γ p₀ ρ₀ M α : ℝ) (hγ : 1 < γ) (hp : 0 < p₀) (hρ : 0 < ρ₀)
    (hα : 0 < α)
    (hatt : 0 ≤ 2 * γ * M ^ 2 / rhoNum γ α - 1)
    (hden : γ * M ^ 2 - α + 1 ≠ 0) :
    ObliqueShock γ p₀ ρ₀ (M * Real.sqrt (γ * p₀ / ρ₀)) (α * p₀) (ρ₀ * rhoNum γ α / rhoDen γ α)
      (Real.sqrt ((M ^ 2 * rhoNum γ α - 2 * (α ^ 2 - 1)) / α / rhoDen γ α)
        * Real.sqrt (γ * (α * p₀) / (ρ₀ * rhoNum γ α / rhoDen γ α)))
      (Real.sqrt (2 * γ * M ^ 2 / rhoNum γ α - 1) * ((α - 1) / (γ * M ^ 2 - α + 1))) := by
  have hNpos : 0 < rhoNum γ α := by unfold rhoNum; nlinarith
  have hDpos : 0 < rhoDen γ α := by unfold rhoDen; nlinarith
  have hNdef : rhoNum γ α = (γ + 1) * α + γ - 1 := rfl
  have hDdef : rhoDen γ α = (γ - 1) * α + γ + 1 := rfl
  generalize rhoNum γ α = N at *
  generalize rhoDen γ α = D at *
  have hγ0 : 0 < γ := by linarith
  have hγ1 : γ - 1 ≠ 0 := by linarith
  have hc2 : 0 < γ * p₀ / ρ₀ := by positivity
  have hu0 : 0 < γ * p₀ / ρ₀ * N / (2 * γ) := by positivity
  obtain ⟨un₀, hun0pos, hun0⟩ : ∃ u : ℝ, 0 < u ∧ u ^ 2 = γ * p₀ / ρ₀ * N / (2 * γ) :=
    ⟨Real.sqrt _, Real.sqrt_pos.mpr hu0, Real.sq_sqrt hu0.le⟩
  have hs : Real.sqrt (2 * γ * M ^ 2 / N - 1) ^ 2 = 2 * γ * M ^ 2 / N - 1 := Real.sq_sqrt hatt
  have hs0 : 0 ≤ Real.sqrt (2 * γ * M ^ 2 / N - 1) := Real.sqrt_nonneg _
  generalize Real.sqrt (2 * γ * M ^ 2 / N - 1) = s at *
  have hB : 0 < γ * (α * p₀) / (ρ₀ * N / D) := by positivity
  -- downstream speed squared
  have hq : (un₀ * D / N) ^ 2 + (un₀ * s) ^ 2
      = (M ^ 2 * N - 2 * (α ^ 2 - 1)) / α / D * (γ * (α * p₀) / (ρ₀ * N / D)) := by
    have e1 : (un₀ * D / N) ^ 2 + (un₀ * s) ^ 2 = un₀ ^ 2 * (D ^ 2 / N ^ 2 + s ^ 2) := by ring
    rw [e1]
    exact core_speed γ p₀ ρ₀ M α _ _ N D hγ0.ne' hρ.ne' hα.ne' hNpos.ne' hDpos.ne' hNdef hDdef hun0 hs
  have hA : 0 ≤ (M ^ 2 * N - 2 * (α ^ 2 - 1)) / α / D := by
    have h1 : 0 ≤ (un₀ * D / N) ^ 2 + (un₀ * s) ^ 2 := by positivity
    rw [hq] at h1
    exact nonneg_of_mul_nonneg_left h1 hB
  refine ⟨un₀, un₀ * s, un₀ * D / N, hun0pos, mul_nonneg hun0pos.le hs0, ?_, ?_, ?_, ?_, ?_, ?_⟩
  · rw [mul_pow, mul_pow, Real.sq_sqrt hc2.le]
    exact core_decomp γ p₀ ρ₀ M _ _ N hγ0.ne' hρ.ne' hNpos.ne' hun0 hs
  · rw [mul_pow (Real.sqrt _) (Real.sqrt _), Real.sq_sqrt hA, Real.sq_sqrt hB.le]
    exact hq
  · have := hNpos.ne'
    have := hDpos.ne'
    field_simp
  · have e2 : (un₀ * D / N) ^ 2 = un₀ ^ 2 * (D ^ 2 / N ^ 2) := by ring
    rw [e2]
    exact core_mom γ p₀ ρ₀ α _ N D hγ0.ne' hρ.ne' hNpos.ne' hDpos.ne' hNdef hDdef hun0
  · have e2 : (un₀ * D / N) ^ 2 = un₀ ^ 2 * (D ^ 2 / N ^ 2) := by ring
    rw [e2]
    exact core_energy γ p₀ ρ₀ α _ N D hγ0.ne' hγ1 hρ.ne' hNpos.ne' hDpos.ne' hNdef hDdef hun0
  · have e1 : (un₀ * s) ^ 2 + un₀ * (un₀ * D / N) = un₀ ^ 2 * (s ^ 2 + D / N) := by ring
    have e2 : un₀ * s * (un₀ - un₀ * D / N) = un₀ ^ 2 * (s * (1 - D / N)) := by ring
    rw [e1, e2]
    exact core_turn γ M α _ N D s hNpos.ne' hden hNdef hDdef hs

/-! ### expansion fan -/

/-- **isentropic fan state**: the closed forms of `expansion_states` — ρ = ρ₀ α^{1/γ} and
M² = ((γ-1)M₀²/2 + 1)/α^{(γ-1)/γ} - 1)·2/(γ-1) — lie on the isentrope through the upstream state
and have its total enthalpy. -/
theorem isentropic_closed_forms (γ p₀ ρ₀ M₀ α : ℝ) (hγ : 1 < γ) (hp : 0 < p₀) (hρ : 0 < ρ₀) (hα : 0 < α)
    (hM : 0 ≤ (((γ - 1) * M₀ ^ 2 / 2 + 1) / α ^ ((γ - 1) / γ) - 1) * 2 / (γ - 1)) :
    IsentropicState γ p₀ ρ₀ M₀ (α * p₀) (ρ₀ * α ^ (1 / γ))
      (Real.sqrt ((((γ - 1) * M₀ ^ 2 / 2 + 1) / α ^ ((γ - 1) / γ) - 1) * 2 / (γ - 1))) := by
  have hγ0 : 0 < γ := by linarith
  have hg1 : γ - 1 ≠ 0 := by linarith
  have ha1 : 0 < α ^ (1 / γ) := Real.rpow_pos_of_pos hα _
  have ha2 : 0 < α ^ ((γ - 1) / γ) := Real.rpow_pos_of_pos hα _
  have hpow : (α ^ (1 / γ)) ^ γ = α := by
    rw [← Real.rpow_mul hα.le, one_div, inv_mul_cancel₀ hγ0.ne', Real.rpow_one]
  have hsplit : α = α ^ (1 / γ) * α ^ ((γ - 1) / γ) := by
    rw [← Real.rpow_add hα]
    have : 1 / γ + (γ - 1) / γ = 1 := by field_simp; ring
    rw [this, Real.rpow_one]
  constructor
  · rw [Real.mul_rpow hρ.le ha1.le, hpow]
    have := Real.rpow_pos_of_pos hρ γ
    field_simp
  · rw [Real.sq_sqrt hM]
    generalize α ^ (1 / γ) = a at *
    generalize α ^ ((γ - 1) / γ) = b at *
    rw [hsplit]
    field_simp
    ring

/-- the form the property text uses: ρ/ρ₀ = (p/p₀)^{1/γ} and (1 + (γ-1)M²/2)(p/p₀)^{(γ-1)/γ} constant -/
theorem isentropic_text_form (γ M₀ α : ℝ) (hγ : 1 < γ) (hα : 0 < α)
    (hM : 0 ≤ (((γ - 1) * M₀ ^ 2 / 2 + 1) / α ^ ((γ - 1) / γ) - 1) * 2 / (γ - 1)) :
    (1 + (γ - 1) * Real.sqrt ((((γ - 1) * M₀ ^ 2 / 2 + 1) / α ^ ((γ - 1) / γ) - 1) * 2 / (γ - 1)) ^ 2 / 2)
        * α ^ ((γ - 1) / γ) = 1 + (γ - 1) * M₀ ^ 2 / 2 := by
  have hg1 : γ - 1 ≠ 0 := by linarith
  have ha2 : 0 < α ^ ((γ - 1) / γ) := Real.rpow_pos_of_pos hα _
  rw [Real.sq_sqrt hM]
  field_simp
  ring

/-! ### Prandtl–Meyer function -/

/-- the first term coded in `PrandtlMeyer_function`, μ arctan(√(M²-1)/μ) with μ = √((γ+1)/(γ-1)),
is the first term of the standard Prandtl–Meyer function -/
theorem pm_first_term (γ x : ℝ) (hγ : 1 < γ) :
    Real.sqrt x / Real.sqrt ((γ + 1) / (γ - 1)) = Real.sqrt ((γ - 1) / (γ + 1) * x) := by
  have h1 : 0 < (γ + 1) / (γ - 1) := by apply div_pos <;> linarith
  rw [← Real.sqrt_div' _ h1.le]
  congr 1
  have : γ - 1 ≠ 0 := by linarith
  have : γ + 1 ≠ 0 := by linarith
  field_simp

end

end EPV.Spec.Riemann2D
