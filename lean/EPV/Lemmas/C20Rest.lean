/-
Lemmas and tactics for the C20 constructor theorems of work package `c20rest`: reading the acceptance
predicate off a traced decision tree in time linear in the number of leaves (no `split_ifs`).
-/
import EPV.Support

set_option linter.all false

namespace EPV.Rest

/-- one level of a traced tree: `ok` is returned iff the branch taken returns `ok` -/
theorem ite_eq_ok_iff {c : Prop} [Decidable c] {X Y : EPV.Out} :
    (if c then X else Y) = EPV.Out.ok ↔ (c ∧ X = EPV.Out.ok) ∨ (¬c ∧ Y = EPV.Out.ok) := by
  by_cases h : c <;> simp [h]

theorem raise_eq_ok (s : String) : (EPV.Out.raise s = EPV.Out.ok) ↔ False := by simp
theorem nan_eq_ok : (EPV.Out.nan = EPV.Out.ok) ↔ False := by simp
theorem ok_eq_ok : (EPV.Out.ok = EPV.Out.ok) ↔ True := by simp

/-- one level of a traced tree: the exception `s` is raised iff the branch taken raises it -/
theorem ite_eq_raise_iff {c : Prop} [Decidable c] {X Y : EPV.Out} {s : String} :
    (if c then X else Y) = EPV.Out.raise s ↔ (c ∧ X = EPV.Out.raise s) ∨ (¬c ∧ Y = EPV.Out.raise s) := by
  by_cases h : c <;> simp [h]

theorem ok_eq_raise (s : String) : (EPV.Out.ok = EPV.Out.raise s) ↔ False := by simp

theorem ite_ok_or_raise {c : Prop} {inst : Decidable c} {s : String} {X Y : EPV.Out}
    (hX : X = EPV.Out.ok ∨ X = EPV.Out.raise s) (hY : Y = EPV.Out.ok ∨ Y = EPV.Out.raise s) :
    (@ite _ c inst X Y) = EPV.Out.ok ∨ (@ite _ c inst X Y) = EPV.Out.raise s := by
  by_cases h : c <;> simp [h, hX, hY]

/-- a set of exception names: every leaf of the tree is `ok` or raises one of them -/
def Loud (names : List String) (o : EPV.Out) : Prop := o = .ok ∨ ∃ s ∈ names, o = .raise s

theorem loud_ite {c : Prop} {inst : Decidable c} {names : List String} {X Y : EPV.Out}
    (hX : Loud names X) (hY : Loud names Y) : Loud names (@ite _ c inst X Y) := by
  by_cases h : c <;> simp [h, hX, hY]

theorem loud_ok {names : List String} : Loud names .ok := Or.inl rfl
theorem loud_raise {names : List String} {s : String} (h : s ∈ names) : Loud names (.raise s) :=
  Or.inr ⟨s, h, rfl⟩

/-- two candidate exception classes, one of them unreachable -/
theorem ok_or_raise_of_loud {o : EPV.Out} {s t : String} (h1 : Loud [s, t] o) (h2 : o ≠ .raise t) :
    o = .ok ∨ o = .raise s := by
  rcases h1 with h | ⟨u, hu, h⟩
  · exact Or.inl h
  · simp only [List.mem_cons, List.mem_nil_iff, or_false] at hu
    rcases hu with rfl | rfl
    · exact Or.inr h
    · exact absurd h h2

end EPV.Rest

/-- `outcome p = ok` as a propositional formula in the (still folded) path conditions `c_i p` -/
macro "rest_ok_formula" : tactic =>
  `(tactic| simp only [epv_tree, EPV.Rest.ite_eq_ok_iff, EPV.Rest.raise_eq_ok, EPV.Rest.nan_eq_ok, EPV.Rest.ok_eq_ok,
      and_false, false_and, or_false, false_or, and_true, true_and])

/-- every leaf of a constructor tree is `ok` or `raise s` -/
macro "rest_ok_or_raise" : tactic =>
  `(tactic| (simp only [epv_tree]
             repeat' (first | exact Or.inl rfl | exact Or.inr rfl | apply EPV.Rest.ite_ok_or_raise)))

/-- every leaf of a tree is `ok` or raises one of the listed exceptions -/
macro "rest_loud" : tactic =>
  `(tactic| (simp only [epv_tree]
             repeat' (first | exact EPV.Rest.loud_ok | exact EPV.Rest.loud_raise (by decide) | apply EPV.Rest.loud_ite)))

/-- the exception named in the goal `outcome p ≠ raise s` sits on leaves whose path conditions contradict each other
(linear arithmetic on the unfolded conditions) -/
macro "rest_unreachable" : tactic =>
  `(tactic| (intro h
             simp only [epv_tree, EPV.Rest.ite_eq_raise_iff, EPV.Rest.ok_eq_raise, EPV.Out.raise.injEq, String.reduceEq,
               and_false, false_and, or_false, false_or, and_true, true_and] at h
             simp only [epv_cond, not_le, not_lt] at h
             casesm* _ ∨ _, _ ∧ _ <;> linarith))
