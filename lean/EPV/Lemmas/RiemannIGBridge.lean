/-
C04 — bridge between the hand model of the ideal-gas Riemann driver
(`EPV.Model.RiemannIG`, instantiated over ℝ in `EPV.Lemmas.Riemann`, where each of its helper
formulas is proved equal to the generated model of the corresponding function of
`exactpack/solvers/riemann/utils.py`) and the normal forms of `EPV.Lemmas.RiemannIGWaves`,
`EPV.Lemmas.RiemannIGFan`.

* `m_*_nf`: every helper of the hand model, over ℝ, *is* the normal form;
* `stL`, `stR`, `starLS`, `starLF`, `starRS`, `starRF`: the constant states of the solution as
  `Spec.State`s; `uxS`, `uxF`: the star velocity as the driver computes it (from the LEFT wave);
* `*_root`: what `X_call px = 0` says — the star velocity computed from the left wave is the
  one the right wave gives;
* one-sided facts in the form the abstract theorem consumes: Rankine–Hugoniot at the two
  shocks, fan head/tail states, fan regions are good, and the ordering of the wave speeds.
-/
import EPV.Lemmas.Riemann
import EPV.Lemmas.RiemannIGFan
set_option linter.all false
namespace EPV.C04
open EPV.Riem EPV.Model EPV.Spec EPV.Conservation Set
noncomputable section

/-- hand-model state (p, ρ, u, e) → specification state -/
def toSpec (s : RiemannIG.State ℝ) : Spec.State := ⟨s.r, s.u, s.p, s.e⟩

theorem m_sie_nf (p ρ γ : ℝ) : RiemannIG.sie p ρ γ = igSie γ p ρ := by
  simp only [RiemannIG.sie, igSie, num_ofNat]; norm_num
theorem m_sound_nf (p ρ γ : ℝ) : RiemannIG.soundSpeed p ρ γ = Real.sqrt (γ * p / ρ) := by
  simp only [RiemannIG.soundSpeed, num_sqrt]
theorem m_shock_nf (px p ρ u γ : ℝ) : RiemannIG.shock px p ρ u γ = (px - p) * shockS γ p ρ px + u := by
  simp only [RiemannIG.shock, shockS, num_ofNat, num_sqrt]; norm_num
theorem m_rare_nf (px p ρ u γ : ℝ) :
    RiemannIG.rarefaction px p ρ u γ = rareDu γ (Real.sqrt (γ * p / ρ)) p px + u := by
  simp only [RiemannIG.rarefaction, RiemannIG.soundSpeed, rareDu, fanPi, num_ofNat, num_sqrt, num_pow]; norm_num
theorem m_rhoShock_nf (px p ρ γ : ℝ) : RiemannIG.rhoStarShock px p ρ γ = shockRho γ p ρ px := by
  simp only [RiemannIG.rhoStarShock, shockRho, num_ofNat]; norm_num
theorem m_rhoRare_nf (px p ρ γ : ℝ) : RiemannIG.rhoStarRarefaction px p ρ γ = rareRho γ p ρ px := by
  simp only [RiemannIG.rhoStarRarefaction, rareRho, num_ofNat, num_pow]; norm_num

theorem isLeft_left (q : Prob) : RiemannIG.isLeft (toData q) q.pl q.rl q.ul = true := by
  simp [RiemannIG.isLeft, toData]
theorem isLeft_right (q : Prob) (hd : q.Distinct) : RiemannIG.isLeft (toData q) q.pr q.rr q.ur = false := by
  unfold Prob.Distinct at hd
  simp only [RiemannIG.isLeft, toData, num_beq]
  by_cases h0 : q.pr = q.pl <;> by_cases h1 : q.ur = q.ul <;> by_cases h2 : q.rr = q.rl
  · exact absurd ⟨h0, h1, h2⟩ hd
  all_goals simp [h0, h1, h2]

theorem m_shockVel_left (q : Prob) (px : ℝ) :
    RiemannIG.shockVelocity (toData q) px q.pl q.rl q.ul q.gl = q.ul + (-1) * shockW q.gl q.pl q.rl px := by
  simp only [RiemannIG.shockVelocity, isLeft_left, RiemannIG.soundSpeed, shockW, num_ofNat, num_sqrt, if_true]
  norm_num
theorem m_shockVel_right (q : Prob) (hd : q.Distinct) (px : ℝ) :
    RiemannIG.shockVelocity (toData q) px q.pr q.rr q.ur q.gr = q.ur + 1 * shockW q.gr q.pr q.rr px := by
  simp only [RiemannIG.shockVelocity, isLeft_right q hd, RiemannIG.soundSpeed, shockW, num_ofNat, num_sqrt]
  norm_num

theorem m_fan_left (q : Prob) (x xd0 t : ℝ) :
    toSpec (RiemannIG.fanState (toData q) q.pl q.rl q.ul q.gl x xd0 t)
      = fanState 1 q.gl (Real.sqrt (q.gl * q.pl / q.rl)) q.pl q.rl q.ul ((x - xd0) / t) := by
  simp only [toSpec, RiemannIG.fanState, isLeft_left, RiemannIG.soundSpeed, m_sie_nf, fanState, fanRho, fanP,
    fanV, fanY, num_ofNat, num_sqrt, num_pow, if_true]
  norm_num
theorem m_fan_right (q : Prob) (hd : q.Distinct) (x xd0 t : ℝ) :
    toSpec (RiemannIG.fanState (toData q) q.pr q.rr q.ur q.gr x xd0 t)
      = fanState (-1) q.gr (Real.sqrt (q.gr * q.pr / q.rr)) q.pr q.rr q.ur ((x - xd0) / t) := by
  simp only [toSpec, RiemannIG.fanState, isLeft_right q hd, RiemannIG.soundSpeed, m_sie_nf, fanState, fanRho, fanP,
    fanV, fanY, num_ofNat, num_sqrt, num_pow]
  norm_num

/-- undisturbed left and right states -/
def stL (q : Prob) : Spec.State := ⟨q.rl, q.ul, q.pl, igSie q.gl q.pl q.rl⟩
def stR (q : Prob) : Spec.State := ⟨q.rr, q.ur, q.pr, igSie q.gr q.pr q.rr⟩
/-- sound speeds of the undisturbed states -/
def aL (q : Prob) : ℝ := Real.sqrt (q.gl * q.pl / q.rl)
def aR (q : Prob) : ℝ := Real.sqrt (q.gr * q.pr / q.rr)

@[simp] theorem toData_pl (q : Prob) : (toData q).pl = q.pl := rfl
@[simp] theorem toData_rl (q : Prob) : (toData q).rl = q.rl := rfl
@[simp] theorem toData_ul (q : Prob) : (toData q).ul = q.ul := rfl
@[simp] theorem toData_gl (q : Prob) : (toData q).gl = q.gl := rfl
@[simp] theorem toData_pr (q : Prob) : (toData q).pr = q.pr := rfl
@[simp] theorem toData_rr (q : Prob) : (toData q).rr = q.rr := rfl
@[simp] theorem toData_ur (q : Prob) : (toData q).ur = q.ur := rfl
@[simp] theorem toData_gr (q : Prob) : (toData q).gr = q.gr := rfl

theorem leftState_nf (q : Prob) : toSpec (RiemannIG.leftState (toData q)) = stL q := by
  simp only [toSpec, RiemannIG.leftState, m_sie_nf, stL, toData]
theorem rightState_nf (q : Prob) : toSpec (RiemannIG.rightState (toData q)) = stR q := by
  simp only [toSpec, RiemannIG.rightState, m_sie_nf, stR, toData]

/-- star velocity behind a left shock / a left fan, as the driver computes it -/
def uxS (q : Prob) (px : ℝ) : ℝ := q.ul + (-1) * ((px - q.pl) * shockS q.gl q.pl q.rl px)
def uxF (q : Prob) (px : ℝ) : ℝ := q.ul + 1 * rareDu q.gl (aL q) q.pl px

theorem reg_iff {xd0 t V x : ℝ} (ht : 0 < t) : xd0 + t * V ≤ x ↔ V ≤ (x - xd0) / t := by
  rw [le_div_iff₀ ht]
  constructor <;> intro h <;> linarith

/-- star states -/
def starLS (q : Prob) (px : ℝ) : Spec.State :=
  ⟨shockRho q.gl q.pl q.rl px, uxS q px, px, igSie q.gl px (shockRho q.gl q.pl q.rl px)⟩
def starRS (q : Prob) (u px : ℝ) : Spec.State :=
  ⟨shockRho q.gr q.pr q.rr px, u, px, igSie q.gr px (shockRho q.gr q.pr q.rr px)⟩

def starLF (q : Prob) (px : ℝ) : Spec.State :=
  ⟨rareRho q.gl q.pl q.rl px, uxF q px, px, igSie q.gl px (rareRho q.gl q.pl q.rl px)⟩
def starRF (q : Prob) (u px : ℝ) : Spec.State :=
  ⟨rareRho q.gr q.pr q.rr px, u, px, igSie q.gr px (rareRho q.gr q.pr q.rr px)⟩

theorem lt_reg {xd0 t V a : ℝ} (ht : 0 < t) (h : a < xd0 + t * V) : (a - xd0) / t ≤ V := by
  rw [div_le_iff₀ ht]; linarith
theorem reg_lt {xd0 t V b : ℝ} (ht : 0 < t) (h : xd0 + t * V < b) : V ≤ (b - xd0) / t := by
  rw [le_div_iff₀ ht]; linarith

/-! ### the star velocity and star states of the hand model -/

theorem m_ux_S (q : Prob) (px : ℝ) (pat : RiemannIG.Pattern) (h : pat = .SCS ∨ pat = .SCR) :
    RiemannIG.ux (toData q) pat px = uxS q px := by
  rcases h with rfl | rfl <;>
    simp only [RiemannIG.ux, m_shock_nf, uxS, toData_pl, toData_rl, toData_ul, toData_gl, num_ofNat] <;>
    norm_num
theorem m_ux_F (q : Prob) (px : ℝ) (pat : RiemannIG.Pattern) (h : pat = .RCS ∨ pat = .RCR) :
    RiemannIG.ux (toData q) pat px = uxF q px := by
  rcases h with rfl | rfl <;>
    simp only [RiemannIG.ux, m_rare_nf, uxF, aL, toData_pl, toData_rl, toData_ul, toData_gl, num_ofNat] <;>
    norm_num

theorem m_starL_S (q : Prob) (px : ℝ) (pat : RiemannIG.Pattern) (h : pat = .SCS ∨ pat = .SCR) :
    toSpec (RiemannIG.starL (toData q) pat px) = starLS q px := by
  have hu := m_ux_S q px pat h
  rcases h with rfl | rfl <;>
    simp only [toSpec, RiemannIG.starL, hu, RiemannIG.rx1, m_sie_nf, m_rhoShock_nf, starLS,
      toData_pl, toData_rl, toData_gl]
theorem m_starL_F (q : Prob) (px : ℝ) (pat : RiemannIG.Pattern) (h : pat = .RCS ∨ pat = .RCR) :
    toSpec (RiemannIG.starL (toData q) pat px) = starLF q px := by
  have hu := m_ux_F q px pat h
  rcases h with rfl | rfl <;>
    simp only [toSpec, RiemannIG.starL, hu, RiemannIG.rx1, m_sie_nf, m_rhoRare_nf, starLF,
      toData_pl, toData_rl, toData_gl]
theorem m_starR_S (q : Prob) (px : ℝ) (pat : RiemannIG.Pattern) (h : pat = .SCS ∨ pat = .RCS) :
    toSpec (RiemannIG.starR (toData q) pat px) = starRS q (RiemannIG.ux (toData q) pat px) px := by
  rcases h with rfl | rfl <;>
    simp only [toSpec, RiemannIG.starR, RiemannIG.rx2, m_sie_nf, m_rhoShock_nf, starRS,
      toData_pr, toData_rr, toData_gr]
theorem m_starR_F (q : Prob) (px : ℝ) (pat : RiemannIG.Pattern) (h : pat = .SCR ∨ pat = .RCR) :
    toSpec (RiemannIG.starR (toData q) pat px) = starRF q (RiemannIG.ux (toData q) pat px) px := by
  rcases h with rfl | rfl <;>
    simp only [toSpec, RiemannIG.starR, RiemannIG.rx2, m_sie_nf, m_rhoRare_nf, starRF,
      toData_pr, toData_rr, toData_gr]

/-! ### what `X_call px = 0` says -/

theorem scs_root {q : Prob} {px : ℝ} (hroot : Riem.SCS q px = 0) :
    uxS q px = q.ur + 1 * ((px - q.pr) * shockS q.gr q.pr q.rr px) := by
  rw [SCS_eq, shock_eq, shock_eq] at hroot
  simp only [uxS, shockS]
  linarith
theorem scr_root {q : Prob} {px : ℝ} (hroot : Riem.SCR q px = 0) :
    uxS q px = q.ur + (-1) * rareDu q.gr (aR q) q.pr px := by
  rw [SCR_eq, shock_eq, rare_eq] at hroot
  simp only [uxS, shockS, rareDu, fanPi, aR]
  linarith
theorem rcs_root {q : Prob} {px : ℝ} (hroot : Riem.RCS q px = 0) :
    uxF q px = q.ur + 1 * ((px - q.pr) * shockS q.gr q.pr q.rr px) := by
  rw [RCS_eq, shock_eq, rare_eq] at hroot
  simp only [uxF, shockS, rareDu, fanPi, aL]
  linarith
theorem rcr_root {q : Prob} {px : ℝ} (hroot : Riem.RCR q px = 0) :
    uxF q px = q.ur + (-1) * rareDu q.gr (aR q) q.pr px := by
  rw [RCR_eq, rare_eq, rare_eq] at hroot
  simp only [uxF, rareDu, fanPi, aL, aR]
  linarith

/-! ### one-sided facts -/

theorem aL_pos {q : Prob} (hq : q.Admissible) : 0 < aL q := by
  obtain ⟨hpl, hrl, hgl, -, -, -⟩ := hq
  exact Real.sqrt_pos.mpr (by have : 0 < q.gl := by linarith
                              positivity)
theorem aR_pos {q : Prob} (hq : q.Admissible) : 0 < aR q := by
  obtain ⟨-, -, -, hpr, hrr, hgr⟩ := hq
  exact Real.sqrt_pos.mpr (by have : 0 < q.gr := by linarith
                              positivity)
theorem aL_sq {q : Prob} (hq : q.Admissible) : aL q ^ 2 = q.gl * q.pl / q.rl := by
  obtain ⟨hpl, hrl, hgl, -, -, -⟩ := hq
  exact Real.sq_sqrt (by have : 0 < q.gl := by linarith
                         positivity)
theorem aR_sq {q : Prob} (hq : q.Admissible) : aR q ^ 2 = q.gr * q.pr / q.rr := by
  obtain ⟨-, -, -, hpr, hrr, hgr⟩ := hq
  exact Real.sq_sqrt (by have : 0 < q.gr := by linarith
                         positivity)

/-- left shock: Rankine–Hugoniot between the left state and the left star state -/
theorem leftShock_rh {q : Prob} (hq : q.Admissible) {px : ℝ} (hpx : 0 < px) :
    RankineHugoniot (stL q) (starLS q px) (q.ul + (-1) * shockW q.gl q.pl q.rl px) :=
  shock_rankineHugoniot (Or.inr rfl) hq.2.2.1 hq.1 hq.2.1 hpx
/-- right shock: Rankine–Hugoniot between the right star state and the right state -/
theorem rightShock_rh {q : Prob} (hq : q.Admissible) {px u : ℝ} (hpx : 0 < px)
    (hu : u = q.ur + 1 * ((px - q.pr) * shockS q.gr q.pr q.rr px)) :
    RankineHugoniot (starRS q u px) (stR q) (q.ur + 1 * shockW q.gr q.pr q.rr px) := by
  subst hu
  exact rankineHugoniot_symm (shock_rankineHugoniot (Or.inl rfl) hq.2.2.2.2.2 hq.2.2.2.1 hq.2.2.2.2.1 hpx)
theorem leftShock_order {q : Prob} (hq : q.Admissible) {px : ℝ} (hpx : 0 < px) :
    q.ul + (-1) * shockW q.gl q.pl q.rl px ≤ uxS q px := by
  have := shock_order hq.2.2.1 hq.1 hq.2.1 hpx
  simp only [uxS]; linarith
theorem rightShock_order {q : Prob} (hq : q.Admissible) {px u : ℝ} (hpx : 0 < px)
    (hu : u = q.ur + 1 * ((px - q.pr) * shockS q.gr q.pr q.rr px)) :
    u ≤ q.ur + 1 * shockW q.gr q.pr q.rr px := by
  have := shock_order hq.2.2.2.2.2 hq.2.2.2.1 hq.2.2.2.2.1 hpx
  rw [hu]; linarith

/-- the left fan as a function of ξ -/
def fanL (q : Prob) : ℝ → Spec.State := fanState 1 q.gl (aL q) q.pl q.rl q.ul
/-- the right fan as a function of ξ -/
def fanR (q : Prob) : ℝ → Spec.State := fanState (-1) q.gr (aR q) q.pr q.rr q.ur

/-- sound speed behind the left / right fan, as the driver computes it -/
theorem m_ax1 (q : Prob) (hq : q.Admissible) {px : ℝ} (hpx : 0 < px) :
    RiemannIG.soundSpeed px (RiemannIG.rhoStarRarefaction px q.pl q.rl q.gl) q.gl = aL q * fanPi q.gl q.pl px := by
  rw [m_sound_nf, m_rhoRare_nf]
  exact fan_star_sound hq.2.2.1 (aL_pos hq) (aL_sq hq) hq.1 hq.2.1 hpx
theorem m_ax2 (q : Prob) (hq : q.Admissible) {px : ℝ} (hpx : 0 < px) :
    RiemannIG.soundSpeed px (RiemannIG.rhoStarRarefaction px q.pr q.rr q.gr) q.gr = aR q * fanPi q.gr q.pr px := by
  rw [m_sound_nf, m_rhoRare_nf]
  exact fan_star_sound hq.2.2.2.2.2 (aR_pos hq) (aR_sq hq) hq.2.2.2.1 hq.2.2.2.2.1 hpx

theorem fanL_head {q : Prob} (hq : q.Admissible) : fanL q (q.ul - aL q) = stL q := by
  have := fan_head 1 q.gl (aL q) q.pl q.rl q.ul (Or.inl rfl) hq.2.2.1 (aL_pos hq)
  rw [one_mul] at this
  exact this
theorem fanL_tail {q : Prob} (hq : q.Admissible) {px : ℝ} (hpx : 0 < px) :
    fanL q (uxF q px - aL q * fanPi q.gl q.pl px) = starLF q px := by
  have := fan_tail 1 q.gl (aL q) q.pl q.rl q.ul px (Or.inl rfl) hq.2.2.1 (aL_pos hq) hq.1 hpx
  rw [one_mul (aL q * _)] at this
  exact this
theorem fanR_head {q : Prob} (hq : q.Admissible) : fanR q (q.ur + aR q) = stR q := by
  have := fan_head (-1) q.gr (aR q) q.pr q.rr q.ur (Or.inr rfl) hq.2.2.2.2.2 (aR_pos hq)
  have e : q.ur - -1 * aR q = q.ur + aR q := by ring
  rw [e] at this
  exact this
theorem fanR_tail {q : Prob} (hq : q.Admissible) {px u : ℝ} (hpx : 0 < px)
    (hu : u = q.ur + (-1) * rareDu q.gr (aR q) q.pr px) :
    fanR q (u + aR q * fanPi q.gr q.pr px) = starRF q u px := by
  have := fan_tail (-1) q.gr (aR q) q.pr q.rr q.ur px (Or.inr rfl) hq.2.2.2.2.2 (aR_pos hq) hq.2.2.2.1 hpx
  have e : q.ur + -1 * rareDu q.gr (aR q) q.pr px - -1 * (aR q * fanPi q.gr q.pr px)
      = u + aR q * fanPi q.gr q.pr px := by rw [hu]; ring
  rw [e, ← hu] at this
  exact this

theorem fanL_order {q : Prob} (hq : q.Admissible) {px : ℝ} (hpx : 0 < px) (h : px ≤ q.pl) :
    q.ul - aL q ≤ uxF q px - aL q * fanPi q.gl q.pl px := by
  have := fan_order 1 q.gl (aL q) q.pl q.ul px (Or.inl rfl) hq.2.2.1 (aL_pos hq) hq.1 hpx h
  simp only [uxF]
  linarith
theorem fanR_order {q : Prob} (hq : q.Admissible) {px u : ℝ} (hpx : 0 < px) (h : px ≤ q.pr)
    (hu : u = q.ur + (-1) * rareDu q.gr (aR q) q.pr px) :
    u + aR q * fanPi q.gr q.pr px ≤ q.ur + aR q := by
  have := fan_order (-1) q.gr (aR q) q.pr q.ur px (Or.inr rfl) hq.2.2.2.2.2 (aR_pos hq) hq.2.2.2.1 hpx h
  rw [hu]
  linarith

theorem fanL_sgood {q : Prob} (hq : q.Admissible) {px : ℝ} (hpx : 0 < px) (h : px ≤ q.pl) :
    SGood (fanL q) (q.ul - aL q) (uxF q px - aL q * fanPi q.gl q.pl px) := by
  refine fan_sgood 1 q.gl (aL q) q.pl q.rl q.ul _ _ (Or.inl rfl) hq.2.2.1 (aL_pos hq) hq.2.1 (aL_sq hq)
    (fanL_order hq hpx h) ?_
  intro ξ hξ
  refine lt_of_lt_of_le (fanPi_pos (g := q.gl) hq.1 hpx)
    (fanY_ge 1 q.gl (aL q) q.pl q.ul px ξ (Or.inl rfl) hq.2.2.1 (aL_pos hq) ?_)
  have := hξ.2
  simp only [uxF] at this
  linarith
theorem fanR_sgood {q : Prob} (hq : q.Admissible) {px u : ℝ} (hpx : 0 < px) (h : px ≤ q.pr)
    (hu : u = q.ur + (-1) * rareDu q.gr (aR q) q.pr px) :
    SGood (fanR q) (u + aR q * fanPi q.gr q.pr px) (q.ur + aR q) := by
  refine fan_sgood (-1) q.gr (aR q) q.pr q.rr q.ur _ _ (Or.inr rfl) hq.2.2.2.2.2 (aR_pos hq) hq.2.2.2.2.1
    (aR_sq hq) (fanR_order hq hpx h hu) ?_
  intro ξ hξ
  refine lt_of_lt_of_le (fanPi_pos (g := q.gr) hq.2.2.2.1 hpx)
    (fanY_ge (-1) q.gr (aR q) q.pr q.ur px ξ (Or.inr rfl) hq.2.2.2.2.2 (aR_pos hq) ?_)
  have := hξ.1
  rw [hu] at this
  linarith

theorem m_fanL (q : Prob) (x xd0 t : ℝ) :
    toSpec (RiemannIG.fanState (toData q) q.pl q.rl q.ul q.gl x xd0 t) = fanL q ((x - xd0) / t) :=
  m_fan_left q x xd0 t
theorem m_fanR (q : Prob) (hd : q.Distinct) (x xd0 t : ℝ) :
    toSpec (RiemannIG.fanState (toData q) q.pr q.rr q.ur q.gr x xd0 t) = fanR q ((x - xd0) / t) :=
  m_fan_right q hd x xd0 t

end
end EPV.C04
