/-
Lemmas about the truncated rod series of the hand model (`EPV.Model.HeatSeries.rodSeries` read over ℝ):
derivatives of one mode, of the finite sum, the slopes of the static parts, the real-number form of the
coefficient formulas, and the trigonometric facts at the ends of the rod
(sin nπ = 0, cos((2n+1)π/2) = 0, sin((2n+1)π/2) = (-1)^n).
-/
import EPV.Spec.Heat

set_option linter.all false

open EPV EPV.Spec.Heat EPV.Model.HeatSeries Finset

namespace EPV.Lemmas.Heat

noncomputable section

/-! ### one mode -/

/-- x-derivative of a mode -/
theorem mode_hasDerivAt_x (A B k E y : ℝ) :
    HasDerivAt (fun y => (A * Real.cos (k * y) + B * Real.sin (k * y)) * E)
      ((-(A * k) * Real.sin (k * y) + B * k * Real.cos (k * y)) * E) y := by
  have h1 : HasDerivAt (fun y : ℝ => k * y) k y := by simpa using (hasDerivAt_id y).const_mul k
  have := ((h1.cos.const_mul A).add (h1.sin.const_mul B)).mul_const E
  refine this.congr_deriv ?_
  ring

/-- second x-derivative of a mode: `-k²` times the mode -/
theorem mode_hasDerivAt_xx (A B k E y : ℝ) :
    HasDerivAt (fun y => (-(A * k) * Real.sin (k * y) + B * k * Real.cos (k * y)) * E)
      (-(k * k) * ((A * Real.cos (k * y) + B * Real.sin (k * y)) * E)) y := by
  have h1 : HasDerivAt (fun y : ℝ => k * y) k y := by simpa using (hasDerivAt_id y).const_mul k
  have := ((h1.sin.const_mul (-(A * k))).add (h1.cos.const_mul (B * k))).mul_const E
  refine this.congr_deriv ?_
  ring

/-- t-derivative of a mode: `-κ k²` times the mode -/
theorem mode_hasDerivAt_t (C κ k t : ℝ) :
    HasDerivAt (fun s => C * Real.exp (-κ * (k * k) * s)) (-κ * (k * k) * (C * Real.exp (-κ * (k * k) * t))) t := by
  have h1 : HasDerivAt (fun s : ℝ => -κ * (k * k) * s) (-κ * (k * k)) t := by
    simpa using (hasDerivAt_id t).const_mul (-κ * (k * k))
  have := h1.exp.const_mul C
  refine this.congr_deriv ?_
  ring

/-! ### the truncated series in Mathlib form -/

/-- the series of `rodSeries_real` -/
def ser (N : ℕ) (κ : ℝ) (st : ℝ → ℝ) (k A B : ℕ → ℝ) (x t : ℝ) : ℝ :=
  (∑ n ∈ range N, (A n * Real.cos (k n * x) + B n * Real.sin (k n * x)) * Real.exp (-κ * (k n * k n) * t)) + st x

theorem rodSeries_eq_ser (N : ℕ) (κ : ℝ) (st : ℝ → ℝ) (k A B : ℕ → ℝ) :
    rodSeries N κ st k A B = ser N κ st k A B := by
  funext x t
  exact rodSeries_real N κ st k A B x t

/-- first x-derivative of the series -/
def serX (N : ℕ) (κ c1 : ℝ) (k A B : ℕ → ℝ) (x t : ℝ) : ℝ :=
  (∑ n ∈ range N, (-(A n * k n) * Real.sin (k n * x) + B n * k n * Real.cos (k n * x)) * Real.exp (-κ * (k n * k n) * t)) + c1

theorem ser_hasDerivAt_x (N : ℕ) (κ c1 : ℝ) (st : ℝ → ℝ) (hst : ∀ y, HasDerivAt st c1 y) (k A B : ℕ → ℝ) (x t : ℝ) :
    HasDerivAt (fun y => ser N κ st k A B y t) (serX N κ c1 k A B x t) x := by
  unfold ser serX
  refine HasDerivAt.add ?_ (hst x)
  exact HasDerivAt.fun_sum fun n _ => mode_hasDerivAt_x (A n) (B n) (k n) _ x

theorem serX_hasDerivAt_x (N : ℕ) (κ c1 : ℝ) (k A B : ℕ → ℝ) (x t : ℝ) :
    HasDerivAt (fun y => serX N κ c1 k A B y t)
      (∑ n ∈ range N, -(k n * k n) * ((A n * Real.cos (k n * x) + B n * Real.sin (k n * x)) * Real.exp (-κ * (k n * k n) * t))) x := by
  unfold serX
  refine HasDerivAt.add_const c1 ?_
  exact HasDerivAt.fun_sum fun n _ => mode_hasDerivAt_xx (A n) (B n) (k n) _ x

theorem ser_hasDerivAt_t (N : ℕ) (κ : ℝ) (st : ℝ → ℝ) (k A B : ℕ → ℝ) (x t : ℝ) :
    HasDerivAt (fun s => ser N κ st k A B x s)
      (∑ n ∈ range N, -κ * (k n * k n) * ((A n * Real.cos (k n * x) + B n * Real.sin (k n * x)) * Real.exp (-κ * (k n * k n) * t))) t := by
  unfold ser
  refine HasDerivAt.add_const (st x) ?_
  exact HasDerivAt.fun_sum fun n _ => mode_hasDerivAt_t _ κ (k n) t

theorem dx_ser (N : ℕ) (κ c1 : ℝ) (st : ℝ → ℝ) (hst : ∀ y, HasDerivAt st c1 y) (k A B : ℕ → ℝ) (x t : ℝ) :
    dx (ser N κ st k A B) x t = serX N κ c1 k A B x t :=
  (ser_hasDerivAt_x N κ c1 st hst k A B x t).deriv

/-! ### the five static parts have constant slope -/

theorem bc1Static_hasDerivAt (p : RodP ℝ) (y : ℝ) :
    HasDerivAt (bc1Static p) ((p.γ2 / p.α2 - p.γ1 / p.α1) / p.L) y := by
  have : bc1Static p = fun x => p.γ1 / p.α1 + (p.γ2 / p.α2 - p.γ1 / p.α1) * x / p.L := rfl
  rw [this]
  have := (((hasDerivAt_id y).const_mul (p.γ2 / p.α2 - p.γ1 / p.α1)).div_const p.L).const_add (p.γ1 / p.α1)
  simpa using this

theorem bc2Static_hasDerivAt (p : RodP ℝ) (y : ℝ) : HasDerivAt (bc2Static p) (p.γ1 / p.β1) y := by
  have : bc2Static p = fun x => p.γ1 / p.β1 * x := rfl
  rw [this]
  simpa using (hasDerivAt_id y).const_mul (p.γ1 / p.β1)

theorem bc3Static_hasDerivAt (p : RodP ℝ) (y : ℝ) : HasDerivAt (bc3Static p) (p.γ2 / p.β2) y := by
  have : bc3Static p = fun x => p.γ1 / p.α1 + p.γ2 / p.β2 * x := rfl
  rw [this]
  simpa using ((hasDerivAt_id y).const_mul (p.γ2 / p.β2)).const_add (p.γ1 / p.α1)

theorem bc4Static_hasDerivAt (p : RodP ℝ) (y : ℝ) : HasDerivAt (bc4Static p) (p.γ1 / p.β1) y := by
  have : bc4Static p = fun x => (p.γ2 / p.α2 - p.L * (p.γ1 / p.β1)) + p.γ1 / p.β1 * x := rfl
  rw [this]
  simpa using ((hasDerivAt_id y).const_mul (p.γ1 / p.β1)).const_add (p.γ2 / p.α2 - p.L * (p.γ1 / p.β1))

/-- slope of the static part of the general (Robin) case -/
def genSlope (p : RodP ℝ) : ℝ :=
  ((p.β2 / p.L * p.γ1 - p.β1 / p.L * p.γ2 + p.L * p.α1 * p.γ2) / (p.α1 * (p.β2 / p.L) - p.α2 * (p.β1 / p.L) + p.L * p.α1 * p.α2)
    - (p.β2 / p.L * p.γ1 - p.β1 / p.L * p.γ2 + p.L * p.α2 * p.γ1) / (p.α1 * (p.β2 / p.L) - p.α2 * (p.β1 / p.L) + p.L * p.α1 * p.α2)) / p.L

theorem genStatic_hasDerivAt (p : RodP ℝ) (y : ℝ) : HasDerivAt (genStatic p) (genSlope p) y := by
  have : genStatic p = fun x =>
      (p.β2 / p.L * p.γ1 - p.β1 / p.L * p.γ2 + p.L * p.α2 * p.γ1) / (p.α1 * (p.β2 / p.L) - p.α2 * (p.β1 / p.L) + p.L * p.α1 * p.α2)
      + ((p.β2 / p.L * p.γ1 - p.β1 / p.L * p.γ2 + p.L * p.α1 * p.γ2) / (p.α1 * (p.β2 / p.L) - p.α2 * (p.β1 / p.L) + p.L * p.α1 * p.α2)
        - (p.β2 / p.L * p.γ1 - p.β1 / p.L * p.γ2 + p.L * p.α2 * p.γ1) / (p.α1 * (p.β2 / p.L) - p.α2 * (p.β1 / p.L) + p.L * p.α1 * p.α2)) * x / p.L := rfl
  rw [this]
  unfold genSlope
  have := (((hasDerivAt_id y).const_mul ((p.β2 / p.L * p.γ1 - p.β1 / p.L * p.γ2 + p.L * p.α1 * p.γ2) / (p.α1 * (p.β2 / p.L) - p.α2 * (p.β1 / p.L) + p.L * p.α1 * p.α2)
        - (p.β2 / p.L * p.γ1 - p.β1 / p.L * p.γ2 + p.L * p.α2 * p.γ1) / (p.α1 * (p.β2 / p.L) - p.α2 * (p.β1 / p.L) + p.L * p.α1 * p.α2))).div_const p.L).const_add
        ((p.β2 / p.L * p.γ1 - p.β1 / p.L * p.γ2 + p.L * p.α2 * p.γ1) / (p.α1 * (p.β2 / p.L) - p.α2 * (p.β1 / p.L) + p.L * p.α1 * p.α2))
  simpa using this


/-! ### the coefficient formulas over ℝ -/

theorem zeroCoef_real (n : ℕ) : (zeroCoef n : ℝ) = 0 := by
  show ((0 : ℕ) : ℝ) = 0
  simp

theorem knInt_real (L : ℝ) (n : ℕ) : knInt L n = n * Real.pi / L := rfl

theorem knHalf_real (L : ℝ) (n : ℕ) : knHalf L n = (2 * (n : ℝ) + 1) * Real.pi / (2 * L) := by
  show ((2 * n + 1 : ℕ) : ℝ) * Real.pi / (((2 : ℕ) : ℝ) * L) = _
  push_cast
  ring

theorem bc1Static_real (p : RodP ℝ) (x : ℝ) :
    bc1Static p x = p.γ1 / p.α1 + (p.γ2 / p.α2 - p.γ1 / p.α1) * x / p.L := rfl
theorem bc2Static_real (p : RodP ℝ) (x : ℝ) : bc2Static p x = p.γ1 / p.β1 * x := rfl
theorem bc3Static_real (p : RodP ℝ) (x : ℝ) : bc3Static p x = p.γ1 / p.α1 + p.γ2 / p.β2 * x := rfl
theorem bc4Static_real (p : RodP ℝ) (x : ℝ) :
    bc4Static p x = (p.γ2 / p.α2 - p.L * (p.γ1 / p.β1)) + p.γ1 / p.β1 * x := rfl

theorem bc1B_real (p : RodP ℝ) (n : ℕ) :
    bc1B p n = if n = 0 then 0 else
      2 * (p.TL - p.γ1 / p.α1) * (1 - (-1) ^ n) / (n * Real.pi)
        + 2 * ((p.TL - p.γ1 / p.α1) - (p.TR - p.γ2 / p.α2)) * (-1) ^ n / (n * Real.pi) := by
  unfold bc1B bc1Ta bc1Tb
  split_ifs
  · show ((0 : ℕ) : ℝ) = 0
    simp
  · heat_ops
    rw [negOnePow_real]
    push_cast
    ring

theorem bc2A_real (p : RodP ℝ) (n : ℕ) :
    bc2A p n = if n = 0 then (p.TL + (p.TR - p.γ1 / p.β1 * p.L)) / 2 else
      2 * (p.TL - (p.TR - p.γ1 / p.β1 * p.L)) * (1 - (-1) ^ n) / ((n * Real.pi) * (n * Real.pi)) := by
  unfold bc2A bc2Ta bc2Tb
  split_ifs
  · heat_ops
    push_cast
    ring
  · heat_ops
    rw [negOnePow_real]
    push_cast
    ring

theorem bc3B_real (p : RodP ℝ) (n : ℕ) :
    bc3B p n = 4 * (p.TL - p.γ1 / p.α1) / ((2 * n + 1) * Real.pi)
      + 8 * ((p.TR - (p.γ1 / p.α1 + p.γ2 / p.β2 * p.L)) - (p.TL - p.γ1 / p.α1)) * (-1) ^ n
          / (((2 * n + 1) * Real.pi) * ((2 * n + 1) * Real.pi)) := by
  unfold bc3B bc3Ta bc3Tb
  heat_ops
  rw [negOnePow_real]
  push_cast
  ring

theorem bc4A_real (p : RodP ℝ) (n : ℕ) :
    bc4A p n = 4 * (p.TL - (p.γ2 / p.α2 - p.γ1 / p.β1 * p.L)) * (-1) ^ n / ((2 * n + 1) * Real.pi)
      - 8 * ((p.TR - p.γ2 / p.α2) - (p.TL - (p.γ2 / p.α2 - p.γ1 / p.β1 * p.L)))
          / (((2 * n + 1) * Real.pi) * ((2 * n + 1) * Real.pi))
      + 4 * ((p.TR - p.γ2 / p.α2) - (p.TL - (p.γ2 / p.α2 - p.γ1 / p.β1 * p.L))) * (-1) ^ n / ((2 * n + 1) * Real.pi) := by
  unfold bc4A bc4Ta bc4Tb
  heat_ops
  rw [negOnePow_real]
  push_cast
  ring

/-! ### trigonometric facts at the ends of the rod -/

theorem knInt_mul_L (L : ℝ) (hL : L ≠ 0) (n : ℕ) : knInt L n * L = n * Real.pi := by
  rw [knInt_real]; field_simp

theorem knHalf_mul_L (L : ℝ) (hL : L ≠ 0) (n : ℕ) : knHalf L n * L = n * Real.pi + Real.pi / 2 := by
  rw [knHalf_real]; field_simp

theorem sin_knInt_L (L : ℝ) (hL : L ≠ 0) (n : ℕ) : Real.sin (knInt L n * L) = 0 := by
  rw [knInt_mul_L L hL, Real.sin_nat_mul_pi]

theorem cos_knInt_L (L : ℝ) (hL : L ≠ 0) (n : ℕ) : Real.cos (knInt L n * L) = (-1) ^ n := by
  rw [knInt_mul_L L hL, Real.cos_nat_mul_pi]

theorem cos_knHalf_L (L : ℝ) (hL : L ≠ 0) (n : ℕ) : Real.cos (knHalf L n * L) = 0 := by
  rw [knHalf_mul_L L hL, Real.cos_add_pi_div_two, Real.sin_nat_mul_pi, neg_zero]

theorem sin_knHalf_L (L : ℝ) (hL : L ≠ 0) (n : ℕ) : Real.sin (knHalf L n * L) = (-1) ^ n := by
  rw [knHalf_mul_L L hL, Real.sin_add_pi_div_two, Real.cos_nat_mul_pi]

theorem knHalf_ne_zero (L : ℝ) (hL : L ≠ 0) (n : ℕ) : knHalf L n ≠ 0 := by
  rw [knHalf_real]
  have : (2 * (n : ℝ) + 1) ≠ 0 := by positivity
  have := Real.pi_ne_zero
  positivity

theorem knInt_eq_zero_iff (L : ℝ) (hL : L ≠ 0) (n : ℕ) : knInt L n = 0 ↔ n = 0 := by
  rw [knInt_real]
  constructor
  · intro h
    have hπ := Real.pi_ne_zero
    rcases div_eq_zero_iff.mp h with h | h
    · rcases mul_eq_zero.mp h with h | h
      · exact_mod_cast h
      · exact absurd h hπ
    · exact absurd h hL
  · rintro rfl; simp

/-! ### t → ∞ -/

open Filter Topology in
/-- every mode with `k ≠ 0` decays (κ > 0); a mode with `k = 0` is the constant `A` -/
theorem mode_tendsto (κ : ℝ) (hκ : 0 < κ) (A B k x : ℝ) :
    Tendsto (fun t => (A * Real.cos (k * x) + B * Real.sin (k * x)) * Real.exp (-κ * (k * k) * t)) atTop
      (𝓝 (if k = 0 then A else 0)) := by
  split_ifs with hk
  · subst hk
    simp
  · have hneg : -κ * (k * k) < 0 := by
      have : 0 < k * k := mul_self_pos.mpr hk
      nlinarith
    have h1 : Tendsto (fun t : ℝ => -κ * (k * k) * t) atTop atBot :=
      tendsto_id.const_mul_atTop_of_neg hneg
    have h2 := (Real.tendsto_exp_atBot.comp h1).const_mul (A * Real.cos (k * x) + B * Real.sin (k * x))
    simpa using h2

open Filter Topology in
theorem ser_tendsto (N : ℕ) (κ : ℝ) (hκ : 0 < κ) (st : ℝ → ℝ) (k A B : ℕ → ℝ) (x : ℝ) :
    Tendsto (fun t => ser N κ st k A B x t) atTop
      (𝓝 ((∑ n ∈ range N, if k n = 0 then A n else 0) + st x)) := by
  unfold ser
  refine Tendsto.add ?_ tendsto_const_nhds
  exact tendsto_finset_sum _ fun n _ => mode_tendsto κ hκ (A n) (B n) (k n) x

end

end EPV.Lemmas.Heat
