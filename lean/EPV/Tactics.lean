/-
Tactics shared by the property proofs.  They are written against the *simp sets*
the generator registers (`epv_tree`, `epv_leaf`, `epv_cond`, `epv_deriv`), never
against leaf numbers or the syntactic shape of a generated term, so renaming
locals, reassociating, commuting and constant-folding in the Python do not break
them.
-/
import EPV.Support

open Lean Elab Tactic Meta

/-- close a goal whose context says a non-`ok` leaf returned `ok` -/
macro "epv_absurd" : tactic =>
  `(tactic| first
    | (exact absurd (by assumption : EPV.Out.nan = EPV.Out.ok) (by decide))
    | (exact absurd (by assumption : EPV.Out.raise _ = EPV.Out.ok) (by decide))
    | contradiction)

/-- unfold every tree-level generated definition, split on the traced path
conditions, discard the non-`ok` leaves, and run the given tactic on each `ok` leaf -/
macro "epv_on_leaves " t:tacticSeq : tactic =>
  `(tactic| (simp only [epv_tree] at *
             (try split_ifs at *) <;> first | epv_absurd | ($t)))

/-- leaf-level algebra: unfold the leaf definitions and normalise -/
macro "epv_leaf_ring" : tactic =>
  `(tactic| (simp only [epv_leaf] <;> ring))

/-- `epv_cases h`: case analysis along a traced decision tree, linear in the number of leaves
(Mathlib's `split_ifs` is exponential on long else-chains).  Finds the outermost `if c then _ else _`
of the goal, does `by_cases` on `c` and rewrites goal *and* hypothesis `h` with `if_pos`/`if_neg`;
repeats on every resulting goal. -/
elab "epv_cases1 " h:ident : tactic => withMainContext do
  let g ← instantiateMVars (← getMainTarget)
  let some e := g.find? (fun e => e.isAppOfArity ``ite 5 && !(e.getArg! 1).hasLooseBVars)
    | throwError "epv_cases1: no if-then-else in the goal"
  let stx ← Term.exprToSyntax (e.getArg! 1)
  evalTactic (← `(tactic| by_cases hsplit : $stx <;>
    first | simp only [if_pos hsplit] at $h:ident ⊢ | simp only [if_neg hsplit] at $h:ident ⊢))

macro "epv_cases " h:ident : tactic => `(tactic| repeat' epv_cases1 $h)
