/-
Tactics for *bridge lemmas*: statements that a generated (traced) condition or leaf expression
is the documented one.  They are proved by ring normalisation / linear arithmetic over the
normalised monomials, so they survive any rewrite of the Python that keeps the expression the
same polynomial or rational function (renaming and hoisting locals, reassociating, commuting,
`x**2` ↔ `x*x`, `/2` ↔ `0.5*`, …).  Property theorems then talk about the documented form and use
the bridge, so only the bridge sees the shape of the generated term.
-/
import EPV.Tactics
import Mathlib.Tactic.Linarith
import Mathlib.Tactic.Ring
import Mathlib.Tactic.FieldSimp
import Mathlib.Tactic.Positivity

/-- `A ↔ B` for two (in)equalities whose sides are the same polynomials written differently -/
macro "epv_arith_iff" : tactic =>
  `(tactic| (constructor <;> intro h <;>
      first | exact h | linarith | nlinarith | (ring_nf at h ⊢; first | exact h | linarith)))

/-- positivity that does not depend on how a product is associated -/
macro "epv_pos" : tactic =>
  `(tactic| first | positivity | (ring_nf; positivity) | (field_simp; positivity) | nlinarith)

/-- equality of two ring / field expressions, shape-independent -/
macro "epv_eq" : tactic =>
  -- `ring1`, not `ring`: the `ring` macro "succeeds" (leaving the goal to `ring_nf`) whenever normalisation makes
  -- progress, so the later alternatives of a `first` would never be tried
  `(tactic| first | rfl | ring1 | (field_simp; ring1) | (simp only [mul_one, one_mul, add_zero, zero_add]; ring1)
                  | (simp only [div_eq_mul_inv, mul_inv, inv_inv]; ring_nf))
