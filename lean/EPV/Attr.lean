/-
Simp sets the generated models register their definitions in, so that property
proofs can unfold "every tree-level definition" or "every leaf definition"
without naming leaves (leaf numbering is not stable under harmless edits).
-/
import Mathlib.Tactic.Attr.Register

/-- tree-level field definitions, `outcome`, `leaf` of generated models -/
register_simp_attr epv_tree
/-- per-leaf field definitions of generated models -/
register_simp_attr epv_leaf
/-- path-condition definitions of generated models -/
register_simp_attr epv_cond
/-- generated derivative definitions -/
register_simp_attr epv_deriv
