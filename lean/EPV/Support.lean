/-
Support for the generated real models: the Mathlib modules the generated
derivative certificates need, the outcome type of a traced decision tree, and
the few functions NumPy has that Mathlib names differently.
-/
import Mathlib.Analysis.Calculus.Deriv.Add
import Mathlib.Analysis.Calculus.Deriv.Mul
import Mathlib.Analysis.Calculus.Deriv.Inv
import Mathlib.Analysis.Calculus.Deriv.Pow
import Mathlib.Analysis.SpecialFunctions.Pow.Deriv
import Mathlib.Analysis.SpecialFunctions.Sqrt
import Mathlib.Analysis.SpecialFunctions.ExpDeriv
import Mathlib.Analysis.SpecialFunctions.Log.Deriv
import Mathlib.Analysis.SpecialFunctions.Trigonometric.Deriv
import Mathlib.Analysis.SpecialFunctions.Trigonometric.ArctanDeriv
import Mathlib.Analysis.SpecialFunctions.Trigonometric.InverseDeriv
import Mathlib.Analysis.SpecialFunctions.Arsinh
import Mathlib.Tactic
import EPV.Attr

namespace EPV

/-- what a traced call does on one path: returns fields, returns NaN fields, or raises -/
inductive Out where
  | ok
  | nan
  | raise (kind : String)
  deriving DecidableEq, Repr

/-- `numpy.arctan2 y x` -/
noncomputable def arctan2 (y x : ℝ) : ℝ :=
  if 0 < x then Real.arctan (y / x)
  else if x < 0 then (if 0 ≤ y then Real.arctan (y / x) + Real.pi else Real.arctan (y / x) - Real.pi)
  else if 0 < y then Real.pi / 2 else if y < 0 then -(Real.pi / 2) else 0

end EPV

/-! ### Derivative combinators in `fun y => …` form

The generated certificates are terms built from these.  Each conclusion has
exactly the shape the emitter writes for the derivative expression, so a
certificate is `unfold …; exact <term>` with no rewriting. -/
namespace EPV.D

variable {f g : ℝ → ℝ} {f' g' x : ℝ}

theorem add (hf : HasDerivAt f f' x) (hg : HasDerivAt g g' x) :
    HasDerivAt (fun y => f y + g y) (f' + g') x := hf.add hg
theorem const_add (c : ℝ) (hg : HasDerivAt g g' x) :
    HasDerivAt (fun y => c + g y) g' x := hg.const_add c
theorem add_const (hf : HasDerivAt f f' x) (c : ℝ) :
    HasDerivAt (fun y => f y + c) f' x := hf.add_const c
theorem sub (hf : HasDerivAt f f' x) (hg : HasDerivAt g g' x) :
    HasDerivAt (fun y => f y - g y) (f' - g') x := hf.sub hg
theorem const_sub (c : ℝ) (hg : HasDerivAt g g' x) :
    HasDerivAt (fun y => c - g y) (-g') x := hg.const_sub c
theorem sub_const (hf : HasDerivAt f f' x) (c : ℝ) :
    HasDerivAt (fun y => f y - c) f' x := hf.sub_const c
theorem neg (hf : HasDerivAt f f' x) : HasDerivAt (fun y => -f y) (-f') x := hf.neg
theorem mul (hf : HasDerivAt f f' x) (hg : HasDerivAt g g' x) :
    HasDerivAt (fun y => f y * g y) (f' * g x + f x * g') x := hf.mul hg
theorem const_mul (c : ℝ) (hg : HasDerivAt g g' x) :
    HasDerivAt (fun y => c * g y) (c * g') x := hg.const_mul c
theorem mul_const (hf : HasDerivAt f f' x) (c : ℝ) :
    HasDerivAt (fun y => f y * c) (f' * c) x := hf.mul_const c
theorem div (hf : HasDerivAt f f' x) (hg : HasDerivAt g g' x) (h : g x ≠ 0) :
    HasDerivAt (fun y => f y / g y) ((f' * g x - f x * g') / g x ^ (2 : ℕ)) x := hf.div hg h
theorem div_const (hf : HasDerivAt f f' x) (c : ℝ) :
    HasDerivAt (fun y => f y / c) (f' / c) x := hf.div_const c
/-- `n = m + 1`, `c = n` as a real literal -/
theorem pow (hf : HasDerivAt f f' x) (n m : ℕ) (c : ℝ) (hm : m + 1 = n) (hc : c = (n : ℝ)) :
    HasDerivAt (fun y => f y ^ n) (c * f x ^ m * f') x := by
  subst hm; subst hc
  have h := hf.pow (m + 1)
  have e : (f ^ (m + 1)) = fun y => f y ^ (m + 1) := rfl
  rw [e] at h
  refine h.congr_deriv ?_
  simp
theorem inv_pow (hf : HasDerivAt f f' x) (n m : ℕ) (c : ℝ) (hm : m + 1 = n) (hc : c = (n : ℝ))
    (h : f x ^ n ≠ 0) :
    HasDerivAt (fun y => (f y ^ n)⁻¹) (-(c * f x ^ m * f') / (f x ^ n) ^ (2 : ℕ)) x :=
  (pow hf n m c hm hc).inv h
/-- real power with an exponent that does not depend on the variable, derivative in logarithmic
form `f' * e * (f ^ e / f)`: differentiation never introduces a new transcendental atom -/
theorem rpow_const (hf : HasDerivAt f f' x) (e : ℝ) (h : 0 < f x) :
    HasDerivAt (fun y => f y ^ e) (f' * e * (f x ^ e / f x)) x := by
  have := hf.rpow_const (p := e) (Or.inl (ne_of_gt h))
  refine this.congr_deriv ?_
  rw [Real.rpow_sub_one (ne_of_gt h) e]
theorem rpow (hf : HasDerivAt f f' x) (hg : HasDerivAt g g' x) (h : 0 < f x) :
    HasDerivAt (fun y => f y ^ g y)
      (f' * g x * f x ^ (g x - 1) + g' * f x ^ g x * Real.log (f x)) x := hf.rpow hg h
theorem exp (hf : HasDerivAt f f' x) :
    HasDerivAt (fun y => Real.exp (f y)) (Real.exp (f x) * f') x := hf.exp
theorem log (hf : HasDerivAt f f' x) (h : f x ≠ 0) :
    HasDerivAt (fun y => Real.log (f y)) (f' / f x) x := hf.log h
theorem sqrt (hf : HasDerivAt f f' x) (h : f x ≠ 0) :
    HasDerivAt (fun y => Real.sqrt (f y)) (f' / (2 * Real.sqrt (f x))) x := hf.sqrt h
theorem sin (hf : HasDerivAt f f' x) :
    HasDerivAt (fun y => Real.sin (f y)) (Real.cos (f x) * f') x := hf.sin
theorem cos (hf : HasDerivAt f f' x) :
    HasDerivAt (fun y => Real.cos (f y)) (-Real.sin (f x) * f') x := hf.cos
theorem sinh (hf : HasDerivAt f f' x) :
    HasDerivAt (fun y => Real.sinh (f y)) (Real.cosh (f x) * f') x := hf.sinh
theorem cosh (hf : HasDerivAt f f' x) :
    HasDerivAt (fun y => Real.cosh (f y)) (Real.sinh (f x) * f') x := hf.cosh
theorem arctan (hf : HasDerivAt f f' x) :
    HasDerivAt (fun y => Real.arctan (f y)) (1 / (1 + f x ^ (2 : ℕ)) * f') x := hf.arctan
theorem tan (hf : HasDerivAt f f' x) (h : Real.cos (f x) ≠ 0) :
    HasDerivAt (fun y => Real.tan (f y)) (1 / Real.cos (f x) ^ (2 : ℕ) * f') x :=
  (Real.hasDerivAt_tan h).comp x hf
theorem arccos (hf : HasDerivAt f f' x) (h1 : f x ≠ -1) (h2 : f x ≠ 1) :
    HasDerivAt (fun y => Real.arccos (f y)) (-(1 / Real.sqrt (1 - f x ^ (2 : ℕ))) * f') x :=
  (Real.hasDerivAt_arccos h1 h2).comp x hf
theorem arcsin (hf : HasDerivAt f f' x) (h1 : f x ≠ -1) (h2 : f x ≠ 1) :
    HasDerivAt (fun y => Real.arcsin (f y)) (1 / Real.sqrt (1 - f x ^ (2 : ℕ)) * f') x :=
  (Real.hasDerivAt_arcsin h1 h2).comp x hf
theorem abs_of_pos (hf : HasDerivAt f f' x) (h : 0 < f x) :
    HasDerivAt (fun y => |f y|) f' x := by
  have h1 : (fun y => |f y|) =ᶠ[nhds x] f := by
    filter_upwards [hf.continuousAt.eventually (lt_mem_nhds h)] with y hy
    exact _root_.abs_of_pos hy
  exact hf.congr_of_eventuallyEq h1
theorem abs_of_neg (hf : HasDerivAt f f' x) (h : f x < 0) :
    HasDerivAt (fun y => |f y|) (-f') x := by
  have h1 : (fun y => |f y|) =ᶠ[nhds x] fun y => -f y := by
    filter_upwards [hf.continuousAt.eventually (gt_mem_nhds h)] with y hy
    exact _root_.abs_of_neg hy
  exact hf.neg.congr_of_eventuallyEq h1

end EPV.D
