/-
Correspondence driver (line protocol).  One operation per input line:

    <model> <arg bits> <arg bits> …

Floats are decimal UInt64 bit patterns.  Output, one line per input line:

    <outcome> <field bits> …

`<model>` is either a generated Float twin (EPV.GenF.Registry) or a hand model
(EPV.Gen.ModelRegistry, generated from the `-- driver:` lines of EPV/Model/*.lean).  Run with `lake env lean --run Main.lean`.
-/
import EPV.Gen.Registry
import EPV.Gen.ModelRegistry

open EPV.Run

partial def loop (h : IO.FS.Stream) (out : IO.FS.Stream) : IO Unit := do
  let line ← h.getLine
  if line.isEmpty then return ()
  let ws := (line.trimAscii.toString.splitOn " ").filter (· ≠ "")
  match ws with
  | model :: args =>
    match EPV.GenF.eval model (args.map parseFloatBits).toArray with
    | some r => out.putStrLn (showResult r)
    | none =>
      match EPV.ModelReg.eval model args with
      | some s => out.putStrLn s
      | none => out.putStrLn "unknown-model"
  | [] => out.putStrLn "bad-op"
  loop h out

def main : IO Unit := do
  let out ← IO.getStdout
  loop (← IO.getStdin) out
  out.flush
