#!/venv/bin/python
"""check -- decide one property (see DESIGN.md §2.5).

    ./check Cxx [--tier quick|thorough]
    ./check Cxx --replay FILE

exit 0: property held on everything explored (KNOWN-FINDING lines allowed)
exit 1: VIOLATION property=<id> replay=<path> [no-failing-input-found]
exit 2: infrastructure failure / timeout
"""
import argparse
import fcntl
import json
import os
import random
import re
import subprocess
import sys
import time
import traceback

HERE = os.path.dirname(os.path.abspath(__file__))
ROOT = os.path.dirname(HERE)
sys.path.insert(0, HERE)
sys.path.insert(0, ROOT)
LEAN = os.path.join(ROOT, 'lean')

ALLOWED_AXIOMS = {'propext', 'Classical.choice', 'Quot.sound'}
FORBIDDEN = re.compile(r'\b(sorry|admit|native_decide|bv_decide|implemented_by|unsafe)\b|^\s*axiom\s|maxHeartbeats\s+0\b')

TRUSTED_BASE = [
    'Lean 4.33.0 kernel; Mathlib v4.33.0 as compiled under /opt/veriftools/mathlib4',
    'axioms of every property theorem are printed and must be within {propext, Classical.choice, Quot.sound}; no native_decide, no bv_decide, no own axioms, no sorry',
    'py2lean (dynamic symbolic executor + emitters): validated on every run by the Float-twin correspondence against the real call (a test)',
    'reals instead of IEEE doubles: rounding, overflow, NaN propagation are outside the theorems; float literals are read as the small rational / multiple of pi they denote',
    'numerical primitives (scipy root finders, quadrature, ODE integrators, Bessel functions) are atoms: assumed to return what they are documented to return',
    'the specifications in lean/EPV/Spec and the admissible-domain hypotheses of each theorem are my reading of the property text and of the documentation',
]


_OUT = sys.stdout


def log(*a):
    print(*a, file=_OUT, flush=True)


class quiet(object):
    """the solvers print warnings and progress; keep our stdout for the protocol lines"""

    def __enter__(self):
        self.saved = sys.stdout
        self.null = open(os.devnull, 'w')
        sys.stdout = self.null

    def __exit__(self, *a):
        sys.stdout = self.saved
        self.null.close()
        return False


# --------------------------------------------------------------------------
# Lean side
# --------------------------------------------------------------------------

def module_path(mod):
    return os.path.join(LEAN, *mod.split('.')) + '.lean'


def imports_of(mod, seen=None):
    """transitive EPV.* imports of a module, from its source"""
    seen = set() if seen is None else seen
    path = module_path(mod)
    if not os.path.exists(path):
        return seen
    for line in open(path):
        m = re.match(r'^import\s+(EPV\.\S+)', line)
        if m and m.group(1) not in seen:
            seen.add(m.group(1))
            imports_of(m.group(1), seen)
        elif line.strip() and not line.startswith(('import', '--', '/-', ' ', '-/')) and not line.startswith('set_option'):
            if not line.startswith(('open', 'namespace', 'noncomputable')):
                pass
    return seen


def lake_build(mods, timeout):
    """build modules; return (ok_modules, {module: [(line, msg)]}, raw, failed_modules)"""
    if not mods:
        return set(), {}, '', set()
    p = subprocess.run(['lake', 'build'] + list(mods), cwd=LEAN, capture_output=True, text=True, timeout=timeout)
    raw = p.stdout + p.stderr
    errors = {}
    failed = set()
    for line in raw.split('\n'):
        m = re.match(r'^error: (\S+?\.lean):(\d+):(\d+): (.*)$', line)
        if m:
            mod = m.group(1)[:-5].replace('/', '.')
            errors.setdefault(mod, []).append((int(m.group(2)), m.group(4)))
            failed.add(mod)
        m = re.match(r'^✖ \[\d+/\d+\] (?:Building|Running) (\S+)', line)
        if m:
            failed.add(m.group(1))
        m = re.match(r'^- (\S+)$', line)
        if m:
            failed.add(m.group(1))
    ok = set()
    for m in mods:
        if p.returncode == 0:
            ok.add(m)
            continue
        deps = imports_of(m)
        missing = [d for d in deps if not os.path.exists(module_path(d))]
        if m in failed or (deps & failed) or missing:
            if m not in errors and (deps & failed or missing):
                bad = sorted(deps & failed) + missing
                errors.setdefault(m, []).append((0, 'imported module %s did not build' % bad[0]))
            continue
        olean = os.path.join(LEAN, '.lake', 'build', 'lib', 'lean', *m.split('.')) + '.olean'
        if os.path.exists(olean):
            ok.add(m)
        else:
            errors.setdefault(m, []).append((0, 'no compiled module was produced'))
    return ok, errors, raw, failed


DECL = re.compile(r'^(?:@\[[^\]]*\]\s*)?(?:private\s+|protected\s+|noncomputable\s+)*(theorem|lemma|def|example|instance|structure|inductive|abbrev)\s+([^\s:({\[]+)?')


def theorem_ranges(mod):
    """fully qualified theorem name -> (first line, last line)"""
    path = module_path(mod)
    out = {}
    if not os.path.exists(path):
        return out
    ns = []
    decls = []
    lines = open(path).read().split('\n')
    depth = 0
    for i, l in enumerate(lines, 1):
        # skip block comments / docstrings (they may contain words like `namespace`, `theorem`)
        opens, closes = l.count('/-'), l.count('-/')
        if depth > 0 or (opens and not l.lstrip().startswith(('theorem', 'lemma', 'def', 'namespace', 'end'))):
            depth += opens - closes
            if depth < 0:
                depth = 0
            continue
        m = re.match(r'^namespace\s+(\S+)', l)
        if m:
            ns.append(m.group(1))
            continue
        m = re.match(r'^end\s+(\S+)', l)
        if m and ns and ns[-1] == m.group(1):
            ns.pop()
            continue
        m = DECL.match(l)
        if m:
            name = m.group(2)
            decls.append((i, m.group(1), '.'.join(ns + [name]) if name else None))
    for k, (i, kind, name) in enumerate(decls):
        end = decls[k + 1][0] - 1 if k + 1 < len(decls) else len(lines)
        if kind in ('theorem', 'lemma') and name:
            out[name] = (i, end)
    return out


def forbidden_tokens(paths):
    hits = []
    for path in paths:
        if not os.path.exists(path):
            continue
        depth = 0
        for i, l in enumerate(open(path).read().split('\n'), 1):
            # strip comments (line comments and one-line block comments; nested blocks tracked coarsely)
            s = l
            if depth == 0:
                s = re.sub(r'/-.*?-/', '', s)
            if '/-' in s and '-/' not in s.split('/-', 1)[1]:
                depth += 1
                s = s.split('/-', 1)[0]
            elif depth > 0:
                if '-/' in s:
                    depth -= 1
                    s = s.split('-/', 1)[1]
                else:
                    s = ''
            s = s.split('--', 1)[0]
            if FORBIDDEN.search(s):
                hits.append('%s:%d: %s' % (os.path.relpath(path, ROOT), i, l.strip()[:120]))
    return hits


class OracleTimeout(BaseException):
    """raised by the interval timer inside an oracle call (BaseException: the oracles' own `except Exception`
    clauses must not swallow it)"""


import contextlib
import signal


@contextlib.contextmanager
def time_limit(seconds):
    def handler(sig, frame):
        raise OracleTimeout()
    old = signal.signal(signal.SIGALRM, handler)
    signal.setitimer(signal.ITIMER_REAL, max(1.0, float(seconds)))
    try:
        yield
    finally:
        signal.setitimer(signal.ITIMER_REAL, 0)
        signal.signal(signal.SIGALRM, old)


def audit_axioms(prop, mods, theorems, timeout, thm_mod=None):
    """#print axioms for every theorem; returns {name: set(axioms) | None (missing)}"""
    if not theorems:
        return {}
    d = os.path.join(LEAN, '.audit')
    os.makedirs(d, exist_ok=True)
    path = os.path.join(d, 'Audit_%s.lean' % prop)
    with open(path, 'w') as f:
        for m in sorted(mods):
            f.write('import %s\n' % m)
        f.write('\n')
        for t in theorems:
            f.write('#print axioms %s\n' % t)
    p = subprocess.run(['lake', 'env', 'lean', path], cwd=LEAN, capture_output=True, text=True, timeout=timeout)
    txt = p.stdout + p.stderr
    res = {t: None for t in theorems}
    # messages may span lines: "'X' depends on axioms: [a,\n b]"
    for m in re.finditer(r"'([^']+)' depends on axioms: \[([^\]]*)\]", txt, re.S):
        res[m.group(1)] = set(a.strip() for a in m.group(2).replace('\n', ' ').split(',') if a.strip())
    for m in re.finditer(r"'([^']+)' does not depend on any axioms", txt):
        res[m.group(1)] = set()
    missing = [t for t in theorems if res[t] is None]
    if missing and thm_mod:
        # the combined audit file could not be elaborated as a whole (e.g. two modules of different
        # families that cannot be imported together): audit the missing theorems module by module
        groups = {}
        for t in missing:
            if thm_mod.get(t):
                groups.setdefault(thm_mod[t], []).append(t)

        def one(item):
            k, (m, ts) = item
            pth = os.path.join(d, 'Audit_%s_%d.lean' % (prop, k))
            with open(pth, 'w') as f:
                f.write('import %s\n\n' % m)
                for t in ts:
                    f.write('#print axioms %s\n' % t)
            q = subprocess.run(['lake', 'env', 'lean', pth], cwd=LEAN, capture_output=True, text=True, timeout=timeout)
            os.remove(pth)
            return q.stdout + q.stderr
        from concurrent.futures import ThreadPoolExecutor
        with ThreadPoolExecutor(max_workers=8) as ex:
            for txt2 in ex.map(one, enumerate(sorted(groups.items()))):
                for m in re.finditer(r"'([^']+)' depends on axioms: \[([^\]]*)\]", txt2, re.S):
                    if m.group(1) in res:
                        res[m.group(1)] = set(a.strip() for a in m.group(2).replace('\n', ' ').split(',') if a.strip())
                for m in re.finditer(r"'([^']+)' does not depend on any axioms", txt2):
                    if m.group(1) in res:
                        res[m.group(1)] = set()
    return res


# --------------------------------------------------------------------------
# main flow
# --------------------------------------------------------------------------

class Run(object):
    def __init__(self, prop, tier, seed):
        self.prop = prop
        self.tier = tier
        self.seed = seed
        self.t0 = time.time()
        self.violations = []       # (replay_path, no_input)
        self.known = []
        self.notes = []
        self.ev = dict(obligations=0, discharged=0, evaluations=0, distinct_nontrivial=0, samples=[],
                       theorems={}, correspondence={}, oracles={}, broken=[])

    def replay_path(self, obl):
        d = os.path.join(ROOT, 'replays')
        os.makedirs(d, exist_ok=True)
        safe = re.sub(r'[^A-Za-z0-9_.-]', '_', obl)
        return os.path.join(d, '%s-%s-%d.json' % (self.prop, safe, self.seed))

    def violation(self, obl, payload, no_input=False):
        path = self.replay_path(obl)
        payload = dict(payload)
        payload.update(property=self.prop, obligation=obl, seed=self.seed, tier=self.tier)
        with open(path, 'w') as f:
            json.dump(payload, f, indent=1, default=str)
        self.violations.append((os.path.relpath(path, ROOT), no_input))


def load_known():
    try:
        return json.load(open(os.path.join(ROOT, 'known_findings.json')))
    except IOError:
        return []


def finding_matches(kf, prop, obl, site):
    return kf.get('status') == 'finding' and kf.get('property') == prop and kf.get('obligation') == obl \
        and kf.get('site') == site


def main():
    ap = argparse.ArgumentParser()
    ap.add_argument('prop')
    ap.add_argument('--tier', default=os.environ.get('VERIF_TIER', 'quick'))
    ap.add_argument('--replay')
    a = ap.parse_args()
    seed = int(os.environ.get('VERIF_SEED', '0') or 0)
    tier = a.tier if a.tier in ('quick', 'thorough') else 'quick'
    import obligations as OB
    if a.prop not in OB.PROPS:
        log('unknown property', a.prop)
        return 2
    spec = OB.PROPS[a.prop]
    if a.replay:
        return replay(a.prop, spec, a.replay)
    os.makedirs(os.path.join(ROOT, 'evidence'), exist_ok=True)
    lock = open(os.path.join(LEAN, '.check.lock'), 'w')
    fcntl.flock(lock, fcntl.LOCK_EX)
    try:
        with quiet():
            return run_check(a.prop, spec, tier, seed)
    finally:
        fcntl.flock(lock, fcntl.LOCK_UN)


def run_check(prop, spec, tier, seed):
    from py2lean import main as gen, targets as T
    from harness import corr
    R = Run(prop, tier, seed)
    rng = random.Random(seed * 7919 + int(prop[1:]))
    known = load_known()
    big = tier == 'thorough'

    # 1. regenerate the models from /repo's working tree ------------------
    try:
        manifest, changed = gen.generate(groups=spec.get('groups'), quiet=True)
    except Exception as ex:
        log('generator crashed:', ex)
        log(traceback.format_exc())
        return 2
    untraceable = {n: d for n, d in manifest.items() if d.get('status') != 'ok'}
    if changed:
        log('regenerated: %s' % ', '.join(changed[:12]) + (' …' if len(changed) > 12 else ''))

    obls = spec['obligations']
    mods = sorted(set(o['module'] for o in obls if o.get('module')))

    # 2. build + audit ----------------------------------------------------
    if big:
        # rebuild the property's own modules from clean
        for m in mods:
            for ext in ('olean', 'ilean', 'trace', 'hash', 'log.json'):
                p = os.path.join(LEAN, '.lake', 'build', 'lib', 'lean', *m.split('.')) + '.' + ext
                if os.path.exists(p):
                    os.remove(p)
    try:
        okmods, errors, raw, failed = lake_build(mods, timeout=1500)
    except subprocess.TimeoutExpired:
        # a build that does not finish proves nothing: every theorem of the property counts as
        # not discharged and the search for a failing input goes on
        log('lake build of the property modules timed out')
        subprocess.run(['pkill', '-f', 'lean .*%s' % LEAN], capture_output=True)
        okmods, errors, raw, failed = set(), {m: [(0, 'lake build timed out')] for m in mods}, '', set(mods)
    try:
        # the correspondence registries are built separately so that an unrelated twin
        # cannot take this property's theorems down with it
        regs, rerrors, _, _ = lake_build(['EPV.Gen.Registry', 'EPV.Gen.ModelRegistry'], timeout=1500)
    except subprocess.TimeoutExpired:
        log('lake build of the correspondence registries timed out')
        regs = set()
    ranges = {m: theorem_ranges(m) for m in mods}
    status = {}     # obligation id -> (ok, reason)
    thms = []
    unaudited = set()
    srcs_cache = {}

    def broken_names(m):
        """theorems of module m whose range contains an error"""
        out = set()
        for t, (lo, hi) in ranges[m].items():
            if any(lo <= e[0] <= hi for e in errors.get(m, [])):
                out.add(t)
        return out

    def text_of(m, t):
        if m not in srcs_cache:
            srcs_cache[m] = open(module_path(m)).read().split('\n')
        lo, hi = ranges[m][t]
        return '\n'.join(srcs_cache[m][lo - 1:hi])

    for o in obls:
        if not o.get('module'):
            continue
        m = o['module']
        for t in o['theorems']:
            if t not in ranges[m]:
                status[o['id']] = (False, 'theorem %s is not in %s' % (t, m))
            elif m not in okmods:
                lo, hi = ranges[m][t]
                errs = [e for e in errors.get(m, []) if lo <= e[0] <= hi]
                outside = [e for e in errors.get(m, []) if not any(a <= e[0] <= b for a, b in ranges[m].values())]
                if errs:
                    status[o['id']] = (False, 'theorem %s no longer checks: line %d: %s' % (t, errs[0][0], errs[0][1][:300]))
                elif outside or not errors.get(m):
                    why = (outside or [(0, 'a module it imports did not build')])[0]
                    status.setdefault(o['id'], (False, 'module %s did not build (line %d: %s)' % (m, why[0], why[1][:300])))
                else:
                    # the module failed only inside *other* theorems; Lean elaborated this one without
                    # error.  It stands unless it uses one of the broken theorems (by name).
                    bad = broken_names(m)
                    used = [b for b in bad if re.search(r'\b%s\b' % re.escape(b.split('.')[-1]), text_of(m, t))]
                    if used:
                        status.setdefault(o['id'], (False, 'theorem %s uses %s, which no longer checks' % (t, used[0])))
                    else:
                        unaudited.add(t)
            else:
                thms.append(t)
    for o in obls:
        for mdl in o.get('models', []):
            if mdl in untraceable:
                status[o['id']] = (False, 'model %s can no longer be generated from the source: %s'
                                   % (mdl, untraceable[mdl].get('error')))
    try:
        thm_mod = {t: o['module'] for o in obls if o.get('module') for t in o['theorems']}
        ax = audit_axioms(prop, okmods & set(mods), thms, timeout=1800, thm_mod=thm_mod)
    except subprocess.TimeoutExpired:
        log('axiom audit timed out')
        return 2
    for o in obls:
        if o['id'] in status or not o.get('module'):
            continue
        bad = None
        for t in o['theorems']:
            if t in unaudited:
                R.ev['theorems'][t] = 'elaborated without error; axiom audit skipped (a sibling theorem broke the module)'
                continue
            s = ax.get(t)
            if s is None:
                bad = 'theorem %s not found by #print axioms' % t
            elif not s <= ALLOWED_AXIOMS:
                bad = 'theorem %s depends on axioms %s' % (t, sorted(s - ALLOWED_AXIOMS))
            R.ev['theorems'][t] = sorted(s) if s is not None else None
        status[o['id']] = (bad is None, bad)
    srcs = [module_path(m) for m in mods] + [os.path.join(LEAN, 'EPV', 'Support.lean')]
    for sub in ('Spec', 'Lemmas', 'Model'):
        d = os.path.join(LEAN, 'EPV', sub)
        if os.path.isdir(d):
            srcs += [os.path.join(d, f) for f in sorted(os.listdir(d)) if f.endswith('.lean')]
    tok = forbidden_tokens(srcs)
    if tok:
        for o in obls:
            if o.get('module'):
                status[o['id']] = (False, 'forbidden token in proof sources: ' + tok[0])
    if big and okmods & set(mods):
        try:
            p = subprocess.run(['lake', 'env', 'leanchecker'] + sorted(okmods & set(mods)), cwd=LEAN,
                               capture_output=True, text=True, timeout=3000)
            R.ev['leanchecker'] = 'ok' if p.returncode == 0 else (p.stdout + p.stderr)[-500:]
            if p.returncode != 0:
                for o in obls:
                    if o.get('module') in okmods:
                        status[o['id']] = (False, 'leanchecker rejected the compiled module')
        except subprocess.TimeoutExpired:
            R.ev['leanchecker'] = 'timeout'

    # 3. correspondence: generated Float twins vs the real code ------------
    corr_broken = {}
    n = spec.get('corr_n', 150) * (10 if big else 1)
    regok = 'EPV.Gen.Registry' in regs and 'EPV.Gen.ModelRegistry' in regs
    for mdl in spec.get('corr_models', []):
        tg = T.by_name(mdl)
        if mdl in untraceable or not tg.get('corr'):
            continue
        if not regok:
            corr_broken[mdl] = 'Float twins did not build'
            continue
        try:
            st = corr.run_model(mdl, manifest[mdl], tg['corr'], n, rng)
        except Exception as ex:
            corr_broken[mdl] = 'correspondence run failed: %s' % ex
            continue
        R.ev['evaluations'] += st['evaluations']
        R.ev['distinct_nontrivial'] += st['distinct_nontrivial']
        R.ev['correspondence'][mdl] = dict(evaluations=st['evaluations'], leaf_hist=st['leaf_hist'],
                                           outcome_hist=st['outcome_hist'], mismatches=len(st['mismatches']))
        R.ev['samples'] += st['samples'][:1]
        if st['mismatches']:
            corr_broken[mdl] = st['mismatches'][0]
    for o in obls:
        for mdl in o.get('models', []):
            if mdl in corr_broken and status.get(o['id'], (True,))[0]:
                status[o['id']] = (False, 'correspondence of model %s with the code no longer checks: %s'
                                   % (mdl, json.dumps(corr_broken[mdl], default=str)[:400]))
    # hand-model correspondences and other executable ties
    for o in obls:
        fn = o.get('tie')
        if not fn:
            continue
        # every tie draws from its own generator (seed, obligation): a reported mismatch can be re-run on exactly the
        # same cases.  A correspondence that really broke is deterministic and fails again; one that failed once for an
        # environmental reason (the Lean driver starved on a loaded machine, a truncated pipe) does not, and is not a verdict
        def run_tie():
            try:
                return fn(random.Random('%s:%s' % (R.seed, o['id'])), big)
            except Exception as ex:
                return dict(evaluations=0, mismatches=[dict(why='tie crashed: %s' % ex, trace=traceback.format_exc()[-800:])])
        st = run_tie()
        if st.get('mismatches'):
            st2 = run_tie()
            if not st2.get('mismatches'):
                R.notes.append('tie %s reported a mismatch that did not reproduce on the same cases: %s'
                               % (o['id'], json.dumps(st['mismatches'][0], default=str)[:1500]))
                st = st2
        R.ev['evaluations'] += st.get('evaluations', 0)
        R.ev['distinct_nontrivial'] += st.get('distinct_nontrivial', 0)
        R.ev['correspondence'][o['id']] = {k: v for k, v in st.items() if k not in ('mismatches', 'samples')}
        R.ev['samples'] += st.get('samples', [])[:1]
        if st.get('mismatches'):
            if status.get(o['id'], (True,))[0]:
                status[o['id']] = (False, 'tie %s no longer checks: %s' % (o['id'], json.dumps(st['mismatches'][0], default=str)[:4000]))

    # 4. oracles on the real code (tests; they support the search for a
    #    failing input and cover what is modelled-not-verified) -----------
    budget = spec.get('oracle_budget', 4.0) * (10 if big else 1)
    failures = {}     # obligation -> list of failure dicts
    for o in obls:
        fn = o.get('oracle')
        if not fn:
            continue
        broken = not status.get(o['id'], (True, None))[0]
        try:
            fns = fn if isinstance(fn, (list, tuple)) else [fn]
            res = dict(evaluations=0, distinct_nontrivial=0, failures=[], samples=[], worst=None)
            for f1 in fns:
                # wall-time limits per oracle function: the search for a failing input (deep mode, slow solver
                # classes included) must not turn a quick check into an hour-long one
                lim = float(os.environ.get('VERIF_ORACLE_SECONDS', '1800' if big else ('120' if broken else '400')))
                try:
                    with time_limit(lim):
                        r1 = f1(rng, budget * (3 if broken else 1) / len(fns), big or broken)
                except OracleTimeout:
                    R.notes.append('oracle %s of %s stopped after %.0fs (deep=%s)' % (getattr(f1, '__name__', '?'), o['id'], lim, big or broken))
                    r1 = dict(evaluations=0, failures=[])
                    if broken and not big:
                        try:       # the every-run depth still fits
                            with time_limit(lim):
                                r1 = f1(rng, budget / len(fns), False)
                        except OracleTimeout:
                            r1 = dict(evaluations=0, failures=[])
                res['evaluations'] += r1.get('evaluations', 0)
                res['distinct_nontrivial'] += r1.get('distinct_nontrivial', r1.get('evaluations', 0))
                res['samples'] += r1.get('samples', [])
                for fl in r1.get('failures', []):
                    if fl.get('site') not in [x.get('site') for x in res['failures']]:
                        res['failures'].append(fl)
                if r1.get('worst') is not None:
                    res['worst'] = r1['worst']
        except Exception as ex:
            # an oracle that cannot run on this tree decides nothing: the obligation is no longer
            # shown to hold (reported below, with the crash as the reason), the run goes on
            why = 'oracle for %s cannot run on this tree: %s: %s' % (o['id'], type(ex).__name__, str(ex)[:200])
            log(why)
            R.notes.append(traceback.format_exc()[-1200:])
            if status.get(o['id'], (True, None))[0]:
                status[o['id']] = (False, why)
            res = dict(evaluations=0, distinct_nontrivial=0, failures=[], samples=[], worst=None)
        R.ev['evaluations'] += res.get('evaluations', 0)
        R.ev['distinct_nontrivial'] += res.get('distinct_nontrivial', res.get('evaluations', 0))
        R.ev['oracles'][o['id']] = dict(evaluations=res.get('evaluations', 0), failures=len(res.get('failures', [])),
                                        worst=res.get('worst'))
        R.ev['samples'] += res.get('samples', [])[:1]
        if res.get('failures'):
            failures[o['id']] = res['failures']

    # 4b. second search: an obligation is broken (proof, correspondence or tie) and no failing input has
    #     been found for it.  The sibling oracles of the property ran only at their every-run depth;
    #     run them again at search depth (bounded wall time), so that the breakage comes with a concrete
    #     failing input on the real code whenever one of the property's oracles can produce it.
    def _unexplained():
        return [o['id'] for o in obls if not status.get(o['id'], (True, None))[0]
                and not [f for f in failures.get(o['id'], [])
                         if not [k for k in known if finding_matches(k, prop, o['id'], f.get('site'))]]]
    if _unexplained() and not big:
        t_search = time.time()
        for o in obls:
            fn = o.get('oracle')
            if not fn or not status.get(o['id'], (True, None))[0]:
                continue          # no oracle, or already searched at depth above
            if time.time() - t_search > float(os.environ.get('VERIF_SEARCH_SECONDS', '150')):
                break
            try:
                fns = fn if isinstance(fn, (list, tuple)) else [fn]
                for f1 in fns:
                    left = float(os.environ.get('VERIF_SEARCH_SECONDS', '150')) - (time.time() - t_search)
                    if left <= 1:
                        break
                    try:
                        with time_limit(min(left, 90.0)):
                            r1 = f1(rng, budget * 3 / len(fns), True)
                    except OracleTimeout:
                        continue
                    R.ev['evaluations'] += r1.get('evaluations', 0)
                    R.ev['distinct_nontrivial'] += r1.get('distinct_nontrivial', r1.get('evaluations', 0))
                    for fl in r1.get('failures', []):
                        if fl.get('site') not in [x.get('site') for x in failures.get(o['id'], [])]:
                            failures.setdefault(o['id'], []).append(fl)
            except Exception as ex:
                R.notes.append('search-depth oracle for %s crashed: %s' % (o['id'], ex))
        R.notes.append('search-depth pass over sibling oracles: %.0fs' % (time.time() - t_search))

    # 5. decision -----------------------------------------------------------
    nobl = 0
    ndis = 0
    for o in obls:
        oid = o['id']
        ok, why = status.get(oid, (True, None))
        fails = failures.get(oid, [])
        is_finding_obl = o.get('finding', False)
        nobl += 1
        new_fails = []
        for f in fails:
            kf = [k for k in known if finding_matches(k, prop, oid, f.get('site'))]
            if kf:
                if (oid, f.get('site')) not in [(x[0], x[1]) for x in R.known]:
                    R.known.append((oid, f.get('site'), kf[0].get('what', '')))
            else:
                new_fails.append(f)
        if new_fails:
            f = new_fails[0]
            R.violation(oid, dict(kind='failing-input', failing_input=f, proof_status=why or 'proved',
                                  replay='./check %s --replay <this file>' % prop))
            continue
        if ok:
            ndis += 1
            continue
        # the proof or the tie is broken and no new failing input was found
        if is_finding_obl and any(k.get('obligation') == oid for k in known):
            # an obligation that exists only to pin a known defect (Finding theorem):
            # when it stops checking and the defect no longer reproduces, say so once
            pass
        R.ev['broken'].append(dict(obligation=oid, why=why))
        R.violation(oid, dict(kind='unproved', broken=why, failing_input=None,
                              note='the theorem or correspondence named above no longer checks and the search '
                                   'found no failing input on the real code'), no_input=True)
    R.ev['obligations'] = nobl
    R.ev['discharged'] = ndis

    for oid, site, what in R.known:
        log('KNOWN-FINDING: property=%s %s [%s] %s' % (prop, oid, site, what))
    for path, no_input in R.violations:
        log('VIOLATION property=%s replay=%s%s' % (prop, path, ' no-failing-input-found' if no_input else ''))
    write_evidence(R, spec)
    log('%s %s: obligations=%d discharged=%d evaluations=%d known=%d violations=%d  %.1fs'
        % (prop, tier, nobl, ndis, R.ev['evaluations'], len(R.known), len(R.violations), time.time() - R.t0))
    return 1 if R.violations else 0


def write_evidence(R, spec):
    ev = R.ev
    samples = ev['samples'][:6]
    if not samples:
        samples = [dict(obligation=o['id'], theorems=o.get('theorems', [])) for o in spec['obligations'][:3]]
    cov = dict(
        obligations=ev['obligations'], discharged=ev['discharged'],
        checker_cmd='cd lean && lake build <property modules> && lake env lean .audit/Audit_%s.lean (#print axioms)' % R.prop,
        trusted_base=TRUSTED_BASE + spec.get('trusted_extra', []),
        evaluations=ev['evaluations'], distinct_nontrivial=ev['distinct_nontrivial'],
        rule='evaluations = correspondence cases (Float twin / hand model vs real code, same inputs) + oracle evaluations '
             'on the real code; a correspondence case is non-trivial when the real call returned finite fields '
             '(not a rejection or NaN leaf) and distinct when its input line differs',
        samples=samples,
        theorems=ev['theorems'], correspondence=ev['correspondence'], oracles=ev['oracles'],
        broken=ev['broken'], known_findings=[dict(obligation=a, site=b, what=c) for a, b, c in R.known],
        scope=spec.get('scope', ''),
    )
    if 'leanchecker' in ev:
        cov['leanchecker'] = ev['leanchecker']
    if R.notes:
        cov['notes'] = [str(n)[:2000] for n in R.notes][:20]
    out = dict(property_id=R.prop, tier=R.tier, seed=R.seed, level='proof', coverage=cov,
               assumptions=TRUSTED_BASE + spec.get('trusted_extra', []),
               wall_s=round(time.time() - R.t0, 2), violations=len(R.violations))
    with open(os.path.join(ROOT, 'evidence', R.prop + '.json'), 'w') as f:
        json.dump(out, f, indent=1, default=str)


def replay(prop, spec, path):
    """re-evaluate a recorded failing input on the current tree"""
    d = json.load(open(path))
    oid = d.get('obligation')
    o = [x for x in spec['obligations'] if x['id'] == oid]
    if not o:
        log('obligation %s not registered' % oid)
        return 2
    o = o[0]
    fi = d.get('failing_input')
    if fi is None:
        log('replay: no failing input was recorded; broken obligation: %s' % d.get('broken'))
        log('re-run ./check %s to see whether the theorem / correspondence checks now' % prop)
        return 1
    fn = o.get('replay') or o.get('oracle')
    fns = fn if isinstance(fn, (list, tuple)) else [fn]
    res = dict(failures=[])
    with quiet():
        for f1 in fns:
            if fi.get('oracle') and getattr(f1, '__name__', None) not in (None, fi.get('oracle')) and len(fns) > 1:
                continue
            try:
                r1 = f1(random.Random(0), 0, False, replay=fi)
            except Exception:
                continue
            res['failures'] += [f for f in r1.get('failures', []) if f.get('site') == fi.get('site')]
    if res.get('failures'):
        log('replay: still fails: %s' % json.dumps(res['failures'][0], default=str)[:600])
        log('VIOLATION property=%s replay=%s' % (prop, path))
        return 1
    log('replay: the recorded input no longer fails')
    return 0


if __name__ == '__main__':
    try:
        sys.exit(main())
    except subprocess.TimeoutExpired:
        sys.exit(2)
