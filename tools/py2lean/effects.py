"""py2lean.effects -- effect IR of shared mutable state (C06), extracted from the AST.

For every module that declares `global` names, the shared locations are those names
(qualified by module).  For each entry point (a function the solver classes call) the
extractor produces a *call-free* program over

    r ℓ | w ℓ | wc ℓ c | seq | ite | iteEq ℓ c | loop | skip

by walking the function body in evaluation order and inlining calls to functions of
the same package (a function handed to another function as an argument -- the
right-hand side given to an ODE integrator, the integrand given to `quad` -- becomes
`loop(body)` at the call site).  `lean/EPV/Model/Effects.lean` gives the IR its
semantics and proves the analysis run on it sound.
"""
import ast
import importlib
import inspect
import textwrap

from .model import HEADER

ENTRY_POINTS = [
    ('exactpack.solvers.guderley.ramsey', 'guderley_1d'),
    ('exactpack.solvers.rmtv.timmes', 'rmtv'),
    ('exactpack.solvers.suolson.timmes', 'suolson'),
    ('exactpack.solvers.radshocks.radshock', 'greyED_RadShock.ED_driver'),
    ('exactpack.solvers.radshocks.radshock', 'greyNED_RadShock.nED_driver'),
    ('exactpack.solvers.radshocks.radshock', 'greySn_RadShock.Sn_driver'),
    ('exactpack.solvers.radshocks.radshock', 'Shock_2Tie.IE_driver'),
]


class Mod(object):
    def __init__(self, name):
        self.name = name
        self.py = importlib.import_module(name)
        self.tree = ast.parse(inspect.getsource(self.py))
        self.funcs = {n.name: n for n in self.tree.body if isinstance(n, ast.FunctionDef)}
        self.classes = {n.name: n for n in self.tree.body if isinstance(n, ast.ClassDef)}
        self.methods = {}       # class name -> {method name: FunctionDef}
        self.bases = {}
        for cn, c in self.classes.items():
            self.methods[cn] = {n.name: n for n in c.body if isinstance(n, ast.FunctionDef)}
            self.bases[cn] = [b.id if isinstance(b, ast.Name) else getattr(b, 'attr', None) for b in c.bases]
        self.modalias = {}      # local name -> sibling module name
        self.imported = {}
        self.shared = set()
        for node in ast.walk(self.tree):
            if isinstance(node, ast.Global):
                self.shared.update(node.names)
        # module-level names bound to a mutable container (dict/list/set: a memo, a registry) that
        # some function mutates are shared state as well, although no `global` statement is needed
        MUT = {'update', 'append', 'extend', 'insert', 'pop', 'remove', 'clear', 'setdefault', 'add', 'discard',
               'popitem', '__setitem__', 'sort', 'reverse'}
        containers = set(n for n, v in vars(self.py).items()
                         if isinstance(v, (dict, list, set)) and not n.startswith('__'))
        self.containers = set()
        for fn in ast.walk(self.tree):
            if not isinstance(fn, (ast.FunctionDef, ast.Lambda)):
                continue
            for node in ast.walk(fn):
                tgt = []
                if isinstance(node, ast.Assign):
                    tgt = node.targets
                elif isinstance(node, (ast.AugAssign, ast.AnnAssign)):
                    tgt = [node.target]
                for t in tgt:
                    if isinstance(t, ast.Subscript) and isinstance(t.value, ast.Name) and t.value.id in containers:
                        self.containers.add(t.value.id)
                if isinstance(node, ast.Call) and isinstance(node.func, ast.Attribute) and node.func.attr in MUT \
                        and isinstance(node.func.value, ast.Name) and node.func.value.id in containers:
                    self.containers.add(node.func.value.id)
        self.shared |= self.containers
        # names imported from sibling modules: local name -> (module, function)
        top = list(self.tree.body)
        for node in list(top):
            if isinstance(node, ast.Try):     # `try: import x  except ImportError: from pkg import x`
                top += node.body + [h2 for h in node.handlers for h2 in h.body]
        for node in top:
            if isinstance(node, ast.Import):
                for a in node.names:
                    cand = name.rsplit('.', 1)[0] + '.' + a.name
                    try:
                        importlib.import_module(cand)
                        self.modalias[a.asname or a.name] = cand
                    except Exception:
                        pass
            if isinstance(node, ast.ImportFrom) and node.module and node.level >= 1:
                base = name.rsplit('.', node.level)[0]
                target = base + '.' + node.module
                for a in node.names:
                    self.imported[a.asname or a.name] = (target, a.name)
            if isinstance(node, ast.ImportFrom) and node.level >= 1 and not node.module:
                base = name.rsplit('.', node.level)[0]
                for a in node.names:
                    self.modalias[a.asname or a.name] = base + '.' + a.name
            if isinstance(node, ast.ImportFrom) and node.module and node.module.startswith('exactpack.solvers'):
                for a in node.names:
                    self.modalias[a.asname or a.name] = node.module + '.' + a.name
                    self.imported[a.asname or a.name] = (node.module, a.name)


class Extractor(object):
    def __init__(self):
        self.mods = {}
        self.locs = {}          # 'module.name' -> index
        self.notes = []

    def mod(self, name):
        if name not in self.mods:
            self.mods[name] = Mod(name)
        return self.mods[name]

    def loc(self, m, n):
        k = m.name.split('.')[-2] + '.' + m.name.split('.')[-1] + '.' + n
        if k not in self.locs:
            self.locs[k] = len(self.locs)
        return self.locs[k]

    # -- IR constructors (tuples) ---------------------------------------
    @staticmethod
    def seq(items):
        items = [i for i in items if i != ('skip',)]
        if not items:
            return ('skip',)
        out = items[-1]
        for i in reversed(items[:-1]):
            out = ('seq', i, out)
        return out

    # -- scoping ----------------------------------------------------------
    @staticmethod
    def locals_of(fn):
        glob = set()
        loc = set(a.arg for a in fn.args.args + fn.args.kwonlyargs)
        if fn.args.vararg:
            loc.add(fn.args.vararg.arg)
        if fn.args.kwarg:
            loc.add(fn.args.kwarg.arg)

        class V(ast.NodeVisitor):
            def visit_Global(self, node):
                glob.update(node.names)

            def visit_Name(self, node):
                if isinstance(node.ctx, (ast.Store, ast.Del)):
                    loc.add(node.id)

            def visit_Import(self, node):
                for a in node.names:
                    loc.add(a.asname or a.name.split('.')[0])

            visit_ImportFrom = visit_Import

            def visit_FunctionDef(self, node):
                if node is not fn:
                    loc.add(node.name)
                else:
                    self.generic_visit(node)

            def visit_Lambda(self, node):
                pass
        V().visit(fn)
        return loc - glob, glob

    # -- flag tests -------------------------------------------------------------
    @staticmethod
    def _int_const(e):
        """the int value of a literal (`2`, `-1`, `True`), else None"""
        if isinstance(e, ast.Constant) and isinstance(e.value, (int, bool)) and not isinstance(e.value, float):
            return int(e.value)
        if isinstance(e, ast.UnaryOp) and isinstance(e.op, ast.USub) and isinstance(e.operand, ast.Constant) \
                and isinstance(e.operand.value, int) and not isinstance(e.operand.value, (bool, float)):
            return -int(e.operand.value)
        return None

    def flag_test(self, t, ctx):
        """a test that compares one shared location with an int literal, whichever way it is written
        (`g == 2`, `2 == g`, `g != 2`, `not g == 2`, `not (g != 2)`): returns (name, const, negated) or None.
        Each form reads the location exactly once, like the `iteEq` it becomes."""
        m, fn_locals, stack = ctx
        neg = False
        while isinstance(t, ast.UnaryOp) and isinstance(t.op, ast.Not):
            neg = not neg
            t = t.operand
        if not (isinstance(t, ast.Compare) and len(t.ops) == 1 and isinstance(t.ops[0], (ast.Eq, ast.NotEq))):
            return None
        l, r = t.left, t.comparators[0]
        if not isinstance(l, ast.Name):
            l, r = r, l
        if not (isinstance(l, ast.Name) and l.id in m.shared and l.id not in fn_locals):
            return None
        c = self._int_const(r)
        if c is None:
            return None
        if isinstance(t.ops[0], ast.NotEq):
            neg = not neg
        return (l.id, c, neg)

    # -- constants handed to a helper -------------------------------------------
    def const_params(self, fn, call):
        """parameter name -> int literal, for the parameters of the plain function `fn` that the call
        site `call` binds to an int literal and that `fn` never re-binds (so that `g = k` inside a helper
        `def set_flag(k): global g; g = k` called as `set_flag(2)` is the constant store `g = 2`)"""
        if call is None or any(isinstance(a, ast.Starred) for a in call.args) or any(k.arg is None for k in call.keywords):
            return {}
        if fn.args.vararg is not None or getattr(fn.args, 'posonlyargs', None):
            return {}
        names = [a.arg for a in fn.args.args]
        bound = {}
        for n, a in zip(names, call.args):
            bound[n] = a
        if len(call.args) > len(names):
            return {}
        allowed = set(names) | set(a.arg for a in fn.args.kwonlyargs)
        for k in call.keywords:
            if k.arg not in allowed or k.arg in bound:
                return {}
            bound[k.arg] = k.value
        rebound = set()
        for node in ast.walk(fn):
            if isinstance(node, ast.Name) and isinstance(node.ctx, (ast.Store, ast.Del)):
                rebound.add(node.id)
            elif isinstance(node, (ast.Global, ast.Nonlocal)):
                rebound.update(node.names)
            elif isinstance(node, (ast.FunctionDef, ast.Lambda, ast.ClassDef)) and node is not fn:
                # a nested scope may shadow or (nonlocal) re-bind: give up on every name it mentions
                for sub in ast.walk(node):
                    if isinstance(sub, ast.Name):
                        rebound.add(sub.id)
                    elif isinstance(sub, ast.arg):
                        rebound.add(sub.arg)
        out = {}
        for n, a in bound.items():
            c = self._int_const(a)
            if c is not None and n not in rebound:
                out[n] = c
        return out

    # -- local aliases of functions -----------------------------------------------
    @staticmethod
    def local_aliases(fn):
        """local name -> the Name / Lambda it is bound to, for locals of `fn` bound exactly once, by a plain
        `rhs = f` or `rhs = lambda ...` (a right-hand side hoisted into a local before it is handed to an
        integrator is still that function)"""
        stores = {}
        for node in ast.walk(fn):
            if isinstance(node, ast.Name) and isinstance(node.ctx, (ast.Store, ast.Del)):
                stores[node.id] = stores.get(node.id, 0) + 1
            elif isinstance(node, ast.arg):
                stores[node.arg] = stores.get(node.arg, 0) + 1
            elif isinstance(node, (ast.FunctionDef, ast.ClassDef)) and node is not fn:
                stores[node.name] = stores.get(node.name, 0) + 1
            elif isinstance(node, (ast.Import, ast.ImportFrom)):
                for al in node.names:
                    n = al.asname or al.name.split('.')[0]
                    stores[n] = stores.get(n, 0) + 1
            elif isinstance(node, (ast.Global, ast.Nonlocal)):
                for n in node.names:
                    stores[n] = stores.get(n, 0) + 2
        out = {}
        for node in ast.walk(fn):
            if isinstance(node, ast.Assign) and len(node.targets) == 1 and isinstance(node.targets[0], ast.Name) \
                    and stores.get(node.targets[0].id) == 1 and isinstance(node.value, (ast.Name, ast.Lambda)):
                out[node.targets[0].id] = node.value
        return out

    def dealias(self, a, ctx, depth=0):
        """follow local aliases of functions (see local_aliases)"""
        m, fn_locals, stack = ctx
        al = self._aliases[-1] if getattr(self, '_aliases', None) else {}
        while isinstance(a, ast.Name) and a.id in fn_locals and a.id in al and depth < 8:
            a = al[a.id]
            depth += 1
        return a

    # -- expressions --------------------------------------------------------
    def expr(self, e, ctx):
        """IR of evaluating expression e (reads, inlined calls)"""
        m, fn_locals, stack = ctx
        if e is None:
            return ('skip',)
        if isinstance(e, ast.Name):
            if isinstance(e.ctx, ast.Load) and e.id in m.shared and e.id not in fn_locals:
                return ('r', self.loc(m, e.id))
            return ('skip',)
        if isinstance(e, ast.Call):
            parts = []
            callbacks = []
            for a in list(e.args) + [k.value for k in e.keywords]:
                cb = self.callback(a, ctx)
                if cb is not None:
                    callbacks.append(cb)
                else:
                    parts.append(self.expr(a, ctx))
            if not isinstance(e.func, ast.Name):
                parts.append(self.expr(e.func, ctx))
                if isinstance(e.func, ast.Attribute) and isinstance(e.func.value, ast.Name) \
                        and e.func.value.id in getattr(m, 'containers', ()) and e.func.value.id not in fn_locals \
                        and e.func.attr in ('update', 'append', 'extend', 'insert', 'pop', 'remove', 'clear', 'setdefault',
                                            'add', 'discard', 'popitem', 'sort', 'reverse'):
                    parts.append(('w', self.loc(m, e.func.value.id)))
            target_fn = self.dealias(e.func, ctx)
            if isinstance(target_fn, ast.Lambda) and target_fn is not e.func:
                # a call of a local bound once to a lambda runs the lambda's body
                parts.append(self.expr(target_fn.body, (m, fn_locals | set(x.arg for x in target_fn.args.args), stack)))
            callee = self.resolve(target_fn, ctx)
            if callee is not None:
                self._pending_call = e          # consumed by inline(): int literals bound to parameters
                parts.append(self.inline(callee[0], callee[1], stack))
            elif isinstance(e.func, ast.Attribute) and not (isinstance(e.func.value, ast.Name)
                                                            and e.func.value.id in ('numpy', 'np', 'scipy', 'math', 'os', 'copy')):
                # a method call on an object whose class is not known syntactically:
                # any method of that name in this module or its sibling modules may run
                cands = self.method_candidates(m, e.func.attr)
                if cands:
                    alt = None
                    for cm, cn in cands:
                        body = self.inline(cm, cn, stack)
                        alt = body if alt is None else ('ite', body, alt)
                    parts.append(alt)
            for cb in callbacks:
                parts.append(('loop', cb))
            return self.seq(parts)
        if isinstance(e, ast.Lambda):
            return ('skip',)
        if isinstance(e, ast.IfExp):
            ft = self.flag_test(e.test, ctx)
            if ft is not None:      # `a if flag == c else b`: the same path-sensitive branch as the statement form
                yes, no = self.expr(e.body, ctx), self.expr(e.orelse, ctx)
                if ft[2]:
                    yes, no = no, yes
                return ('iteEq', self.loc(m, ft[0]), ft[1], yes, no)
            return self.seq([self.expr(e.test, ctx), ('ite', self.expr(e.body, ctx), self.expr(e.orelse, ctx))])
        if isinstance(e, ast.BoolOp):
            # short circuit: first operand always, the rest maybe
            first = self.expr(e.values[0], ctx)
            rest = self.seq([self.expr(v, ctx) for v in e.values[1:]])
            return self.seq([first, ('ite', rest, ('skip',))])
        if isinstance(e, (ast.ListComp, ast.GeneratorExp, ast.SetComp, ast.DictComp)):
            inner = [self.expr(g.iter, ctx) for g in e.generators]
            body = [self.expr(x, ctx) for g in e.generators for x in g.ifs]
            body.append(self.expr(getattr(e, 'elt', None) or getattr(e, 'value', None), ctx))
            if isinstance(e, ast.DictComp):
                body.append(self.expr(e.key, ctx))
            return self.seq(inner + [('loop', self.seq(body))])
        return self.seq([self.expr(c, ctx) for c in ast.iter_child_nodes(e) if isinstance(c, ast.expr)])

    def find_method(self, m, cls, meth):
        """method lookup through the bases (by name, depth first)"""
        seen = []
        todo = [(m, cls)]
        while todo:
            mm, c = todo.pop(0)
            if (mm.name, c) in seen or c is None:
                continue
            seen.append((mm.name, c))
            if c in mm.methods:
                if meth in mm.methods[c]:
                    return (mm, c + '.' + meth)
                todo = [(mm, b) for b in mm.bases[c]] + todo
            elif c in mm.imported:
                try:
                    tm = self.mod(mm.imported[c][0])
                    todo.insert(0, (tm, mm.imported[c][1]))
                except Exception:
                    pass
        return None

    def method_candidates(self, m, meth):
        out = []
        mods = [m]
        for alias, tm in m.modalias.items():
            try:
                mods.append(self.mod(tm))
            except Exception:
                pass
        for mm in mods:
            for c in mm.methods:
                if meth in mm.methods[c]:
                    out.append((mm, c + '.' + meth))
        return out

    def resolve(self, f, ctx):
        m, fn_locals, stack = ctx
        # super(C, self).__init__ / super().meth  -> first base defining it
        if isinstance(f, ast.Attribute) and isinstance(f.value, ast.Call) and getattr(f.value.func, 'id', None) == 'super':
            cur = [k for k in stack if '.' in k[1]]
            if cur:
                mm = self.mod(cur[-1][0])
                cls = cur[-1][1].split('.')[0]
                if f.value.args and isinstance(f.value.args[0], ast.Name):
                    cls = f.value.args[0].id
                for b in mm.bases.get(cls, []):
                    r = self.find_method(mm, b, f.attr)
                    if r is not None:
                        return r
            return None
        if isinstance(f, ast.Attribute) and isinstance(f.value, ast.Name) and f.value.id in m.modalias \
                and f.value.id not in fn_locals:
            try:
                tm = self.mod(m.modalias[f.value.id])
            except Exception:
                return None
            if f.attr in tm.funcs:
                return (tm, f.attr)
            if f.attr in tm.classes:
                return self.find_method(tm, f.attr, '__init__')
            return None
        if isinstance(f, ast.Name) and f.id not in fn_locals:
            if f.id in m.classes:
                return self.find_method(m, f.id, '__init__')
            if f.id in m.funcs:
                return (m, f.id)
            if f.id in m.imported:
                tm, tf = m.imported[f.id]
                try:
                    tmod = self.mod(tm)
                except Exception:
                    return None
                if tf in tmod.funcs:
                    return (tmod, tf)
        return None

    def callback(self, a, ctx):
        """IR of the body of a function-valued argument, or None"""
        m, fn_locals, stack = ctx
        a = self.dealias(a, ctx)
        if isinstance(a, ast.Lambda):
            return self.expr(a.body, (m, fn_locals | set(x.arg for x in a.args.args), stack))
        r = self.resolve(a, ctx) if isinstance(a, ast.Name) else None
        if r is not None:
            self._pending_call = None
            return self.inline(r[0], r[1], stack)
        return None

    # -- statements ---------------------------------------------------------
    def inline(self, m, fname, stack):
        call, self._pending_call = getattr(self, '_pending_call', None), None   # the call site, if expr() set one
        key = (m.name, fname)
        if key in stack:
            self.notes.append('recursion through %s.%s cut' % key)
            return ('skip',)
        if '.' in fname:
            cn, mn = fname.split('.')
            fn = m.methods[cn][mn]
        else:
            fn = m.funcs[fname]
        loc, glob = self.locals_of(fn)
        ctx = (m, loc, stack + (key,))
        consts = self.const_params(fn, call) if '.' not in fname else {}
        if not hasattr(self, '_consts'):
            self._consts = []
        self._consts.append(consts)
        if not hasattr(self, '_aliases'):
            self._aliases = []
        self._aliases.append(self.local_aliases(fn))
        try:
            return self.block(fn.body, ctx, glob)
        finally:
            self._consts.pop()
            self._aliases.pop()

    @staticmethod
    def _terminates(stmts):
        """does this statement list always leave the enclosing block (return / raise / break / continue)?"""
        if not stmts:
            return False
        last = stmts[-1]
        if isinstance(last, (ast.Return, ast.Raise, ast.Break, ast.Continue)):
            return True
        if isinstance(last, ast.If):
            return Extractor._terminates(last.body) and Extractor._terminates(last.orelse)
        return False

    def block(self, stmts, ctx, glob):
        # `if flag == c: ...; return` followed by more statements is `if flag == c: ... else: <the rest>` written
        # with an early exit: keep the flag's path sensitivity (only for tests on a flag-valued shared location,
        # so that every other program is extracted exactly as before)
        for i, s in enumerate(stmts):
            if isinstance(s, ast.If) and i + 1 < len(stmts) and self.flag_test(s.test, ctx) is not None:
                bt, et = self._terminates(s.body), self._terminates(s.orelse)
                if bt != et:
                    rest = list(stmts[i + 1:])
                    new = ast.If(test=s.test, body=list(s.body) + ([] if bt else rest),
                                 orelse=list(s.orelse) + ([] if et else rest))
                    return self.seq([self.stmt(x, ctx, glob) for x in stmts[:i]] + [self.stmt(new, ctx, glob)])
        return self.seq([self.stmt(s, ctx, glob) for s in stmts])

    def target(self, t, value, ctx, glob):
        m, fn_locals, stack = ctx
        if isinstance(t, ast.Name):
            if t.id in glob and t.id in m.shared:
                l = self.loc(m, t.id)
                if isinstance(value, ast.Constant) and isinstance(value.value, (int, bool)) \
                        and not isinstance(value.value, float):
                    return ('wc', l, int(value.value))
                consts = self._consts[-1] if getattr(self, '_consts', None) else {}
                if isinstance(value, ast.Name) and value.id in consts and value.id in fn_locals:
                    return ('wc', l, consts[value.id])      # a parameter the call site bound to an int literal
                return ('w', l)
            return ('skip',)
        if isinstance(t, (ast.Tuple, ast.List)):
            if isinstance(value, (ast.Tuple, ast.List)) and len(value.elts) == len(t.elts) \
                    and not any(isinstance(x, ast.Starred) for x in list(t.elts) + list(value.elts)):
                # `x, flag = -1.0, 1` stores the literal into `flag` exactly as `flag = 1` does
                return self.seq([self.target(x, v, ctx, glob) for x, v in zip(t.elts, value.elts)])
            return self.seq([self.target(x, None, ctx, glob) for x in t.elts])
        if isinstance(t, ast.Subscript):
            # element store into a shared container: read the container, then treat as write
            inner = self.expr(t.slice, ctx)
            if isinstance(t.value, ast.Name) and t.value.id in m.shared and t.value.id not in fn_locals:
                return self.seq([inner, ('r', self.loc(m, t.value.id)), ('w', self.loc(m, t.value.id))])
            return self.seq([inner, self.expr(t.value, ctx)])
        if isinstance(t, ast.Attribute):
            return self.expr(t.value, ctx)
        if isinstance(t, ast.Starred):
            return self.target(t.value, None, ctx, glob)
        return ('skip',)

    def stmt(self, s, ctx, glob):
        m, fn_locals, stack = ctx
        if isinstance(s, ast.Assign):
            return self.seq([self.expr(s.value, ctx)] + [self.target(t, s.value, ctx, glob) for t in s.targets])
        if isinstance(s, ast.AnnAssign):
            return self.seq([self.expr(s.value, ctx), self.target(s.target, s.value, ctx, glob)])
        if isinstance(s, ast.AugAssign):
            rd = self.expr(ast.Name(id=s.target.id, ctx=ast.Load()), ctx) if isinstance(s.target, ast.Name) \
                else self.expr(s.target, ctx)
            return self.seq([rd, self.expr(s.value, ctx), self.target(s.target, None, ctx, glob)])
        if isinstance(s, (ast.Expr, ast.Return)):
            return self.expr(s.value, ctx)
        if isinstance(s, ast.If):
            t = s.test
            if isinstance(t, ast.Compare) and len(t.ops) == 1 and isinstance(t.ops[0], ast.Eq) \
                    and isinstance(t.left, ast.Name) and t.left.id in m.shared and t.left.id not in fn_locals \
                    and isinstance(t.comparators[0], ast.Constant) and isinstance(t.comparators[0].value, int):
                return ('iteEq', self.loc(m, t.left.id), int(t.comparators[0].value),
                        self.block(s.body, ctx, glob), self.block(s.orelse, ctx, glob))
            ft = self.flag_test(t, ctx)
            if ft is not None:      # `2 == flag`, `flag != 2`, `not flag == 2`: same branch, written another way
                yes, no = self.block(s.body, ctx, glob), self.block(s.orelse, ctx, glob)
                if ft[2]:
                    yes, no = no, yes
                return ('iteEq', self.loc(m, ft[0]), ft[1], yes, no)
            return self.seq([self.expr(t, ctx), ('ite', self.block(s.body, ctx, glob), self.block(s.orelse, ctx, glob))])
        if isinstance(s, ast.For):
            body = self.seq([self.target(s.target, None, ctx, glob), self.block(s.body, ctx, glob)])
            return self.seq([self.expr(s.iter, ctx), ('loop', body), self.block(s.orelse, ctx, glob)])
        if isinstance(s, ast.While):
            body = self.seq([self.block(s.body, ctx, glob), self.expr(s.test, ctx)])
            return self.seq([self.expr(s.test, ctx), ('loop', body), self.block(s.orelse, ctx, glob)])
        if isinstance(s, ast.Try):
            hs = ('skip',)
            for h in s.handlers:
                hs = ('ite', self.block(h.body, ctx, glob), hs)
            # the body may be abandoned anywhere: model it as "body, then maybe a handler"
            return self.seq([self.block(s.body, ctx, glob), hs, self.block(s.orelse, ctx, glob),
                             self.block(s.finalbody, ctx, glob)])
        if isinstance(s, ast.With):
            return self.seq([self.expr(i.context_expr, ctx) for i in s.items] + [self.block(s.body, ctx, glob)])
        if isinstance(s, ast.Raise):
            return self.seq([self.expr(s.exc, ctx), self.expr(s.cause, ctx)])
        if isinstance(s, ast.Assert):
            return self.expr(s.test, ctx)
        if isinstance(s, (ast.Import, ast.ImportFrom)):
            ws = []
            for a in s.names:
                n = a.asname or a.name.split('.')[0]
                if n in glob and n in m.shared:
                    ws.append(('w', self.loc(m, n)))
            return self.seq(ws)
        if isinstance(s, (ast.Global, ast.Nonlocal, ast.Pass, ast.Break, ast.Continue,
                          ast.FunctionDef, ast.ClassDef)):
            return ('skip',)
        if isinstance(s, ast.Delete):
            return ('skip',)
        self.notes.append('unhandled statement %s' % type(s).__name__)
        return ('skip',)


def to_lean(ir):
    k = ir[0]
    if k == 'skip':
        return '.skip'
    if k in ('r', 'w'):
        return '(.%s %d)' % (k, ir[1])
    if k == 'wc':
        return '(.wc %d (%d))' % (ir[1], ir[2])
    if k == 'seq':
        return '(.seq %s %s)' % (to_lean(ir[1]), to_lean(ir[2]))
    if k == 'ite':
        return '(.ite %s %s)' % (to_lean(ir[1]), to_lean(ir[2]))
    if k == 'iteEq':
        return '(.iteEq %d (%d) %s %s)' % (ir[1], ir[2], to_lean(ir[3]), to_lean(ir[4]))
    if k == 'loop':
        return '(.loop %s)' % to_lean(ir[1])
    raise ValueError(k)


def simplify(ir):
    """drop structure that carries no event (keeps traces identical)"""
    k = ir[0]
    if k == 'seq':
        a, b = simplify(ir[1]), simplify(ir[2])
        if a == ('skip',):
            return b
        if b == ('skip',):
            return a
        return ('seq', a, b)
    if k == 'ite':
        a, b = simplify(ir[1]), simplify(ir[2])
        if a == ('skip',) and b == ('skip',):
            return ('skip',)
        return ('ite', a, b)
    if k == 'loop':
        a = simplify(ir[1])
        return ('skip',) if a == ('skip',) else ('loop', a)
    if k == 'iteEq':
        return ('iteEq', ir[1], ir[2], simplify(ir[3]), simplify(ir[4]))
    return ir


IMMUTABLE = (int, float, complex, str, bytes, bool, tuple, frozenset, type(None))


def class_shared_attrs(cls):
    """class-level attributes holding a mutable object that all instances share (found by
    introspection): dicts, lists, sets, arbitrary objects — not the `parameters` help table,
    not functions/properties/classes, not immutable values"""
    import types
    import numpy as np
    from exactpack.base import ExactSolver
    out = {}
    for k in cls.__mro__:
        if k in (object, ExactSolver):
            continue
        for n, v in vars(k).items():
            if n.startswith('__') or n == 'parameters' or n in out:
                continue
            if isinstance(v, IMMUTABLE + (np.generic,)) or callable(v) or isinstance(v, (property, staticmethod, classmethod,
                                                                                      types.ModuleType)):
                continue
            out[n] = k.__name__
    return out


class ClassExtractor(Extractor):
    """effect program of `Class._run` over the class-level mutable attributes reached through `self`"""

    def __init__(self, cls):
        Extractor.__init__(self)
        self.cls = cls
        self.clsnames = set(k.__name__ for k in cls.__mro__ if k is not object)
        self.attrs = class_shared_attrs(cls)
        # an attribute the constructor *rebinds* on the instance is per-instance afterwards
        self.rebound = set()
        for k in cls.__mro__:
            fn = vars(k).get('__init__')
            if fn is None or not hasattr(fn, '__code__'):
                continue
            try:
                tree = ast.parse(textwrap.dedent(inspect.getsource(fn)))
            except Exception:
                continue
            for node in ast.walk(tree):
                if isinstance(node, (ast.Assign, ast.AnnAssign)):
                    for t in (node.targets if isinstance(node, ast.Assign) else [node.target]):
                        if isinstance(t, ast.Attribute) and isinstance(t.value, ast.Name) and t.value.id == 'self':
                            self.rebound.add(t.attr)

        # a shared object matters only if some method of the class mutates it (a list used as a
        # read-only parameter default is shared but constant)
        MUT = {'update', 'append', 'extend', 'insert', 'pop', 'remove', 'clear', 'setdefault', 'add', 'discard', 'sort',
               'reverse', 'popitem', '__setitem__'}
        mutated = set()
        for k in cls.__mro__:
            if k is object:
                continue
            try:
                ctree = ast.parse(textwrap.dedent(inspect.getsource(k)))
            except Exception:
                continue
            for node in ast.walk(ctree):
                tgt = []
                if isinstance(node, ast.Assign):
                    tgt = node.targets
                elif isinstance(node, (ast.AugAssign, ast.AnnAssign)):
                    tgt = [node.target]
                for t in tgt:
                    # self.attr[...] = v   /  self.attr.x = v
                    if isinstance(t, (ast.Subscript, ast.Attribute)) and self._is_owner_attr(t.value):
                        mutated.add(t.value.attr)
                    if isinstance(node, ast.AugAssign) and self._is_owner_attr(t):
                        mutated.add(t.attr)
                if isinstance(node, ast.Call) and isinstance(node.func, ast.Attribute) and self._is_owner_attr(node.func.value):
                    a = node.func.value.attr
                    v = None
                    for kk in cls.__mro__:
                        if a in vars(kk):
                            v = vars(kk)[a]
                            break
                    if isinstance(v, (dict, list, set)):
                        if node.func.attr in MUT:
                            mutated.add(a)
                    elif v is not None:
                        mutated.add(a)          # any method of an arbitrary shared object may change it
        self.attrs = {a: o for a, o in self.attrs.items() if a in mutated}

    @staticmethod
    def _is_self_attr(e):
        return isinstance(e, ast.Attribute) and isinstance(e.value, ast.Name) and e.value.id == 'self'

    def _is_class_ref(self, e):
        """an expression that denotes the class object itself: `Blake` (any class of the MRO, by name),
        `type(self)`, `self.__class__`"""
        if isinstance(e, ast.Name):
            return e.id in getattr(self, 'clsnames', ())
        if isinstance(e, ast.Call) and isinstance(e.func, ast.Name) and e.func.id == 'type' and len(e.args) == 1 \
                and not e.keywords and isinstance(e.args[0], ast.Name) and e.args[0].id == 'self':
            return True
        return isinstance(e, ast.Attribute) and e.attr == '__class__' and isinstance(e.value, ast.Name) \
            and e.value.id == 'self'

    def _is_owner_attr(self, e):
        """`self.attr`, or the same class-level attribute reached through the class (`Blake.attr`,
        `type(self).attr`, `self.__class__.attr`)"""
        return self._is_self_attr(e) or (isinstance(e, ast.Attribute) and self._is_class_ref(e.value))

    def aloc(self, a):
        k = 'class.%s.%s' % (self.attrs[a], a)
        if k not in self.locs:
            self.locs[k] = len(self.locs)
        return self.locs[k]

    def is_shared(self, e):
        if isinstance(e, ast.Attribute) and not isinstance(e.value, ast.Name) and self._is_class_ref(e.value) \
                and e.attr in self.attrs:
            return True                 # type(self).attr / self.__class__.attr
        if isinstance(e, ast.Attribute) and isinstance(e.value, ast.Name) and e.value.id != 'self' \
                and self._is_class_ref(e.value) and e.attr in self.attrs:
            return True                 # Blake.attr: the class-level object, whatever the instance re-binds
        return isinstance(e, ast.Attribute) and isinstance(e.value, ast.Name) and e.value.id == 'self' \
            and e.attr in self.attrs and e.attr not in self.rebound

    def expr(self, e, ctx):
        if self.is_shared(e) and isinstance(e.ctx, ast.Load):
            return ('r', self.aloc(e.attr))
        return Extractor.expr(self, e, ctx)

    def target(self, t, value, ctx, glob):
        if self.is_shared(t):
            return ('w', self.aloc(t.attr))
        if isinstance(t, ast.Subscript) and self.is_shared(t.value):
            return self.seq([self.expr(t.slice, ctx), ('r', self.aloc(t.value.attr)), ('w', self.aloc(t.value.attr))])
        return Extractor.target(self, t, value, ctx, glob)

    def resolve(self, f, ctx):
        # self.method(...) -> the method found through the MRO of the class under analysis
        if isinstance(f, ast.Attribute) and isinstance(f.value, ast.Name) and f.value.id == 'self':
            for k in self.cls.__mro__:
                if f.attr in vars(k) and hasattr(vars(k)[f.attr], '__code__'):
                    try:
                        m = self.mod(k.__module__)
                    except Exception:
                        return None
                    if k.__name__ in m.methods and f.attr in m.methods[k.__name__]:
                        return (m, k.__name__ + '.' + f.attr)
                    return None
            return None
        return Extractor.resolve(self, f, ctx)

    def run_program(self):
        for k in self.cls.__mro__:
            if '_run' in vars(k):
                m = self.mod(k.__module__)
                if k.__name__ in m.methods and '_run' in m.methods[k.__name__]:
                    return simplify(self.inline(m, k.__name__ + '._run', ()))
                return ('skip',)
        return ('skip',)


class EffectsModel(object):
    def __init__(self, name='Effects'):
        self.name = name
        ex = Extractor()
        self.programs = []
        for mod, fn in ENTRY_POINTS:
            m = ex.mod(mod)
            ir = simplify(ex.inline(m, fn, ()))
            self.programs.append((mod.split('.')[-2] + '_' + fn.replace('.', '_'), mod + ':' + fn, ir))
        # `_run` of every solver class that has class-level mutable attributes: a call must not
        # read state that another instance may have written
        import os
        import sys
        sys.path.insert(0, os.path.dirname(os.path.dirname(os.path.abspath(__file__))))
        from harness import catalog
        self.class_attrs = {}
        seen = set()
        for path, cls in sorted(catalog.discover().items()):
            try:
                cx = ClassExtractor(cls)
            except Exception:
                continue
            owner = next((k for k in cls.__mro__ if '_run' in vars(k)), None)
            if owner is None or owner in seen:
                continue
            seen.add(owner)
            try:
                ir = cx.run_program()
            except Exception as e_:
                ex.notes.append('class %s: %s' % (path, e_))
                continue
            if ir == ('skip',) and not cx.attrs:
                continue            # the call touches no shared mutable state at all
            base = len(ex.locs)
            # re-index the class extractor's locations after the module-level ones
            remap = {}
            for kname, i in sorted(cx.locs.items(), key=lambda kv: kv[1]):
                if kname not in ex.locs:
                    ex.locs[kname] = len(ex.locs)
                remap[i] = ex.locs[kname]

            def re_ix(t):
                if t[0] in ('r', 'w'):
                    return (t[0], remap[t[1]])
                if t[0] == 'wc':
                    return ('wc', remap[t[1]], t[2])
                if t[0] == 'iteEq':
                    return ('iteEq', remap[t[1]], t[2], re_ix(t[3]), re_ix(t[4]))
                return (t[0],) + tuple(re_ix(x) for x in t[1:])
            self.class_attrs[owner.__name__] = sorted(cx.attrs)
            self.programs.append(('run_' + owner.__name__, path.split(':')[0] + ':' + owner.__name__ + '._run', re_ix(ir)))
        self.locs = dict(ex.locs)
        self.notes = ex.notes

    def real_file(self):
        o = [HEADER, 'import EPV.Model.Effects', '', 'set_option maxRecDepth 1000000', '',
             'namespace EPV.Gen.Effects', '', 'open EPV.Model.Effects', '',
             '/-- shared mutable locations (module-level names declared `global` somewhere) -/',
             'def locNames : List (Nat × String) := [%s]' % ', '.join(
                 '(%d, "%s")' % (i, n) for n, i in sorted(self.locs.items(), key=lambda kv: kv[1])), '']
        for nm, src, ir in self.programs:
            o.append('/-- effect program of `%s` (calls inlined) -/' % src)
            o.append('def %s : Stmt := %s' % (nm, to_lean(ir)))
            o.append('')
        o.append('def programs : List (String × Stmt) := [%s]' % ', '.join('("%s", %s)' % (nm, nm) for nm, _, _ in self.programs))
        o += ['', 'end EPV.Gen.Effects', '']
        return '\n'.join(o)

    def describe(self):
        return {'name': self.name, 'source': 'AST of the modules with `global` declarations', 'params': [], 'pvars': [],
                'tvar': None, 'fields': [], 'conds': {}, 'leaves': [], 'consts': {},
                'locs': self.locs, 'programs': [(n, s) for n, s, _ in self.programs], 'notes': self.notes,
                'class_attrs': self.class_attrs,
                'ir': {n: ir for n, _, ir in self.programs}}
