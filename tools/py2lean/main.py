"""py2lean.main -- regenerate lean/EPV/Gen from /repo's working tree.

usage: python -m py2lean.main [--groups g1,g2] [--only Name,...] [--out DIR]
Writes files only when their content changes (so `lake build` is a no-op on an
unchanged tree) and a manifest `gen_manifest.json` describing every model."""
import argparse
import json
import os
import sys
import time
import traceback

from .sym import TraceError
from .emit import write_if_changed
from . import targets as T

ROOT = os.path.dirname(os.path.dirname(os.path.dirname(os.path.abspath(__file__))))


def generate(groups=None, only=None, out=None, quiet=False, prune=False):
    out = out or os.path.join(ROOT, 'lean', 'EPV', 'Gen')
    os.makedirs(out, exist_ok=True)
    import fcntl
    with open(os.path.join(out, '.gen.lock'), 'w') as lk:
        fcntl.flock(lk, fcntl.LOCK_EX)      # generators may run concurrently (manifest is read-modify-write)
        try:
            return _generate(groups, only, out, quiet, prune)
        finally:
            fcntl.flock(lk, fcntl.LOCK_UN)


def _generate(groups, only, out, quiet, prune=False):
    mpath = os.path.join(out, 'gen_manifest.json')
    try:
        manifest = json.load(open(mpath))
    except Exception:
        manifest = {}
    changed = []
    for tg in T.TARGETS:
        if only and tg['name'] not in only:
            continue
        if groups and not (tg['groups'] & set(groups)):
            continue
        name = tg['name']
        t0 = time.time()
        try:
            m = tg['build']()
            files = {name + '.lean': m.real_file()}
            if tg['deriv'] is not None:
                files[name + 'D.lean'] = m.deriv_file(fields=tg['deriv'] or None, second=tg['second'])
            if tg['floats']:
                files[name + 'F.lean'] = m.float_file()
            big = [fn for fn, text in files.items() if len(text) > 1500000]
            if big:
                # a trace that explodes (e.g. an iteration unrolled on symbolic values) is not a model
                raise TraceError('generated model too large (%s: %d bytes): the code no longer traces to a closed form'
                                 % (big[0], len(files[big[0]])))
            for fn, text in files.items():
                if write_if_changed(os.path.join(out, fn), text):
                    changed.append(fn)
            d = m.describe()
            d['status'] = 'ok'
            d['files'] = sorted(files)
            d['dinfo'] = {str(k): {'%s/%s' % kk: vv for kk, vv in v.items()} for k, v in getattr(m, 'dinfo', {}).items()}
            manifest[name] = d
        except TraceError as ex:
            # the code can no longer be traced: the tie for this model is broken
            manifest[name] = {'name': name, 'status': 'untraceable', 'error': str(ex)}
            for suffix in ('', 'D', 'F'):
                p = os.path.join(out, name + suffix + '.lean')
                if os.path.exists(p):
                    os.remove(p)
                    changed.append(name + suffix + '.lean')
        except Exception as ex:
            manifest[name] = {'name': name, 'status': 'untraceable',
                              'error': '%s: %s' % (type(ex).__name__, ex), 'trace': traceback.format_exc()[-1500:]}
            for suffix in ('', 'D', 'F'):
                p = os.path.join(out, name + suffix + '.lean')
                if os.path.exists(p):
                    os.remove(p)
                    changed.append(name + suffix + '.lean')
        if not quiet:
            print('%-28s %-12s %.2fs' % (name, manifest[name]['status'], time.time() - t0))
    # registry of Float twins
    current = set(t['name'] for t in T.TARGETS)
    for n in list(manifest):
        # pruning only on an explicit full run (`--prune`, used by setup.sh): a long-lived process may
        # hold a stale target list while other work adds targets
        if prune and n not in current:
            # a target that no longer exists: drop its record and its files
            del manifest[n]
            for suffix in ('', 'D', 'F'):
                p = os.path.join(out, n + suffix + '.lean')
                if os.path.exists(p):
                    os.remove(p)
                    changed.append(n + suffix + '.lean')
    names = sorted(n for n, d in manifest.items() if d.get('status') == 'ok' and (n + 'F.lean') in d.get('files', [])
                   and os.path.exists(os.path.join(out, n + 'F.lean')))
    reg = ['-- GENERATED.  Registry of the Float twins for the correspondence driver.', '']
    reg += ['import EPV.Gen.%sF' % n for n in names]
    reg += ['', 'namespace EPV.GenF', '',
            'def eval (model : String) (a : Array Float) : Option (String × Array Float) :=',
            '  match model with']
    reg += ['  | "%s" => some (EPV.GenF.%s.eval a)' % (n, n) for n in names]
    reg += ['  | _ => none', '', 'end EPV.GenF', '']
    if write_if_changed(os.path.join(out, 'Registry.lean'), '\n'.join(reg)):
        changed.append('Registry.lean')
    # registry of the hand-written executable models: every `-- driver: <name> <Lean function>`
    # line in lean/EPV/Model/*.lean registers a dispatcher  List String → String
    mdir = os.path.join(os.path.dirname(out), 'Model')
    drivers = []
    for fn in sorted(os.listdir(mdir)) if os.path.isdir(mdir) else []:
        if not fn.endswith('.lean'):
            continue
        for line in open(os.path.join(mdir, fn)):
            if line.startswith('-- driver: '):
                nm, fun = line[len('-- driver: '):].split()[:2]
                drivers.append((nm, fun, 'EPV.Model.' + fn[:-5]))
    reg = ['-- GENERATED.  Registry of the hand-written executable models for the correspondence driver.', '']
    reg += ['import %s' % m for m in sorted(set(d[2] for d in drivers))] or ['import EPV.Run.Base']
    reg += ['', 'namespace EPV.ModelReg', '', 'def eval (model : String) (args : List String) : Option String :=',
            '  match model with']
    reg += ['  | "%s" => some (%s args)' % (nm, fun) for nm, fun, _ in drivers]
    reg += ['  | _ => none', '', 'end EPV.ModelReg', '']
    if write_if_changed(os.path.join(out, 'ModelRegistry.lean'), '\n'.join(reg)):
        changed.append('ModelRegistry.lean')
    # atomic: ties and oracles of other processes read this file while generators run
    tmp = mpath + '.tmp.%d' % os.getpid()
    with open(tmp, 'w') as f:
        json.dump(manifest, f, indent=1, sort_keys=True, default=str)
    os.replace(tmp, mpath)
    return manifest, changed


if __name__ == '__main__':
    ap = argparse.ArgumentParser()
    ap.add_argument('--groups')
    ap.add_argument('--only')
    ap.add_argument('--out')
    ap.add_argument('--prune', action='store_true')
    a = ap.parse_args()
    man, ch = generate(a.groups.split(',') if a.groups else None, a.only.split(',') if a.only else None, a.out, prune=a.prune)
    print('changed:', ch)
    bad = [n for n, d in man.items() if d.get('status') != 'ok']
    if bad:
        print('UNTRACEABLE:', bad)
        for n in bad:
            print(' ', n, man[n].get('error'))
