"""py2lean.trace -- drivers that run ExactPack callables on symbolic values."""
import importlib
import inspect
import sys
import warnings

import numpy as np

from . import sym
from .sym import S, E, Rec, Patched, explore, point, TraceError
from .model import Model


def load(path):
    """'pkg.mod:Name' -> object"""
    mod, _, name = path.partition(':')
    m = importlib.import_module(mod)
    obj = m
    for part in name.split('.'):
        if part:
            obj = getattr(obj, part)
    return m, obj


def modules_of(cls, extra=()):
    """modules whose namespace must be patched while tracing cls"""
    mods = []
    for k in cls.__mro__ if inspect.isclass(cls) else ():
        m = sys.modules.get(k.__module__)
        if m is not None and m.__name__.startswith('exactpack') and m.__name__ != 'exactpack.base' and m not in mods:
            mods.append(m)
    for e in extra:
        m = importlib.import_module(e) if isinstance(e, str) else e
        if m not in mods:
            mods.append(m)
    return mods


def sym_params(cls, concrete=None, structured=None):
    """symbolic value for every declared parameter (concrete overrides)"""
    concrete = concrete or {}
    structured = structured or {}
    vals = {}
    for p in cls.parameters:
        if p in concrete:
            vals[p] = concrete[p]
        elif p in structured:
            vals[p] = structured[p]()
        else:
            vals[p] = S(p)
    return vals


def vec(prefix, n):
    a = np.empty(n, dtype=object)
    for i in range(n):
        a[i] = S('%s%d' % (prefix, i))
    return a


def trace_solver(name, clspath, pvars=('r',), tvar='t', mode='new', concrete=None, structured=None,
                 extra_modules=(), extra_shims=None, tsym=None, attrs=None, post=None, derived=None):
    """trace `solver(points, t)` for one symbolic point.
    mode 'new': bypass __init__ (constructor only validates);
    mode 'init': run the real constructor on the symbolic parameters first."""
    mod, cls = load(clspath)
    mods = modules_of(cls, extra_modules)
    shims = {'max': sym.sym_builtin_max, 'min': sym.sym_builtin_min, 'float': sym.sym_float}
    if extra_shims:
        shims.update(extra_shims)

    def run():
        vals = sym_params(cls, concrete, structured)
        if mode == 'new':
            s = cls.__new__(cls)
            s.verbose = False
            for k, v in vals.items():
                setattr(s, k, v)
        else:
            s = cls(**vals)
        if attrs:
            for k, v in attrs.items():
                setattr(s, k, v)
        t = (tsym if tsym is not None else (S(tvar) if tvar else 0.0))
        res = s._run(point(pvars), t)
        if post:
            res = post(s, res)
        return res

    with warnings.catch_warnings():
        warnings.simplefilter('ignore')
        with Patched(mods, extra=shims, recorder=Rec):
            leaves = explore(run)
    return Model(name, leaves, list(pvars), tvar, source=clspath, derived=derived)


def trace_init(name, clspath, concrete=None, structured=None, extra_modules=(), derived=(), extra_shims=None):
    """trace the constructor alone: acceptance predicate + derived attributes"""
    mod, cls = load(clspath)
    mods = modules_of(cls, extra_modules)
    shims = {'max': sym.sym_builtin_max, 'min': sym.sym_builtin_min, 'float': sym.sym_float}
    if extra_shims:
        shims.update(extra_shims)

    def run():
        vals = sym_params(cls, concrete, structured)
        s = cls(**vals)
        out = {}
        for d in derived:
            out[d] = getattr(s, d)
        if not out:
            out['accepted'] = 1
        return out

    with warnings.catch_warnings():
        warnings.simplefilter('ignore')
        with Patched(mods, extra=shims, recorder=Rec):
            leaves = explore(run)
    return Model(name, leaves, [], None, source=clspath + '.__init__')


def trace_func(name, fn, args, outs, modules=(), pvars=(), tvar=None, source=None, extra_shims=None):
    """trace a plain function call fn(*args) with symbolic args"""
    mods = [importlib.import_module(m) if isinstance(m, str) else m for m in modules]
    shims = {'max': sym.sym_builtin_max, 'min': sym.sym_builtin_min, 'float': sym.sym_float}
    if extra_shims:
        shims.update(extra_shims)
    with warnings.catch_warnings():
        warnings.simplefilter('ignore')
        with Patched(mods, extra=shims, recorder=Rec):
            leaves = explore(lambda: fn(*(a() if callable(a) else a for a in args)))
    return Model(name, leaves, list(pvars), tvar, outs=outs, source=source or getattr(fn, '__qualname__', str(fn)))
