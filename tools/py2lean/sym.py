"""py2lean.sym -- dynamic symbolic execution of ExactPack code.

The solver's own Python is *run* on symbolic reals `E`.  No simplification is
ever applied: the expression DAG is exactly what the code computed.
Comparisons give symbolic booleans `B`; `bool(B)` asks a path oracle, and
`explore` re-runs the code under every decision prefix (DFS).

Nothing here knows about Lean; see emit.py.
"""
import math
import struct
import numbers
import numpy as np

# --------------------------------------------------------------------------
# hash-consed expression nodes
# --------------------------------------------------------------------------

_TABLE = {}
_NODES = []


def _fkey(x):
    return struct.unpack('<Q', struct.pack('<d', float(x)))[0]


class TraceError(Exception):
    """The traced code did something the translator cannot express."""


class E(object):
    """symbolic real number"""
    __slots__ = ('op', 'a', 'id', 'arr', '__weakref__')
    __array_priority__ = 1000
    shape = ()
    ndim = 0
    size = 1

    def __new__(cls, op, *a, **kw):
        arr = kw.get('arr', False)
        if op == 'flt':
            k = (op, _fkey(a[0]))
        elif op in ('sym', 'int', 'atom'):
            k = (op,) + tuple(a)
        else:
            k = (op,) + tuple(x.id if isinstance(x, (E, B)) else x for x in a)
        o = _TABLE.get(k)
        if o is None:
            o = object.__new__(cls)
            o.op = op
            o.a = a
            o.id = len(_NODES)
            o.arr = arr or any(getattr(x, 'arr', False) for x in a if isinstance(x, E))
            _NODES.append(o)
            _TABLE[k] = o
        return o

    # -- arithmetic -------------------------------------------------------
    def _b(s, o, op, rev=False):
        if isinstance(o, np.ndarray) and o.ndim > 0:
            return _map(lambda x: s._b(x, op, rev), o)
        o = lift(o)
        if o is NotImplemented:
            return NotImplemented
        return E(op, o, s) if rev else E(op, s, o)

    def __add__(s, o): return s._b(o, 'add')
    def __radd__(s, o): return s._b(o, 'add', True)
    def __sub__(s, o): return s._b(o, 'sub')
    def __rsub__(s, o): return s._b(o, 'sub', True)
    def __mul__(s, o): return s._b(o, 'mul')
    def __rmul__(s, o): return s._b(o, 'mul', True)
    def __truediv__(s, o): return s._b(o, 'div')
    def __rtruediv__(s, o): return s._b(o, 'div', True)

    def __pow__(s, o, m=None):
        if isinstance(o, np.ndarray) and o.ndim > 0:
            return _map(lambda x: s.__pow__(x), o)
        if isinstance(o, (int, np.integer)) and not isinstance(o, (bool, np.bool_)):
            o = int(o)
            if o >= 0:
                return E('npow', s, E('int', o))
            return E('zpow', s, E('int', o))
        if isinstance(o, (float, np.floating)) and float(o) == int(o) and abs(o) < 64 \
                and isinstance(o, float) and False:
            pass
        return s._b(o, 'rpow')

    def __rpow__(s, o):
        return s._b(o, 'rpow', True)

    def __neg__(s): return E('neg', s)
    def __pos__(s): return s
    def __abs__(s): return E('abs', s)

    # numpy calls these on the elements of object arrays
    def sqrt(s): return E('sqrt', s)
    def exp(s): return E('exp', s)
    def log(s): return E('log', s)
    def sin(s): return E('sin', s)
    def cos(s): return E('cos', s)
    def tan(s): return E('tan', s)
    def arccos(s): return E('arccos', s)
    def arcsin(s): return E('arcsin', s)
    def arctan(s): return E('arctan', s)
    def sinh(s): return E('sinh', s)
    def cosh(s): return E('cosh', s)
    def tanh(s): return E('tanh', s)
    def conjugate(s): return s
    def square(s): return E('npow', s, E('int', 2))
    def log10(s): return E('div', E('log', s), E('log', E('flt', 10.0)))

    def arctan2(s, o):
        return E('arctan2', s, lift(o))

    def sign(s):
        if s > 0:
            return E('flt', 1.0)
        if s < 0:
            return E('flt', -1.0)
        return E('flt', 0.0)

    def item(s): return s
    def copy(s): return s
    def __copy__(s): return s
    def __deepcopy__(s, memo): return s

    @property
    def real(s): return s

    # -- comparisons ------------------------------------------------------
    def _c(s, o, op, rev=False):
        if isinstance(o, np.ndarray) and o.ndim > 0:
            return _map(lambda x: s._c(x, op, rev), o)
        o = lift(o)
        if o is NotImplemented:
            return NotImplemented
        return B(op, o, s) if rev else B(op, s, o)

    def __lt__(s, o): return s._c(o, 'lt')
    def __le__(s, o): return s._c(o, 'le')
    def __gt__(s, o): return s._c(o, 'lt', True)
    def __ge__(s, o): return s._c(o, 'le', True)

    def __eq__(s, o):
        if o is None or isinstance(o, str):
            return False
        return s._c(o, 'eq')

    def __ne__(s, o):
        if o is None or isinstance(o, str):
            return True
        r = s._c(o, 'eq')
        if r is NotImplemented:
            return r
        return B('not', r)

    def __hash__(s):
        return s.id

    def __bool__(s):
        # `if x:`  ==  `if x != 0:`
        return bool(B('not', B('eq', s, E('int', 0))))

    def __float__(s):
        if s.op in ('int', 'flt'):
            return float(s.a[0])
        raise TraceError('float() of a symbolic value: ' + short(s))

    def __int__(s):
        if s.op == 'int':
            return s.a[0]
        raise TraceError('int() of a symbolic value: ' + short(s))

    __index__ = __int__

    def __round__(s, n=None):
        raise TraceError('round() of a symbolic value')

    def __repr__(s):
        return 'E<%s>' % short(s)

    def __format__(s, spec):
        return 'E<%s>' % short(s)

    def is_const(s):
        return s.op in ('int', 'flt')


class B(object):
    """symbolic condition; `bool()` is decided by the path oracle"""
    __slots__ = ('op', 'a', 'id')

    def __new__(cls, op, *a):
        k = ('B', op) + tuple(x.id for x in a)
        o = _TABLE.get(k)
        if o is None:
            o = object.__new__(cls)
            o.op = op
            o.a = a
            o.id = len(_NODES)
            _NODES.append(o)
            _TABLE[k] = o
        return o

    def __bool__(s):
        return CTX.decide(s)

    def __and__(s, o):
        if isinstance(o, (bool, np.bool_)):
            return s if o else False
        if isinstance(o, B):
            return B('and', s, o)
        return NotImplemented
    __rand__ = __and__

    def __or__(s, o):
        if isinstance(o, (bool, np.bool_)):
            return True if o else s
        if isinstance(o, B):
            return B('or', s, o)
        return NotImplemented
    __ror__ = __or__

    def __invert__(s):
        return B('not', s)

    def logical_and(s, o): return s.__and__(o)
    def logical_or(s, o): return s.__or__(o)
    def logical_not(s): return B('not', s)

    def __hash__(s):
        return s.id

    def __eq__(s, o):
        if isinstance(o, B):
            return s.id == o.id
        if isinstance(o, (bool, np.bool_)):
            return bool(s) == bool(o)
        return NotImplemented

    def __repr__(s):
        return 'B<%s>' % short(s)


def short(e, depth=4):
    if isinstance(e, (E, B)):
        if e.op in ('sym', 'int', 'flt', 'atom'):
            return str(e.a[0])
        if depth == 0:
            return '...'
        return e.op + '(' + ','.join(short(x, depth - 1) for x in e.a) + ')'
    return repr(e)


def lift(x):
    if isinstance(x, E):
        return x
    if isinstance(x, (bool, np.bool_)):
        return E('int', int(x))
    if isinstance(x, int):
        return E('int', int(x))
    if isinstance(x, np.integer):
        return E('int', int(x), arr=True)
    if isinstance(x, float):
        return E('flt', float(x))
    if isinstance(x, np.floating):
        return E('flt', float(x), arr=True)
    if isinstance(x, np.ndarray) and x.size == 1:
        y = lift(x.reshape(-1)[0])
        if y is not NotImplemented and not y.arr:
            y = E(y.op, *y.a, arr=True) if y.op in ('int', 'flt') else y
        return y
    if isinstance(x, complex):
        raise TraceError('complex value in a real computation')
    return NotImplemented


def S(name, arr=False):
    return E('sym', name, arr=arr)


# --------------------------------------------------------------------------
# path oracle
# --------------------------------------------------------------------------

class Ctx(object):
    def __init__(self, prefix=()):
        self.prefix = list(prefix)
        self.taken = []
        self.conds = []
        self.memo = {}
        self.assume = {}       # cond id -> forced value (never recorded)
        self.atoms = []        # oracle atoms created on this path
        self.notes = []

    def decide(self, b):
        # constant folding on literal operands only (the code compared numbers)
        v = const_cond(b)
        if v is not None:
            return v
        if b.op == 'not':
            return not self.decide(b.a[0])
        if b.op == 'and':
            return self.decide(b.a[0]) and self.decide(b.a[1])
        if b.op == 'or':
            return self.decide(b.a[0]) or self.decide(b.a[1])
        if b.op in ('eq',) and b.a[0].id == b.a[1].id:
            return True
        if b.op in ('le',) and b.a[0].id == b.a[1].id:
            return True
        if b.op in ('lt',) and b.a[0].id == b.a[1].id:
            return False
        k = b.id
        if k in self.assume:
            return self.assume[k]
        if k in self.memo:
            return self.memo[k]
        i = len(self.taken)
        if i > 400:
            raise TraceError('more than 400 decisions on one path (unbounded loop on a symbolic value?)')
        v = self.prefix[i] if i < len(self.prefix) else True
        self.taken.append(v)
        self.conds.append(b)
        self.memo[k] = v
        return v


CTX = Ctx()


def const_cond(b):
    if b.op in ('lt', 'le', 'eq'):
        x, y = b.a
        if x.op in ('int', 'flt') and y.op in ('int', 'flt'):
            x, y = x.a[0], y.a[0]
            return {'lt': x < y, 'le': x <= y, 'eq': x == y}[b.op]
    return None


class Leaf(object):
    def __init__(self, conds, kind, value, atoms, notes):
        self.conds = conds      # list of (B, bool)
        self.kind = kind        # 'ok' | 'raise'
        self.value = value      # returned object | (ExceptionName, message)
        self.atoms = atoms
        self.notes = notes


def explore(fn, max_paths=4000, assume=None):
    """run fn under every decision prefix; return the list of leaves"""
    global CTX
    out = []
    stack = [[]]
    while stack:
        pre = stack.pop()
        CTX = Ctx(pre)
        if assume:
            CTX.assume = dict(assume)
        try:
            kind, val = 'ok', fn()
        except TraceError:
            raise
        except Exception as ex:       # the code under trace raised: that is a leaf
            kind, val = 'raise', (type(ex).__name__, str(ex)[:200])
        out.append(Leaf(list(zip(CTX.conds, CTX.taken)), kind, val, CTX.atoms, CTX.notes))
        if len(out) > max_paths:
            raise TraceError('more than %d paths' % max_paths)
        for i in range(len(CTX.taken) - 1, len(pre) - 1, -1):
            stack.append(CTX.taken[:i] + [not CTX.taken[i]])
    return out


def atom(name, *deps):
    """a fresh oracle atom (result of a numerical primitive)"""
    idx = len(CTX.atoms)
    a = E('atom', '%s%d' % (name, idx))
    CTX.atoms.append((a, name, deps))
    return a


# --------------------------------------------------------------------------
# namespace shims
# --------------------------------------------------------------------------

def _is_sym(x):
    if isinstance(x, (E, B)):
        return True
    if isinstance(x, np.ndarray) and x.dtype == object:
        return True
    if isinstance(x, (list, tuple)):
        return any(_is_sym(y) for y in x)
    return False


def _un(name, mathfn):
    def f(x, *a, **k):
        if isinstance(x, E):
            return getattr(x, name)()
        if isinstance(x, np.ndarray) and x.dtype == object:
            return _map(lambda y: f(y), x)
        if _is_sym(x):
            return f(np.asarray(x, dtype=object))
        return mathfn(x, *a, **k)
    f.__name__ = name
    return f


def _map(fn, *arrs):
    arrs = np.broadcast_arrays(*[np.asarray(a, dtype=object) if not isinstance(a, np.ndarray) else a for a in arrs])
    out = np.empty(arrs[0].shape, dtype=object)
    it = np.nditer(arrs[0], flags=['multi_index', 'refs_ok', 'zerosize_ok'])
    for _ in it:
        ix = it.multi_index
        out[ix] = fn(*[a[ix] for a in arrs])
    return out


def sym_where(c, a=None, b=None):
    if a is None and b is None:
        if _is_sym(c):
            cc = np.asarray(c, dtype=object)
            return np.where(_map(lambda x: bool(x), cc).astype(bool))
        return np.where(c)
    if not (_is_sym(c) or _is_sym(a) or _is_sym(b)):
        return np.where(c, a, b)
    if isinstance(c, B) or isinstance(c, (bool, np.bool_)):
        # scalar condition: numpy would return a 0-d array
        r = a if bool(c) else b
        return r
    return _map(lambda cc, x, y: x if bool(cc) else y, c, a, b)


def sym_abs(x):
    if isinstance(x, E):
        return abs(x)
    if isinstance(x, np.ndarray) and x.dtype == object:
        return _map(abs, x)
    return np.abs(x)


def sym_max2(x, y):
    return x if bool(x >= y) else y


def sym_min2(x, y):
    return x if bool(x <= y) else y


def sym_maximum(x, y):
    if _is_sym(x) or _is_sym(y):
        if isinstance(x, np.ndarray) or isinstance(y, np.ndarray):
            return _map(sym_max2, x, y)
        return sym_max2(lift(x), lift(y))
    return np.maximum(x, y)


def sym_minimum(x, y):
    if _is_sym(x) or _is_sym(y):
        if isinstance(x, np.ndarray) or isinstance(y, np.ndarray):
            return _map(sym_min2, x, y)
        return sym_min2(lift(x), lift(y))
    return np.minimum(x, y)


def sym_float(x=0.0):
    if isinstance(x, E):
        return x
    if isinstance(x, np.ndarray) and x.dtype == object and x.size == 1:
        return x.reshape(-1)[0]
    return float(x)


def _zeros(shape, dtype=None, order='C', **k):
    if dtype in (None, float, np.float64, 'float', 'float64', 'd'):
        a = np.empty(shape, dtype=object)
        a.fill(E('flt', 0.0, arr=True))
        return a
    return np.zeros(shape, dtype=dtype)


def _ones(shape, dtype=None, order='C', **k):
    return np.ones(shape, dtype=dtype)


def _empty(shape, dtype=None, order='C', **k):
    if dtype in (None, float, np.float64, 'float', 'float64', 'd'):
        a = np.empty(shape, dtype=object)
        a.fill(E('flt', 0.0, arr=True))
        return a
    return np.empty(shape, dtype=dtype)


def _zeros_like(a, dtype=None, **k):
    if isinstance(a, np.ndarray) and (a.dtype == object or a.dtype.kind == 'f') and dtype is None:
        return _zeros(a.shape)
    if isinstance(a, E):
        return E('flt', 0.0, arr=True)
    return np.zeros_like(a, dtype=dtype)


def _ones_like(a, dtype=None, **k):
    if isinstance(a, np.ndarray) and a.dtype == object:
        return np.ones(a.shape)
    if isinstance(a, E):
        return 1.0
    return np.ones_like(a, dtype=dtype)


def _full_like(a, v, **k):
    if isinstance(a, np.ndarray) and a.dtype == object or isinstance(v, E):
        out = np.empty(np.shape(a), dtype=object)
        out.fill(lift(v))
        return out
    return np.full_like(a, v, **k)


def _array(x, dtype=None, **k):
    if _is_sym(x):
        return np.array(x, dtype=object)
    if dtype is None:
        return np.array(x, **k)
    return np.array(x, dtype=dtype, **k)


def _asarray(x, dtype=None, **k):
    if _is_sym(x):
        if isinstance(x, np.ndarray):
            return x
        return np.array(x, dtype=object)
    return np.asarray(x, dtype=dtype, **k)


def _isnan(x):
    if isinstance(x, E):
        return x.op == 'flt' and x.a[0] != x.a[0]
    if isinstance(x, np.ndarray) and x.dtype == object:
        return _map(_isnan, x).astype(bool)
    return np.isnan(x)


def _logical(name):
    def f(x, y=None):
        if _is_sym(x) or _is_sym(y):
            if name == 'not':
                if isinstance(x, B):
                    return B('not', x)
                return _map(lambda u: B('not', u) if isinstance(u, B) else (not u), x)

            def g(u, v):
                if isinstance(u, B) and isinstance(v, B):
                    return B(name, u, v)
                if isinstance(u, B):
                    u, v = v, u
                # u is a concrete bool
                if name == 'and':
                    return v if u else False
                return True if u else v
            if isinstance(x, np.ndarray) or isinstance(y, np.ndarray):
                return _map(g, x, y)
            return g(x, y)
        return {'and': np.logical_and, 'or': np.logical_or, 'not': np.logical_not}[name](*([x] if y is None else [x, y]))
    return f


def _cmp(op):
    def f(x, y):
        if _is_sym(x) or _is_sym(y):
            g = {'gt': lambda u, v: u > v, 'ge': lambda u, v: u >= v,
                 'lt': lambda u, v: u < v, 'le': lambda u, v: u <= v}[op]
            if isinstance(x, np.ndarray) or isinstance(y, np.ndarray):
                return _map(lambda u, v: g(lift(u), v), x, y)
            return g(lift(x), y)
        return {'gt': np.greater, 'ge': np.greater_equal, 'lt': np.less, 'le': np.less_equal}[op](x, y)
    return f


def _norm(x, *a, **k):
    if _is_sym(x):
        x = np.asarray(x, dtype=object)
        axis = k.get('axis', a[1] if len(a) > 1 else None)
        if x.ndim == 1 or axis is None:
            s = None
            for v in x.reshape(-1):
                t = v * v
                s = t if s is None else s + t
            return lift(s).sqrt()
        if x.ndim == 2 and axis in (1, -1):
            out = np.empty(x.shape[0], dtype=object)
            for i in range(x.shape[0]):
                out[i] = _norm(x[i])
            return out
        raise TraceError('norm: unsupported shape')
    return np.linalg.norm(x, *a, **k)


def _dot(x, y):
    if _is_sym(x) or _is_sym(y):
        x = np.asarray(x, dtype=object)
        y = np.asarray(y, dtype=object)
        if x.ndim == 1 and y.ndim == 1:
            s = None
            for u, v in zip(x, y):
                t = u * v
                s = t if s is None else s + t
            return s
        if x.ndim == 2 and y.ndim == 1:
            out = np.empty(x.shape[0], dtype=object)
            for i in range(x.shape[0]):
                out[i] = _dot(x[i], y)
            return out
        raise TraceError('dot: unsupported shapes')
    return np.dot(x, y)


def _amin(x, *a, **k):
    if _is_sym(x):
        v = None
        for u in np.asarray(x, dtype=object).reshape(-1):
            v = u if v is None else sym_min2(v, u)
        return v
    return np.amin(x, *a, **k)


def _amax(x, *a, **k):
    if _is_sym(x):
        v = None
        for u in np.asarray(x, dtype=object).reshape(-1):
            v = u if v is None else sym_max2(v, u)
        return v
    return np.amax(x, *a, **k)


def _sum(x, *a, **k):
    if _is_sym(x) and not a and not k:
        s = None
        for u in np.asarray(x, dtype=object).reshape(-1):
            s = u if s is None else s + u
        return s
    return np.sum(x, *a, **k)


def _sign(x):
    if isinstance(x, E):
        return x.sign()
    if isinstance(x, np.ndarray) and x.dtype == object:
        return _map(lambda u: lift(u).sign(), x)
    return np.sign(x)


def _power(x, y):
    if _is_sym(x) or _is_sym(y):
        if isinstance(x, np.ndarray) or isinstance(y, np.ndarray):
            return _map(lambda u, v: lift(u) ** v if not isinstance(v, E) else lift(u) ** v, x, y)
        return lift(x) ** y
    return np.power(x, y)


def _square(x):
    if isinstance(x, E):
        return x * x
    if isinstance(x, np.ndarray) and x.dtype == object:
        return _map(lambda u: u * u, x)
    return np.square(x)


def _isscalar(x):
    return isinstance(x, E) or np.isscalar(x)


def _arctan2(y, x):
    if _is_sym(x) or _is_sym(y):
        if isinstance(x, np.ndarray) or isinstance(y, np.ndarray):
            return _map(lambda u, v: lift(u).arctan2(v), y, x)
        return lift(y).arctan2(x)
    return np.arctan2(y, x)


class NumpyProxy(object):
    """stands in for `np` inside the traced module only"""

    def __init__(self, real=np, extra=None):
        object.__setattr__(self, '_real', real)
        ov = dict(
            where=sym_where, abs=sym_abs, absolute=sym_abs, fabs=sym_abs,
            maximum=sym_maximum, minimum=sym_minimum,
            zeros=_zeros, empty=_empty, zeros_like=_zeros_like, empty_like=_zeros_like,
            ones_like=_ones_like, full_like=_full_like,
            array=_array, asarray=_asarray, isnan=_isnan,
            logical_and=_logical('and'), logical_or=_logical('or'), logical_not=_logical('not'),
            greater=_cmp('gt'), greater_equal=_cmp('ge'), less=_cmp('lt'), less_equal=_cmp('le'),
            dot=_dot, amin=_amin, amax=_amax, min=_amin, max=_amax, sum=_sum, sign=_sign,
            power=_power, square=_square, isscalar=_isscalar, arctan2=_arctan2,
            float64=sym_float,
        )
        for n in ('sqrt', 'exp', 'log', 'sin', 'cos', 'tan', 'arccos', 'arcsin', 'arctan',
                  'sinh', 'cosh', 'tanh', 'log10'):
            ov[n] = _un(n, getattr(np, n))
        if extra:
            ov.update(extra)
        object.__setattr__(self, '_ov', ov)
        object.__setattr__(self, 'linalg', _Linalg())

    def __getattr__(self, n):
        ov = object.__getattribute__(self, '_ov')
        if n in ov:
            return ov[n]
        return getattr(object.__getattribute__(self, '_real'), n)


def _det(m):
    """numpy.linalg.det of a symbolic 2x2 / 3x3 matrix: its exact-arithmetic meaning (cofactor expansion)"""
    if _is_sym(m):
        m = np.asarray(m, dtype=object)
        if m.shape == (2, 2):
            return m[0, 0] * m[1, 1] - m[0, 1] * m[1, 0]
        if m.shape == (3, 3):
            return (m[0, 0] * (m[1, 1] * m[2, 2] - m[1, 2] * m[2, 1])
                    - m[0, 1] * (m[1, 0] * m[2, 2] - m[1, 2] * m[2, 0])
                    + m[0, 2] * (m[1, 0] * m[2, 1] - m[1, 1] * m[2, 0]))
        raise TraceError('det: unsupported shape %r' % (m.shape,))
    return np.linalg.det(m)


def _inv(m):
    """numpy.linalg.inv of a symbolic 2x2 / 3x3 matrix: adjugate / determinant"""
    if _is_sym(m):
        m = np.asarray(m, dtype=object)
        d = _det(m)
        n = m.shape[0]
        out = np.empty((n, n), dtype=object)
        if n == 2:
            out[0, 0], out[0, 1], out[1, 0], out[1, 1] = m[1, 1] / d, -m[0, 1] / d, -m[1, 0] / d, m[0, 0] / d
            return out
        for i in range(3):
            for j in range(3):
                # cofactor of entry (j, i): cyclic index form, sign included
                a, b, c, e = (j + 1) % 3, (j + 2) % 3, (i + 1) % 3, (i + 2) % 3
                out[i, j] = (m[a, c] * m[b, e] - m[a, e] * m[b, c]) / d
        return out
    return np.linalg.inv(m)


class _Linalg(object):
    norm = staticmethod(_norm)
    det = staticmethod(_det)
    inv = staticmethod(_inv)

    def __getattr__(self, n):
        return getattr(np.linalg, n)


class MathProxy(object):
    def __getattr__(self, n):
        return math_fn(n)


_MATHMAP = {'acos': 'arccos', 'asin': 'arcsin', 'atan': 'arctan', 'fabs': None, 'pow': None}


def math_fn(n):
    real = getattr(math, n)
    if not callable(real):
        return real
    if n == 'fabs':
        return lambda x: abs(x) if isinstance(x, E) else real(x)
    if n == 'pow':
        return lambda x, y: (lift(x) ** y) if (isinstance(x, E) or isinstance(y, E)) else real(x, y)
    if n == 'atan2':
        return lambda y, x: _arctan2(y, x) if (isinstance(x, E) or isinstance(y, E)) else real(y, x)
    if n == 'isnan':
        return lambda x: _isnan(x) if isinstance(x, E) else real(x)
    if n == 'hypot':
        # two-argument Euclidean norm, as the real function sqrt(x*x + y*y)
        return lambda x, y: (lift(x) * lift(x) + lift(y) * lift(y)).sqrt() \
            if (isinstance(x, E) or isinstance(y, E)) else real(x, y)
    m = _MATHMAP.get(n, n)

    def f(x, *a):
        if isinstance(x, np.ndarray) and x.dtype == object and x.size == 1:
            x = x.reshape(-1)[0]
        if isinstance(x, E):
            if not hasattr(x, m):
                raise TraceError('math.%s of a symbolic value' % n)
            return getattr(x, m)()
        return real(x, *a)
    f.__name__ = n
    return f


_NUMPY_NAMES = set(dir(np))


class Patched(object):
    """context manager: rebind names inside module namespaces for one trace"""

    def __init__(self, modules, extra=None, recorder=None):
        self.modules = modules
        self.extra = extra or {}
        self.saved = []
        self.recorder = recorder

    def __enter__(self):
        import types
        for m in self.modules:
            for k, v in list(vars(m).items()):
                new = None
                if v is np:
                    new = NumpyProxy(extra=self.extra.get('np'))
                elif v is math:
                    new = MathProxy()
                elif isinstance(v, types.BuiltinFunctionType) and getattr(math, k, None) is v:
                    new = math_fn(k)
                elif k in self.extra:
                    new = self.extra[k]
                elif k == 'ExactSolution' and self.recorder is not None:
                    new = self.recorder
                elif k in ('abs',):
                    pass
                elif isinstance(v, (np.ufunc, types.FunctionType, types.BuiltinFunctionType)) \
                        and getattr(np, k, None) is v and k in NumpyProxy()._ov:
                    new = NumpyProxy()._ov[k]
                elif v is float and False:
                    pass
                if new is not None:
                    self.saved.append((m, k, v))
                    setattr(m, k, new)
            for k, v in self.extra.items():
                if k != 'np' and not hasattr(m, k) and k in ('float', 'max', 'min'):
                    self.saved.append((m, k, None))
                    setattr(m, k, v)
        return self

    def __exit__(self, *a):
        for m, k, v in reversed(self.saved):
            if v is None:
                try:
                    delattr(m, k)
                except AttributeError:
                    pass
            else:
                setattr(m, k, v)
        self.saved = []
        return False


class Rec(object):
    """recorder standing in for exactpack.base.ExactSolution"""

    def __init__(self, data, names=None, jumps=None):
        self.names = list(names) if names is not None else None
        if isinstance(data, dict):
            self.names = list(data.keys())
            data = list(data.values())
        self.data = list(data)
        self.jumps = jumps

    def field(self, name):
        return self.data[self.names.index(name)]

    def __getattr__(self, name):
        d = object.__getattribute__(self, '__dict__')
        if 'names' in d and d['names'] and name in d['names']:
            return d['data'][d['names'].index(name)]
        raise AttributeError(name)

    def __setattr__(self, name, value):
        d = self.__dict__
        if 'names' in d and d['names'] and name in d['names'] and 'data' in d:
            d['data'][d['names'].index(name)] = value
        else:
            d[name] = value

    def __getitem__(self, name):
        if isinstance(name, str):
            return self.data[self.names.index(name)]
        raise TraceError('ExactSolution indexed by %r' % (name,))

    def __setitem__(self, name, value):
        if isinstance(name, str):
            self.data[self.names.index(name)] = value
        else:
            raise TraceError('ExactSolution indexed by %r' % (name,))


def sym_builtin_max(*a, **k):
    if len(a) == 1:
        a = list(a[0])
    if any(isinstance(x, E) for x in a):
        v = a[0]
        for u in a[1:]:
            v = sym_max2(lift(v), lift(u))
        return v
    return max(*a, **k)


def sym_builtin_min(*a, **k):
    if len(a) == 1:
        a = list(a[0])
    if any(isinstance(x, E) for x in a):
        v = a[0]
        for u in a[1:]:
            v = sym_min2(lift(v), lift(u))
        return v
    return min(*a, **k)


def point(names=('r',)):
    """a batch of one symbolic point, as numpy.asarray(r) would deliver it"""
    if len(names) == 1:
        a = np.empty(1, dtype=object)
        a[0] = S(names[0], arr=True)
        return a
    a = np.empty((1, len(names)), dtype=object)
    for i, n in enumerate(names):
        a[0, i] = S(n, arr=True)
    return a


def scalar(x):
    """extract the single symbolic value from whatever the code returned"""
    if isinstance(x, E):
        return x
    if isinstance(x, np.ndarray):
        if x.size != 1:
            raise TraceError('expected one value per point, got shape %r' % (x.shape,))
        return scalar(x.reshape(-1)[0])
    if isinstance(x, (list, tuple)) and len(x) == 1:
        return scalar(x[0])
    if x is None:
        return None
    if isinstance(x, str):
        return x
    y = lift(x)
    if y is NotImplemented:
        raise TraceError('cannot lift %r' % (type(x),))
    return y


def symbols(e, acc=None):
    acc = set() if acc is None else acc
    seen = set()

    def go(x):
        if not isinstance(x, (E, B)) or x.id in seen:
            return
        seen.add(x.id)
        if x.op == 'sym' or x.op == 'atom':
            acc.add(x.a[0])
            return
        for y in x.a:
            go(y)
    go(e)
    return acc


def has_nan(e):
    seen = set()

    def go(x):
        if not isinstance(x, (E, B)) or x.id in seen:
            return False
        seen.add(x.id)
        if x.op == 'flt':
            return x.a[0] != x.a[0] or x.a[0] in (float('inf'), float('-inf'))
        if x.op in ('sym', 'int', 'atom'):
            return False
        return any(go(y) for y in x.a)
    return go(e)
