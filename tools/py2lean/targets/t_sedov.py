"""Sedov blast wave (exactpack/solvers/sedov/sedov.py): the closed-form pieces of the solver,
traced by running the solver's own methods on symbolic values.

Layers (each one a generated model; the numerical primitives between them are atoms):

  SedovInit        the real constructor on five symbolic parameters: acceptance tree,
                   solution type / special-singularity classification, derived constants;
                   `scipy.integrate.quad(self.efun01|efun02, …)` are the atoms `eval1_quad`,
                   `eval2_quad` (meaning: the integrals of the traced integrands SedovEfun*).
  SedovShock       `_run` from its first line up to the construction of the JumpCondition
                   object (sedov.py:185-242): NaN guard `t <= 0`, shock radius r2(t), pre-shock
                   density rho1 at the shock, shock speed us, post-shock state (rho2, u2, p2),
                   as functions of (eblast, rho0, gamma, omega, geometry, alpha, t).  The object
                   is built by the REAL constructor on symbolic parameters (so xg2, gamp1, gpogm
                   are the constructor's expressions); `alpha` (the energy integral: a quad atom
                   or the singular closed form) is then replaced by the symbol `alpha`.
  SedovFuncs{,O2,O3}  `sedov_funcs_standard(v)` for special_singularity = none / omega2 / omega3
                   on a stub whose derived constants (a0…a5, a_val…e_val, xg2, …) are symbols,
                   with derivative certificates in v.
                   The same models also carry `efun01(v)`, `efun02(v)` (the integrands of the two
                   energy integrals) evaluated on the same stub.
  SedovSingular    `sedov_funcs_singular(rwant)` (r2 a symbol);  SedovVacuum `sedov_funcs_vacuum()`.
  SedovPhysical    `physical(f, g, h)` with rho2, u2, p2 symbols.
  SedovRunSing     the WHOLE of `_run` for the singular solution type, evaluated for one symbolic
                   point on a two-node grid (`npts=2`: the nodes are the point itself and the
                   origin, so the interpolation back to the point is the identity): NaN guard,
                   pre-/post-shock selection `rwant <= r2`, the pre-shock state
                   rho0 * r**(-omega), 0, 0, similarity scaling, specific internal energy and
                   sound speed from the returned p and rho.
  SedovRunStd, SedovRunVac   the same for the standard / vacuum types with the root finder
                   `fminbound` an atom and the similarity functions at that root atoms
                   (`f_i, g_i, h_i`: values of sedov_funcs_standard at the i-th root).

How the constructor's path is chosen for SedovShock / SedovRun*: the constructor is run on
symbolic parameters under a *witness* context that decides every comparison by evaluating it
at concrete reference values (concolic execution), so the object carries the constructor's own
symbolic expressions along the path of that solution type without the validation decisions
becoming part of the model (they are the subject of SedovInit).

SEDOV_WITNESS lists the reference values; SEDOV_MODELS the generated models (for the
obligation files); the ties in harness/o_sedov.py compare every Float twin with the real
methods on random inputs."""
import math

import numpy as np

from . import target
from ..trace import trace_func, trace_init
from .. import sym
from ..sym import S, E, B, TraceError

SEDOV_MOD = 'exactpack.solvers.sedov.sedov'
SEDOV_PARAMS = ('geometry', 'gamma', 'rho0', 'omega', 'eblast')

# reference parameter values that select each constructor path (solution type, special singularity)
SEDOV_WITNESS = {
    'standard': dict(geometry=3, gamma=1.4, rho0=1.0, omega=0.0, eblast=0.851072),
    'vacuum': dict(geometry=3, gamma=1.4, rho0=1.0, omega=2.5, eblast=0.851072),
    'singular': dict(geometry=3, gamma=1.4, rho0=1.0, omega=7. / 3. + 1e-6, eblast=0.851072),
}


def _mod():
    import importlib
    return importlib.import_module(SEDOV_MOD)


# --------------------------------------------------------------------------
# numeric evaluation of an expression DAG (for the witness context only)
# --------------------------------------------------------------------------

def _ev(x, vals):
    if isinstance(x, B):
        a = x.a
        if x.op == 'not':
            return not _ev(a[0], vals)
        if x.op == 'and':
            return _ev(a[0], vals) and _ev(a[1], vals)
        if x.op == 'or':
            return _ev(a[0], vals) or _ev(a[1], vals)
        u, v = _ev(a[0], vals), _ev(a[1], vals)
        return {'lt': u < v, 'le': u <= v, 'eq': u == v}[x.op]
    op, a = x.op, x.a
    if op in ('sym', 'atom'):
        if a[0] not in vals:
            raise TraceError('witness has no value for %s' % a[0])
        return float(vals[a[0]])
    if op in ('int', 'flt'):
        return float(a[0])
    if op == 'neg':
        return -_ev(a[0], vals)
    if op == 'abs':
        return abs(_ev(a[0], vals))
    if op in ('npow', 'zpow'):
        return _ev(a[0], vals) ** a[1].a[0]
    if op in ('sqrt', 'exp', 'log'):
        return getattr(math, op)(_ev(a[0], vals))
    u, v = _ev(a[0], vals), _ev(a[1], vals)
    if op == 'add':
        return u + v
    if op == 'sub':
        return u - v
    if op == 'mul':
        return u * v
    if op == 'div':
        return u / v
    if op == 'rpow':
        return u ** v
    raise TraceError('witness evaluation: op %s' % op)


class _Witness(sym.Ctx):
    """decides every comparison by its value at the reference point; records nothing"""

    def __init__(self, vals):
        sym.Ctx.__init__(self)
        self.vals = vals

    def decide(self, b):
        return bool(_ev(b, self.vals))


class _Quad(object):
    """stands in for `scipy.integrate` inside sedov.py: quad(f, a, b) is an atom named after f"""

    @staticmethod
    def quad(f, a, b, **kw):
        return (S({'efun01': 'eval1_quad', 'efun02': 'eval2_quad'}[f.__name__]), 0.0)


def witness_object(kind):
    """the real constructor on symbolic parameters along the path of `kind`; alpha -> symbol"""
    M = _mod()
    vals = dict(SEDOV_WITNESS[kind], eval1_quad=1.0, eval2_quad=1.0)
    saved = sym.CTX
    sym.CTX = _Witness(vals)
    try:
        s = M.Sedov(**{k: S(k) for k in SEDOV_PARAMS})
    finally:
        sym.CTX = saved
    if s.solution_type != kind:
        raise TraceError('witness for %s selects solution type %s' % (kind, s.solution_type))
    s.alpha = S('alpha')
    return s


SEDOV_SHIMS = {'sci_int': _Quad}


# --------------------------------------------------------------------------
# the constructor
# --------------------------------------------------------------------------
SEDOV_INIT_DERIVED = ('xg2', 'gamm1', 'gamp1', 'gpogm', 'a_val', 'd_val', 'v2', 'vstar', 'eval1', 'eval2', 'alpha')


@target('SedovInit', ['sedov'], floats=True)
def _init():
    return trace_init('SedovInit', SEDOV_MOD + ':Sedov', derived=SEDOV_INIT_DERIVED, extra_shims=SEDOV_SHIMS)


# --------------------------------------------------------------------------
# shock radius, shock speed, post-shock state  (sedov.py:185-242)
# --------------------------------------------------------------------------
class _Captured(Exception):
    pass


def _raise_captured(**kw):
    raise _Captured()


SEDOV_SHOCK_OUTS = ['r2', 'rho1', 'us', 'u2', 'rho2', 'p2', 'u1', 'p1']


@target('SedovShock', ['sedov'], deriv=['r2'])
def _shock():
    def run():
        s = witness_object('standard')
        try:
            res = s._run(sym.point(('r',)), S('t'))
        except _Captured:
            return tuple(getattr(s, k) for k in SEDOV_SHOCK_OUTS)
        # the NaN guard returned before the shock state was computed
        nan = res.field('density')
        return tuple(nan for _ in SEDOV_SHOCK_OUTS)
    return trace_func('SedovShock', run, [], SEDOV_SHOCK_OUTS, modules=[SEDOV_MOD], tvar='t',
                      extra_shims=dict(SEDOV_SHIMS, JumpCondition=_raise_captured,
                                       # the evaluation grid is not used before the JumpCondition
                                       np=dict(linspace=lambda a, b, n, **kw: np.zeros(n))),
                      source=SEDOV_MOD + ':Sedov._run lines 185-242 (up to the JumpCondition)')


# --------------------------------------------------------------------------
# similarity functions on a stub with symbolic derived constants
# --------------------------------------------------------------------------
SEDOV_STUB_ATTRS = ('a0', 'a1', 'a2', 'a3', 'a4', 'a5', 'a_val', 'b_val', 'c_val', 'd_val', 'e_val',
              'xg2', 'gamma', 'gamm1', 'gamp1', 'gpogm', 'geometry', 'omega')


def make_stub(special, val=S):
    M = _mod()
    s = M.Sedov.__new__(M.Sedov)
    for k in SEDOV_STUB_ATTRS:
        setattr(s, k, val(k))
    s.special_singularity = special
    return s


SEDOV_FUNC_OUTS = ['l_fun', 'dlamdv', 'f_fun', 'g_fun', 'h_fun']
SEDOV_SPECIAL = {'': 'none', 'O2': 'omega2', 'O3': 'omega3'}

SEDOV_FUNC_ALL = SEDOV_FUNC_OUTS + ['efun01', 'efun02']

for _sfx, _sp in SEDOV_SPECIAL.items():
    def _mk(sfx, sp):
        # wp sedov2 (additive): certificates in v also for f, g, h (similarity ODEs, Props/C01/SedovODE.lean)
        @target('SedovFuncs' + sfx, ['sedov'], deriv=['l_fun', 'f_fun', 'g_fun', 'h_fun'])
        def _f():
            def run():
                # one stub, three real methods: the similarity functions and the two energy
                # integrands (which call sedov_funcs_standard themselves) at the same v
                s = make_stub(sp)
                v = S('v')
                return tuple(s.sedov_funcs_standard(v)) + (s.efun01(v), s.efun02(v))
            return trace_func('SedovFuncs' + sfx, run, [], SEDOV_FUNC_ALL, modules=[SEDOV_MOD], pvars=('v',),
                              source=SEDOV_MOD + ':Sedov.sedov_funcs_standard, efun01, efun02 [special_singularity=%s]' % sp)
    _mk(_sfx, _sp)


@target('SedovSingular', ['sedov'], deriv=[])
def _sing():
    def run():
        s = make_stub('none')
        s.r2 = S('r2')
        return s.sedov_funcs_singular(S('rwant'))
    return trace_func('SedovSingular', run, [], SEDOV_FUNC_OUTS, modules=[SEDOV_MOD], pvars=('rwant',),
                      source=SEDOV_MOD + ':Sedov.sedov_funcs_singular')


@target('SedovVacuum', ['sedov'])
def _vac():
    return trace_func('SedovVacuum', lambda: make_stub('none').sedov_funcs_vacuum(), [], SEDOV_FUNC_OUTS, modules=[SEDOV_MOD],
                      source=SEDOV_MOD + ':Sedov.sedov_funcs_vacuum')


SEDOV_PHYS_OUTS = ['density', 'velocity', 'pressure', 'specific_internal_energy', 'sound_speed']


@target('SedovPhysical', ['sedov'])
def _phys():
    def run():
        s = make_stub('none')
        s.rho2, s.u2, s.p2 = S('rho2'), S('u2'), S('p2')
        return s.physical(S('f'), S('g'), S('h'))
    return trace_func('SedovPhysical', run, [], SEDOV_PHYS_OUTS, modules=[SEDOV_MOD], source=SEDOV_MOD + ':Sedov.physical')


# --------------------------------------------------------------------------
# the whole of _run for one symbolic point on a two-node grid
# --------------------------------------------------------------------------
def _linspace(a, b, n, **kw):
    """np.linspace(0.0, max(r), 2): the two nodes 0.0 and max(r) (exact also in floating point)"""
    if n != 2:
        raise TraceError('linspace shim: only the two-node grid is modelled')
    out = np.empty(2, dtype=object)
    out[0], out[1] = sym.lift(a), sym.lift(b)
    return out


def _append(arr, v):
    out = np.empty(len(arr) + 1, dtype=object)
    out[:len(arr)] = arr
    out[len(arr)] = sym.lift(v)
    return out


def _interp1d(x, y, **kw):
    """scipy's linear interp1d, evaluated only at abscissae that ARE nodes (value = node value)"""
    xs = [sym.lift(u) for u in x]
    ys = [sym.lift(u) for u in y]

    def f(q):
        out = np.empty(len(q), dtype=object)
        for j, u in enumerate(q):
            hit = [yy for xx, yy in zip(xs, ys) if xx.id == sym.lift(u).id]
            if not hit:
                raise TraceError('interp1d shim: abscissa is not a node')
            out[j] = hit[0]
        return out
    return f


class _Opt(object):
    """stands in for `scipy.optimize`: the k-th fminbound call on this path returns the atom v_k"""

    def __init__(self):
        self.n = 0

    def fminbound(self, f, a, b, **kw):
        self.n += 1
        return S('v_%d' % (self.n - 1))


def _run_model(name, kind):
    opt = _Opt()

    def run():
        s = witness_object(kind)
        opt.n = 0

        def funcs(v):
            # the similarity functions at the root atom v_k are the atoms l_k, dl_k, f_k, g_k, h_k
            k = v.a[0].split('_')[1] if isinstance(v, E) and v.op == 'sym' and v.a[0].startswith('v_') else 'vv'
            return tuple(S('%s_%s' % (n, k)) for n in ('l', 'dl', 'f', 'g', 'h'))
        s.sedov_funcs_standard = funcs
        return s._run(sym.point(('r',)), S('t'), npts=2)

    def build():
        return trace_func(name, run, [], None, modules=[SEDOV_MOD], pvars=('r',), tvar='t',
                          extra_shims=dict(SEDOV_SHIMS, sci_opt=opt, interp1d=_interp1d,
                                           np=dict(linspace=_linspace, append=_append)),
                          source=SEDOV_MOD + ':Sedov._run [solution_type=%s, npts=2, one point]' % kind)
    return build


SEDOV_RUN_FIELDS = ['density', 'pressure', 'specific_internal_energy', 'velocity', 'sound_speed']
target('SedovRunSing', ['sedov'], deriv=None)(_run_model('SedovRunSing', 'singular'))
target('SedovRunStd', ['sedov'], deriv=None)(_run_model('SedovRunStd', 'standard'))
target('SedovRunVac', ['sedov'], deriv=None)(_run_model('SedovRunVac', 'vacuum'))

SEDOV_MODELS = (['SedovInit', 'SedovShock', 'SedovSingular', 'SedovVacuum', 'SedovPhysical',
                 'SedovRunSing', 'SedovRunStd', 'SedovRunVac']
                + ['SedovFuncs' + s for s in SEDOV_SPECIAL])
