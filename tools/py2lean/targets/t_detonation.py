"""Detonation / piston family: escape of HE products (EHEP), Mader rarefaction, steady
detonation reaction zone (SDRZ), elastic-plastic piston.

What is traced, and what stays an atom
--------------------------------------
EHEP        `EscapeOfHEProducts(**sym)._run([x], t)` — the real constructor and the real region
            loop.  The polygon test `path.Path(corners[R]).contains_point((x,t)) or
            self.point_on_boundary(corners[R], (x,t))` (matplotlib + a 1e-12 hypot tolerance) is
            an ATOM: it is replaced by the condition `region = k`, where the free symbol
            `region` is the result of the region selection (1..5 = I..V, 6 = '00', 7 = '0V',
            8 = '0H', anything else = outside every polygon).  The region selection itself is
            the hand model EPV/Model/EHEP.lean (half-planes), tied to the real code.
EHEPInit    the constructor alone: acceptance tree, `ttilde`, every polygon corner.
MaderRare   `rarefaction.rare(time, xlab, dx, p_cj, d_cj, gam, u_piston)` for one cell with
            symbolic centre and width: fan / transition-cell / plateau leaves.  (The cell loop
            `mader` is the hand model EPV/Model/Mader.lean.)
SDRZProfile `SteadyDetonationReactionZone(**sym).run_tvec([t])` — the profile formulas for one
            particle age t (λ(t), g, p, ρ, u, cs, x_rel); faithful to the grid code for t ≤ 1.
SDRZTail    `run_tvec([1.0, t])`, entry 1: the state of a particle of age t behind the end of
            the reaction zone when the time grid contains t = 1 exactly.
EPPiston{Hypo,Ifin,Fin}  the constructor for each concrete `model` string; `scipy.optimize.fsolve`
            is an ATOM: it returns the free symbol `wv_pl` (resp. `F_y`) and the residual it was
            given is evaluated at that symbol and returned as the field `plastic_residual`
            (`yield_residual`): theorems carry `plastic_residual = 0` as a hypothesis.
EPPistonRun `_run` region selection with the constructor's results as free symbols and the
            batch maximum `xmax` as a free symbol.

DET_FUNCS describes, for each function model, how the tie in harness/o_detonation.py calls
the real code with floats."""
import collections

import numpy as np

from . import target
from ..trace import trace_func, load
from .. import sym
from ..sym import S, E, B, TraceError

EHEP = 'exactpack.solvers.ehep.ehep'
MADER = 'exactpack.solvers.mader.rarefaction'
SDRZ = 'exactpack.solvers.sdrz.sdrz'
EPP = 'exactpack.solvers.ep_piston.ep_piston'

# --------------------------------------------------------------------------
# EHEP
# --------------------------------------------------------------------------
EHEP_REGIONS = ['I', 'II', 'III', 'IV', 'V', '00', '0V', '0H']     # in the order _run tests them
EHEP_CODE = {r: i + 1 for i, r in enumerate(EHEP_REGIONS)}          # region string -> value of `region`
EHEP_PARAMS = ['D', 'gamma', 'rho_0', 'up', 'xtilde', 'xmax', 'tmax']


class _FakePath(object):
    """stands in for `matplotlib.path` inside ehep.py: the polygon test becomes `region = k`"""

    def __init__(self):
        self.solver = None

    def Path(self, corners):
        for name, c in self.solver.corners.items():
            if c is corners:
                return _FakePoly(EHEP_CODE[name])
        raise TraceError('EHEP: polygon test on a corner list that is not self.corners[...]')


class _FakePoly(object):
    def __init__(self, code):
        self.code = code

    def contains_point(self, pt, *a, **k):
        return B('eq', S('region'), E('int', self.code))


def _ehep_solver(fake=None):
    _, cls = load(EHEP + ':EscapeOfHEProducts')
    s = cls(**{k: S(k) for k in EHEP_PARAMS})
    if fake is not None:
        fake.solver = s
        # the closed-boundary test is part of the atom (`contains_point or point_on_boundary`)
        s.point_on_boundary = lambda corners, pt, tol=1e-12: False
    return s


@target('EHEP', ['detonation', 'ehep'], deriv=['density', 'pressure', 'sound_speed', 'velocity',
                                               'specific_internal_energy'])
def _ehep():
    fake = _FakePath()

    def run():
        s = _ehep_solver(fake)
        return s._run(sym.point(('x',)), S('t'))
    return trace_func('EHEP', run, [], None, modules=[EHEP], pvars=('x',), tvar='t',
                      source=EHEP + ':EscapeOfHEProducts.__init__ + _run (polygon test = atom `region`)',
                      extra_shims={'path': fake})


EHEP_CORNERS = [(r, i) for r, n in (('0V', 4), ('0H', 3), ('I', 3), ('II', 4), ('III', 3), ('IV', 4), ('V', 3), ('00', 3))
                for i in range(n)]


@target('EHEPInit', ['detonation', 'ehep'], deriv=None)
def _ehep_init():
    def run():
        s = _ehep_solver()
        out = collections.OrderedDict()
        out['ttilde'] = s.ttilde
        for r, i in EHEP_CORNERS:
            out['c%s_%d_x' % (r, i)] = s.corners[r][i][0]
            out['c%s_%d_t' % (r, i)] = s.corners[r][i][1]
        return out
    return trace_func('EHEPInit', run, [], None, modules=[EHEP],
                      source=EHEP + ':EscapeOfHEProducts.__init__ (ttilde, polygon corners)')


@target('EHEPOnLine', ['detonation', 'ehep'], deriv=None)
def _ehep_on_line():
    """`point_on_line(corners, point, tol)`: the closed-boundary test of the region selection, for one polygon
    edge (ax, at) -> (bx, bt) and the point (x, t); `math.hypot` is traced as sqrt(x*x + y*y).  Field `on_line`
    is 1 when the test says "on the edge"."""
    _, cls = load(EHEP + ':EscapeOfHEProducts')

    def run():
        s = cls.__new__(cls)
        r = s.point_on_line(((S('ax'), S('at')), (S('bx'), S('bt'))), (S('x'), S('t')), S('tol'))
        return 1.0 if r else 0.0
    return trace_func('EHEPOnLine', run, [], ['on_line'], modules=[EHEP], pvars=('x',), tvar='t',
                      source=EHEP + ':EscapeOfHEProducts.point_on_line')


# --------------------------------------------------------------------------
# Mader
# --------------------------------------------------------------------------
MADER_ARGS = ['time', 'xlab', 'dx', 'p_cj', 'd_cj', 'gam', 'u_piston']
MADER_OUTS = ['velocity', 'pressure', 'sound_speed', 'density', 'xdet']


@target('MaderRare', ['detonation', 'mader'], deriv=['velocity', 'pressure', 'sound_speed', 'density'])
def _mader_rare():
    _, rare = load(MADER + ':rare')
    return trace_func('MaderRare', lambda: rare(*[S(a) for a in MADER_ARGS]), [], MADER_OUTS, modules=[MADER],
                      pvars=('xlab',), tvar='time', source=MADER + ':rare(time, xlab, dx, p_cj, d_cj, gam, u_piston)')


# --------------------------------------------------------------------------
# SDRZ
# --------------------------------------------------------------------------
class _Maximum(object):
    """np.maximum with the `.accumulate` the reaction-progress clean-up uses"""

    def __call__(self, x, y):
        return sym.sym_maximum(x, y)

    @staticmethod
    def accumulate(a):
        a = np.asarray(a, dtype=object)
        out = np.empty(a.shape, dtype=object)
        v = None
        for i, u in enumerate(a):
            v = u if v is None else sym.sym_max2(sym.lift(v), sym.lift(u))
            out[i] = v
        return out


def _any(x):
    if sym._is_sym(x):
        for u in np.asarray(x, dtype=object).reshape(-1):
            if bool(u):
                return True
        return False
    return np.any(x)


SDRZ_SHIMS = {'np': {'maximum': _Maximum(), 'any': _any}}
SDRZ_PARAMS = ['D', 'rho_0', 'gamma']


def _sdrz_solver():
    _, cls = load(SDRZ + ':SteadyDetonationReactionZone')
    return cls(geometry=1, **{k: S(k) for k in SDRZ_PARAMS})


def _pick(rec, i):
    out = collections.OrderedDict()
    for n, d in zip(rec.names, rec.data):
        out[n] = d[i]
    return out


SDRZ_FIELDS = ['pressure', 'velocity', 'density', 'sound_speed', 'reaction_progress', 'position_relative', 'position']


@target('SDRZProfile', ['detonation', 'sdrz'], deriv=SDRZ_FIELDS)
def _sdrz_profile():
    def run():
        s = _sdrz_solver()
        tv = np.empty(1, dtype=object)
        tv[0] = S('t')
        return _pick(s.run_tvec(tv), 0)
    return trace_func('SDRZProfile', run, [], None, modules=[SDRZ], tvar='t', extra_shims=SDRZ_SHIMS,
                      source=SDRZ + ':SteadyDetonationReactionZone.__init__ + run_tvec([t])')


@target('SDRZTail', ['detonation', 'sdrz'], deriv=SDRZ_FIELDS)
def _sdrz_tail():
    def run():
        s = _sdrz_solver()
        tv = np.empty(2, dtype=object)
        tv[0] = 1.0
        tv[1] = S('t')
        return _pick(s.run_tvec(tv), 1)
    return trace_func('SDRZTail', run, [], None, modules=[SDRZ], tvar='t', extra_shims=SDRZ_SHIMS,
                      source=SDRZ + ':SteadyDetonationReactionZone.__init__ + run_tvec([1.0, t])[1]')


# --------------------------------------------------------------------------
# EP piston
# --------------------------------------------------------------------------
EPP_PARAMS = ['gamma', 'c0', 's0', 'G', 'Y', 'rho0', 'up']
EPP_ATTRS = ['sdev_y', 'rho_y', 'e_y', 'p_y', 'wv_el', 'vel_y', 'wv_pl', 'p2', 'rho2', 'e2']
EPP_MODELS = {'EPPistonHypo': 'hypo', 'EPPistonIfin': 'hyperIfin', 'EPPistonFin': 'hyperFin'}


class _FakeOpt(object):
    """stands in for `scipy.optimize` inside ep_piston.py: fsolve is an atom.  The root is a
    free symbol named after the residual function; the residual at that symbol is recorded."""

    def __init__(self):
        self.residuals = collections.OrderedDict()

    def fsolve(self, f, x0, args=(), **k):
        name = {'Plastic_Residual': ('wv_pl', 'plastic_residual'),
                'finite_yield': ('F_y', 'yield_residual')}.get(getattr(f, '__name__', ''))
        if name is None:
            raise TraceError('EP piston: fsolve on an unknown residual %r' % (f,))
        root = S(name[0])
        self.residuals[name[1]] = f(root, *args)
        return [root]


def cut_class(cls, names):
    """subclass of `cls` in which each attribute in `names` is let-abstracted: assigning it
    records the assigned expression as the attribute's *definition*, reading it afterwards
    yields the free symbol of the same name.  The traced constructor then appears in
    let-normal form (one small definition per attribute, in terms of the parameters and of the
    earlier attributes) instead of one fully inlined expression per attribute.  The real
    constructor's results satisfy every definition by construction; the tie checks exactly
    that (Float twin of each definition at the real attribute values = the real attribute)."""
    ns = {'parameters': cls.parameters, '__doc__': cls.__doc__}

    def mk(n):
        def get(self):
            if n in self.__dict__.get('_defs', {}):
                return S(n)
            raise AttributeError(n)

        def set_(self, v):
            self.__dict__.setdefault('_defs', collections.OrderedDict())[n] = v
        return property(get, set_)
    for n in names:
        ns[n] = mk(n)
    return type('Cut' + cls.__name__, (cls,), ns)


def _epp(name, model):
    @target(name, ['detonation', 'eppiston'], deriv=None)
    def _b():
        _, cls = load(EPP + ':EPpiston')
        cut = cut_class(cls, EPP_ATTRS)
        opt = _FakeOpt()

        def run():
            opt.residuals.clear()
            s = cut(model=model, **{k: S(k) for k in EPP_PARAMS})
            out = collections.OrderedDict()
            for a in EPP_ATTRS:
                out[a] = s._defs[a]
            for k, v in opt.residuals.items():
                out[k] = v
            return out
        return trace_func(name, run, [], None, modules=[EPP], extra_shims={'sci_opt': opt},
                          source=EPP + ":EPpiston.__init__(model='%s') in let-normal form (fsolve = atom)" % model)
    return _b


for _n, _m in EPP_MODELS.items():
    _epp(_n, _m)

EPP_RUN_ATTRS = ['wv_el', 'wv_pl', 'up', 'p2', 'e2', 'rho2', 'sdev_y', 'vel_y', 'p_y', 'e_y', 'rho_y', 'rho0']


@target('EPPistonRun', ['detonation', 'eppiston'], deriv=None)
def _epp_run():
    _, cls = load(EPP + ':EPpiston')

    def run():
        s = cls.__new__(cls)
        for a in EPP_RUN_ATTRS:
            setattr(s, a, S(a))
        rec = s._run(sym.point(('x',)), S('t'), xmax=S('xmax'))
        # field names become Lean identifiers: 'deviatoric stress' -> 'deviatoric_stress'
        return collections.OrderedDict((n.replace(' ', '_'), d) for n, d in zip(rec.names, rec.data))
    return trace_func('EPPistonRun', run, [], None, modules=[EPP], pvars=('x',), tvar='t',
                      source=EPP + ':EPpiston._run (constructor results and the batch maximum xmax are free symbols)')
