"""Heat conduction family (exactpack/solvers/heat): coefficient formulas, static parts, constructor
mappings and small-N instances of the series solutions.

The summation loops `for n in range(self.Nsum)` have a data-dependent trip count, so the sums for
general N live in the hand model lean/EPV/Model/HeatSeries.lean.  What is traced here:

  RodModes1..4      modes_BC1..4 of rod1d.py for a *symbolic* mode index n (the loop header is rebound so
                    that the body runs once on the symbol `n`; `(-1)**n` is the real power of -1, which
                    for natural n is (-1)^n); fields kn, An, Bn; the `n != 0` tests become branches
  RodModesGenA/B    modes_BCgen (alpha1 != 0 / alpha1 == 0) with the fsolve root as the atom `mu` and the
                    transcendental residual func(mu) as an extra field
  RodRun2           Rod1D._run with Nsum = 2 and symbolic coefficient arrays: the five static parts (tree on
                    the zero pattern of alpha/beta) and the shape of the summand
  SandwichInit / SandwichHotInit / SandwichHalfInit
                    the real constructors on symbolic TB/TT/F/FT: derived alpha/beta/gamma and the first
                    coefficients (concrete n = 0,1,2)
  Sandwich3 / SandwichHot3 / SandwichHalf3, RodBC1N3 … RodBC4N3
                    constructor + _run end to end with Nsum = 3 (used by C07 and as the anchor of the hand model)
  Hutchens1N3       Hutchens1._run with Nsum = 3 (terms n = 1, 2), tree on r != 0
  Hutchens2N2       Hutchens2._run with Nsum = 2, I0 values as atoms (shows the accumulator)
  RectangleN2       Rectangle._run with Nsum = 2
"""
import collections
import importlib
import math

import numpy as np

from . import target
from ..trace import trace_solver, trace_init, trace_func, load, vec
from .. import sym
from ..sym import S, E, lift

ROD = 'exactpack.solvers.heat.rod1d'
_rod = importlib.import_module(ROD)

# `np.pi` is handed to the traced code as a literal NODE (not a Python float), so that products and powers such as
# `(n * np.pi)**2` or `2./np.pi` stay visible in the real model as expressions in pi instead of being folded by
# Python into anonymous dyadic constants.  The Float twin evaluates the same operations on the same double.
PI_SHIM = {'np': {'pi': E('flt', math.pi)}}


class SymStore(object):
    """stands in for the preallocated float arrays self.kn / self.An / self.Bn when the
    index is a symbol: remembers what was stored, 0.0 (the np.zeros value) otherwise"""

    def __init__(self):
        self.d = {}

    @staticmethod
    def _k(i):
        return ('E', i.id) if isinstance(i, E) else ('c', int(i))

    def __setitem__(self, i, v):
        self.d[self._k(i)] = v

    def __getitem__(self, i):
        return self.d.get(self._k(i), 0.0)

    def read(self, i):
        """what slot i holds after the method has run.  A slot written with a CONCRETE index outside the symbolic
        loop body (`self.An[0] = …` hoisted out of `for n in range(1, N)`) is what index n holds on the paths where
        n equals that index: one symbolic decision `n == c` per such slot (none in the code as it stands)."""
        if isinstance(i, E):
            for c in sorted(k for (kind, k) in self.d if kind == 'c'):
                if i == c:
                    return self.d[('c', c)]
        return self[i]


def _rod_stub(**concrete):
    cls = _rod.Rod1D
    s = cls.__new__(cls)
    s.verbose = False
    for k in cls.parameters:
        setattr(s, k, S(k))
    for k, v in concrete.items():
        setattr(s, k, v)
    s.kn, s.An, s.Bn = SymStore(), SymStore(), SymStore()
    return s


def _modes_symbolic(method, fsolve=None, **concrete):
    """run Rod1D.<method> with the loop `for n in range(self.Nsum)` executed once on the symbol n"""
    def run():
        s = _rod_stub(Nsum=1, **concrete)
        n = S('n')
        saved = {}
        resid = []
        try:
            saved['range'] = _rod.__dict__.get('range', None)

            def sym_range(*a):
                # `range(Nsum)` -> the body once on the symbol n;  `range(1, Nsum)` -> the body once on n under the
                # (symbolic) decision n != 0, which for a mode index is the same as 1 <= n: the rewrite of
                # `for n in range(N): if n != 0: …` into `for n in range(1, N): …` gives the same decision tree
                start = a[0] if len(a) >= 2 else 0
                if isinstance(start, int) and start == 1:
                    return [n] if (n != 0) else []
                return [n]
            _rod.range = sym_range
            if fsolve is not None:
                saved['fsolve'] = _rod.fsolve

                def fs(func, x0, *a, **k):
                    mu = S('mu')
                    resid.append(func(mu))
                    return [mu]
                _rod.fsolve = fs
            getattr(s, method)()
        finally:
            if saved.get('range') is None:
                del _rod.range
            else:
                _rod.range = saved['range']
            if 'fsolve' in saved:
                _rod.fsolve = saved['fsolve']
        out = collections.OrderedDict()
        out['kn'] = s.kn.read(n)
        out['An'] = s.An.read(n)
        out['Bn'] = s.Bn.read(n)
        if fsolve is not None:
            out['residual'] = resid[0] if resid else 0.0
        return out
    return run


for _i in (1, 2, 3, 4):
    def _mk(i):
        @target('RodModes%d' % i, ['heat'], deriv=None)
        def _b():
            return trace_func('RodModes%d' % i, _modes_symbolic('modes_BC%d' % i), [], None, modules=[ROD],
                              extra_shims=PI_SHIM, source='exactpack.solvers.heat.rod1d:Rod1D.modes_BC%d (symbolic mode index n)' % i)
    _mk(_i)


def _fsolve_atom(func, x0, *a, **k):
    """scipy.optimize.fsolve as an oracle atom: a fresh symbol mu_i per call (the theorems
    carry `func(mu_i) = 0` as a hypothesis where they need it)"""
    return [sym.atom('mu')]


@target('RodModesGen', ['heat'], deriv=None)
def _rodmodesgen():
    return trace_func('RodModesGen', _modes_symbolic('modes_BCgen', fsolve=True), [], None, modules=[ROD],
                      extra_shims=PI_SHIM, source='exactpack.solvers.heat.rod1d:Rod1D.modes_BCgen (symbolic mode index n, fsolve root = atom mu)')


@target('RodRun2', ['heat'], deriv=None, floats=True)
def _rodrun2():
    return trace_solver('RodRun2', ROD + ':Rod1D', pvars=('x',), mode='new', concrete={'Nsum': 2},
                        attrs=dict(kn=vec('kn', 2), An=vec('An', 2), Bn=vec('Bn', 2)))


def _probe(clspath, N):
    """the real constructor on symbolic parameters (Nsum = N): derived boundary parameters and
    the first N coefficients"""
    def run():
        _, cls = load(clspath)
        vals = {p: S(p) for p in cls.parameters}
        vals['Nsum'] = N
        s = cls(**vals)
        out = collections.OrderedDict()
        for k in ('alpha1', 'beta1', 'gamma1', 'alpha2', 'beta2', 'gamma2', 'TL', 'TR', 'L', 'kappa'):
            out[k] = getattr(s, k)
        for n in range(N):
            out['kn%d' % n] = s.kn[n]
            out['An%d' % n] = s.An[n]
            out['Bn%d' % n] = s.Bn[n]
        return out
    return run


SANDWICH = {'Sandwich': 'exactpack.solvers.heat.planar_sandwich:PlanarSandwich',
            'SandwichHot': 'exactpack.solvers.heat.planar_sandwich_hot:PlanarSandwichHot',
            'SandwichHalf': 'exactpack.solvers.heat.planar_sandwich_half:PlanarSandwichHalf'}
SANDWICH_PARAMS = {'Sandwich': dict(kappa=(0.2, 3.0), L=(0.5, 4.0), TB=(-3.0, 3.0), TT=(-3.0, 3.0), TL=(-3.0, 3.0), TR=(-3.0, 3.0)),
                   'SandwichHot': dict(kappa=(0.2, 3.0), L=(0.5, 4.0), F=(-3.0, 3.0), TL=(-3.0, 3.0), TR=(-3.0, 3.0)),
                   'SandwichHalf': dict(kappa=(0.2, 3.0), L=(0.5, 4.0), TB=(-3.0, 3.0), FT=(-3.0, 3.0), TL=(-3.0, 3.0), TR=(-3.0, 3.0))}

for _nm, _cp in SANDWICH.items():
    def _mk(nm, cp):
        mods = [ROD, cp.split(':')[0]]

        @target(nm + 'Init', ['heat'], deriv=None)
        def _b():
            return trace_func(nm + 'Init', _probe(cp, 3), [], None, modules=mods, extra_shims=PI_SHIM,
                              source=cp + '.__init__ (Nsum = 3)')

        @target(nm + '3', ['heat'], deriv=None,
                corr=dict(cls=cp, x=(0.0, 1.0), t=(0.01, 1.0), params=dict(SANDWICH_PARAMS[nm], Nsum=3),
                          fix=lambda rng, p, pt, t: (p, [pt[0] * p['L']], t)))
        def _c():
            return trace_solver(nm + '3', cp, pvars=('x',), mode='init', concrete={'Nsum': 3}, extra_shims=PI_SHIM)
    _mk(_nm, _cp)


@target('Rod3', ['heat'], deriv=None)
def _rod3():
    """constructor + _run of Rod1D with Nsum = 3 and all eleven parameters symbolic: the zero pattern of
    (alpha1, beta1, alpha2, beta2) selects BC1..BC4 or the general case (fsolve atoms mu_i)"""
    return trace_solver('Rod3', ROD + ':Rod1D', pvars=('x',), mode='init', concrete={'Nsum': 3},
                        extra_shims=dict(PI_SHIM, fsolve=_fsolve_atom))


def _point2(a, b):
    """a batch of one 2-D point the way the 2-D heat solvers take it: shape (2, 1), rows = coordinates"""
    p = np.empty((2, 1), dtype=object)
    p[0, 0] = S(a, arr=True)
    p[1, 0] = S(b, arr=True)
    return p


def _run2d(clspath, coords, tvar, concrete, prepare=None):
    def run():
        _, cls = load(clspath)
        s = cls.__new__(cls)
        s.verbose = False
        for k in cls.parameters:
            setattr(s, k, concrete[k] if k in concrete else S(k))
        if prepare:
            prepare(s)
        return s._run(_point2(*coords), S(tvar) if tvar else 0.0)
    return run


H1 = 'exactpack.solvers.heat.hutchens1:Hutchens1'
H2 = 'exactpack.solvers.heat.hutchens2:Hutchens2'
RECT = 'exactpack.solvers.heat.rectangle:Rectangle'


@target('Hutchens1N3', ['heat'], deriv=None,
        corr=dict(cls=H1, r=(0.0, 1.0), t=(0.01, 3.0),
                  params=dict(Nsum=3, k=(0.5, 2.0), cp=(0.5, 2.0), rho=(0.5, 2.0), b=(0.5, 2.0), Tb=(-3.0, 5.0), T0=(-3.0, 5.0)),
                  fix=lambda rng, p, pt, t: (p, [rng.choice([0.0, pt[0] * p['b'], pt[0] * p['b'], p['b']])], t)))
def _h1():
    return trace_solver('Hutchens1N3', H1, pvars=('r',), mode='new', concrete={'Nsum': 3}, extra_shims=PI_SHIM)


def _mentions(e, name):
    """does the symbolic expression (or 1-element object array) mention the symbol `name`?"""
    if isinstance(e, np.ndarray):
        return any(_mentions(v, name) for v in e.ravel())
    if not isinstance(e, E):
        return False
    if e.op == 'sym':
        return e.a[0] == name
    return any(_mentions(v, name) for v in e.a)


def _i0_atoms():
    cnt = {'r': 0, 'b': 0}

    def i0(x):
        # which Bessel value this is follows from the ARGUMENT (lam_n * r mentions the coordinate r, lam_n * b does
        # not), not from the order of the calls: hoisting `i0(lam * self.b)` above `i0(lam * r)` must not relabel
        kind = 'r' if _mentions(x, 'r') else 'b'
        nm = 'I0%s%d' % (kind, cnt[kind])
        cnt[kind] += 1
        if isinstance(x, np.ndarray):
            out = np.empty(x.shape, dtype=object)
            out.fill(S(nm))
            return out
        return S(nm)
    return i0


@target('Hutchens2N2', ['heat'], deriv=None)
def _h2():
    def run():
        # scipy.special.i0 is an atom: I0r<n> = I0(lam_n r), I0b<n> = I0(lam_n b)
        mod = importlib.import_module(H2.split(':')[0])
        saved = mod.i0
        mod.i0 = _i0_atoms()
        try:
            return _run2d(H2, ('r', 'z'), None, {'Nsum': 2})()
        finally:
            mod.i0 = saved
    return trace_func('Hutchens2N2', run, [], None, modules=[H2.split(':')[0]], pvars=('r', 'z'),
                      extra_shims=PI_SHIM,
                      source=H2 + '._run (Nsum = 2, I0 values as atoms)')


@target('RectangleN2', ['heat'], deriv=None)
def _rect():
    return trace_func('RectangleN2', _run2d(RECT, ('x', 'y'), 't', {'Nsum': 2, 'NonHomogeneousOnly': False}), [], None,
                      modules=[RECT.split(':')[0]], pvars=('x', 'y'), tvar='t', extra_shims=PI_SHIM,
                      source=RECT + '._run (Nsum = 2)')
