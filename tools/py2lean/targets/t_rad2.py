"""Work package `rad2` (C12 strengthening): the nondimensionalisation of the radiative-shock problem classes
and the effect of the public wrappers' `_run` on the solver object.

RadConst<X>   the REAL chain  wrapper.__init__ -> setup_solver -> radshock.<problem class>.__init__ -> <X>_driver ->
              utils.<X>_ShockProfiles.__init__  on symbolic user parameters; only the numerics (root solves, ODE
              integrations, Sn sweeps) are stubbed.  Outputs: every derived nondimensional constant at the three
              levels (wrapper attribute, problem class, the profile object the ODE right-hand sides read) and the
              nondimensional cross sections sigma_a, sigma_s, sigma_t of fnctn_ED / fnctn_nED at a generic state.
RadNED<v>     the closed forms of fnctn_nED (`mat_density`, `mat_temp`, `mat_speed`, `mat_pres`, `rad_flux`, ...)
              from which `splice_precursor_and_relaxation` assembles the stored nED profile, at a generic node (P, M),
              on a profile object built by the real constructor chain.
RadRunEffects a TABLE, not a model: for each public wrapper the instance attributes `_run` reads, the attributes it
              writes (re-binds, creates, or mutates in place), the attributes `setup_solver` sets and the declared
              parameters -- observed on the traced call by instrumenting attribute access and diffing the instance
              dictionary and the contents of every array it holds.
"""
import importlib

import numpy as np

from . import target
from ..trace import trace_func, load, sym_params, modules_of
from ..sym import S, E, TraceError, symbols, Patched, Rec, explore, point
from .. import sym
from ..model import HEADER
from .t_rad import RSW, RSP, RSU, RSF, RAD_WRAPPERS, vec2, _Ns, _Interp, _rad_problem_module

RSN = 'exactpack.solvers.radshocks.fnctn_nED'
RSL = 'exactpack.solvers.radshocks.fnctn_FLD'
RS2 = 'exactpack.solvers.radshocks.fnctn_2Tie'


def _sym_int(x):
    """`int(...)` inside utils.py only sizes grids (num_pts, left_pts): a symbolic Mach number stays symbolic"""
    if isinstance(x, E):
        return x
    return int(x)


def _utils_stub(cap):
    """stands in for the name `utils` inside radshock.py.  The profile classes are the REAL ones (their constructors copy
    the nondimensional constants from the problem object; nED multiplies sigS by epsilon); only the numerics are
    replaced: the downstream root solve returns free symbols (ATOM, see RadJump) and the drivers of the ODE
    integrations install a stored profile of two free symbols per array (ATOM)."""
    U = importlib.import_module(RSU)

    def arrays(self, names):
        for n in names:
            setattr(self, n, vec2('prof_' + n))

    def downstream(self):
        self.rho1, self.T1, self.M1 = S('rho1'), S('T1'), S('M1')
        self.speed1 = self.M0 / self.rho1
        self.Pr1, self.Er1 = self.T1 ** 4 / 3., self.T1 ** 4

    class ED(U.ED_ShockProfiles):
        def __init__(self, incoming, **kw):
            U.ED_ShockProfiles.__init__(self, incoming, **kw)
            cap['profile'] = self
        downstream_equilibrium = downstream

        def make_ED_solution(self):
            arrays(self, RAD_WRAPPERS['RadWrapED'][2])

    class NED(U.nED_ShockProfiles):
        def __init__(self, incoming):
            U.nED_ShockProfiles.__init__(self, incoming)
            cap['profile'] = self
        downstream_equilibrium = downstream

        def make_2T_solution(self):
            arrays(self, RAD_WRAPPERS['RadWrapNED'][2])

    class SN(U.Sn_ShockProfiles):
        def __init__(self, incoming):
            U.Sn_ShockProfiles.__init__(self, incoming)
            cap['profile'] = self

        def make_RT_solution(self):
            arrays(self, RAD_WRAPPERS['RadWrapSn'][2])
            self.f_err = [0.0]

        def continue_running(self):
            pass

        def update_dictionaries(self):
            pass

    def ie_downstream(self):
        U.IEShockProfile.downstream_equilibrium(self)

    class IEC(U.IE_continuousShockProfiles):
        def __init__(self, incoming):
            U.IE_continuousShockProfiles.__init__(self, incoming)
            cap['profile'] = self

        def make_continuous_solution(self):
            arrays(self, RAD_WRAPPERS['RadWrapIE'][2])

    class IED(U.IE_discontinuousShockProfiles):
        def __init__(self, incoming):
            U.IE_discontinuousShockProfiles.__init__(self, incoming)
            cap['profile'] = self

        def make_2T_solution(self):
            arrays(self, RAD_WRAPPERS['RadWrapIE'][2])
    return _Ns(ED_ShockProfiles=ED, nED_ShockProfiles=NED, Sn_ShockProfiles=SN,
               IE_continuousShockProfiles=IEC, IE_discontinuousShockProfiles=IED)


class _UtilsInt(object):
    """`int` and `print` rebound inside utils.py / radshock.py for the duration of one traced call"""

    def __enter__(self):
        self.mods = [importlib.import_module(RSU), importlib.import_module(RSP)]
        for m in self.mods:
            m.int = _sym_int
            m.print = lambda *a, **k: None
        return self

    def __exit__(self, *a):
        for m in self.mods:
            for k in ('int', 'print'):
                try:
                    delattr(m, k)
                except AttributeError:
                    pass
        return False


_CAP = {}        # the profile object built during the current traced call (set by the stand-in classes)


def _build_wrapper(cls, concrete):
    """the real wrapper constructor on symbolic user parameters; returns (solver, problem object, profile object)"""
    _, C = load('%s:%s' % (RSW, cls))
    _CAP.pop('profile', None)
    with _UtilsInt():
        s = C(**sym_params(C, concrete))
    prob = getattr(s, '_%s__prob' % cls)
    return s, prob, _CAP['profile']


def _const_shims():
    # np.interp: Sn_Solver.setup_solver interpolates the Eddington factor onto the hydro grid (an ATOM, as in t_rad)
    return {'utils': _utils_stub(_CAP), 'np': dict(interp=_Interp())}


PROFILE_COPIES = ['M0', 'gamma', 'sigA', 'sigS', 'expDensity_abs', 'expTemp_abs', 'expDensity_scat', 'expTemp_scat']
RAD_CONST = {
    # model: (wrapper class, concrete parameters, fnctn module, state symbols)
    'RadConstED': ('ED_Solver', dict(), RSF, ('T',)),
    'RadConstNED': ('nED_Solver', dict(problem='nED'), RSN, ('P', 'M')),
    'RadConstLM': ('nED_Solver', dict(problem='LM_nED'), RSN, ('P', 'M')),
    'RadConstFLD': ('nED_Solver', dict(problem='FLD_LP'), None, ()),
    'RadConstSn': ('Sn_Solver', dict(problem='nED', Sn=16, f_tol=1.e-4), RSN, ('P', 'M')),
}


def rad_const_outs(name):
    cls, concrete, fmod, state = RAD_CONST[name]
    outs = ['w_sound', 'w_P0', 'w_C0'] + (['w_ar'] if cls == 'ED_Solver' else [])
    outs += ['p_c', 'p_ar', 'p_sound', 'p_C0', 'p_P0', 'p_rho0', 'p_Tref']
    outs += ['f_P0', 'f_C0'] + ['f_' + k for k in PROFILE_COPIES]
    if cls != 'ED_Solver':
        outs += ['f_Pr0', 'f_epsilon', 'f_T0']
    if fmod:
        outs += ['sigma_a', 'sigma_s', 'sigma_t', 'density']
        if fmod == RSN:
            outs += ['temperature']
    return outs


def _rad_const(name):
    cls, concrete, fmod, state = RAD_CONST[name]

    @target(name, ['rad2', 'radshock2'])
    def _b():
        def run():
            s, prob, prof = _build_wrapper(cls, concrete)
            out = [s.sound, s.P0, s.C0] + ([s.ar] if cls == 'ED_Solver' else [])
            out += [prob.c, prob.ar, prob.sound, prob.C0, prob.P0, prob.rho0, prob.Tref]
            out += [prof.P0, prof.C0] + [getattr(prof, k) for k in PROFILE_COPIES]
            if cls != 'ED_Solver':
                out += [prof.Pr0, prof.epsilon, prof.T0]
            if fmod:
                F = importlib.import_module(fmod)
                st = [S(k) for k in state]
                out += [F.sigma_a(*st, prof), F.sigma_s(*st, prof), F.sigma_t(*st, prof)]
                out += [F.rho(*st, prof)] if fmod == RSF else [F.mat_density(*st, prof), F.mat_temp(*st, prof)]
            return tuple(out)
        mods = [RSW, RSP, RSU] + ([fmod] if fmod else [])
        return trace_func(name, run, [], rad_const_outs(name), modules=mods,
                          extra_shims=_const_shims(),
                          source='%s:%s.__init__ -> %s:RadShock.__init__ -> %s:*_ShockProfiles.__init__%s [numerics stubbed]'
                          % (RSW, cls, RSP, RSU, (' + ' + fmod) if fmod else ''))
    return _b


for _n in RAD_CONST:
    _rad_const(_n)
