"""Work package `rad2` (C12 strengthening): the nondimensionalisation of the radiative-shock problem classes
and the effect of the public wrappers' `_run` on the solver object.

RadConst<X>   the REAL chain  wrapper.__init__ -> setup_solver -> radshock.<problem class>.__init__ -> <X>_driver ->
              utils.<X>_ShockProfiles.__init__  on symbolic user parameters; only the numerics (root solves, ODE
              integrations, Sn sweeps) are stubbed.  Outputs: every derived nondimensional constant at the three
              levels (wrapper attribute, problem class, the profile object the ODE right-hand sides read) and the
              nondimensional cross sections sigma_a, sigma_s, sigma_t of fnctn_ED / fnctn_nED at a generic state.
RadNED<v>     the closed forms of fnctn_nED (`mat_density`, `mat_temp`, `mat_speed`, `mat_pres`, `rad_flux`, ...)
              from which `splice_precursor_and_relaxation` assembles the stored nED profile, at a generic node (P, M),
              on a profile object built by the real constructor chain.
RadRunEffects a TABLE, not a model: for each public wrapper the instance attributes `_run` reads, the attributes it
              writes (re-binds, creates, or mutates in place), the attributes `setup_solver` sets and the declared
              parameters -- observed on the traced call by instrumenting attribute access and diffing the instance
              dictionary and the contents of every array it holds.
"""
import importlib

import numpy as np

from . import target
from ..trace import trace_func, load, sym_params, modules_of
from ..sym import S, E, TraceError, Patched, Rec, explore, point
from .. import sym
from ..model import HEADER
from .t_rad import RSW, RSP, RSU, RSF, RAD_WRAPPERS, vec2, _Ns, _Interp, _rad_problem_module

RSN = 'exactpack.solvers.radshocks.fnctn_nED'


def _sym_int(x):
    """`int(...)` inside utils.py only sizes grids (num_pts, left_pts): a symbolic Mach number stays symbolic"""
    if isinstance(x, E):
        return x
    return int(x)


def _utils_stub(cap):
    """stands in for the name `utils` inside radshock.py.  The profile classes are the REAL ones (their constructors copy
    the nondimensional constants from the problem object; nED multiplies sigS by epsilon); only the numerics are
    replaced: the downstream root solve returns free symbols (ATOM, see RadJump) and the drivers of the ODE
    integrations install a stored profile of two free symbols per array (ATOM)."""
    U = importlib.import_module(RSU)

    def arrays(self, names):
        for n in names:
            setattr(self, n, vec2('prof_' + n))

    def downstream(self):
        self.rho1, self.T1, self.M1 = S('rho1'), S('T1'), S('M1')
        self.speed1 = self.M0 / self.rho1
        self.Pr1, self.Er1 = self.T1 ** 4 / 3., self.T1 ** 4

    class ED(U.ED_ShockProfiles):
        def __init__(self, incoming, **kw):
            U.ED_ShockProfiles.__init__(self, incoming, **kw)
            cap['profile'] = self
        downstream_equilibrium = downstream

        def make_ED_solution(self):
            arrays(self, RAD_WRAPPERS['RadWrapED'][2])

    class NED(U.nED_ShockProfiles):
        def __init__(self, incoming):
            U.nED_ShockProfiles.__init__(self, incoming)
            cap['profile'] = self
        downstream_equilibrium = downstream

        def make_2T_solution(self):
            arrays(self, RAD_WRAPPERS['RadWrapNED'][2])

    class SN(U.Sn_ShockProfiles):
        def __init__(self, incoming):
            U.Sn_ShockProfiles.__init__(self, incoming)
            cap['profile'] = self

        def make_RT_solution(self):
            arrays(self, RAD_WRAPPERS['RadWrapSn'][2])
            self.f_err = [0.0]

        def continue_running(self):
            pass

        def update_dictionaries(self):
            pass

    class IEC(U.IE_continuousShockProfiles):
        def __init__(self, incoming):
            U.IE_continuousShockProfiles.__init__(self, incoming)
            cap['profile'] = self

        def make_continuous_solution(self):
            arrays(self, RAD_WRAPPERS['RadWrapIE'][2])

    class IED(U.IE_discontinuousShockProfiles):
        def __init__(self, incoming):
            U.IE_discontinuousShockProfiles.__init__(self, incoming)
            cap['profile'] = self

        def make_2T_solution(self):
            arrays(self, RAD_WRAPPERS['RadWrapIE'][2])
    return _Ns(ED_ShockProfiles=ED, nED_ShockProfiles=NED, Sn_ShockProfiles=SN,
               IE_continuousShockProfiles=IEC, IE_discontinuousShockProfiles=IED)


class _UtilsInt(object):
    """`int` and `print` rebound inside utils.py / radshock.py for the duration of one traced call"""

    def __enter__(self):
        self.mods = [importlib.import_module(RSU), importlib.import_module(RSP)]
        for m in self.mods:
            m.int = _sym_int
            m.print = lambda *a, **k: None
        return self

    def __exit__(self, *a):
        for m in self.mods:
            for k in ('int', 'print'):
                try:
                    delattr(m, k)
                except AttributeError:
                    pass
        return False


_CAP = {}        # the profile object built during the current traced call (set by the stand-in classes)


def _build_wrapper(cls, concrete):
    """the real wrapper constructor on symbolic user parameters; returns (solver, problem object, profile object)"""
    _, C = load('%s:%s' % (RSW, cls))
    _CAP.pop('profile', None)
    with _UtilsInt():
        s = C(**sym_params(C, concrete))
    prob = getattr(s, '_%s__prob' % cls)
    return s, prob, _CAP['profile']


def _const_shims():
    # np.interp: Sn_Solver.setup_solver interpolates the Eddington factor onto the hydro grid (an ATOM, as in t_rad)
    return {'utils': _utils_stub(_CAP), 'np': dict(interp=_Interp())}


PROFILE_COPIES = ['M0', 'gamma', 'sigA', 'sigS', 'expDensity_abs', 'expTemp_abs', 'expDensity_scat', 'expTemp_scat']
RAD_CONST = {
    # model: (wrapper class, concrete parameters, fnctn module, state symbols)
    'RadConstED': ('ED_Solver', dict(), RSF, ('T',)),
    'RadConstNED': ('nED_Solver', dict(problem='nED'), RSN, ('P', 'M')),
    'RadConstLM': ('nED_Solver', dict(problem='LM_nED'), RSN, ('P', 'M')),
    'RadConstFLD': ('nED_Solver', dict(problem='FLD_LP'), None, ()),
    'RadConstSn': ('Sn_Solver', dict(problem='nED', Sn=16, f_tol=1.e-4), RSN, ('P', 'M')),
}


def rad_const_outs(name):
    cls, concrete, fmod, state = RAD_CONST[name]
    outs = ['w_sound', 'w_P0', 'w_C0'] + (['w_ar'] if cls == 'ED_Solver' else [])
    outs += ['p_c', 'p_ar', 'p_sound', 'p_C0', 'p_P0', 'p_rho0', 'p_Tref']
    outs += ['f_P0', 'f_C0'] + ['f_' + k for k in PROFILE_COPIES]
    if cls != 'ED_Solver':
        outs += ['f_Pr0', 'f_epsilon', 'f_T0']
    if fmod:
        outs += ['sigma_a', 'sigma_s', 'sigma_t', 'density']
        if fmod == RSN:
            outs += ['temperature']
    return outs


def _rad_const(name):
    cls, concrete, fmod, state = RAD_CONST[name]

    @target(name, ['rad2', 'radshock2'])
    def _b():
        def run():
            s, prob, prof = _build_wrapper(cls, concrete)
            out = [s.sound, s.P0, s.C0] + ([s.ar] if cls == 'ED_Solver' else [])
            out += [prob.c, prob.ar, prob.sound, prob.C0, prob.P0, prob.rho0, prob.Tref]
            out += [prof.P0, prof.C0] + [getattr(prof, k) for k in PROFILE_COPIES]
            if cls != 'ED_Solver':
                out += [prof.Pr0, prof.epsilon, prof.T0]
            if fmod:
                F = importlib.import_module(fmod)
                st = [S(k) for k in state]
                out += [F.sigma_a(*st, prof), F.sigma_s(*st, prof), F.sigma_t(*st, prof)]
                out += [F.rho(*st, prof)] if fmod == RSF else [F.mat_density(*st, prof), F.mat_temp(*st, prof)]
            return tuple(out)
        mods = [RSW, RSP, RSU] + ([fmod] if fmod else [])
        return trace_func(name, run, [], rad_const_outs(name), modules=mods,
                          extra_shims=_const_shims(),
                          source='%s:%s.__init__ -> %s:RadShock.__init__ -> %s:*_ShockProfiles.__init__%s [numerics stubbed]'
                          % (RSW, cls, RSP, RSU, (' + ' + fmod) if fmod else ''))
    return _b


for _n in RAD_CONST:
    _rad_const(_n)


# =====================================================================================
# the effect of `_run` on the solver object (C12: "... and nothing else changes with time", ALL times)
# =====================================================================================
def _array_items(v):
    return list(v.reshape(-1)) if isinstance(v, np.ndarray) else None


def _holders(s, cls):
    """(prefix, object) pairs whose attributes count as state of the solver: the solver itself, the private problem
    object and the stored profile (the wrapper's arrays alias the profile's arrays)"""
    out = [('', s)]
    prob = s.__dict__.get('_%s__prob' % cls)
    if prob is not None:
        out.append(('prob.', prob))
        for k, v in vars(prob).items():
            if k.endswith('_profile'):
                out.append(('prob.%s.' % k, v))
    return out


def _state(s, cls):
    st = {}
    for pre, obj in _holders(s, cls):
        for k, v in vars(obj).items():
            st[pre + k] = (v, _array_items(v))
    return st


def _same_items(a, b):
    if len(a) != len(b):
        return False
    for x, y in zip(a, b):
        if x is y:
            continue
        if isinstance(x, E) or isinstance(y, E):
            if not (isinstance(x, E) and isinstance(y, E) and x.id == y.id):
                return False
        elif not (x == y or (x != x and y != y)):
            return False
    return True


def run_effects(cls, concrete):
    """one row of the table: trace `setup_solver` and `_run` of the wrapper `cls` on symbolic values (same stand-ins as
    the RadWrap models of t_rad) and observe what `_run` reads and writes"""
    from exactpack.base import ExactSolver
    _, C = load('%s:%s' % (RSW, cls))
    mods = modules_of(C, [RSP])
    shims = {'max': sym.sym_builtin_max, 'min': sym.sym_builtin_min, 'float': sym.sym_float,
             'radshock': _rad_problem_module(), 'np': dict(interp=_Interp())}
    row = dict(cls=cls, params=list(C.parameters), base=set(), setup=set(), reads=set(), writes=set(), inplace=set(), leaves=0)

    def run():
        s = C.__new__(C)
        ExactSolver.__init__(s, **sym_params(C, concrete))
        before = dict(vars(s))
        s.setup_solver()
        row['base'] |= set(before)
        for k, v in vars(s).items():
            if k not in before or before[k] is not v:
                row['setup'].add(k)
        log = []

        class Spy(C):
            parameters = C.parameters          # (the metaclass of ExactSolver wants it in the class body)

            def __getattribute__(self, k):
                log.append(k)
                return object.__getattribute__(self, k)
        st0 = _state(s, cls)
        s.__class__ = Spy
        try:
            res = s._run(point(('x',)), S('t'))
        finally:
            s.__class__ = C
        for k in log:
            if k in ('__class__', '__dict__'):
                continue
            if k in s.__dict__ or (hasattr(C, k) and not callable(getattr(C, k))):
                row['reads'].add(k)
        st1 = _state(s, cls)
        for k, (v, items) in st1.items():
            if k not in st0:
                row['writes'].add(k)
                continue
            v0, items0 = st0[k]
            if v is not v0:
                row['writes'].add(k)
            elif items is not None and not _same_items(items0, _array_items(v)):
                row['inplace'].add(k)
            elif items0 is not None and not _same_items(items0, items):
                row['inplace'].add(k)
        for k in st0:
            if k not in st1:
                row['writes'].add(k)
        row['leaves'] += 1
        return res

    import warnings
    with warnings.catch_warnings():
        warnings.simplefilter('ignore')
        with Patched(mods, extra=shims, recorder=Rec):
            leaves = explore(run)
    bad = [lf for lf in leaves if lf.kind != 'ok']
    if bad:
        raise TraceError('%s._run raised on the symbolic call: %r' % (cls, bad[0].value))
    _concrete_effects(C, cls, row)
    return {k: (sorted(v) if isinstance(v, set) else v) for k, v in row.items()}


def _float_problem_module():
    """like t_rad._rad_problem_module, with a stored profile of FLOAT arrays (five nodes)"""
    R = importlib.import_module(RSP)

    def prof(names):
        d = {}
        for j, n in enumerate(names):
            d[n] = np.array([0.0, 0.1, 0.25, 0.45, 0.7]) * (1.0 + 0.1 * j) + (0.0 if n.startswith('x') else 1.0 + j)
        d['x'] = np.array([-0.3, -0.1, 0.0, 0.2, 0.5])
        return _Ns(**d)

    class ED(R.greyED_RadShock):
        def ED_driver(self):
            self.ED_profile = prof(RAD_WRAPPERS['RadWrapED'][2])

    class NED(R.greyNED_RadShock):
        def nED_driver(self, epsilon=1., **k):
            self.nED_profile = prof(RAD_WRAPPERS['RadWrapNED'][2])

    class SN(R.greySn_RadShock):
        def Sn_driver(self, Sn=16, f_tol=1.e-4, **k):
            self.Sn_profile = prof(RAD_WRAPPERS['RadWrapSn'][2])

    class IE(R.Shock_2Tie):
        def IE_driver(self):
            self.IE_profile = prof(RAD_WRAPPERS['RadWrapIE'][2])
    return _Ns(greyED_RadShock=ED, greyNED_RadShock=NED, greySn_RadShock=SN, Shock_2Tie=IE)


def _concrete_effects(C, cls, row):
    """the same observation on FLOAT values with the real NumPy (no symbolic stand-ins, only the ODE drivers are replaced):
    an in-place operation on an array (`a += t * w`, `a *= -1`, a write through a view such as numpy.flip) really is in place
    here, whereas on object arrays of symbols NumPy defers `a += <symbol>` to the symbol and builds a new array.  The traced
    call has a single execution path (`leaves`), so one concrete call visits the same statements."""
    from exactpack.base import ExactSolver
    W = importlib.import_module(RSW)
    saved = W.radshock
    W.radshock = _float_problem_module()
    try:
        s = C.__new__(C)
        ExactSolver.__init__(s)
        s.setup_solver()
        log = []

        class Spy(C):
            parameters = C.parameters

            def __getattribute__(self, k):
                log.append(k)
                return object.__getattribute__(self, k)
        st0 = {}
        for pre, obj in _holders(s, cls):
            for k, v in vars(obj).items():
                st0[pre + k] = (v, v.copy() if isinstance(v, np.ndarray) else None)
        s.__class__ = Spy
        try:
            for t in (1.0e-9, 0.0, 2.5e-9):
                s._run(np.array([-0.2, 0.05, 0.3]), t)
        finally:
            s.__class__ = C
    finally:
        W.radshock = saved
    for k in log:
        if k in ('__class__', '__dict__'):
            continue
        if k in s.__dict__ or (hasattr(C, k) and not callable(getattr(C, k))):
            row['reads'].add(k)
    st1 = {}
    for pre, obj in _holders(s, cls):
        for k, v in vars(obj).items():
            st1[pre + k] = v
    for k, v in st1.items():
        if k not in st0:
            row['writes'].add(k)
        elif v is not st0[k][0]:
            row['writes'].add(k)
        elif isinstance(v, np.ndarray) and not (v.shape == st0[k][1].shape and v.tobytes() == st0[k][1].tobytes()):
            row['inplace'].add(k)
    for k in st0:
        if k not in st1:
            row['writes'].add(k)


class RunEffectsModel(object):
    """table model (like Tables / Effects): emitted as a Lean list so that statements about it are proved by `decide`"""

    def __init__(self, name='RadRunEffects'):
        self.name = name
        self.rows = [run_effects(RAD_WRAPPERS[m][0], RAD_WRAPPERS[m][1]) for m in ('RadWrapED', 'RadWrapNED', 'RadWrapSn', 'RadWrapIE')]

    def real_file(self):
        def lst(xs):
            return '[' + ', '.join('"%s"' % x for x in xs) + ']'
        o = [HEADER, '', 'namespace EPV.Gen.RadRunEffects', '',
             '/-- what the traced `_run` of one public radiative-shock wrapper does to the solver object.  Attribute names of the',
             'private problem object and of the stored profile carry the prefixes `prob.` / `prob.<X>_profile.` -/',
             'structure Row where', '  cls : String',
             '  params : List String    -- declared parameters (bound by ExactSolver.__init__)',
             '  base : List String      -- instance attributes present before setup_solver',
             '  setup : List String     -- instance attributes bound by setup_solver',
             '  reads : List String     -- data attributes of the object read during the traced _run',
             '  writes : List String    -- attributes created, re-bound or deleted during the traced _run',
             '  inplace : List String   -- attributes holding an array whose elements changed during the traced _run',
             '  leaves : Nat            -- number of execution paths of the traced call (all of them are observed)',
             '  deriving Repr, DecidableEq', '', 'def rows : List Row := [']
        o.append(',\n'.join('  { cls := "%s", params := %s, base := %s, setup := %s, reads := %s, writes := %s, inplace := %s, leaves := %d }'
                            % (r['cls'], lst(r['params']), lst(r['base']), lst(r['setup']), lst(r['reads']), lst(r['writes']),
                               lst(r['inplace']), r['leaves']) for r in self.rows))
        o += [']', '', 'end EPV.Gen.RadRunEffects', '']
        return '\n'.join(o)

    def describe(self):
        return {'name': self.name, 'source': RSW + ':{ED,nED,Sn,ie}_Solver.setup_solver / _run [instrumented symbolic call]',
                'params': [], 'pvars': [], 'tvar': None, 'fields': [], 'conds': {}, 'leaves': [], 'consts': {}, 'rows': self.rows}


@target('RadRunEffects', ['rad2', 'radshock2'], deriv=None, floats=False)
def _run_effects():
    return RunEffectsModel()


# =====================================================================================
# a node (P, M) of a nED-type profile: the closed forms from which `splice_precursor_and_relaxation` assembles the
# stored arrays (Tm, Tr, Speed, Density, Pressure, Fr), and the far-field reference of `dPdx`
# =====================================================================================
RAD_NED = {'RadNED': 'nED', 'RadNEDLM': 'LM_nED'}
NED_OUTS = ['Density', 'Tm', 'Speed', 'Pressure', 'Er', 'Tr', 'Fr', 'sigma_t', 'dPdx', 'F2', 'beta0', 'Em0', 'F20', 'Mach']


def _rad_ned(name):
    problem = RAD_NED[name]

    @target(name, ['rad2', 'radshock2'])
    def _b():
        def run():
            F = importlib.import_module(RSN)
            s, prob, prof = _build_wrapper('nED_Solver', dict(problem=problem))
            # the constants the right-hand sides read are free symbols here; RadConstNED / RadConstLM say what the real
            # constructor chain puts there for a user's rho0, Tref, Cv, gamma (Props/C12/Constants.lean)
            prof.P0, prof.C0 = S('P0'), S('C0')
            P, M = S('P'), S('M')
            # the reference state of dPdx, as coded there (upstream equilibrium ahead of the sonic point, downstream behind)
            Meq = sym.sym_where(M > 1, prof.M0, prof.M1)
            Preq = sym.sym_where(M > 1, prof.Pr0, prof.Pr1)
            return (F.mat_density(P, M, prof), F.mat_temp(P, M, prof), F.mat_speed(P, M, prof), F.mat_pres(P, M, prof),
                    F.rad_energy_density(P, M, prof), F.rad_temp(P, M, prof), F.rad_flux(P, M, prof), F.sigma_t(P, M, prof),
                    F.dPdx(P, M, prof), F.rad_flux2(P, M, prof),
                    F.mat_beta(Preq, Meq, prof), F.mat_total_energy(Preq, Meq, prof), F.rad_flux2(Preq, Meq, prof),
                    prof.M0 / F.mat_density(P, M, prof) / F.mat_temp(P, M, prof) ** 0.5)
        return trace_func(name, run, [], NED_OUTS, modules=[RSW, RSP, RSU, RSN], extra_shims=_const_shims(),
                          source='%s: mat_density, mat_temp, mat_speed, mat_pres, rad_energy_density, rad_temp, rad_flux, dPdx [problem %s] '
                                 'on a profile object built by the real constructor chain' % (RSN, problem))
    return _b


for _n in RAD_NED:
    _rad_ned(_n)


# =====================================================================================
# a node (E, M) of a flux-limited profile (fnctn_FLD) with the local flux limiter (Lambda, R) symbolic: FINDING
# C12.radshock.fld_energy_flux (the far-field reference of dPdx is formed with the LOCAL limiter)
# =====================================================================================
RSL = 'exactpack.solvers.radshocks.fnctn_FLD'
FLD_OUTS = ['Density', 'Tm', 'Speed', 'Pressure', 'Pr', 'Fr', 'sigma_t', 'dPdx', 'F2', 'beta0', 'Em0', 'F20']


@target('RadFLD', ['rad2', 'radshock2'])
def _rad_fld():
    def run():
        F = importlib.import_module(RSL)
        s, prob, prof = _build_wrapper('nED_Solver', dict(problem='FLD_LP'))
        prof.P0, prof.C0 = S('P0'), S('C0')
        prof.Lambda, prof.R = S('Lam'), S('R')        # what `dEdx` left there for this node
        En, M = S('E'), S('M')
        Meq = sym.sym_where(M > 1, prof.M0, prof.M1)
        Ereq = sym.sym_where(M > 1, prof.Er0, prof.Er1)
        siga = prof.sigA * F.mat_density(En, M, prof) ** prof.expDensity_abs * F.mat_temp(En, M, prof) ** prof.expTemp_abs
        sigs = prof.sigS * F.mat_density(En, M, prof) ** prof.expDensity_scat * F.mat_temp(En, M, prof) ** prof.expTemp_scat
        return (F.mat_density(En, M, prof), F.mat_temp(En, M, prof), F.mat_speed(En, M, prof), F.mat_pres(En, M, prof),
                (prof.Lambda + (prof.Lambda * prof.R) ** 2) * En, F.rad_flux(En, M, prof), siga + sigs,
                F.dPdx(En, M, prof), F.rad_flux2(En, M, prof),
                F.mat_beta(Ereq, Meq, prof), F.mat_total_energy(Ereq, Meq, prof), F.rad_flux2(Ereq, Meq, prof))
    return trace_func('RadFLD', run, [], FLD_OUTS, modules=[RSW, RSP, RSU, RSL], extra_shims=_const_shims(),
                      source=RSL + ': mat_density, mat_temp, mat_speed, mat_pres, rad_flux, dPdx with the local flux limiter '
                                   '(Lambda, R) symbolic, on a profile object built by the real constructor chain [problem FLD_LP]')
