"""Sedov blast wave, work package sedov2: the constants of the similarity functions.

  SedovConsts   the real constructor `Sedov.__init__` on five symbolic parameters (the same trace as
                SedovInit: acceptance tree, solution type, special singularity), with the DERIVED
                CONSTANTS that `sedov_funcs_standard` reads as outputs: the exponents a0…a5
                (Kamm eqs 42-47), the combinations a_val…e_val (Kamm eqs 33-37), xg2, gamm1, gamp1,
                gpogm and the shock value v2 of the similarity variable.  On the leaves of the
                special singularities `denom2` / `denom3` are the literal 1e-8 the code assigns.
                (`quad` is the atom of SedovInit; its value is not an output here.)
  SedovEnds     the end points of the two solution branches as `__init__` computes them (v0, vv, v2,
                vstar; sedov.py:90-91, 155-156) on the constructor path of the standard solution type
                (concolic witness as for SedovShock; the vacuum path computes the same expressions).

The similarity-ODE theorems (Props/C01/SedovODE.lean) and the mass integral (Props/C11/SedovMass.lean)
are stated for the generated models SedovFuncs / SedovFuncsO2 / SedovFuncsO3 whose constants are
symbols; SedovConsts ties those symbols to (gamma, geometry, omega)."""
from . import target
from ..trace import trace_func, trace_init
from .t_sedov import SEDOV_MOD, SEDOV_SHIMS, witness_object

SEDOV_CONSTS = ('a0', 'a1', 'a2', 'a3', 'a4', 'a5', 'a_val', 'b_val', 'c_val', 'd_val', 'e_val',
                'xg2', 'gamm1', 'gamp1', 'gpogm', 'v2')


@target('SedovConsts', ['sedov'], floats=True)
def _consts():
    return trace_init('SedovConsts', SEDOV_MOD + ':Sedov', derived=SEDOV_CONSTS, extra_shims=SEDOV_SHIMS)


SEDOV_ENDS = ('v0', 'vv', 'v2', 'vstar')


@target('SedovEnds', ['sedov'], floats=True)
def _ends():
    def run():
        s = witness_object('standard')
        return tuple(getattr(s, k) for k in SEDOV_ENDS)
    return trace_func('SedovEnds', run, [], list(SEDOV_ENDS), modules=[SEDOV_MOD], extra_shims=SEDOV_SHIMS,
                      source=SEDOV_MOD + ':Sedov.__init__ lines 90-91, 155-156 [solution_type=standard]')
