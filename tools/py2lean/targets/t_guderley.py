"""Guderley converging shock (exactpack/solvers/guderley/{guderley,ramsey,eexp}.py) and RMTV
(exactpack/solvers/rmtv/{rmtv,timmes}.py): the closed-form logic around the numerical
integrations, traced by running the solvers' own functions on symbolic values.

ATOMS.  `scipy.integrate.solve_ivp`, `scipy.optimize.brentq`, `scipy.integrate.quad` are replaced,
for the duration of a trace, by stand-ins that return fresh symbols:

    solve_ivp(rhs, (a, b), y0, …)   k-th call on a path  ->  soln.y[:, -1] = (V, C, R) for the LAST
                                    integration of `state` (the one that ends at the point's own
                                    similarity coordinate), (Vb, Cb, Rb) for the integration that
                                    ends at the reflected shock x = B;  soln.t[-1] = the end
                                    abscissa handed in.
    brentq(f, a, b, …)              a symbol named after f (`ustar` for rmtvfun, `alpha` for Cdiff)
    quad(f, a, b, …)                the symbol `ans`

so every generated model is a function of these atom values; theorems carry what they need to
know about them (e.g. "(V, C, R) solves the traced right-hand side GudG") as hypotheses.

MODELS (group 'guderley')

  GudState     ramsey.state(r, rho0, n, gamma_d, lambda_d, B, targetx): the four-way branch on the
               similarity coordinate and the dimensionalisation (Lazarus Eq. 2.5) of the atoms
               (V, C, R) -> density, velocity, pressure, sound_speed, specific_internal_energy.
  GudJump      the same call, stopped at the second solve_ivp of the `targetx >= B` branch: the
               state (V1, C1, R1) the code hands to the post-reflection integration, i.e. the coded
               general-strength jump (Lazarus Eq. 2.6) applied to (Vb, Cb, Rb); the initial
               state (Vs, Cs, Rs) it hands to the first integration (the strong-shock values at
               the converging shock x = -1); and the module globals gamma, lambda_, nu that the
               right-hand side `g` reads during those integrations.
  GudX         ramsey.guderley_1d(t, [r], ngeom, gamma, rho0) with eexp / get_shock_position atoms
               (`lambda_`, `B`) and `state` replaced by a recorder: the seven arguments the driver
               passes to `state` (time conversion t -> Lazarus time, similarity coordinate, and the
               order in which gamma, rho0, … are handed on).
  GudG, GudF   the right-hand sides ramsey.g(t, y), ramsey.f(xorw, y) with the module globals
               gamma, lambda_, nu (and sigma, intno for f) set to symbols.
  GudEnergy    ramsey.energy(x, y, gamma, lambda_, nu, energy0): the adiabatic integral (2.7).
  GudResidual  ramsey.Guderley(B, n, gamma_d, lambda_d): the function whose root is B — the coded
               jump applied at the end of the x-integration, compared with the end of the
               w-integration; outputs the residual, the event level V1, and the start values of
               the two integrations.
  GudEexp      eexp.eexp(nnn, gamm): the validation front end and bracket of the similarity
               exponent (brentq = atom `alpha`); C20 restrictions of the Guderley solver live here.
  GudFe        eexp.fe(t, y) with the module globals a, n, g symbolic (Chisnell Eq. 3.1).
  GudRun       Guderley._run with guderley_1d a recorder: keyword wiring and field names.
  GudInit      the constructor (validates nothing).
  RmtvRun      timmes.rmtv_1d(rpos, …): derived constants, ambient / heated / shocked branches,
               dimensionalisation and unit conversion of the atoms.
  RmtvStart    the same call stopped at the first solve_ivp: heat-front start values (Kamm Eqs. 11, 13).
  RmtvJump     rmtv_1d on concrete arguments of the shocked branch, stopped at the second solve_ivp:
               the coded isothermal-shock jump (Kamm 2000 Eq. 15) of the atoms (U2, H2, W2, T2).
  RmtvDerivs   timmes.derivs(t, y) with the module globals symbolic.
  RmtvFun      timmes.fun(y) and timmes.rmtvfun(u) (quad = atom `ans`).
  RmtvWire     Rmtv._run with `rmtv` a recorder; RmtvLoop: timmes.rmtv with `rmtv_1d` a recorder
               (argument hand-over and wiring of the results under the public field names).
  RmtvInit     the constructor (validates nothing).

GUD_FUNCS / RMTV_FUNCS list, for the ties in harness/o_guderley.py, the generated function
models of this file."""
import collections
import importlib

import numpy as np

from . import target
from ..trace import trace_func, trace_solver
from .. import sym
from ..sym import S, E, B, TraceError

RAMSEY = 'exactpack.solvers.guderley.ramsey'
EEXP = 'exactpack.solvers.guderley.eexp'
TIMMES = 'exactpack.solvers.rmtv.timmes'


def _mod(name):
    return importlib.import_module(name)


class _Globals(object):
    """set module-level globals (the Fortran COMMON blocks of the translations) for one call and
    restore them afterwards"""
    _missing = object()

    def __init__(self, mod, **vals):
        self.mod, self.vals, self.saved = mod, vals, {}

    def __enter__(self):
        for k, v in self.vals.items():
            self.saved[k] = self.mod.__dict__.get(k, self._missing)
            setattr(self.mod, k, v)
        return self

    def __exit__(self, *a):
        for k, v in self.saved.items():
            if v is self._missing:
                if k in self.mod.__dict__:
                    delattr(self.mod, k)
            else:
                setattr(self.mod, k, v)
        return False


class _Captured(Exception):
    def __init__(self, value):
        Exception.__init__(self, 'captured')
        self.value = value


class _Soln(object):
    def __init__(self, t_end, names):
        self.t = np.empty(1, dtype=object)
        self.t[0] = sym.lift(t_end)
        self.y = np.empty((len(names), 1), dtype=object)
        for i, n in enumerate(names):
            self.y[i, 0] = S(n)
        self.status = 1


class _Ivp(object):
    """stand-in for solve_ivp: the k-th call returns the atoms named in `plan[k]`; the start
    values handed to each call are recorded; `stop_at` = index of the call that ends the trace"""

    def __init__(self, plan, stop_at=None):
        self.plan, self.stop_at = plan, stop_at
        self.reset()

    def reset(self):
        self.k = 0
        self.starts = []

    def __call__(self, rhs, span, y0, **kw):
        y0 = [sym.lift(v) for v in np.asarray(y0, dtype=object).reshape(-1)]
        self.starts.append((span, y0))
        if self.stop_at is not None and self.k == self.stop_at:
            raise _Captured(self.starts)
        names = self.plan(self.k, len(y0)) if callable(self.plan) else self.plan[self.k]
        self.k += 1
        return _Soln(span[1], names)


# --------------------------------------------------------------------------
# ramsey.state: branch on the similarity coordinate + dimensionalisation
# --------------------------------------------------------------------------
GUD_STATE_ARGS = ['r', 'rho0', 'n', 'gamma_d', 'lambda_d', 'B', 'targetx']
GUD_FIELDS = ['density', 'velocity', 'pressure', 'sound_speed', 'specific_internal_energy']


def _state_plan(n_calls_total):
    # the last integration of a path ends at the point's own x: atoms V, C, R;
    # an earlier one (only in the post-reflection branch) ends at x = B: atoms Vb, Cb, Rb
    def plan(k, n):
        return ['V', 'C', 'R']
    return plan


class _StateIvp(_Ivp):
    """`state` integrates once (pre-reflection branches) or twice (post-reflection branch: to
    x = B, jump, on to x).  The integration that ends at `targetx` returns (V, C, R); the one that
    ends at B returns (Vb, Cb, Rb)."""

    def __init__(self, stop_at=None):
        _Ivp.__init__(self, None, stop_at)

    def __call__(self, rhs, span, y0, **kw):
        y0 = [sym.lift(v) for v in np.asarray(y0, dtype=object).reshape(-1)]
        self.starts.append((span, y0))
        if self.stop_at is not None and self.k == self.stop_at:
            raise _Captured(self.starts)
        end = sym.lift(span[1])
        if self.stop_at is not None:
            names = ['Vb', 'Cb', 'Rb']
        else:
            names = ['Vb', 'Cb', 'Rb'] if (end.op == 'sym' and end.a[0] == 'B') else ['V', 'C', 'R']
        self.k += 1
        return _Soln(span[1], names)


def _gud_globals():
    """the module globals of ramsey.py as they are after any call (restored after the trace)"""
    return dict(gamma=None, lambda_=None, nu=None, sigma=None, intno=None, V1=None)


@target('GudState', ['guderley'], deriv=None)
def _gud_state():
    M = _mod(RAMSEY)
    ivp = _StateIvp()

    def run():
        ivp.reset()
        with _Globals(M, **_gud_globals()):
            return tuple(M.state(*[S(a) for a in GUD_STATE_ARGS]))
    return trace_func('GudState', run, [], GUD_FIELDS, modules=[RAMSEY], extra_shims=dict(solve_ivp=ivp),
                      source=RAMSEY + ':state(r, rho0, n, gamma_d, lambda_d, B, targetx) [solve_ivp = atoms V, C, R]')


GUD_JUMP_OUTS = ['Vs', 'Cs', 'Rs', 'V1', 'C1', 'R1', 'glob_gamma', 'glob_lambda', 'glob_nu']


@target('GudJump', ['guderley'], deriv=None)
def _gud_jump():
    """the post-reflection branch is selected with concrete numbers (B = 1, targetx = 2: the jump
    formulas do not involve them), so the only decisions left are those of np.sign(Cb)"""
    M = _mod(RAMSEY)
    ivp = _StateIvp(stop_at=1)

    def run():
        ivp.reset()
        with _Globals(M, **_gud_globals()):
            try:
                M.state(S('r'), S('rho0'), S('n'), S('gamma_d'), S('lambda_d'), 1.0, 2.0)
            except _Captured as c:
                (s0, y0), (s1, y1) = c.value
                # the module globals the right-hand side `g` reads during the integrations
                return tuple(y0) + tuple(y1) + (sym.lift(M.gamma), sym.lift(M.lambda_), sym.lift(M.nu))
        raise TraceError('state returned before the second solve_ivp')
    return trace_func('GudJump', run, [], GUD_JUMP_OUTS, modules=[RAMSEY], extra_shims=dict(solve_ivp=ivp),
                      source=RAMSEY + ':state(r, rho0, n, gamma_d, lambda_d, B=1.0, targetx=2.0) [up to the second solve_ivp: '
                                      'start values of the first integration + reflected-shock jump of its result (Vb, Cb, Rb)]')


# --------------------------------------------------------------------------
# ramsey.guderley_1d: what the driver hands to `state`
# --------------------------------------------------------------------------
GUD_X_OUTS = ['st_r', 'st_rho0', 'st_n', 'st_gamma', 'st_lambda', 'st_B', 'st_targetx',
              'den', 'vel', 'pres', 'snd', 'sie']


@target('GudX', ['guderley'], deriv=None)
def _gud_x():
    """`state` is replaced by a recorder that returns the atoms (s_den, s_vel, s_pres, s_snd, s_sie):
    the model shows the seven arguments the driver hands to `state` and which of the five values
    `state` returns ends up in which of the five arrays the driver returns"""
    M = _mod(RAMSEY)
    seen = []

    def state(*a):
        seen.append(a)
        return tuple(S('s_' + n) for n in ('den', 'vel', 'pres', 'snd', 'sie'))

    def run():
        del seen[:]
        out = M.guderley_1d(S('t'), sym.point(('r',)), S('ngeom'), S('gamma'), S('rho0'))
        return tuple(sym.lift(v) for v in seen[0]) + tuple(sym.scalar(o) for o in out)
    return trace_func('GudX', run, [], GUD_X_OUTS, modules=[RAMSEY], pvars=('r',), tvar='t',
                      extra_shims=dict(eexp=lambda n, g: S('lambda_'), get_shock_position=lambda n, g, l: S('B'),
                                       state=state),
                      source=RAMSEY + ':guderley_1d [eexp, get_shock_position = atoms lambda_, B; `state` = recorder: '
                                      'its arguments, and the wiring of its results]')


# --------------------------------------------------------------------------
# right-hand sides and the energy integral
# --------------------------------------------------------------------------
def _y(names):
    a = np.empty(len(names), dtype=object)
    for i, n in enumerate(names):
        a[i] = S(n)
    return a


@target('GudG', ['guderley'], deriv=None)
def _gud_g():
    M = _mod(RAMSEY)

    def run():
        with _Globals(M, gamma=S('gamma'), lambda_=S('lambda_'), nu=S('nu')):
            return M.g(S('x'), _y(['V', 'C', 'R']))
    return trace_func('GudG', run, [], ['dV', 'dC', 'dR'], modules=[RAMSEY],
                      source=RAMSEY + ':g(t, y) [globals gamma, lambda_, nu symbolic]')


@target('GudF', ['guderley'], deriv=None)
def _gud_f():
    M = _mod(RAMSEY)

    def run():
        with _Globals(M, gamma=S('gamma'), lambda_=S('lambda_'), nu=S('nu'), sigma=S('sigma'), intno=S('intno')):
            return M.f(S('x'), _y(['V', 'C', 'R']))
    return trace_func('GudF', run, [], ['dV', 'dC', 'dR'], modules=[RAMSEY],
                      source=RAMSEY + ':f(xorw, y) [globals gamma, lambda_, nu, sigma, intno symbolic]')


@target('GudEnergy', ['guderley'], deriv=None)
def _gud_energy():
    M = _mod(RAMSEY)
    return trace_func('GudEnergy', lambda: M.energy(S('x'), _y(['V', 'C', 'R']), S('gamma'), S('lambda_'), S('nu'), S('energy0')),
                      [], ['energy'], modules=[RAMSEY], source=RAMSEY + ':energy(x, y, gamma, lambda_, nu, energy0)')


# --------------------------------------------------------------------------
# ramsey.Guderley: the function whose root is the reflected-shock position B
# --------------------------------------------------------------------------
GUD_RES_OUTS = ['residual', 'V1', 'Vs', 'Cs', 'Rs', 'Vw0', 'Cw0', 'sigma', 'w0']


@target('GudResidual', ['guderley'], deriv=None)
def _gud_residual():
    M = _mod(RAMSEY)
    # call 0: x-integration -1 -> B (atoms Vb, Cb, Rb); call 1: w-integration, stopped by the event (atoms Vw, Cw, Rw)
    ivp = _Ivp([['Vb', 'Cb', 'Rb'], ['Vw', 'Cw', 'Rw']])

    def run():
        ivp.reset()
        with _Globals(M, **_gud_globals()):
            res = M.Guderley(S('B'), S('n'), S('gamma_d'), S('lambda_d'))
            V1, sigma = M.V1, M.sigma
        (s0, y0), (s1, y1) = ivp.starts
        return (res, V1, y0[0], y0[1], y0[2], y1[0], y1[1], sigma, sym.lift(s1[0]))
    # `energy` feeds only the local diagnostics energymin/energymax, which are never returned
    return trace_func('GudResidual', run, [], GUD_RES_OUTS, modules=[RAMSEY],
                      extra_shims=dict(solve_ivp=ivp, energy=lambda *a: 0.0),
                      source=RAMSEY + ':Guderley(B, n, gamma_d, lambda_d) [solve_ivp = atoms (Vb,Cb,Rb), (Vw,Cw,Rw); '
                                      'energy diagnostics (dead code) = 0]')


# --------------------------------------------------------------------------
# eexp: validation, bracket, Chisnell right-hand side
# --------------------------------------------------------------------------
@target('GudEexp', ['guderley'], deriv=None)
def _gud_eexp():
    M = _mod(EEXP)

    def run():
        with _Globals(M, g=None, n=None, a=None):
            return M.eexp(S('nnn'), S('gamm'))
    return trace_func('GudEexp', run, [], ['lambda_'], modules=[EEXP],
                      extra_shims=dict(brentq=lambda f, a, b, **kw: S('alpha')),
                      source=EEXP + ':eexp(nnn, gamm) [brentq = atom alpha]')


@target('GudFe', ['guderley'], deriv=None)
def _gud_fe():
    M = _mod(EEXP)

    def run():
        with _Globals(M, a=S('a'), n=S('n'), g=S('g')):
            return M.fe(S('t'), _y(['y0']))
    return trace_func('GudFe', run, [], ['dy0'], modules=[EEXP], source=EEXP + ':fe(t, y) [globals a, n, g symbolic]')


# --------------------------------------------------------------------------
# the public class: field names and order, argument wiring of _run
# --------------------------------------------------------------------------
GUD_RUN_ARGS = ['arg_t', 'arg_ngeom', 'arg_gamma', 'arg_rho0']


@target('GudRun', ['guderley'], deriv=None)
def _gud_run():
    """Guderley._run with guderley_1d replaced by a recorder that returns the atoms o_den … o_sie:
    which returned array gets which field name, and which attribute is handed to which keyword"""
    seen = {}

    def g1d(*args, **kw):
        # the wiring is what matters, not whether _run passes it by keyword or by position:
        # bind positional arguments by the real signature of ramsey.guderley_1d
        import inspect
        from exactpack.solvers.guderley.ramsey import guderley_1d as real_g1d
        try:
            kw = dict(inspect.signature(real_g1d).bind(*args, **kw).arguments)
        except TypeError as ex:
            raise TraceError('guderley_1d called with arguments that do not bind: %s' % ex)
        if sorted(kw) != ['gamma', 'ngeom', 'r', 'rho0', 't']:
            raise TraceError('guderley_1d called with keywords %r' % sorted(kw))
        seen.clear()
        seen.update(kw)
        return tuple(S('o_' + n) for n in ('den', 'vel', 'pres', 'snd', 'sie'))

    def post(solver, res):
        out = collections.OrderedDict()
        for n in res.names:
            out[n] = res.field(n)
        for n in GUD_RUN_ARGS:
            out[n] = seen[n[4:]]
        return out

    return trace_solver('GudRun', 'exactpack.solvers.guderley.guderley:Guderley', extra_shims=dict(guderley_1d=g1d),
                        post=post)


# --------------------------------------------------------------------------
# RMTV
# --------------------------------------------------------------------------
RMTV_ARGS = ['rpos', 'aval_in', 'bval_in', 'chi0', 'gamma', 'bigamma', 'rf', 'xif_in', 'xis', 'beta0_in', 'g0']
RMTV_FIELDS = ['den', 'tev', 'ener', 'pres', 'vel']
RMTV_GLOBALS = ('aval', 'bval', 'xif', 'beta0', 'xgeom', 'alpha', 'amu', 'kappa', 'sigma')


def _rmtv_globals():
    return {k: None for k in RMTV_GLOBALS}


def _rmtv_shims(ivp):
    return dict(solve_ivp=ivp, brentq=lambda f, a, b, **kw: S('ustar'), quad=lambda f, a, b, **kw: (S('ans'), 0.0))


@target('RmtvRun', ['guderley', 'rmtv'], deriv=None)
def _rmtv_run():
    M = _mod(TIMMES)
    # the integration whose result is dimensionalised returns (U, H, W, T); in the shocked branch the
    # one before it (heat front -> shock) returns (U2, H2, W2, T2)
    ivp = _Ivp(None)

    def run():
        ivp.reset()
        ivp.plan = lambda k, n: ['U2', 'H2', 'W2', 'T2'] if k == 0 else ['U', 'H', 'W', 'T']
        with _Globals(M, **_rmtv_globals()):
            out = tuple(M.rmtv_1d(*[S(a) for a in RMTV_ARGS]))
        return out
    return trace_func('RmtvRun', run, [], RMTV_FIELDS, modules=[TIMMES], extra_shims=_rmtv_shims(ivp),
                      source=TIMMES + ':rmtv_1d [brentq, quad, solve_ivp = atoms ustar, ans, (U2,H2,W2,T2), (U,H,W,T)]')


RMTV_START_OUTS = ['U0', 'H0', 'W0', 'T0', 'eta1', 'eta2']


@target('RmtvStart', ['guderley', 'rmtv'], deriv=None)
def _rmtv_start():
    """rmtv_1d up to its first solve_ivp: the start values at the heat front (Kamm 2000 Eqs. 11, 13)
    and the integration interval"""
    M = _mod(TIMMES)
    ivp = _Ivp(None, stop_at=0)

    def run():
        ivp.reset()
        nan = E('flt', float('nan'))
        with _Globals(M, **_rmtv_globals()):
            try:
                M.rmtv_1d(*[S(a) for a in RMTV_ARGS])
            except _Captured as c:
                ((s0, y0),) = c.value
                return tuple(y0) + (sym.lift(s0[0]), sym.lift(s0[1]))
        return (nan,) * 6           # ahead of the heat front nothing is integrated
    return trace_func('RmtvStart', run, [], RMTV_START_OUTS, modules=[TIMMES], extra_shims=_rmtv_shims(ivp),
                      source=TIMMES + ':rmtv_1d [up to the first solve_ivp: heat-front start values, integration interval]')


RMTV_JUMP_OUTS = ['U1', 'H1', 'W1', 'T1']
# concrete arguments that select the shocked branch (rpos <= rs); the jump formulas involve none of them
RMTV_JUMP_ARGS = dict(rpos=0.1, aval_in=-2.0, bval_in=6.5, chi0=1.0, gamma=1.25, bigamma=1.0, rf=0.9, xif_in=1.0,
                      xis=1.0, beta0_in=7.197534e7, g0=1.0)


@target('RmtvJump', ['guderley', 'rmtv'], deriv=None)
def _rmtv_jump():
    """rmtv_1d on concrete arguments of the shocked branch, stopped at the second solve_ivp: the
    state handed to the post-shock integration = the coded isothermal-shock jump (Kamm 2000 Eq. 15)
    of the atoms (U2, H2, W2, T2)"""
    M = _mod(TIMMES)
    ivp = _Ivp(lambda k, n: ['U2', 'H2', 'W2', 'T2'], stop_at=1)

    def run():
        ivp.reset()
        with _Globals(M, **_rmtv_globals()):
            try:
                M.rmtv_1d(*[RMTV_JUMP_ARGS[a] for a in RMTV_ARGS])
            except _Captured as c:
                (s0, y0), (s1, y1) = c.value
                return tuple(y1)
        raise TraceError('rmtv_1d returned before the second solve_ivp')
    return trace_func('RmtvJump', run, [], RMTV_JUMP_OUTS, modules=[TIMMES],
                      extra_shims=dict(solve_ivp=ivp, brentq=lambda f, a, b, **kw: 0.25, quad=lambda f, a, b, **kw: (0.0, 0.0)),
                      source=TIMMES + ':rmtv_1d(rpos=0.1, defaults, xif=1) [shocked branch up to the second solve_ivp: '
                                      'isothermal-shock jump of (U2, H2, W2, T2)]')


RMTV_KW = ['aval_in', 'bval_in', 'chi0', 'gamma', 'bigamma', 'rf', 'xif_in', 'xis', 'beta0_in', 'g0']


@target('RmtvWire', ['guderley', 'rmtv'], deriv=None)
def _rmtv_wire():
    """Rmtv._run with `rmtv` replaced by a recorder that returns the atoms (o_den, o_tev, o_ener,
    o_pres, o_vel): which attribute is handed to which keyword and which returned array gets which
    field name"""
    seen = {}

    def rmtv(*args, **kw):
        # keyword or positional call: bind by the real signature of timmes.rmtv (the wiring is what matters)
        import inspect
        from exactpack.solvers.rmtv.timmes import rmtv as real_rmtv
        try:
            kw = dict(inspect.signature(real_rmtv).bind(*args, **kw).arguments)
        except TypeError as ex:
            raise TraceError('rmtv called with arguments that do not bind: %s' % ex)
        if sorted(kw) != sorted(RMTV_KW + ['r']):
            raise TraceError('rmtv called with keywords %r' % sorted(kw))
        seen.clear()
        seen.update(kw)
        return tuple(S('o_' + n) for n in RMTV_FIELDS)

    def post(solver, res):
        out = collections.OrderedDict()
        for n in res.names:
            out[n] = res.field(n)
        for n in RMTV_KW:
            out['arg_' + n] = seen[n]
        return out

    return trace_solver('RmtvWire', 'exactpack.solvers.rmtv.rmtv:Rmtv', extra_shims=dict(rmtv=rmtv), post=post)


@target('RmtvLoop', ['guderley', 'rmtv'], deriv=None)
def _rmtv_loop():
    """timmes.rmtv(r, …) for one point with `rmtv_1d` replaced by a recorder returning the atoms
    (s_d, s_t, s_e, s_p, s_v): the eleven positional arguments handed on and the wiring of the five
    results into the five returned arrays"""
    M = _mod(TIMMES)
    seen = []

    def rmtv_1d(*a):
        seen.append(a)
        return tuple(S('s_' + n) for n in ('d', 't', 'e', 'p', 'v'))

    def run():
        del seen[:]
        out = M.rmtv(sym.point(('r',)), *[S(a) for a in RMTV_ARGS[1:]])
        return tuple(sym.lift(v) for v in seen[0]) + tuple(sym.scalar(o) for o in out)
    return trace_func('RmtvLoop', run, [], ['p_' + a for a in RMTV_ARGS] + RMTV_FIELDS, modules=[TIMMES], pvars=('r',),
                      extra_shims=dict(rmtv_1d=rmtv_1d),
                      source=TIMMES + ':rmtv [rmtv_1d = recorder: its arguments, and the wiring of its results]')


@target('RmtvInit', ['guderley', 'rmtv'], deriv=None)
def _rmtv_init():
    from ..trace import trace_init
    return trace_init('RmtvInit', 'exactpack.solvers.rmtv.rmtv:Rmtv')


@target('GudInit', ['guderley'], deriv=None)
def _gud_init():
    from ..trace import trace_init
    return trace_init('GudInit', 'exactpack.solvers.guderley.guderley:Guderley')


RMTV_DERIV_GLOBALS = ['alpha', 'aval', 'bval', 'beta0', 'xgeom', 'kappa', 'sigma', 'amu']


@target('RmtvDerivs', ['guderley', 'rmtv'], deriv=None)
def _rmtv_derivs():
    M = _mod(TIMMES)

    def run():
        with _Globals(M, print=lambda *a, **k: None, **{k: S(k) for k in RMTV_DERIV_GLOBALS}):
            return M.derivs(S('eta'), _y(['U', 'H', 'W', 'T']))
    return trace_func('RmtvDerivs', run, [], ['dU', 'dH', 'dW', 'dT'], modules=[TIMMES],
                      extra_shims=dict(print=lambda *a, **k: None),
                      source=TIMMES + ':derivs(t, y) [globals symbolic]')


@target('RmtvFun', ['guderley', 'rmtv'], deriv=None)
def _rmtv_fun():
    M = _mod(TIMMES)

    def run():
        with _Globals(M, amu=S('amu'), aval=S('aval'), bval=S('bval'), beta0=S('beta0'), xif=S('xif'), alpha=S('alpha')):
            return (M.fun(S('y')), M.rmtvfun(S('u')))
    return trace_func('RmtvFun', run, [], ['fun', 'rmtvfun'], modules=[TIMMES],
                      extra_shims=dict(quad=lambda f, a, b, **kw: (S('ans'), 0.0)),
                      source=TIMMES + ':fun(y), rmtvfun(u) [quad = atom ans]')


GUD_FUNCS = ['GudState', 'GudJump', 'GudX', 'GudG', 'GudF', 'GudEnergy', 'GudResidual', 'GudEexp', 'GudFe', 'GudRun', 'GudInit']
RMTV_FUNCS = ['RmtvRun', 'RmtvStart', 'RmtvJump', 'RmtvDerivs', 'RmtvFun', 'RmtvInit', 'RmtvWire', 'RmtvLoop']
