"""Effect IR of shared mutable state (C06): regenerated from the AST on every run."""
from . import target


@target('Effects', ['effects'], deriv=None, floats=False)
def _effects():
    from ..effects import EffectsModel
    return EffectsModel()
