"""py2lean.targets -- what is traced, and how (one t_<family>.py file per solver family).

Every entry regenerates one Lean model from /repo's current working tree.
Groups let a check regenerate only what its property needs."""
from ..trace import trace_solver, trace_init, trace_func

TARGETS = []


def target(name, groups, deriv=None, second=(), floats=True, corr=None):
    def deco(fn):
        TARGETS.append(dict(name=name, groups=set(groups), build=fn, deriv=deriv, second=tuple(second),
                            floats=floats, corr=corr))
        return fn
    return deco


def by_name(name):
    for t in TARGETS:
        if t['name'] == name:
            return t
    raise KeyError(name)




import importlib as _il
import os as _os

for _f in sorted(_os.listdir(_os.path.dirname(_os.path.abspath(__file__)))):
    if _f.startswith('t_') and _f.endswith('.py'):
        _m = _il.import_module('py2lean.targets.' + _f[:-3])
        for _k, _v in vars(_m).items():
            if _k.isupper():
                globals()[_k] = _v
