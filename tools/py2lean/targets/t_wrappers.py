"""Geometry-specific wrapper classes of the closed-form hydro solvers (C07):
Planar/Cylindrical/Spherical<Noh|Noh2|Cog N> and Kidder74/Kidder76.

A wrapper fixes `geometry` (and sometimes another attribute) in its class body and
declares fewer parameters; the inherited `_run` is traced once per wrapper, so in the
wrapper's model the fixed attributes are literals and only the declared parameters
are symbols.  C07 proves each wrapper model equal to the general class's model at
those values (lean/EPV/Props/C07/Wrappers.lean)."""
import importlib

from . import target
from ..trace import trace_solver
from .t_hydro import COG, COG_PARAMS

GEOMETRY = {'Planar': 1, 'Cylindrical': 2, 'Spherical': 3}
NOH_PARAMS = dict(gamma=(1.1, 3.0), u0=(-3.0, -0.2), rho0=(0.2, 5.0))
NOH2_PARAMS = dict(gamma=(1.1, 3.0), e0=(0.2, 3.0), rho0=(0.2, 5.0))

# (wrapper class, module, parent model, parent class, geometry fixed by the name, corr ranges)
WRAPPERS = []


def _add(module, parent, wname, geometry, params, r=(0.2, 3.0), t=(0.05, 0.6)):
    m = importlib.import_module(module)
    if not hasattr(m, wname):
        return
    WRAPPERS.append(dict(name=wname, module=module, parent=parent, geometry=geometry,
                         cls='%s:%s' % (module, wname), parent_cls='%s:%s' % (module, parent),
                         params={k: v for k, v in (params or {}).items() if k != 'geometry'}, r=r, t=t))


for _n in COG:
    for _g, _k in GEOMETRY.items():
        _add('exactpack.solvers.cog.cog%d' % _n, 'Cog%d' % _n, '%sCog%d' % (_g, _n), _k, COG_PARAMS.get(_n))
_add('exactpack.solvers.cog.cog6', 'Cog6', 'Kidder74', 3, COG_PARAMS.get(6))
_add('exactpack.solvers.cog.cog7', 'Cog7', 'Kidder76', 3, COG_PARAMS.get(7))
for _g, _k in GEOMETRY.items():
    _add('exactpack.solvers.noh.noh1', 'Noh', _g + 'Noh', _k, NOH_PARAMS, r=(0.01, 2.0), t=(0.05, 2.0))
    _add('exactpack.solvers.noh2.noh2', 'Noh2', _g + 'Noh2', _k, NOH2_PARAMS, r=(0.01, 2.0), t=(0.0, 1.1))

WRAPPER_NAMES = [w['name'] for w in WRAPPERS]


def _mk(w):
    @target(w['name'], ['wrappers'], deriv=None,
            corr=dict(cls=w['cls'], r=w['r'], t=w['t'], params=w['params']))
    def _b():
        return trace_solver(w['name'], w['cls'])
    return _b


for _w in WRAPPERS:
    _mk(_w)
