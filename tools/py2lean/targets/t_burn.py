"""Programmed-burn solvers: Kenamond 1-3 (2-D and 3-D) and the DSD cylindrical expansion.

Models (group 'burn'); every `_run` is traced for ONE symbolic point after the REAL constructor has run on
symbolic parameters (`mode='init'`), so the constructor's checks are the first decisions of each tree:

  K1d2 K1d3      Kenamond1, geometry 2 / 3; detonator = symbols xd0 xd1 [xd2]
  K2d2 K2d3      Kenamond2, geometry 2 / 3; dets = [a1 a2 a4 a5], t_d = [td1 … td5] (symbolic lists).
                 The code's builtin `max(bt3, bt4)` and four `min(…)` are kept as single `max`/`min`
                 operations (emit.py op 'max'/'min') instead of 2^5 branches
  K3d2 K3d3      Kenamond3, geometry 2 / 3; line-of-sight and shadow leaves
  DSDCyl         CylindricalExpansion (geometry 2 only)
  K1Init2 K1Init3 K3Init2 K3Init3   constructor alone, `geometry` SYMBOLIC, detonator tuple of length 2 / 3
  K2Init  DSDCylInit                constructor alone, `geometry` symbolic

The burn time does not depend on the time argument (`tvar=None`: the call passes t = 0).

The structured parameters (tuples / lists) are flattened into scalar symbols; the correspondence therefore
goes through the thin adapter classes below, which take the flat scalars, rebuild the tuple / list and call
the real public class (`Adapter.__call__` is `ExactSolver.__call__` of the real instance)."""
import numpy as np

from . import target
from ..trace import trace_solver, trace_init, load, vec
from .. import sym
from ..sym import S, E, lift

BURN_K1 = 'exactpack.solvers.kenamond.kenamond1:Kenamond1'
BURN_K2 = 'exactpack.solvers.kenamond.kenamond2:Kenamond2'
BURN_K3 = 'exactpack.solvers.kenamond.kenamond3:Kenamond3'
BURN_DSD = 'exactpack.solvers.dsd.cylexpansion:CylindricalExpansion'
BURN_PV = {2: ('x', 'y'), 3: ('x', 'y', 'z')}


# --------------------------------------------------------------------------
# shims (only for these targets)
# --------------------------------------------------------------------------

def _fold(op, builtin):
    def f(*a, **k):
        if len(a) == 1:
            a = list(a[0])
        if any(isinstance(x, E) for x in a):
            v = lift(a[0])
            for u in a[1:]:
                v = E(op, v, lift(u))
            return v
        return builtin(*a, **k)
    f.__name__ = 'sym_' + op
    return f


#: builtin max/min on symbolic values as ONE operation (Python: max(a, b) keeps a unless b > a)
BURN_MINMAX = {'max': _fold('max', max), 'min': _fold('min', min)}


def _zeros_symdim(shape, dtype=None, **k):
    """`np.zeros((5, self.geometry))` with a SYMBOLIC geometry: the constructor has already decided
    `geometry == 2` / `geometry == 3` on this path (the membership test), so asking again costs no new branch"""
    if isinstance(shape, tuple) and any(isinstance(s, E) and s.op == 'sym' for s in shape):
        dims = []
        for s in shape:
            if isinstance(s, E) and s.op == 'sym':
                for cand in (2, 3):
                    if bool(s == cand):
                        s = cand
                        break
                else:
                    raise sym.TraceError('array dimension is a symbol that is neither 2 nor 3')
            dims.append(s)
        shape = tuple(dims)
    return sym._zeros(shape, dtype, **k)


BURN_INIT_SHIMS = {'np': {'zeros': _zeros_symdim}}


def _symlist(prefix, idx):
    return lambda: [S('%s%d' % (prefix, i)) for i in idx]


# --------------------------------------------------------------------------
# adapters: flat scalar parameters -> the real public class
# --------------------------------------------------------------------------

def _adapter(name, clspath, geometry, scalars, groups, defaults):
    """groups: real parameter name -> (list of flat names, constructor of the real value)"""
    _, real = load(clspath)
    flat = list(scalars)
    for g, (names, _) in groups.items():
        flat += names

    class Adapter(object):
        parameters = {n: 'flat scalar' for n in flat}
        real_class = real

        def __init__(self, **kw):
            vals = dict(defaults)
            vals.update(kw)
            args = {s: vals[s] for s in scalars}
            for g, (names, mk) in groups.items():
                args[g] = mk([vals[n] for n in names])
            if geometry is not None:
                args['geometry'] = geometry
            self.real = real(**args)

        def __call__(self, pts, t):
            return self.real(pts, t)

    for k, v in defaults.items():
        setattr(Adapter, k, v)
    Adapter.__name__ = name
    Adapter.__qualname__ = name
    return Adapter


def _xd(n):
    return ['xd%d' % i for i in range(n)]


K1Flat2 = _adapter('K1Flat2', BURN_K1, 2, ['D', 't_d'], {'x_d': (_xd(2), tuple)}, dict(D=1.0, t_d=0.0, xd0=0.0, xd1=0.0))
K1Flat3 = _adapter('K1Flat3', BURN_K1, 3, ['D', 't_d'], {'x_d': (_xd(3), tuple)},
                   dict(D=1.0, t_d=0.0, xd0=0.0, xd1=0.0, xd2=0.0))
_K2G = {'dets': (['a1', 'a2', 'a4', 'a5'], list), 't_d': (['td1', 'td2', 'td3', 'td4', 'td5'], list)}
_K2D = dict(R=3.0, D1=2.0, D2=1.0, a1=10.0, a2=5.0, a4=-5.0, a5=-10.0, td1=2.0, td2=1.0, td3=0.0, td4=1.0, td5=2.0)
K2Flat2 = _adapter('K2Flat2', BURN_K2, 2, ['R', 'D1', 'D2'], _K2G, _K2D)
K2Flat3 = _adapter('K2Flat3', BURN_K2, 3, ['R', 'D1', 'D2'], _K2G, _K2D)
K3Flat2 = _adapter('K3Flat2', BURN_K3, 2, ['R', 'D', 't_d'], {'x_d': (_xd(2), tuple)},
                   dict(R=3.0, D=2.0, t_d=0.0, xd0=0.0, xd1=5.0))
K3Flat3 = _adapter('K3Flat3', BURN_K3, 3, ['R', 'D', 't_d'], {'x_d': (_xd(3), tuple)},
                   dict(R=3.0, D=2.0, t_d=0.0, xd0=0.0, xd1=5.0, xd2=0.0))
_HERE = 'py2lean.targets.t_burn:'


# --------------------------------------------------------------------------
# documented parameter ranges for the correspondence
# --------------------------------------------------------------------------

def _fix_k2(rng, params, pt, t):
    """Kenamond 2: mostly parameter sets that satisfy the constructor's ordering conditions
    (D1 >= D2, |a_i| > R, t_i >= t_3 + R(1/D1 + 1/D2) - |a_i|/D2), a few that violate one of them"""
    p = dict(params)
    p['R'] = rng.uniform(0.5, 4.0)
    p['D2'] = rng.uniform(0.5, 2.0)
    p['D1'] = p['D2'] * rng.choice([1.0, rng.uniform(1.0, 3.0), rng.uniform(1.0, 3.0)])
    p['td3'] = rng.uniform(-1.0, 1.0)
    signs = rng.choice([(1, 1, -1, -1), (1, -1, 1, -1), (1, 1, 1, 1), (-1, 1, -1, 1)])
    for s, a, td in zip(signs, ('a1', 'a2', 'a4', 'a5'), ('td1', 'td2', 'td4', 'td5')):
        p[a] = s * p['R'] * rng.uniform(1.05, 4.0)
        bound = p['td3'] + p['R'] * (1.0 / p['D1'] + 1.0 / p['D2']) - abs(p[a]) / p['D2']
        p[td] = bound + rng.choice([0.0, rng.uniform(0.0, 0.5), rng.uniform(0.0, 3.0)])
    bad = rng.random()
    if bad < 0.04:
        p['D1'] = 0.9 * p['D2']
    elif bad < 0.08:
        p['a2'] = 0.9 * p['R']
    elif bad < 0.12:
        p['td4'] -= 5.0
    elif bad < 0.14:
        p['R'] = -p['R']
    return p, pt, t


def _fix_k3(rng, params, pt, t):
    """Kenamond 3: detonator outside the obstacle (mostly); half of the points are pushed
    towards the far side of the obstacle so that the shadow leaf is exercised"""
    p = dict(params)
    p['R'] = rng.uniform(0.5, 4.0)
    n = len(pt)
    d = [rng.gauss(0, 1) for _ in range(n)]
    nd = sum(u * u for u in d) ** 0.5
    lod = p['R'] * (rng.uniform(1.05, 3.0) if rng.random() > 0.05 else rng.uniform(0.5, 1.0))
    for i in range(n):
        p['xd%d' % i] = lod * d[i] / nd
    if rng.random() < 0.5:
        # a point roughly opposite the detonator, at radius between R and 4R (sometimes just inside R)
        q = [-d[i] / nd + 0.6 * rng.gauss(0, 1) for i in range(n)]
        nq = sum(u * u for u in q) ** 0.5
        lop = p['R'] * (rng.uniform(1.0, 4.0) if rng.random() > 0.05 else rng.uniform(0.8, 1.0))
        pt = [lop * u / nq for u in q]
    return p, pt, t


def _fix_dsd(rng, params, pt, t):
    """DSD cylinder: documented domain r_1 > alpha_1/D_CJ_1, r_2 > alpha_2/D_CJ_2, r_2 > r_1 (mostly)"""
    p = dict(params)
    p['D_CJ_1'] = rng.uniform(0.3, 2.0)
    p['D_CJ_2'] = rng.uniform(0.3, 2.0)
    p['alpha_1'] = rng.choice([0.0, rng.uniform(0.0, 0.5), rng.uniform(0.0, 0.5)])
    p['alpha_2'] = rng.choice([0.0, rng.uniform(0.0, 0.5), rng.uniform(0.0, 0.5)])
    p['r_1'] = p['alpha_1'] / p['D_CJ_1'] + rng.uniform(0.05, 2.0)
    p['r_2'] = max(p['r_1'], p['alpha_2'] / p['D_CJ_2']) + rng.uniform(0.05, 2.0)
    if rng.random() < 0.06:
        p['r_2'] = 0.9 * p['r_1']
    # radius uniform in [0, 2 r_2]: inside the detonator circle, inner material, outer material
    n = (pt[0] ** 2 + pt[1] ** 2) ** 0.5
    if n > 0:
        r = rng.uniform(0.0, 2.0 * abs(p['r_2']))
        pt = [r * pt[0] / n, r * pt[1] / n]
    return p, pt, t


_BOX = (-6.0, 6.0)


def _corr(cls, fix=None, params=None, box=_BOX):
    d = dict(cls=cls, x=box, y=box, z=box, params=params or {})
    if fix:
        d['fix'] = fix
    return d


# --------------------------------------------------------------------------
# targets
# --------------------------------------------------------------------------

def _mk_run(name, clspath, g, structured, deriv, corr, shims=None):
    @target(name, ['burn'], deriv=deriv, corr=corr)
    def _b():
        return trace_solver(name, clspath, pvars=BURN_PV[g], tvar=None, mode='init', concrete=dict(geometry=g),
                            structured=structured(g), extra_shims=shims)
    return _b


for _g in (2, 3):
    _mk_run('K1d%d' % _g, BURN_K1, _g, lambda g: dict(x_d=lambda: vec('xd', g)), ['burntime'],
            _corr(_HERE + 'K1Flat%d' % _g,
                  params=dict(D=(0.2, 5.0), t_d=(-2.0, 2.0), xd0=(-4.0, 4.0), xd1=(-4.0, 4.0), xd2=(-4.0, 4.0))))
    _mk_run('K2d%d' % _g, BURN_K2, _g,
            lambda g: dict(dets=_symlist('a', (1, 2, 4, 5)), t_d=_symlist('td', (1, 2, 3, 4, 5))), None,
            _corr(_HERE + 'K2Flat%d' % _g, fix=_fix_k2, box=(-14.0, 14.0)), shims=BURN_MINMAX)
    _mk_run('K3d%d' % _g, BURN_K3, _g, lambda g: dict(x_d=lambda: vec('xd', g)), ['burntime'],
            _corr(_HERE + 'K3Flat%d' % _g, fix=_fix_k3, params=dict(D=(0.2, 5.0), t_d=(-2.0, 2.0)), box=(-9.0, 9.0)))

_mk_run('DSDCyl', BURN_DSD, 2, lambda g: {}, ['burntime'], _corr(BURN_DSD, fix=_fix_dsd, params=dict(t_d=(-2.0, 2.0))))


def _mk_init(name, clspath, structured, shims=None):
    # constructor trees have no point: no automatic correspondence (tie: harness/o_burn.py `init_tie`)
    @target(name, ['burn'], deriv=None, corr=None)
    def _b():
        return trace_init(name, clspath, structured=structured, extra_shims=shims)
    return _b


for _g in (2, 3):
    _mk_init('K1Init%d' % _g, BURN_K1, dict(x_d=(lambda g: (lambda: vec('xd', g)))(_g)))
    _mk_init('K3Init%d' % _g, BURN_K3, dict(x_d=(lambda g: (lambda: vec('xd', g)))(_g)))
_mk_init('K2Init', BURN_K2, dict(dets=_symlist('a', (1, 2, 4, 5)), t_d=_symlist('td', (1, 2, 3, 4, 5))), BURN_INIT_SHIMS)
_mk_init('DSDCylInit', BURN_DSD, {})

BURN_RUN_MODELS = ['K1d2', 'K1d3', 'K2d2', 'K2d3', 'K3d2', 'K3d3', 'DSDCyl']
BURN_INIT_MODELS = ['K1Init2', 'K1Init3', 'K2Init', 'K3Init2', 'K3Init3', 'DSDCylInit']
