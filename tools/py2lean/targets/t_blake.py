"""Blake (spherical linear-elastic cavity problem): the fifteen modulus-pair cases of
`set_elastic_params`, the constructor's acceptance tree per pair, and `Blake._run`.

Models (group 'blake'):
  BlakeMod<XY>   set_elastic_params called with exactly the two moduli X, Y symbolic (the class tables of
                 `Blake` as the constructor passes them): six returned moduli, ValueError leaves
  BlakeInit<XY>  the real constructor `Blake(X=…, Y=…, geometry, ref_density, cavity_radius, pressure_scale)`,
                 all of them symbolic: acceptance tree + the six attributes it ends up with
  BlakeInitDefault, BlakeInit1, BlakeInit3   no / one / three moduli given (the count is not a real number, so
                 these are separate traces)
  BlakeFields    `Blake._run(r, t)` as a function of the instance attributes (all symbolic, constructor
                 bypassed: the theorems carry the isotropy identities the constructor establishes — proved for
                 each BlakeMod<XY> — as hypotheses, so they cover every way of building the material)
  BlakeLG        constructor on (lame_mod, shear_mod) followed by `_run`: the composition, tied to the public
                 call by the automatic correspondence
"""
import collections

import numpy as np

from . import target
from ..trace import trace_solver, load, modules_of
from .. import sym
from ..sym import S, Rec, Patched, explore, lift
from ..model import Model

BLAKE = 'exactpack.solvers.blake.blake:Blake'
BLAKE_ELAS_MOD = 'exactpack.solvers.blake.set_check_elastic_params'
BLAKE_MODULI = ('lame_mod', 'shear_mod', 'youngs_mod', 'poisson_ratio', 'bulk_mod', 'long_mod')
_short = dict(lame_mod='L', shear_mod='G', youngs_mod='E', poisson_ratio='Nu', bulk_mod='K', long_mod='M')
# prmcase number -> (first, second) in the order the code sorts them
BLAKE_PAIRS = [(BLAKE_MODULI[i], BLAKE_MODULI[j]) for i in range(6) for j in range(i + 1, 6)]
BLAKE_PAIR_NAME = {pr: _short[pr[0]] + _short[pr[1]] for pr in BLAKE_PAIRS}
BLAKE_PROBLEM = ('geometry', 'ref_density', 'cavity_radius', 'pressure_scale')


def sym_isclose(a, b, rtol=1e-05, atol=1e-08, equal_nan=False):
    """numpy.isclose on symbolic reals: |a - b| <= atol + rtol * |b| (numpy's documented formula)"""
    if sym._is_sym(a) or sym._is_sym(b):
        a, b = lift(a), lift(b)
        return abs(a - b) <= lift(atol) + lift(rtol) * abs(b)
    return np.isclose(a, b, rtol=rtol, atol=atol, equal_nan=equal_nan)


def sym_zeros(shape, dtype=None, **k):
    """`np.zeros(n, dtype=np.float64)`: inside the traced module `np.float64` is the tracer's own
    float shim, which the core `zeros` shim does not recognise as a float dtype"""
    return sym._zeros(shape, None if dtype is sym.sym_float else dtype, **k)


BLAKE_SHIMS = {'np': {'isclose': sym_isclose, 'zeros': sym_zeros}}


def _shims():
    sh = {'max': sym.sym_builtin_max, 'min': sym.sym_builtin_min, 'float': sym.sym_float}
    sh.update(BLAKE_SHIMS)
    return sh


def _explore_blake(run):
    """run `run` under the tracer with the blake modules patched; the class-level
    scratch dictionary `Blake.elas_param_values` is restored afterwards"""
    import warnings
    _, cls = load(BLAKE)
    mods = modules_of(cls, [BLAKE_ELAS_MOD])
    saved = dict(cls.elas_param_values)
    try:
        with warnings.catch_warnings():
            warnings.simplefilter('ignore')
            with Patched(mods, extra=_shims(), recorder=Rec):
                return explore(run)
    finally:
        cls.elas_param_values.clear()
        cls.elas_param_values.update(saved)


def trace_moduli(name, given):
    """set_elastic_params(<Blake's own tables>, defaulted=False, blake_debug=False, **given symbols)"""
    _, cls = load(BLAKE)
    emod, _ = load(BLAKE_ELAS_MOD + ':')

    def run():
        kw = {k: S(k) for k in given}
        res = emod.set_elastic_params(cls.elas_prm_names, cls.elas_prm_dflt_vals, cls.elas_prm_order,
                                      False, False, **kw)
        return collections.OrderedDict((k, res[k]) for k in cls.elas_prm_names)
    leaves = _explore_blake(run)
    return Model(name, leaves, [], None, source=BLAKE_ELAS_MOD + ':set_elastic_params[%s]' % ','.join(given))


def trace_blake_init(name, given, problem=BLAKE_PROBLEM):
    """the real constructor with the moduli `given` and the problem parameters symbolic; blake_debug
    is left at its default (it is not a number)"""
    _, cls = load(BLAKE)

    def run():
        kw = {k: S(k) for k in tuple(given) + tuple(problem)}
        s = cls(**kw)
        return collections.OrderedDict((k, getattr(s, k)) for k in cls.elas_prm_names)
    leaves = _explore_blake(run)
    return Model(name, leaves, [], None, source=BLAKE + '.__init__[%s]' % ','.join(given))


def trace_blake_lg(name):
    """constructor on symbolic (lame_mod, shear_mod) and problem parameters (geometry = 3), then _run"""
    _, cls = load(BLAKE)

    def run():
        kw = {k: S(k) for k in ('lame_mod', 'shear_mod', 'ref_density', 'cavity_radius', 'pressure_scale')}
        kw['geometry'] = 3
        s = cls(**kw)
        return s._run(sym.point(('r',)), S('t'))
    leaves = _explore_blake(run)
    return Model(name, leaves, ['r'], 't', source=BLAKE + '[lame_mod,shear_mod]')


for _pr in BLAKE_PAIRS:
    def _mk(pr):
        @target('BlakeMod' + BLAKE_PAIR_NAME[pr], ['blake', 'blake_moduli'])
        def _m():
            return trace_moduli('BlakeMod' + BLAKE_PAIR_NAME[pr], pr)

        @target('BlakeInit' + BLAKE_PAIR_NAME[pr], ['blake', 'blake_init'])
        def _i():
            return trace_blake_init('BlakeInit' + BLAKE_PAIR_NAME[pr], pr)
    _mk(_pr)


@target('BlakeInitDefault', ['blake', 'blake_init'])
def _init0():
    return trace_blake_init('BlakeInitDefault', ())


@target('BlakeInit1', ['blake', 'blake_init'])
def _init1():
    return trace_blake_init('BlakeInit1', ('shear_mod',))


@target('BlakeInit3', ['blake', 'blake_init'])
def _init3():
    return trace_blake_init('BlakeInit3', ('lame_mod', 'shear_mod', 'bulk_mod'))


BLAKE_FIELD_DERIV = ['displacement', 'strain_rr', 'strain_qq']


@target('BlakeFields', ['blake'], deriv=BLAKE_FIELD_DERIV,
        second=[('displacement', 'r', 'r'), ('displacement', 't', 't')])
def _fields():
    return trace_solver('BlakeFields', BLAKE, mode='new', extra_modules=[BLAKE_ELAS_MOD], extra_shims=BLAKE_SHIMS)


@target('BlakeLG', ['blake'],
        corr=dict(cls=BLAKE, r=(0.02, 1.5), t=(0.0, 3.0e-4),
                  params=dict(geometry=3, lame_mod=(-5.0e9, 60.0e9), shear_mod=(-2.0e9, 60.0e9),
                              ref_density=(-200.0, 9000.0), cavity_radius=(-0.01, 0.3),
                              pressure_scale=(-1.0e5, 5.0e6))))
def _lg():
    return trace_blake_lg('BlakeLG')
