"""C07, work package c07rest: the route pairs that were not yet covered.

(1) black-box Noh with the ideal gas = Noh.  Besides the existing `BBNohIdeal` (`_run` on a bare object) and
    `ResPressureIdeal_res` (the residual alone) of wp c16, this file traces the WHOLE public route of every
    black-box class at its default initial conditions:

      BBRun<Base|Planar|Cylindrical|Spherical>
          the real constructor `W(ideal_gas_eos(gamma))`, then `W._run(r, t)` on the fresh object, so that the
          real `solve_jump_conditions` runs (re-reads `self.initial_conditions`, hands `self.residual_funciton`
          and `self.initial_guess` to `self.solver`).  Only the Newton loop is replaced: `self.solver` is a stub
          whose `solve()` returns the atoms (x0, x1, x2).  Outputs: the five returned fields AND
          `resF0, resF1, resF2` = F(x0, x1, x2) of the very residual object the solver was given, `res_symmetry`
          (the symmetry that object solves for at solve time), `run_symmetry` (the exponent `_run` uses ahead of
          the shock), `guess0..2` (the starting guess handed over).  "The Newton result is a root" is therefore
          a hypothesis about outputs of the same trace: no consistency between `initial_conditions` and the
          attributes rho0/u0/p0 has to be assumed (finding C02.bbnoh.initial_state concerns non-default
          initial conditions).

      BBRunGen<k>   the same for `NohBlackBoxEos(eos, {density 1, velocity -1, pressure 0, symmetry k-1}, geometry=k)`
                    (the general class "with that geometry"): the trace a wrapper is compared with.
      BBRunIC<k>    the same for `NohBlackBoxEos(eos, {rho_0, u_0, 0, symmetry k-1}, geometry=k, rho0=rho_0, u0=u_0)` with
                    rho_0, u_0 SYMBOLIC: the parameter set common to Noh and the black-box class (gamma, geometry, rho0, u0),
                    the incoming state given consistently in both places the class reads it from.

(3) black-box Noh wrappers = NohBlackBoxEos with that symmetry/geometry, constructor level, for SYMBOLIC initial
    conditions (rho_0, u_0, P_0) and a symbolic ideal gas:

      BBInit<Planar|Cylindrical|Spherical>   `W(eos, {density, velocity, pressure})`
      BBInitGen<k>                          `NohBlackBoxEos(eos, {…, symmetry: k-1}, geometry=k)`
      BBInitGeomOnly<k>                     `NohBlackBoxEos(eos, geometry=k)` (default dict): what a user gets who
                                            selects the geometry through the documented parameter only (finding)

    outputs: every attribute `_run` / `solve_jump_conditions` read (symmetry, geometry, rho0, u0, p0,
    initial_conditions[…], the residual object's u_0, rho_0, P_0, symmetry, e_0, the class of the residual object
    as a code, identity of the EOS objects as 0/1, the shared class attributes initial_guess).

(2) Sedov wrappers = Sedov at that geometry with the documented energy:

      SedovW<Planar|Cylindrical|Spherical>Init   the real constructor `W(gamma=gamma)` (every decision a branch)
      SedovG<k>Init                              `Sedov(geometry=k, gamma=gamma, rho0=1.0, omega=0.0, eblast=E_k)`
                                                 with E_k the DOCUMENTED number (sedov/__init__.py docstrings),
                                                 written down here, not read from the wrapper class
          outputs: every attribute the constructor assigns (AST of Sedov.__init__) + the five parameters as
          `_run` resolves them (getattr), strings as codes, `attr_mask` = which attributes exist on that path.
      SedovW<…>Run / SedovG<k>Run               the whole of `_run` (one symbolic point, two-node grid, root finder
                                                 and similarity functions atoms: exactly the set-up of SedovRunStd,
                                                 wp sedov) on the object built by the real constructor along the
                                                 path of gamma = 1.4 (standard solution type).
      SedovWSphericalRunSing/RunVac, SedovG3RunSing/RunVac   the other two solution types (reachable only for the
                                                 spherical wrapper: gamma = 7, gamma > 7).

    Wrapper and general class run the same inherited code; the traces are the same DAG and the Lean proofs are
    by unfolding + `rfl`, so a semantics-preserving edit of sedov.py never breaks them, while any edit that makes
    a wrapper differ from the general class at the documented values does.

C7Table: introspection of the eight classes: names defined in each class body, parents, which class owns
`_run`/`__init__`, declared parameters."""
import ast
import collections
import importlib
import inspect
import textwrap

import numpy as np

from . import target
from ..trace import trace_func, load
from .. import sym
from ..sym import S, E, TraceError
from ..model import HEADER
from . import t_eos as TE
from . import t_sedov as TS

GROUP = 'c07rest'
BBMOD = TE.BBMOD
BB_WRAPPERS = collections.OrderedDict([('Planar', ('PlanarNohBlackBox', 1)), ('Cylindrical', ('CylindricalNohBlackBox', 2)),
                                       ('Spherical', ('SphericalNohBlackBox', 3))])
DEFAULT_IC = {'density': 1, 'velocity': -1, 'pressure': 0}      # blackboxnoh.py, the default of every constructor
RES_CODE = {'energy_noh_residual': 1, 'simplified_energy_noh_residual': 2, 'pressure_noh_residual': 3,
            'simplified_pressure_noh_residual': 4}
C7_MODELS = []          # every generated model of this package
BB_RUN_FIELDS = ['position', 'density', 'pressure', 'specific_internal_energy', 'velocity']
BB_RUN_EXTRA = ['resF0', 'resF1', 'resF2', 'res_symmetry', 'run_symmetry', 'guess0', 'guess1', 'guess2']


def _reg(name):
    C7_MODELS.append(name)
    return name


# --------------------------------------------------------------------------
# black-box Noh
# --------------------------------------------------------------------------
class SolverStub(object):
    """stands in for the Newton solver object: records what it is given, `solve` returns the atoms x0, x1, x2"""

    def __init__(self):
        self.function = None
        self.guess = None
        self.calls = 0

    def set_function(self, f):
        self.function = f

    def set_new_initial_guess(self, g):
        self.guess = g

    def set_new_tolerance(self, e):
        pass

    def solve(self, verbose=True, output_file=None):
        self.calls += 1
        x = np.empty(3, dtype=object)
        x[0], x[1], x[2] = S('x0'), S('x1'), S('x2')
        return {'solution': x}


def _bb_make(kind, k, ic=None, eos=None):
    """kind: 'Base' | wrapper prefix | 'Gen' (general class with symmetry k-1, geometry k) | 'GeomOnly'"""
    eos = eos if eos is not None else TE.make_eos('Ideal')
    if kind == 'Base':
        _, cls = load(BBMOD + ':NohBlackBoxEos')
        return eos, (cls(eos) if ic is None else cls(eos, ic))
    if kind == 'Gen':
        _, cls = load(BBMOD + ':NohBlackBoxEos')
        d = dict(DEFAULT_IC if ic is None else ic)
        d['symmetry'] = k - 1
        return eos, cls(eos, d, geometry=k)
    if kind == 'GeomOnly':
        _, cls = load(BBMOD + ':NohBlackBoxEos')
        return eos, cls(eos, geometry=k)
    if kind == 'IC':
        # the general class used consistently for a non-default incoming state: the same density and velocity in
        # `initial_conditions` and in the declared parameters rho0, u0 (pressure 0: Noh has no initial pressure)
        _, cls = load(BBMOD + ':NohBlackBoxEos')
        rho, u = (S('rho_0'), S('u_0')) if ic is None else (ic['density'], ic['velocity'])
        return eos, cls(eos, {'density': rho, 'velocity': u, 'pressure': 0, 'symmetry': k - 1}, geometry=k, rho0=rho, u0=u)
    if kind == 'SharedIC':
        # one user dictionary handed to two wrapper constructors (planar first, then spherical): the object
        # returned is the PLANAR one.  Every wrapper writes its symmetry into the caller's dictionary and keeps
        # a reference to it; solve_jump_conditions re-reads it at the first call.
        d = dict(DEFAULT_IC if ic is None else ic)
        _, P = load(BBMOD + ':PlanarNohBlackBox')
        _, Sp = load(BBMOD + ':SphericalNohBlackBox')
        first = P(eos, d)
        Sp(eos, d)
        return eos, first
    _, cls = load(BBMOD + ':' + BB_WRAPPERS[kind][0])
    return eos, (cls(eos) if ic is None else cls(eos, ic))


def _bb_run_target(name, kind, k):
    def fn():
        eos, s = _bb_make(kind, k)
        stub = SolverStub()
        s.solver = stub                       # instance attribute shadows the class-level newton_solver()
        res = s._run(sym.point(('r',)), S('t'))
        if stub.calls != 1 or stub.function is None:
            raise TraceError('_run did not go through solve_jump_conditions exactly once')
        x = np.empty(3, dtype=object)
        x[0], x[1], x[2] = S('x0'), S('x1'), S('x2')
        F = stub.function.F(x)
        out = collections.OrderedDict()
        for n, d in zip(res.names, res.data):
            out[n] = d
        out['resF0'], out['resF1'], out['resF2'] = F[0], F[1], F[2]
        out['res_symmetry'] = stub.function.symmetry
        out['run_symmetry'] = s.symmetry
        g = list(stub.guess)
        out['guess0'], out['guess1'], out['guess2'] = g[0], g[1], g[2]
        return out

    @target(_reg(name), [GROUP], deriv=None)
    def _b():
        return trace_func(name, fn, [], None, modules=[BBMOD, TE.RESMOD, TE.EOSMOD], pvars=('r',), tvar='t',
                          source=BBMOD + ': %s, constructor + _run through solve_jump_conditions (Newton loop = atoms)'
                          % {'Base': 'NohBlackBoxEos(eos)', 'Gen': 'NohBlackBoxEos(eos, {1,-1,0, symmetry %d}, geometry=%d)' % (k - 1, k),
                             'GeomOnly': 'NohBlackBoxEos(eos, geometry=%d)' % k,
                             'IC': 'NohBlackBoxEos(eos, {rho_0, u_0, 0, symmetry %d}, geometry=%d, rho0=rho_0, u0=u_0)' % (k - 1, k),
                             'SharedIC': 'd = {1,-1,0}; a = PlanarNohBlackBox(eos, d); SphericalNohBlackBox(eos, d); a'}
                          .get(kind, BB_WRAPPERS.get(kind, ('',))[0] + '(eos)'))
    return _b


_bb_run_target('BBRunBase', 'Base', 3)
for _g, (_c, _k) in BB_WRAPPERS.items():
    _bb_run_target('BBRun' + _g, _g, _k)
    _bb_run_target('BBRunGen%d' % _k, 'Gen', _k)

# the parameters common to Noh and the black-box class (gamma, geometry, rho0, u0), all symbolic
for _k in (1, 2, 3):
    _bb_run_target('BBRunIC%d' % _k, 'IC', _k)

# findings: the documented parameter `geometry` alone does not select the geometry; a shared user dictionary
_bb_run_target('BBRunGeomOnly1', 'GeomOnly', 1)
_bb_run_target('BBRunGeomOnly2', 'GeomOnly', 2)
_bb_run_target('BBRunSharedIC', 'SharedIC', 1)

BB_INIT_OUTS = ['symmetry', 'geometry', 'rho0', 'u0', 'p0', 'ic_density', 'ic_velocity', 'ic_pressure', 'ic_symmetry',
                'res_u_0', 'res_rho_0', 'res_P_0', 'res_symmetry', 'res_e_0', 'res_class', 'res_eos_is_eos', 'eos_is_eos',
                'guess0', 'guess1', 'guess2', 'tolerance', 'max_iterations', 'solved']


def _bb_attrs(eos, s):
    ic, r = s.initial_conditions, s.residual_funciton
    g = list(s.initial_guess)
    return (s.symmetry, s.geometry, s.rho0, s.u0, s.p0, ic['density'], ic['velocity'], ic['pressure'], ic['symmetry'],
            r.u_0, r.rho_0, r.P_0, r.symmetry, r.e_0, RES_CODE[type(r).__name__], int(r.equation_of_state is eos),
            int(s.eos is eos), g[0], g[1], g[2], s.solver_tolerance, s.solver_max_iterations,
            int(not (s.shock_speed is None and s.shocked_density is None and s.shocked_pressure is None)))


def _bb_init_target(name, kind, k, symbolic_ic=True):
    def fn():
        ic = {'density': S('rho_0'), 'velocity': S('u_0'), 'pressure': S('P_0')} if symbolic_ic else None
        eos, s = _bb_make(kind, k, ic)
        return _bb_attrs(eos, s)

    @target(_reg(name), [GROUP], deriv=None)
    def _b():
        return trace_func(name, fn, [], BB_INIT_OUTS, modules=[BBMOD, TE.RESMOD, TE.EOSMOD],
                          source=BBMOD + ': constructor (%s, k = %d), attributes read by _run / solve_jump_conditions' % (kind, k))
    return _b


for _g, (_c, _k) in BB_WRAPPERS.items():
    _bb_init_target('BBInit' + _g, _g, _k)
    _bb_init_target('BBInitGen%d' % _k, 'Gen', _k)
    _bb_init_target('BBInitGeomOnly%d' % _k, 'GeomOnly', _k, symbolic_ic=False)


# --------------------------------------------------------------------------
# Sedov wrappers
# --------------------------------------------------------------------------
SEDOV_PKG = 'exactpack.solvers.sedov'
# documented: sedov/__init__.py module docstring ("for k = 2, 1 we take E0 = 0.311357, 0.0673185", "E0 = 0.851072" for
# k = 3, gamma = 7/5) and Sedov's documented defaults rho0 = 1.0, omega = 0.0
SEDOV_WRAPPERS = collections.OrderedDict([
    ('Planar', dict(cls='PlanarSedov', geometry=1, eblast=0.0673185)),
    ('Cylindrical', dict(cls='CylindricalSedov', geometry=2, eblast=0.311357)),
    ('Spherical', dict(cls='SphericalSedov', geometry=3, eblast=0.851072)),
])
SEDOV_DOC = dict(rho0=1.0, omega=0.0, gamma=1.4)
SOLUTION_TYPE = {'singular': 1, 'standard': 2, 'vacuum': 3}
SPECIAL = {'none': 0, 'omega2': 2, 'omega3': 3}


def _init_assigned():
    """names X of every `self.X = …` in Sedov.__init__ (source order, from the AST)"""
    M = importlib.import_module(TS.SEDOV_MOD)
    tree = ast.parse(textwrap.dedent(inspect.getsource(M.Sedov.__init__)))
    out = []
    for node in ast.walk(tree):
        if isinstance(node, (ast.Assign, ast.AugAssign)):
            tg = node.targets if isinstance(node, ast.Assign) else [node.target]
            for t in tg:
                if isinstance(t, ast.Attribute) and isinstance(t.value, ast.Name) and t.value.id == 'self' and t.attr not in out:
                    out.append(t.attr)
    return sorted(out)


SEDOV_ASSIGNED = _init_assigned()
SEDOV_ATTR_OUTS = list(TS.SEDOV_PARAMS) + SEDOV_ASSIGNED + ['attr_mask', 'n_instance_attrs']


def _sedov_make(kind, w, gamma):
    M = importlib.import_module(TS.SEDOV_MOD)
    if kind == 'W':
        return getattr(importlib.import_module(SEDOV_PKG), w['cls'])(gamma=gamma)
    return M.Sedov(geometry=w['geometry'], gamma=gamma, rho0=SEDOV_DOC['rho0'], omega=SEDOV_DOC['omega'], eblast=w['eblast'])


def _sedov_attrs(s):
    out = collections.OrderedDict()
    for k in TS.SEDOV_PARAMS:
        out[k] = getattr(s, k)                     # as `_run` resolves them (instance, then class body, then Sedov's body)
    mask = 0
    for i, k in enumerate(SEDOV_ASSIGNED):
        if k in vars(s):
            mask |= 1 << i
            v = vars(s)[k]
            if k == 'solution_type':
                v = SOLUTION_TYPE[v]
            elif k == 'special_singularity':
                v = SPECIAL[v]
            out[k] = v
        else:
            out[k] = 0
    out['attr_mask'] = mask
    # instance attributes that are neither a parameter nor assigned by Sedov.__init__ would be invisible above
    out['n_instance_attrs'] = len([k for k in vars(s) if k not in SEDOV_ASSIGNED and k not in TS.SEDOV_PARAMS
                                   and k not in ('verbose',)])
    return out


def _sedov_init_target(name, kind, w):
    def fn():
        return _sedov_attrs(_sedov_make(kind, w, S('gamma')))

    @target(_reg(name), [GROUP], deriv=None)
    def _b():
        return trace_func(name, fn, [], None, modules=[TS.SEDOV_MOD], extra_shims=TS.SEDOV_SHIMS,
                          source=('%s:%s(gamma)' % (SEDOV_PKG, w['cls']) if kind == 'W' else
                                  '%s:Sedov(geometry=%d, gamma, rho0=1.0, omega=0.0, eblast=%r)' % (TS.SEDOV_MOD, w['geometry'], w['eblast']))
                          + ' .__init__: attributes')
    return _b


# reference gamma selecting each constructor path of the spherical problem with omega = 0:
# v2 = 4/(5(gamma+1)), v* = 2/(3(gamma-1)+2): standard for gamma < 7, singular for |v2 - v*| <= 1e-4 (|gamma - 7| < 0.04;
# exactly 7 divides by zero in floating point: finding C20 'Sedov exact singular'), vacuum beyond
SEDOV_RUN_WITNESS = {'Std': ('standard', 1.4), 'Sing': ('singular', 7.01), 'Vac': ('vacuum', 9.0)}


def _sedov_witness_object(kind, w, which):
    """the real constructor on symbolic gamma along the path of the reference gamma; alpha -> symbol (as wp sedov)"""
    stype, g = SEDOV_RUN_WITNESS[which]
    saved = sym.CTX
    sym.CTX = TS._Witness(dict(gamma=g, eval1_quad=1.0, eval2_quad=1.0))
    try:
        s = _sedov_make(kind, w, S('gamma'))
    finally:
        sym.CTX = saved
    if s.solution_type != stype:
        raise TraceError('reference gamma = %r selects solution type %s, not %s' % (g, s.solution_type, stype))
    s.alpha = S('alpha')
    return s


def _sedov_run_target(name, kind, w, which):
    opt = TS._Opt()

    def fn():
        s = _sedov_witness_object(kind, w, which)
        opt.n = 0

        def funcs(v):
            k = v.a[0].split('_')[1] if isinstance(v, E) and v.op == 'sym' and v.a[0].startswith('v_') else 'vv'
            return tuple(S('%s_%s' % (n, k)) for n in ('l', 'dl', 'f', 'g', 'h'))
        s.sedov_funcs_standard = funcs
        return s._run(sym.point(('r',)), S('t'), npts=2)

    @target(_reg(name), [GROUP], deriv=None)
    def _b():
        return trace_func(name, fn, [], None, modules=[TS.SEDOV_MOD], pvars=('r',), tvar='t',
                          extra_shims=dict(TS.SEDOV_SHIMS, sci_opt=opt, interp1d=TS._interp1d,
                                           np=dict(linspace=TS._linspace, append=TS._append)),
                          source='%s._run [%s, solution_type=%s, npts=2, one point]'
                          % (w['cls'] if kind == 'W' else 'Sedov(geometry=%d, documented values)' % w['geometry'],
                             kind, SEDOV_RUN_WITNESS[which][0]))
    return _b


for _g, _w in SEDOV_WRAPPERS.items():
    _sedov_init_target('SedovW%sInit' % _g, 'W', _w)
    _sedov_init_target('SedovG%dInit' % _w['geometry'], 'G', _w)
    _sedov_run_target('SedovW%sRun' % _g, 'W', _w, 'Std')
    _sedov_run_target('SedovG%dRun' % _w['geometry'], 'G', _w, 'Std')
for _which in ('Sing', 'Vac'):
    _sedov_run_target('SedovWSphericalRun' + _which, 'W', SEDOV_WRAPPERS['Spherical'], _which)
    _sedov_run_target('SedovG3Run' + _which, 'G', SEDOV_WRAPPERS['Spherical'], _which)


# --------------------------------------------------------------------------
# class table of the eight classes (introspection)
# --------------------------------------------------------------------------
C7_CLASSES = [(TS.SEDOV_MOD, 'Sedov'), (SEDOV_PKG, 'PlanarSedov'), (SEDOV_PKG, 'CylindricalSedov'), (SEDOV_PKG, 'SphericalSedov'),
              (BBMOD, 'NohBlackBoxEos'), (BBMOD, 'PlanarNohBlackBox'), (BBMOD, 'CylindricalNohBlackBox'),
              (BBMOD, 'SphericalNohBlackBox')]


def _owner(cls, name):
    for k in cls.__mro__:
        if name in k.__dict__:
            return k.__name__
    return ''


DICT_MUTATORS = ('update', 'pop', 'popitem', 'setdefault', 'clear', '__setitem__', '__delitem__')


def _dict_writes(modname):
    """every store into a subscript (`X[...] = v`, `X[...] op= v`, `del X[...]`) and every call of a dict-mutating method in
    the module source: (qualified function, target as written, value as written)"""
    mod = importlib.import_module(modname)
    tree = ast.parse(inspect.getsource(mod))
    stores, calls = [], []

    def walk(node, qual):
        for ch in ast.iter_child_nodes(node):
            q = qual
            if isinstance(ch, (ast.ClassDef, ast.FunctionDef)):
                q = (qual + '.' if qual else '') + ch.name
            if isinstance(ch, (ast.Assign, ast.AugAssign, ast.AnnAssign)):
                tgs = ch.targets if isinstance(ch, ast.Assign) else [ch.target]
                for t in tgs:
                    for u in ast.walk(t):
                        if isinstance(u, ast.Subscript) and isinstance(u.ctx, ast.Store):
                            stores.append((qual, ast.unparse(u), ast.unparse(ch.value) if ch.value is not None else ''))
            if isinstance(ch, ast.Delete):
                for t in ch.targets:
                    if isinstance(t, ast.Subscript):
                        stores.append((qual, 'del ' + ast.unparse(t), ''))
            if isinstance(ch, ast.Call) and isinstance(ch.func, ast.Attribute) and ch.func.attr in DICT_MUTATORS:
                calls.append((qual, ast.unparse(ch)))
            walk(ch, q)
    walk(tree, '')
    return stores, calls


class C7TableModel(object):
    """what each class body defines, and where `_run` / `__init__` / `__call__` come from; for the black-box Noh module
    additionally every place where a dictionary (or any subscripted object) is written, and whether the default
    `initial_conditions` dictionaries of the four constructors are four distinct objects"""

    def __init__(self, name='C7Table'):
        from exactpack.base import ExactSolver
        self.name = name
        self.rows = []
        self.bb_stores, self.bb_calls = _dict_writes(BBMOD)
        res_stores, self.res_calls = _dict_writes(TE.RESMOD)
        # in the residual module only the preallocated result arrays may be written
        self.res_store_bases = sorted(set(t.split('[')[0] for _, t, _ in res_stores))
        bbm = importlib.import_module(BBMOD)
        defaults = [inspect.signature(getattr(bbm, c).__init__).parameters['initial_conditions'].default
                    for c in ('NohBlackBoxEos', 'PlanarNohBlackBox', 'CylindricalNohBlackBox', 'SphericalNohBlackBox')]
        self.distinct_defaults = len(set(id(d) for d in defaults)) == 4 and all(isinstance(d, dict) for d in defaults)
        self.base_default = sorted('%s=%r' % kv for kv in defaults[0].items())
        for mod, cn in C7_CLASSES:
            c = getattr(importlib.import_module(mod), cn)
            body = sorted(k for k in c.__dict__ if not (k.startswith('__') and k.endswith('__')) or k == '__init__')
            self.rows.append(dict(
                name=cn, module=c.__module__, body=body, declared=sorted(c.parameters),
                parents=[k.__name__ for k in c.__mro__[1:] if issubclass(k, ExactSolver) and k is not ExactSolver],
                run_owner=_owner(c, '_run'), init_owner=_owner(c, '__init__'), call_owner=_owner(c, '__call__'),
                same_parameters_object=bool(len(c.__mro__) > 1 and c.parameters is getattr(c.__mro__[1], 'parameters', None))))

    def real_file(self):
        def lst(xs):
            return '[' + ', '.join('"%s"' % x for x in xs) + ']'
        o = [HEADER, '', 'namespace EPV.Gen.C7Table', '',
             '/-- one class of work package c07rest, by introspection: `body` = the names its own class body defines -/',
             'structure Cls where', '  name : String', '  module : String', '  body : List String', '  declared : List String',
             '  parents : List String', '  runOwner : String', '  initOwner : String', '  callOwner : String',
             '  sameParametersObject : Bool', '  deriving Repr, DecidableEq', '', 'def classes : List Cls := [']
        o.append(',\n'.join(
            '  { name := "%s", module := "%s", body := %s, declared := %s, parents := %s, runOwner := "%s", initOwner := "%s", '
            'callOwner := "%s", sameParametersObject := %s }'
            % (r['name'], r['module'], lst(r['body']), lst(r['declared']), lst(r['parents']), r['run_owner'], r['init_owner'],
               r['call_owner'], 'true' if r['same_parameters_object'] else 'false') for r in self.rows))
        o += [']', '']

        def q(x):
            return '"%s"' % x.replace('\\', '\\\\').replace('"', '\\"')
        o += ['/-- every subscript store in blackboxnoh.py: (function, target, value) as written -/',
              'def bbSubscriptStores : List (String × String × String) := [%s]'
              % ', '.join('(%s, %s, %s)' % (q(a), q(b), q(c)) for a, b, c in self.bb_stores), '',
              '/-- every call of a dict-mutating method (update, pop, setdefault, clear, …) in blackboxnoh.py / residual_functions.py -/',
              'def bbDictMutatingCalls : List (String × String) := [%s]'
              % ', '.join('(%s, %s)' % (q(a), q(b)) for a, b in self.bb_calls + self.res_calls), '',
              '/-- the objects written through a subscript anywhere in residual_functions.py -/',
              'def resSubscriptStoreBases : List String := [%s]' % ', '.join(q(x) for x in self.res_store_bases), '',
              '/-- the default `initial_conditions` of NohBlackBoxEos / Planar… / Cylindrical… / Spherical….__init__ are four distinct dict objects -/',
              'def distinctDefaultDicts : Bool := %s' % ('true' if self.distinct_defaults else 'false'), '',
              "/-- the default dictionary of NohBlackBoxEos.__init__ as found when the table was generated -/",
              'def baseDefaultDict : List String := [%s]' % ', '.join(q(x) for x in self.base_default), '']
        o += ['end EPV.Gen.C7Table', '']
        return '\n'.join(o)

    def describe(self):
        return {'name': self.name, 'source': 'introspection of the Sedov and black-box Noh classes', 'params': [], 'pvars': [],
                'tvar': None, 'fields': [], 'conds': {}, 'leaves': [], 'consts': {}, 'rows': self.rows,
                'bb_stores': self.bb_stores, 'bb_calls': self.bb_calls + self.res_calls, 'res_store_bases': self.res_store_bases,
                'distinct_defaults': self.distinct_defaults, 'base_default': self.base_default}


@target(_reg('C7Table'), [GROUP], deriv=None, floats=False)
def _table():
    return C7TableModel()
