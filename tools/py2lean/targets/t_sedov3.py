"""Sedov blast wave, work package sedov3: the limits of the two energy quadratures.

  SedovQuad   the real constructor `Sedov.__init__` on five symbolic parameters (the same trace as
              SedovInit / SedovConsts: acceptance tree, solution type, special singularity) with the
              ARGUMENTS of the two calls `sci_int.quad(self.efun01|efun02, a, b, epsabs=1e-12)` recorded:
              outputs (q1_lo, q1_hi, q2_lo, q2_hi, ncalls).  `quad` itself stays the atom of SedovInit
              (it returns the symbols eval1_quad / eval2_quad); on the singular solution type it is not
              called (ncalls = 0, limits reported as 0).

The energy theorem `EPV.C11.sedov_energy_code` assumes "quad returns the integral of the traced
integrand BETWEEN THE CODE'S LIMITS"; `EPV.C11.quad_limits` (Props/C11/SedovEnergyCode.lean) proves
from this model that those limits are (v0, v2) on the standard and (vv, v2) on the vacuum type —
so a change of `vmin` or of the quad call breaks a theorem instead of escaping."""
from . import target
from ..trace import trace_func
from ..sym import S
from .t_sedov import SEDOV_MOD, SEDOV_PARAMS, _mod

SEDOV_QUAD_OUTS = ['q1_lo', 'q1_hi', 'q2_lo', 'q2_hi', 'ncalls']


class _QuadRec(object):
    """stands in for `scipy.integrate` inside sedov.py: records the limits on the solver object"""

    @staticmethod
    def quad(f, a, b, **kw):
        s = f.__self__
        n = {'efun01': 1, 'efun02': 2}[f.__name__]
        setattr(s, '_q%d' % n, (a, b))
        s._ncalls = getattr(s, '_ncalls', 0) + 1
        return (S('eval%d_quad' % n), 0.0)


@target('SedovQuad', ['sedov'], floats=True)
def _quad():
    def run():
        s = _mod().Sedov(**{k: S(k) for k in SEDOV_PARAMS})
        q1 = getattr(s, '_q1', (0, 0))
        q2 = getattr(s, '_q2', (0, 0))
        return (q1[0], q1[1], q2[0], q2[1], getattr(s, '_ncalls', 0))
    return trace_func('SedovQuad', run, [], list(SEDOV_QUAD_OUTS), modules=[SEDOV_MOD],
                      extra_shims={'sci_int': _QuadRec},
                      source=SEDOV_MOD + ':Sedov.__init__ [arguments of the two sci_int.quad calls]')
