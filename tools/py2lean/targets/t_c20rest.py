"""C20, work package `c20rest`: the constructors that had no `accepts <-> Documented` theorem yet.

Init models (group 'c20rest'; `__init__` alone on symbolic parameters, the acceptance tree):

  InitRateStick       exactpack.solvers.dsd.ratestick:RateStick           all ten parameters symbolic
  InitExplosiveArc    exactpack.solvers.dsd.explosivearc:ExplosiveArc     all eleven parameters symbolic
  InitSuOlson         exactpack.solvers.suolson.suolson:SuOlson
  InitHutchens1 / InitHutchens2 / InitRectangle / InitCylSandwich   exactpack.solvers.heat.*
  InitMaderT          exactpack.solvers.mader.timmes:Mader                (no __init__ of its own)
  InitRiemIGEOS / InitRiemGenEOS   exactpack.solvers.riemann.ep_riemann   (`problem` concrete 'igeos')
  InitRiem2D          exactpack.solvers.riemann2D_2section_steadystate.ep_…:IGEOS_Solver  (states = symbolic 5-vectors)
  InitBBNoh           exactpack.solvers.nohblackboxeos.blackboxnoh:NohBlackBoxEos with the library's ideal-gas EOS
                      (gamma = 1.4 concrete: `ideal_gas_eos.__init__` asserts gamma != 1, which is the EOS object's
                      business, not the solver's); keywords geometry, u0, rho0 and the four entries of
                      `initial_conditions` symbolic — the checks live in `pressure_noh_residual.__init__` and in the
                      class's own `__init__`.  `u0` and `rho0` do not appear in the generated structure `P`: no traced
                      condition reads them.

Function models:

  RiemDriverClass     `RiemannIGEOS.driver` up to the construction of the grid: the classification into SCS / SCR /
                      RCS / RCR / vacuum, the star state through the real `eval(...)` dispatch.  `bisect` is the atom
                      `px`; the trace is stopped at the first `min(...)` of the driver (riemann.py:163, the grid line) by
                      a sentinel exception `GridReached`, so a leaf is either `raise GridReached` (classification and
                      star state went through) or the exception the real code raises before the grid exists (vacuum:
                      NameError from `eval("R,C,V,C,R(px,…)")`).

The radiative-shock wrappers run their ODE integrations inside `__init__`; they are covered by the catalogue oracle
only (harness/o_c20rest.py)."""
import contextlib
import os

import numpy as np

from . import target
from ..trace import trace_init, trace_func, load, vec
from ..sym import S

G = ['c20rest']

SIMPLE = {
    'InitRateStick': ('exactpack.solvers.dsd.ratestick:RateStick', {}),
    'InitExplosiveArc': ('exactpack.solvers.dsd.explosivearc:ExplosiveArc', {}),
    'InitSuOlson': ('exactpack.solvers.suolson.suolson:SuOlson', {}),
    'InitHutchens1': ('exactpack.solvers.heat.hutchens1:Hutchens1', {}),
    'InitHutchens2': ('exactpack.solvers.heat.hutchens2:Hutchens2', {}),
    'InitRectangle': ('exactpack.solvers.heat.rectangle:Rectangle', dict(NonHomogeneousOnly=False)),
    'InitCylSandwich': ('exactpack.solvers.heat.cylindrical_sandwich:CylindricalSandwich', dict(NonHomogeneousOnly=False)),
    'InitMaderT': ('exactpack.solvers.mader.timmes:Mader', {}),
    'InitRiemIGEOS': ('exactpack.solvers.riemann.ep_riemann:IGEOS_Solver', dict(problem='igeos')),
    'InitRiemGenEOS': ('exactpack.solvers.riemann.ep_riemann:GenEOS_Solver', dict(problem='igeos')),
}
# class path of every Init model of this package (used by the tie in harness/o_c20rest.py)
REST_INIT = {k: v[0] for k, v in SIMPLE.items()}
REST_CONCRETE = {k: v[1] for k, v in SIMPLE.items()}

for _name, (_cls, _conc) in SIMPLE.items():
    def _mk(name, cls, conc):
        @target(name, G, deriv=None)
        def _b():
            with open(os.devnull, 'w') as null, contextlib.redirect_stdout(null):
                return trace_init(name, cls, concrete=conc)
    _mk(_name, _cls, _conc)

R2D = 'exactpack.solvers.riemann2D_2section_steadystate.ep_riemann2D_2section_steadystate:IGEOS_Solver'
REST_INIT['InitRiem2D'] = R2D


@target('InitRiem2D', G, deriv=None)
def _r2d():
    return trace_init('InitRiem2D', R2D,
                      structured=dict(bottom_state=lambda: list(vec('b', 5)), top_state=lambda: list(vec('t', 5))))


# ---- black-box Noh -----------------------------------------------------------------------------------------------
BB = 'exactpack.solvers.nohblackboxeos.blackboxnoh'
BBRES = 'exactpack.solvers.nohblackboxeos.solution_tools.residual_functions'
BBEOS = 'exactpack.solvers.nohblackboxeos.equations_of_state.eos_library'
REST_INIT['InitBBNoh'] = BB + ':NohBlackBoxEos'


@target('InitBBNoh', G, deriv=None)
def _bbnoh():
    def run():
        _, cls = load(BB + ':NohBlackBoxEos')
        _, eos = load(BBEOS + ':ideal_gas_eos')
        ic = {'density': S('ic_density'), 'velocity': S('ic_velocity'), 'pressure': S('ic_pressure'),
              'symmetry': S('ic_symmetry')}
        cls(eos(1.4), ic, geometry=S('geometry'), u0=S('u0'), rho0=S('rho0'))
        return {'accepted': 1}
    return trace_func('InitBBNoh', run, [], None, modules=[BB, BBRES, BBEOS],
                      source=BB + ':NohBlackBoxEos.__init__ (ideal_gas_eos)')


# the three geometry wrappers (they take no keyword at all: positional EOS + a 3-entry dictionary; `symmetry` is set by the class)
BB_WRAPPERS = {'InitBBNohPlanar': 'PlanarNohBlackBox', 'InitBBNohCyl': 'CylindricalNohBlackBox', 'InitBBNohSph': 'SphericalNohBlackBox'}
# the four residual classes of solution_tools/residual_functions.py: constructor alone, initial conditions symbolic
BB_RESIDUALS = {'InitResEnergy': 'energy_noh_residual', 'InitResSEnergy': 'simplified_energy_noh_residual',
                'InitResPressure': 'pressure_noh_residual', 'InitResSPressure': 'simplified_pressure_noh_residual'}


def _bb_wrapper(name, clsname):
    @target(name, G, deriv=None)
    def _b():
        def run():
            _, cls = load(BB + ':' + clsname)
            _, eos = load(BBEOS + ':ideal_gas_eos')
            cls(eos(1.4), {'density': S('ic_density'), 'velocity': S('ic_velocity'), 'pressure': S('ic_pressure')})
            return {'accepted': 1}
        return trace_func(name, run, [], None, modules=[BB, BBRES, BBEOS], source=BB + ':%s.__init__ (ideal_gas_eos)' % clsname)
    return _b


def _bb_residual(name, clsname):
    @target(name, G, deriv=None)
    def _b():
        def run():
            _, cls = load(BBRES + ':' + clsname)
            _, eos = load(BBEOS + ':ideal_gas_eos')
            cls({'density': S('ic_density'), 'velocity': S('ic_velocity'), 'pressure': S('ic_pressure'),
                 'symmetry': S('ic_symmetry')}, eos(1.4))
            return {'accepted': 1}
        return trace_func(name, run, [], None, modules=[BBRES, BBEOS], source=BBRES + ':%s.__init__ (ideal_gas_eos)' % clsname)
    return _b


for _n, _c in BB_WRAPPERS.items():
    _bb_wrapper(_n, _c)
for _n, _c in BB_RESIDUALS.items():
    _bb_residual(_n, _c)


# ---- 1-D Riemann, ideal gas: the driver up to the grid ---------------------------------------------------------------
RM = 'exactpack.solvers.riemann.riemann'
UT = 'exactpack.solvers.riemann.utils'
RSTATE = ('pl', 'rl', 'ul', 'gl', 'pr', 'rr', 'ur', 'gr')


class GridReached(Exception):
    """sentinel: the traced driver arrived at the line that builds the grid (riemann.py:163)"""


def _stop(*a, **k):
    raise GridReached('classification and star state done')


@target('RiemDriverClass', G, deriv=None, floats=True)
def _riem_driver():
    def run():
        _, cls = load(RM + ':RiemannIGEOS')
        s = cls(xmin=S('xmin'), xd0=S('xd0'), xmax=S('xmax'), t=S('tt'), **{k: S(k) for k in RSTATE})
        with open(os.devnull, 'w') as null, contextlib.redirect_stdout(null):
            s.driver(0)
        return {'accepted': 1}
    return trace_func('RiemDriverClass', run, [], None, modules=[RM, UT],
                      extra_shims=dict(bisect=lambda f, a, b, **k: S('px'), min=_stop),
                      source=RM + ':RiemannIGEOS.driver (to the grid line; bisect atom px)')


# ---- enumerated string flags: the constructor with a value outside the documented options ----------------------------
# 'problem': "Default is 'igeos'; 'JWL' is currently an option."  (both 1-D Riemann wrappers)
REST_FLAGS = {'InitRiemIGEOSBogus': ('exactpack.solvers.riemann.ep_riemann:IGEOS_Solver', dict(problem='bogus')),
              'InitRiemGenEOSBogus': ('exactpack.solvers.riemann.ep_riemann:GenEOS_Solver', dict(problem='bogus'))}
for _name, (_cls, _conc) in REST_FLAGS.items():
    def _mkf(name, cls, conc):
        @target(name, G, deriv=None)
        def _b():
            return trace_init(name, cls, concrete=conc)
    _mkf(_name, _cls, _conc)


# ---- Kenamond 2 with lists of the wrong length (work package `burn` traced the right lengths: K2Init) ----------------
def _k2_wrong(name, ndets, ntd):
    from .t_burn import BURN_K2, BURN_INIT_SHIMS

    @target(name, G, deriv=None)
    def _b():
        return trace_init(name, BURN_K2, structured=dict(dets=lambda: list(vec('a', ndets)), t_d=lambda: list(vec('td', ntd))),
                          extra_shims=BURN_INIT_SHIMS)
    return _b


_k2_wrong('K2InitDets3', 3, 5)
_k2_wrong('K2InitDets5', 5, 5)
_k2_wrong('K2InitTd4', 4, 4)
_k2_wrong('K2InitTd6', 4, 6)

REST_MODELS = sorted(REST_INIT) + sorted(REST_FLAGS) + sorted(BB_WRAPPERS) + sorted(BB_RESIDUALS) + [
    'RiemDriverClass', 'K2InitDets3', 'K2InitDets5', 'K2InitTd4', 'K2InitTd6']
