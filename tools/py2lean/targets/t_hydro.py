"""Coggeshall family, Noh, Noh2: closed forms whose constructor only validates."""
from . import target
from ..trace import trace_solver, trace_init, trace_func
from ..trace import trace_solver, trace_init, trace_func

# --------------------------------------------------------------------------
# Coggeshall family, Noh, Noh2: closed forms, constructor only validates
# --------------------------------------------------------------------------
COG = [1, 2, 3, 4, 5, 6, 7, 8, 9, 10, 11, 12, 13, 14, 16, 17, 18, 19, 20, 21]
GEOM = [1, 2, 3]
COG_PARAMS = {
    1: dict(geometry=GEOM), 2: dict(geometry=GEOM), 3: dict(geometry=GEOM), 4: dict(geometry=GEOM),
    6: dict(geometry=GEOM), 7: dict(geometry=GEOM), 8: dict(geometry=GEOM), 9: dict(geometry=GEOM),
    10: dict(geometry=[2, 3]), 11: dict(geometry=GEOM, Gamma=(20.0, 60.0)), 12: dict(geometry=[2, 3]),
    13: dict(geometry=GEOM),
    14: dict(geometry=GEOM), 16: dict(geometry=[2, 3]), 17: dict(geometry=GEOM), 18: dict(geometry=GEOM),
    19: dict(geometry=GEOM, u0=(-4.0, -0.3)), 20: dict(geometry=GEOM), 21: {},
}


def heat_flux(fields, D):
    """derived quantities for the conduction term of the documented energy equation:
    aT4 = a T^4 and F = -(c lam0 rho^alpha T^beta / 3) d(aT4)/dr, with the radiation
    constants and the mean-free-path law as free symbols (`c_light`, `a_rad`,
    `lam0_`, `alpha_`, `beta_`); theorems instantiate them with the solver's own."""
    import collections
    from ..sym import S, E
    rho, T = fields['density'], fields['temperature']
    out = collections.OrderedDict()
    aT4 = S('a_rad') * T ** 4
    out['aT4'] = aT4
    out['heat_flux'] = -(S('c_light') * S('lam0_') * rho ** S('alpha_') * T ** S('beta_') / 3) * D(aT4, 'r')
    return out


THERMO = ['density', 'velocity', 'temperature', 'pressure', 'specific_internal_energy']

for _n in COG:
    def _mk(n):
        @target('Cog%d' % n, ['cog', 'hydro'], deriv=['density', 'velocity', 'temperature', 'pressure',
                                                       'specific_internal_energy'],
                corr=dict(cls='exactpack.solvers.cog.cog%d:Cog%d' % (n, n), r=(0.2, 3.0), t=(0.05, 0.6),
                          params=COG_PARAMS.get(n)))
        def _b():
            return trace_solver('Cog%d' % n, 'exactpack.solvers.cog.cog%d:Cog%d' % (n, n), derived=heat_flux)
    _mk(_n)


@target('Noh', ['noh', 'hydro'], deriv=['density', 'velocity', 'pressure', 'specific_internal_energy'],
        corr=dict(cls='exactpack.solvers.noh.noh1:Noh', r=(0.01, 2.0), t=(0.05, 2.0),
                  params=dict(geometry=GEOM, gamma=(1.1, 3.0), u0=(-3.0, -0.2), rho0=(0.2, 5.0))))
def _noh():
    return trace_solver('Noh', 'exactpack.solvers.noh.noh1:Noh')


@target('Noh2', ['noh2', 'hydro'], deriv=['density', 'velocity', 'pressure', 'specific_internal_energy'],
        corr=dict(cls='exactpack.solvers.noh2.noh2:Noh2', r=(0.01, 2.0), t=(0.0, 1.1),
                  params=dict(geometry=GEOM, gamma=(1.1, 3.0), e0=(0.2, 3.0), rho0=(0.2, 5.0))))
def _noh2():
    return trace_solver('Noh2', 'exactpack.solvers.noh2.noh2:Noh2')


@target('Noh2Cog', ['noh2', 'hydro'], deriv=['density', 'velocity', 'pressure', 'specific_internal_energy', 'temperature'],
        corr=dict(cls='exactpack.solvers.noh2.noh2_cog:Noh2Cog', r=(0.01, 2.0), t=(0.0, 1.1),
                  params=dict(geometry=GEOM, gamma=(1.1, 3.0), e0=(0.2, 3.0), rho0=(0.2, 5.0))))
def _noh2cog():
    # the constructor derives temp0 from e0; geometry is validated there, so it
    # is traced once per admissible value of the membership test
    return trace_solver('Noh2Cog', 'exactpack.solvers.noh2.noh2_cog:Noh2Cog', mode='init')
