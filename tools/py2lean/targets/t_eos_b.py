"""Black-box Noh, OBJECT STATE (C16, second package): the EOS objects are mutable through documented setters and the
residual / Newton-solver objects are re-used.  The models of t_eos.py describe FRESH objects only (every method is
traced on an object the real constructor has just built).  Here the objects are traced as state machines over
their ATTRIBUTE DICTIONARY:

  EosB<Cls>_init              constructor constants -> attribute dictionary
  EosB<Cls>_<setter>          attribute dictionary (every attribute an independent symbol a_<name>) x new value
                              -> attribute dictionary after the call      (one model per documented setter)
  EosB<Cls>_at_<method>       the six interface methods read from an arbitrary attribute dictionary
  EosB<Cls>_calls             every public non-setter method called once: the attribute dictionary afterwards
                              (methods must not mutate / lazily create attributes)
  ResB<Res>_init / _<setter>  the same for the two residual classes that have setters, over an abstract EOS whose
                              closure e(rho, P) is an uninterpreted function (the residuals cache e_0 = eos.e(rho_0, P_0))
  NewtonB_init / _<setter>[_used]   newton_solver's numeric attributes (tolerance, residual, error, max_iterations,
                              guess); every setter on BOTH shapes of a reachable state (fresh: function / guess /
                              x_old ... still None; used: all of them hold objects), because `is None` tests on
                              attributes cannot be decided by a symbolic number
  NewtonB_solve2[_used]       newton_solver.solve itself, two updates allowed, 1-D unknown, F and F_prime_inv
                              uninterpreted functions, the STORED convergence state (residual, error) symbolic: whether
                              solve() depends on what an earlier operation left there is read off the model (it must
                              not: Props/C16/SettersNewton.lean, solve2_ignores_stored_state)
  BBNohB_solve_twice          the calls NohBlackBoxEos.solve_jump_conditions makes on its residual and solver
                              objects, two consecutive calls on one instance (effect log)

Classes and setters are found by introspection (every `set_*` method), so a new setter gets a model (and the
coverage tie of harness/o_c16b.py reports it until a theorem covers it).  The attribute set is whatever the real
constructor creates: a cached derived attribute appears as a new output field of all of these models."""
import importlib
import inspect

import numpy as np

from . import target
from . import t_eos as TE
from ..trace import trace_func, load
from ..sym import S, E, TraceError, lift
from .. import sym

EOSMOD, RESMOD, BBMOD = TE.EOSMOD, TE.RESMOD, TE.BBMOD
NEWTONMOD = 'exactpack.solvers.nohblackboxeos.solution_tools.newton_solvers'

SHORT_OF = {v[0]: k for k, v in TE.EOS_CLASSES.items()}
SHORT_OF['aluminum_eos'] = 'Aluminium'


# --------------------------------------------------------------------------
# introspection (shared with harness/o_c16b.py)
# --------------------------------------------------------------------------

def short_of(clsname):
    return SHORT_OF.get(clsname) or ''.join(w.capitalize() for w in clsname.split('_'))


def concrete_eos_classes():
    """class name -> class: every EOS class shipped in eos_library that can be instantiated -- defined there,
    derived from `equation_of_state`, with a constructor somewhere in its own hierarchy (the two abstract bases
    `equation_of_state` and `generic_mie_gruneisen` have none)"""
    mod = importlib.import_module(EOSMOD)
    out = {}
    for n, k in vars(mod).items():
        if inspect.isclass(k) and issubclass(k, mod.equation_of_state) and k.__module__ == mod.__name__ \
                and any('__init__' in vars(b) for b in k.__mro__ if b.__module__ == mod.__name__):
            out[n] = k
    return out


def residual_classes():
    mod = importlib.import_module(RESMOD)
    return {n: k for n, k in vars(mod).items()
            if inspect.isclass(k) and issubclass(k, mod.newton_solver_residual_function)
            and k is not mod.newton_solver_residual_function and k.__module__ == mod.__name__}


def setters_of(cls):
    """the documented setters: every method whose name begins with `set_`"""
    return sorted(n for n, f in inspect.getmembers(cls, inspect.isfunction) if n.startswith('set_'))


def ctor_consts(cls):
    """names of the constructor's parameters (without self)"""
    return [p.name for p in list(inspect.signature(cls.__init__).parameters.values())[1:]
            if p.kind in (p.POSITIONAL_ONLY, p.POSITIONAL_OR_KEYWORD)]


def public_methods(cls):
    """[(name, [required positional argument names])] of every public method that is not a setter"""
    out = []
    for n, f in inspect.getmembers(cls, inspect.isfunction):
        if n.startswith('_') or n.startswith('set_'):
            continue
        ps = [p for p in list(inspect.signature(f).parameters.values())[1:]
              if p.kind in (p.POSITIONAL_ONLY, p.POSITIONAL_OR_KEYWORD) and p.default is p.empty]
        out.append((n, [p.name for p in ps]))
    return out


def _numeric(v):
    return isinstance(v, (E, int, float, np.integer, np.floating)) and not isinstance(v, bool)


def attr_dict(obj, extra=None, skip=(), numeric_only=False):
    """the attribute dictionary of an object as named outputs: numbers / symbolic values under their name, sequences of
    numbers as name_0, name_1, ..., None and strings under their name (recorded, not numeric); attributes holding other
    objects (function objects, scratch arrays of the residual classes, lists of strings) are not part of the numeric state"""
    out = {}
    for a in sorted(vars(obj)):
        v = vars(obj)[a]
        if a in skip:
            continue
        if _numeric(v) or ((v is None or isinstance(v, str)) and not numeric_only):
            out[a] = v
        elif isinstance(v, (list, tuple)) and v and all(_numeric(x) for x in v):
            for i, x in enumerate(v):
                out['%s_%d' % (a, i)] = x
        elif isinstance(v, np.ndarray) and v.dtype == object and v.ndim == 1 and all(_numeric(x) for x in v):
            for i, x in enumerate(v):
                out['%s_%d' % (a, i)] = x
    if extra:
        out.update(extra)
    return out


def symbolise(obj, prefix='a_'):
    """replace every numeric attribute by an independent symbol a_<name>; returns the symbol names"""
    names = []
    for a in sorted(vars(obj)):
        if _numeric(vars(obj)[a]):
            setattr(obj, a, S(prefix + a))
            names.append(prefix + a)
    return names


def _with_params(m, extra, funs=None):
    """all state symbols are parameters of the model whether or not the traced code reads them (so the hand-written
    Lean glue is stable under edits that do not change the attribute set)"""
    m.params = sorted(set(m.params) | set(extra) | set(funs or ()))
    if funs:
        m.fun_params = dict(funs)
    return m


# --------------------------------------------------------------------------
# EOS classes with setters
# --------------------------------------------------------------------------
SETTER_MODELS = {}     # model name -> dict(kind=..., cls=class name, ...)   (read by the ties)
DISCOVERY_ERROR = None


def _sym_eos(cls):
    """an object the real constructor built (so it has whatever attributes the constructor creates) whose numeric
    attributes are then independent symbols"""
    obj = cls(*[S(c) for c in ctor_consts(cls)])
    names = symbolise(obj)
    return obj, names


def _state_names(cls):
    """a_<attr> for every numeric attribute the constructor creates (evaluated on default-like concrete constants)"""
    obj = cls(*[1.5 + 0.25 * i for i, _ in enumerate(ctor_consts(cls))])
    return ['a_' + a for a in sorted(vars(obj)) if _numeric(vars(obj)[a])]


def _eos_state_targets(clsname):
    short = short_of(clsname)
    path = EOSMOD + ':' + clsname

    def cls_():
        return load(path)[1]

    name = 'EosB%s_init' % short
    SETTER_MODELS[name] = dict(kind='eos_init', cls=clsname)

    @target(name, ['eos'], deriv=None)
    def _init(name=name):
        cls = cls_()
        consts = ctor_consts(cls)
        m = trace_func(name, lambda: attr_dict(cls(*[S(c) for c in consts])), [], None, modules=[EOSMOD],
                       source='%s.%s.__init__: attribute dictionary' % (EOSMOD, clsname))
        return _with_params(m, consts)

    for st in setters_of(load(path)[1]):
        name = 'EosB%s_%s' % (short, st)
        SETTER_MODELS[name] = dict(kind='eos_setter', cls=clsname, setter=st)

        @target(name, ['eos'], deriv=None)
        def _set(name=name, st=st):
            cls = cls_()

            def fn():
                obj, _ = _sym_eos(cls)
                getattr(obj, st)(S('new'))
                return attr_dict(obj)
            m = trace_func(name, fn, [], None, modules=[EOSMOD],
                           source='%s.%s.%s(new) on an arbitrary attribute dictionary' % (EOSMOD, clsname, st))
            return _with_params(m, _state_names(cls) + ['new'])

    for meth in TE.E_METHODS + TE.P_METHODS:
        name = 'EosB%s_at_%s' % (short, meth)
        argn = ['rho', 'pres'] if meth in TE.E_METHODS else ['rho', 'sie']
        SETTER_MODELS[name] = dict(kind='eos_at', cls=clsname, method=meth, args=argn)

        @target(name, ['eos'], deriv=None)
        def _at(name=name, meth=meth, argn=argn):
            cls = cls_()

            def fn():
                obj, _ = _sym_eos(cls)
                return getattr(obj, meth)(*[S(a) for a in argn])
            m = trace_func(name, fn, [], [TE.FIELD.get(meth, meth)], modules=[EOSMOD], pvars=tuple(argn),
                           source='%s.%s.%s(%s) on an arbitrary attribute dictionary' % (EOSMOD, clsname, meth, ', '.join(argn)))
            return _with_params(m, _state_names(cls))

    name = 'EosB%s_calls' % short
    SETTER_MODELS[name] = dict(kind='eos_calls', cls=clsname)

    @target(name, ['eos'], deriv=None, floats=False)
    def _calls(name=name):
        cls = cls_()

        def fn():
            obj, _ = _sym_eos(cls)
            for meth, argn in public_methods(cls):
                try:
                    getattr(obj, meth)(*[S('x%d' % i) for i in range(len(argn))])
                except TraceError:
                    raise
                except Exception:
                    pass            # a guard of the method (rho = 0, eta = 1, ...): the object is still there
            return attr_dict(obj)
        m = trace_func(name, fn, [], None, modules=[EOSMOD], pvars=('x0', 'x1'),
                       source='%s.%s: attribute dictionary after calling every public non-setter method once' % (EOSMOD, clsname))
        return _with_params(m, _state_names(cls))


try:
    for _n, _k in sorted(concrete_eos_classes().items()):
        if setters_of(_k):
            _eos_state_targets(_n)
except Exception as _ex:          # a library that cannot be imported breaks the eos models, not the whole framework
    DISCOVERY_ERROR = '%s: %s' % (type(_ex).__name__, _ex)


# --------------------------------------------------------------------------
# residual classes with setters (energy_noh_residual, pressure_noh_residual)
# --------------------------------------------------------------------------

class FunEos(object):
    """an EOS object about which nothing is known: its closure e(rho, P) is the uninterpreted function `<name>`;
    the other methods are not needed by the constructor / the setters (they only have to exist)"""

    def __init__(self, name, tag):
        self.name, self.tag = name, tag

    def e(self, rho, P):
        return E('app', self.name, lift(rho), lift(P))

    def _no(self, *a):
        raise TraceError('EOS method called by a residual constructor/setter')
    de_drho = de_dP = P = dP_drho = dP_de = _no


RES_SHORT = {'energy_noh_residual': 'Energy', 'pressure_noh_residual': 'Pressure',
             'simplified_energy_noh_residual': 'SEnergy', 'simplified_pressure_noh_residual': 'SPressure'}


def _res_attrs(obj):
    # `result`, `DF`, `DF_inv` are scratch buffers: F / F_prime / F_prime_inv overwrite them before reading them
    return attr_dict(obj, extra={'eos_tag': obj.equation_of_state.tag}, skip=('result', 'DF', 'DF_inv'))


def _res_state_targets(clsname):
    short = RES_SHORT.get(clsname) or ''.join(w.capitalize() for w in clsname.split('_'))
    path = RESMOD + ':' + clsname
    state = ['a_P_0', 'a_e_0', 'a_rho_0', 'a_symmetry', 'a_u_0']

    def build():
        cls = load(path)[1]
        return cls({'velocity': S('u_0'), 'density': S('rho_0'), 'pressure': S('P_0'), 'symmetry': S('symmetry')},
                   FunEos('eosE', 0))

    name = 'ResB%s_init' % short
    SETTER_MODELS[name] = dict(kind='res_init', cls=clsname)

    @target(name, ['eos'], deriv=None, floats=False)
    def _init(name=name):
        m = trace_func(name, lambda: _res_attrs(build()), [], None, modules=[RESMOD],
                       source='%s.%s.__init__ over an abstract EOS: attribute dictionary' % (RESMOD, clsname))
        return _with_params(m, ['P_0', 'rho_0', 'symmetry', 'u_0'], {'eosE': 2})

    def sym_obj():
        # any state the object can be in: the constructor ran on *some* admissible input (not traced: `assume`d
        # away by building with concrete numbers), then every numeric attribute is an independent symbol
        cls = load(path)[1]
        obj = cls({'velocity': -1.0, 'density': 1.0, 'pressure': 0.0, 'symmetry': 0}, FunEos('eosE', 0))
        symbolise(obj)
        return obj

    for st in setters_of(load(path)[1]):
        name = 'ResB%s_%s' % (short, st)
        SETTER_MODELS[name] = dict(kind='res_setter', cls=clsname, setter=st)

        @target(name, ['eos'], deriv=None, floats=False)
        def _set(name=name, st=st):
            def fn():
                obj = sym_obj()
                if st == 'set_new_initial_conditions':
                    obj.set_new_initial_conditions({'velocity': S('n_u_0'), 'density': S('n_rho_0'), 'pressure': S('n_P_0'),
                                                    'symmetry': S('n_symmetry')})
                elif st == 'set_new_equation_of_state':
                    obj.set_new_equation_of_state(FunEos('eosEnew', 1))
                else:
                    getattr(obj, st)(S('new'))
                return _res_attrs(obj)
            m = trace_func(name, fn, [], None, modules=[RESMOD],
                           source='%s.%s.%s on an arbitrary attribute dictionary, abstract EOS' % (RESMOD, clsname, st))
            extra = {'set_new_initial_conditions': ['n_P_0', 'n_rho_0', 'n_symmetry', 'n_u_0'],
                     'set_new_equation_of_state': []}.get(st, ['new'])
            return _with_params(m, state + extra, {'eosE': 2, 'eosEnew': 2})


try:
    for _n, _k in sorted(residual_classes().items()):
        if setters_of(_k):
            _res_state_targets(_n)
except Exception as _ex:
    DISCOVERY_ERROR = (DISCOVERY_ERROR or '') + ' %s: %s' % (type(_ex).__name__, _ex)


# --------------------------------------------------------------------------
# newton_solver: constructor, setters, and solve() on a symbolic convergence state
# --------------------------------------------------------------------------

class _StubFunction(object):
    """what set_function checks for"""

    def F(self, x):
        raise TraceError('F called by a setter')

    def F_prime_inv(self, x):
        raise TraceError('F_prime_inv called by a setter')


NEWTON_STATE = ['a_error', 'a_max_iterations', 'a_residual', 'a_tolerance']
NEWTON_USED = ['a_g0', 'a_g1', 'a_g2'] + ['a_%s_%d' % (n, i) for n in ('x_old', 'x_new', 'F_x') for i in range(3)]
# what each setter of newton_solver is called with in the trace (default: one symbol `new`)
_NEWTON_ARG = {
    'set_function': lambda: _StubFunction(),
    'set_new_initial_guess': lambda: [S('g0'), S('g1'), S('g2')],
    'set_external_log_function': lambda: (lambda message: None),
}
_NEWTON_EXTRA = {'set_function': [], 'set_new_initial_guess': ['g0', 'g1', 'g2'], 'set_external_log_function': []}
_NEWTON_SCRATCH = ('x_old', 'x_new', 'F_x')      # written by solve() before it reads them


def _sym_vec(prefix, n=3):
    a = np.empty(n, dtype=object)
    for i in range(n):
        a[i] = S('%s_%d' % (prefix, i))
    return a


def _newton_object(cls, shape):
    """a newton_solver in one of the two SHAPES a reachable state can have -- which attributes are still None decides
    `is None` / `== None` tests that a symbolic number cannot decide:
      'fresh': as the constructor leaves it (function, initial_guess, x_old, x_new, F_x are None);
      'used' : after set_function / set_new_initial_guess / solve (all of them hold objects);
    in both every number is an independent symbol"""
    obj = cls()
    if shape == 'used':
        obj.function = _StubFunction()
        obj.initial_guess = [S('a_g0'), S('a_g1'), S('a_g2')]
        for nm in _NEWTON_SCRATCH:
            setattr(obj, nm, _sym_vec('a_' + nm))
    symbolise(obj)
    return obj


def _newton_targets():
    path = NEWTONMOD + ':newton_solver'
    name = 'NewtonB_init'
    SETTER_MODELS[name] = dict(kind='newton_init')

    @target(name, ['eos'], deriv=None, floats=False)
    def _init(name=name):
        cls = load(path)[1]
        return trace_func(name, lambda: attr_dict(cls(), numeric_only=True), [], None, modules=[NEWTONMOD],
                          source=NEWTONMOD + '.newton_solver.__init__: attribute dictionary')

    for st in setters_of(load(path)[1]):
        for shape in ('fresh', 'used'):
            name = 'NewtonB_%s%s' % (st, '' if shape == 'fresh' else '_used')
            SETTER_MODELS[name] = dict(kind='newton_setter', setter=st, shape=shape)

            @target(name, ['eos'], deriv=None, floats=False)
            def _set(name=name, st=st, shape=shape):
                cls = load(path)[1]

                def fn():
                    obj = _newton_object(cls, shape)
                    getattr(obj, st)(_NEWTON_ARG.get(st, lambda: S('new'))())
                    return attr_dict(obj, numeric_only=True, skip=_NEWTON_SCRATCH)
                m = trace_func(name, fn, [], None, modules=[NEWTONMOD],
                               source='%s.newton_solver.%s on an arbitrary attribute dictionary (%s shape)' % (NEWTONMOD, st, shape))
                return _with_params(m, NEWTON_STATE + (NEWTON_USED if shape == 'used' else []) + _NEWTON_EXTRA.get(st, ['new']))


class _FunResidual(object):
    """a 1-D residual function object: F and F_prime_inv are the uninterpreted functions `F`, `Finv`"""

    def F(self, x):
        a = np.empty(1, dtype=object)
        a[0] = E('app', 'F', lift(np.asarray(x, dtype=object).reshape(-1)[0]))
        return a

    def F_prime_inv(self, x):
        a = np.empty((1, 1), dtype=object)
        a[0, 0] = E('app', 'Finv', lift(np.asarray(x, dtype=object).reshape(-1)[0]))
        return a


def _solve2_target(name, shape):
    SETTER_MODELS[name] = dict(kind='newton_solve', shape=shape)

    @target(name, ['eos'], deriv=None, floats=False)
    def _solve2():
        """solve() with max_iterations = 2 on a solver whose stored convergence state (residual, error), tolerance and
        guess are symbols -- i.e. in whatever state earlier operations left it; 'used' shape: x_old, x_new, F_x hold
        (symbolic) vectors from an earlier solve instead of None"""
        cls = load(NEWTONMOD + ':newton_solver')[1]

        def fn():
            s = cls()
            s.set_function(_FunResidual())
            s.set_new_initial_guess([S('g')])
            s.residual, s.error, s.tolerance = S('a_residual'), S('a_error'), S('a_tolerance')
            if shape == 'used':
                for nm in _NEWTON_SCRATCH:
                    setattr(s, nm, _sym_vec('a_' + nm, 1))
            s.set_new_max_iteration(2)
            out = s.solve(verbose=False)
            return {'solution': out['solution'], 'number_of_iterations': out['number_of_iterations'],
                    'residual_achieved': out['residual_achieved'], 'error_achieved': out['error_achieved']}
        m = trace_func(name, fn, [], None, modules=[NEWTONMOD],
                       source=NEWTONMOD + '.newton_solver.solve, max_iterations = 2, symbolic convergence state (%s shape), '
                                          'abstract 1-D function' % shape)
        return _with_params(m, ['a_error', 'a_residual', 'a_tolerance', 'g']
                            + (['a_%s_0' % n for n in _NEWTON_SCRATCH] if shape == 'used' else []), {'F': 1, 'Finv': 1})


try:
    _newton_targets()
    _solve2_target('NewtonB_solve2', 'fresh')
    _solve2_target('NewtonB_solve2_used', 'used')
except Exception as _ex:
    DISCOVERY_ERROR = (DISCOVERY_ERROR or '') + ' %s: %s' % (type(_ex).__name__, _ex)


# --------------------------------------------------------------------------
# NohBlackBoxEos.solve_jump_conditions: which calls it makes, two consecutive calls on one instance
# --------------------------------------------------------------------------
BB_CALLS = {'set_new_initial_conditions': 1, 'set_function': 2, 'set_new_initial_guess': 3, 'solve': 4,
            'set_new_tolerance': 5, 'set_new_max_iteration': 6}


class _Logging(object):
    """stands in for the residual object and for the solver object: records every method call"""

    def __init__(self, log, who):
        self._log, self._who = log, who

    def __getattr__(self, name):
        if name.startswith('_'):
            raise AttributeError(name)

        def call(*a, **k):
            self._log.append((self._who, name, a))
            if name == 'solve':
                n = sum(1 for e in self._log if e[1] == 'solve')
                return {'solution': [S('x%d_%d' % (n, i)) for i in range(3)], 'number_of_iterations': 1}
            return None
        return call


@target('BBNohB_solve_twice', ['eos'], deriv=None, floats=False)
def _bb_twice():
    def fn():
        _, cls = load(BBMOD + ':NohBlackBoxEos')
        eos = load(EOSMOD + ':ideal_gas_eos')[1](5. / 3.)
        s = cls(eos, initial_conditions={'density': 1.0, 'velocity': -1.0, 'pressure': 0.0, 'symmetry': 2})
        log = []
        res, sol = _Logging(log, 1), _Logging(log, 2)
        s.residual_funciton, s.solver = res, sol
        guess = [S('g0'), S('g1'), S('g2')]
        s.set_new_solver_initial_guess(guess)
        s.solve_jump_conditions()
        mark = len(log)
        s.solve_jump_conditions()
        out = {'calls_first': mark, 'calls_second': len(log) - mark}
        for k in range(8):
            who, name, a = log[k] if k < len(log) else (0, None, ())
            out['who_%d' % k] = who
            out['call_%d' % k] = BB_CALLS.get(name, 0 if name is None else 99)
            # the argument handed over: 1 = the instance's residual object / guess / initial conditions, 0 = none, 9 = other
            arg = a[0] if a else None
            out['arg_%d' % k] = (0 if arg is None else 1 if (arg is res or arg is guess or arg is s.initial_conditions) else 9)
        out['shock_speed'] = s.shock_speed
        out['shocked_density'] = s.shocked_density
        out['shocked_energy'] = s.shocked_energy
        return out
    return trace_func('BBNohB_solve_twice', fn, [], None, modules=[BBMOD, EOSMOD],
                      source=BBMOD + ':NohBlackBoxEos.solve_jump_conditions, called twice on one instance (effect log)')


SETTER_MODELS['BBNohB_solve_twice'] = dict(kind='bb_effects')
