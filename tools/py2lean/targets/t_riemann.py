"""1-D Riemann solvers: the pure helper functions of exactpack/solvers/riemann/utils.py,
traced by direct call on symbolic arguments, and the constructor of the problem class.

`inst` is a small stub object whose attributes are symbols (pl, rl, ul, gl, pr, rr, ur, gr,
A, B, R1, R2, r0) and whose `problem` string is concrete ('igeos' for the ideal-gas models,
'JWL' for the JWL models).  The attributes the real constructor / driver derive (`al`,
`ul_tilde`) are computed inside the trace by the same expressions the code uses, through
the traced `sound_speed` (see `_inst`).

Naming: a generic one-sided state is (pk, rk, uk, gk) ("known" state ahead of the wave),
the star pressure is `px` (an ATOM: theorems carry `X_call px = 0` as a hypothesis), the
second generic state of the general-EOS helpers is (pz, rz).  The names `p`, `r`, `t` are
avoided for parameters because the generated binders are `(p : P) (x t : ℝ)`.

RIEM_FUNCS lists, for every function model, how to call the *real* function with floats
(used by the tie in harness/o_riemann.py: Float twin vs real call on the same inputs)."""
from . import target
from ..trace import trace_func, trace_init
from ..sym import S

UT = 'exactpack.solvers.riemann.utils'
RM = 'exactpack.solvers.riemann.riemann'

STATE = ('pl', 'rl', 'ul', 'gl', 'pr', 'rr', 'ur', 'gr')
JWLC = ('A', 'B', 'R1', 'R2', 'r0')


class Inst(object):
    """stub for the `inst`/`self` argument of the helper functions"""


def _utils():
    import importlib
    return importlib.import_module(UT)


def make_inst(problem, val):
    """val(name) -> value of attribute `name`; derived attributes as the code derives them:
    riemann.py:83 `self.al = sound_speed(pl, rl, gl, self)`, riemann.py:109
    `self.ul_tilde = ul + 2. * al / (gl - 1.)`."""
    U = _utils()
    i = Inst()
    for k in STATE + JWLC:
        setattr(i, k, val(k))
    i.problem = problem
    i.al = U.sound_speed(i.pl, i.rl, i.gl, i)
    i.ar = U.sound_speed(i.pr, i.rr, i.gr, i)
    i.ul_tilde = i.ul + 2. * i.al / (i.gl - 1.)
    return i


def _inst(problem='igeos'):
    return make_inst(problem, S)


# name -> dict(fn=utils function name, problem, args=[symbol names | 'inst' | ('list', [...])], outs, pvars, tvar)
RIEM_FUNCS = {}


def _reg(name, fn, args, outs, problem='igeos', pvars=(), tvar=None, deriv=None, wrap=None):
    RIEM_FUNCS[name] = dict(fn=fn, args=list(args), outs=list(outs), problem=problem, pvars=list(pvars), tvar=tvar)

    @target(name, ['riemann'], deriv=deriv)
    def _b():
        U = _utils()

        def call():
            inst = _inst(problem)
            a = []
            for x in args:
                if x == 'inst':
                    a.append(inst)
                elif isinstance(x, tuple) and x[0] == 'list':
                    a.append([S(y) for y in x[1]])
                elif isinstance(x, tuple) and x[0] == 'arr':
                    # a one-element array, as match_shocks passes the star values
                    import numpy as np
                    v = np.empty(1, dtype=object)
                    v[0] = S(x[1], arr=True)
                    a.append(v)
                elif isinstance(x, (int, float)):
                    a.append(x)
                else:
                    a.append(S(x))
            return getattr(U, fn)(*a)
        return trace_func(name, lambda: call(), [], outs, modules=[UT], pvars=pvars, tvar=tvar,
                          source='%s:%s [problem=%s]' % (UT, fn, problem))
    return _b


K = ['pk', 'rk', 'uk', 'gk']

# ---- ideal gas ------------------------------------------------------------------------------
_reg('RiemSound', 'sound_speed', ['pk', 'rk', 'gk', 'inst'], ['a'])
_reg('RiemSie', 'sie', ['pk', 'rk', 'gk', 'inst'], ['e'])
_reg('RiemShock', 'shock', ['px'] + K + ['inst'], ['du'], pvars=('px',), deriv=[])
_reg('RiemRare', 'rarefaction', ['px'] + K + ['inst'], ['du'], pvars=('px',), deriv=[])
_reg('RiemRhoShock', 'rho_star_shock', ['px', 'pk', 'rk', 'gk', 'inst'], ['rho'])
_reg('RiemRhoRare', 'rho_star_rarefaction', ['px', 'pk', 'rk', 'gk', 'inst'], ['rho'], pvars=('px',), deriv=[])
_reg('RiemShockVel', 'shock_velocity', ['px'] + K + ['inst'], ['V'])
_reg('RiemFan', 'rho_p_u_rarefaction', ['pk', 'rk', 'uk', 'gk', 'x', 'xd0', 't', 'inst'],
     ['density', 'pressure', 'velocity'], pvars=('x',), tvar='t', deriv=[])
for _n in ('SCN', 'NCS', 'NCR', 'RCN', 'RCVR'):
    _reg('RiemU' + _n, 'u_' + _n, ['px', 'inst'], ['u'])
for _n in ('SCS', 'SCR', 'RCS', 'RCR'):
    # monotonicity in px is proved from the certificates of `shock` and `rarefaction` (EPV.Lemmas.RiemannMono)
    _reg('Riem' + _n, _n + '_call', ['px', 'inst'], ['res'], pvars=('px',))

# ---- general-EOS helpers on ideal-gas data and on JWL data ----------------------------------
for _sfx, _pb in (('IG', 'igeos'), ('JWL', 'JWL')):
    _reg('RiemShockJump' + _sfx, 'shock_jump', ['pk', 'rk', 'gk', 'pz', 'rz', 'inst'], ['res'], problem=_pb)
    _reg('RiemShockSpeed' + _sfx, 'shock_speed', ['pz', 'rz', 'pk', 'rk', 'uk', 'inst'], ['V'], problem=_pb)
    # star_velocity is only ever called from match_shocks, with *arrays* of star values (pz, rz);
    # then shock_speed's `len(shape(array(pa))) == len(shape(array(pb)))` guard is false and its
    # inner side detection is skipped (a scalar call would compare the literal 0 with inst.ul).
    _reg('RiemStarVel' + _sfx, 'star_velocity', ['pk', 'rk', 'uk', ('arr', 'pz'), ('arr', 'rz'), 'inst'], ['u'],
         problem=_pb)
    _reg('RiemOde' + _sfx, 'drdp_dudp', ['pz', ('list', ['rz', 'uz']), 'gk', 'ws', 'inst'], ['drdp', 'dudp'], problem=_pb)

# ---- JWL closure functions ------------------------------------------------------------------
_reg('RiemJwlFun', 'JWL_f', ['rho', 'gk', 'inst'], ['f'], problem='JWL', pvars=('rho',), deriv=[])
_reg('RiemJwlDfun', 'JWL_dfdr', ['rho', 'gk', 'inst'], ['df'], problem='JWL', pvars=('rho',))
_reg('RiemSieJWL', 'sie', ['pk', 'rho', 'gk', 'inst'], ['e'], problem='JWL', pvars=('pk', 'rho'), deriv=[])
_reg('RiemSoundJWL', 'sound_speed', ['pk', 'rho', 'gk', 'inst'], ['a'], problem='JWL')
_reg('RiemDsdrJWL', 'dsdr_cP', ['pk', 'rho', 'gk', 'inst'], ['d'], problem='JWL')
_reg('RiemDsdpJWL', 'dsdp_cR', ['pk', 'rho', 'gk', 'inst'], ['d'], problem='JWL')
_reg('RiemDsdrIG', 'dsdr_cP', ['pk', 'rho', 'gk', 'inst'], ['d'])
_reg('RiemDsdpIG', 'dsdp_cR', ['pk', 'rho', 'gk', 'inst'], ['d'])


# ---- the constructor of the problem class: al, ar, el, er, pmax -------------------------------
@target('RiemSetup', ['riemann'])
def _setup():
    import importlib
    R = importlib.import_module(RM)

    def run():
        s = R.RiemannIGEOS(**{k: S(k) for k in STATE})
        return (s.al, s.ar, s.el, s.er, s.pmax)
    return trace_func('RiemSetup', run, [], ['al', 'ar', 'el', 'er', 'pmax'], modules=[UT, RM],
                      source=RM + ':SetupRiemannProblem.__init__')


RIEM_MODELS = sorted(RIEM_FUNCS) + ['RiemSetup']
