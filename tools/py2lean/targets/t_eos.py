"""Black-box Noh: the EOS library, the four residual classes, the solution assembly.

Function models (trace_func): every method of every EOS class on a symbolic state with
symbolic EOS constants, the residual classes' F / F_prime / F_prime_inv / determinant
over (a) an *abstract* EOS whose methods return free symbols (the value of that method at
the state it was called with, argument order checked) and (b) the concrete ideal gas,
and `NohBlackBoxEos._run` with the Newton result as free symbols.

Naming: the state arguments are the point variables `rho`, `pres` (pressure) and `sie`
(specific internal energy); the returned pressure is the field `Pfun` (the generated
parameter structure is called `P`)."""
import numpy as np

from . import target
from ..trace import trace_func, load
from ..sym import S, E, TraceError

EOSMOD = 'exactpack.solvers.nohblackboxeos.equations_of_state.eos_library'
RESMOD = 'exactpack.solvers.nohblackboxeos.solution_tools.residual_functions'
BBMOD = 'exactpack.solvers.nohblackboxeos.blackboxnoh'

# class name -> (constructor keywords in order, documented defaults, sampling ranges for the ties)
EOS_CLASSES = {
    'Ideal': ('ideal_gas_eos', ['gamma']),
    'Stiff': ('stiffened_gas_eos', ['gamma', 'c_s', 'rho_inf']),
    'NobleAbel': ('noble_abel_eos', ['gamma', 'b']),
    'CS': ('carnahan_starling_eos', ['gamma', 'b']),
    'Stein': ('steinberg', ['reference_density', 'reference_pressure', 'reference_gruneisen', 'b', 'c_0',
                            's_1', 's_2', 's_3']),
}
E_METHODS = ['e', 'de_drho', 'de_dP']            # called as m(rho, P)
P_METHODS = ['P', 'dP_drho', 'dP_de']            # called as m(rho, e)
FIELD = {'P': 'Pfun'}                            # field names that would clash with the parameter structure
# one-argument helpers: class -> {argument name: [methods]}
HELPERS = {
    'CS': {'rho': ['eta', 'deta_drho'], 'eta': ['Z', 'dZ_deta']},
    'Stein': {'rho': ['eta', 'deta_drho', 'gruneisen', 'dgru_drho', 'P_inf', 'dPinf_drho', 'e_inf', 'deinf_drho'],
              'eta': ['poly', 'dpoly_deta']},
}
CLOSURES = ['e', 'P', 'eta', 'Z', 'gruneisen', 'P_inf', 'e_inf', 'poly']
EOS_MODELS = {}     # model name -> dict(cls=short, methods=[...], args=[...])   (used by the ties)


def make_eos(short):
    """the library object with every constant a free symbol, built by the real constructor"""
    clsname, consts = EOS_CLASSES[short]
    _, cls = load(EOSMOD + ':' + clsname)
    return cls(*[S(c) for c in consts])


def _eos_target(short, suffix, methods, argnames):
    name = 'Eos' + short + suffix
    EOS_MODELS[name] = dict(cls=short, methods=list(methods), args=list(argnames))

    def fn():
        eos = make_eos(short)
        a = [S(x) for x in argnames]
        return tuple(getattr(eos, m)(*a) for m in methods)

    # derivative certificates for the closures only (the derivative *methods* are compared with them)
    closure = all(m in CLOSURES for m in methods)

    @target(name, ['eos'], deriv=([] if closure else None))
    def _b():
        return trace_func(name, fn, [], [FIELD.get(m, m) for m in methods], modules=[EOSMOD], pvars=tuple(argnames),
                          source='%s.%s: %s(%s)' % (EOSMOD, EOS_CLASSES[short][0], ', '.join(methods), ', '.join(argnames)))
    return _b


# one model per method: each keeps exactly the decision tree of that method (rho == 0 guards, density branches)
for _s in EOS_CLASSES:
    for _m in E_METHODS:
        _eos_target(_s, '_' + _m, [_m], ['rho', 'pres'])
    for _m in P_METHODS:
        _eos_target(_s, '_' + _m, [_m], ['rho', 'sie'])
    for _arg, _ms in HELPERS.get(_s, {}).items():
        for _m in _ms:
            _eos_target(_s, '_' + _m, [_m], [_arg])


@target('EosAluminium', ['eos'], deriv=None)
def _aluminium():
    """the constants aluminum_eos.__init__ hands to the Steinberg constructor"""
    consts = EOS_CLASSES['Stein'][1]

    def fn():
        _, cls = load(EOSMOD + ':aluminum_eos')
        eos = cls()
        return tuple(getattr(eos, c) for c in consts)
    return trace_func('EosAluminium', fn, [], consts, modules=[EOSMOD], source=EOSMOD + '.aluminum_eos.__init__')


# --------------------------------------------------------------------------
# residual classes
# --------------------------------------------------------------------------

class AbstractEos(object):
    """an EOS object about which nothing is known: every method returns a free symbol standing for its value
    at the state it was called with.  The arguments are checked to be exactly the residual's unknowns (or the
    initial state) *in the documented order* (rho first), so a residual class that called a method with
    swapped arguments would make the trace fail instead of silently changing the meaning of the symbol."""

    def __init__(self, second):
        self.second = second          # name of the unknown that is the second argument at the current state

    def _val(self, meth, rho, x, second):
        def nm(v):
            return v.a[0] if isinstance(v, E) and v.op == 'sym' else None
        if (nm(rho), nm(x)) == ('rho', second):
            return S('eos_' + meth)
        if (nm(rho), nm(x)) == ('rho_0', 'P_0'):
            return S('eos_' + meth + '_init')
        raise TraceError('EOS method %s called with unexpected arguments (%r, %r)' % (meth, rho, x))

    def e(self, rho, P): return self._val('e', rho, P, 'pres')
    def de_drho(self, rho, P): return self._val('de_drho', rho, P, 'pres')
    def de_dP(self, rho, P): return self._val('de_dP', rho, P, 'pres')
    def P(self, rho, e): return self._val('P', rho, e, 'sie')
    def dP_drho(self, rho, e): return self._val('dP_drho', rho, e, 'sie')
    def dP_de(self, rho, e): return self._val('dP_de', rho, e, 'sie')


RESIDUALS = {
    # short -> (class, unknowns)
    'Energy': ('energy_noh_residual', ['rho', 'pres', 'D']),
    'SEnergy': ('simplified_energy_noh_residual', ['rho', 'pres']),
    'Pressure': ('pressure_noh_residual', ['rho', 'sie', 'D']),
    'SPressure': ('simplified_pressure_noh_residual', ['rho', 'sie']),
}
RES_MODELS = {}     # model name -> dict(res=short, eos='abs'|'ideal', what=..., sym=int|None)


def _ic(sym):
    return {'velocity': S('u_0'), 'density': S('rho_0'), 'pressure': S('P_0'), 'symmetry': sym}


def _outs(what, n):
    if what == 'F':
        return ['F%d' % i for i in range(n)]
    if what == 'F_prime':
        return ['DF%d%d' % (i, j) for i in range(n) for j in range(n)]
    if what == 'F_prime_inv':
        return ['DFI%d%d' % (i, j) for i in range(n) for j in range(n)]
    return ['det']


def _res_target(short, eos, what, sym):
    clsname, unk = RESIDUALS[short]
    n = len(unk)
    name = 'Res%s%s%s_%s' % (short, {'abs': 'Abs', 'ideal': 'Ideal'}[eos], '' if sym is None else 'S%d' % sym,
                             {'F': 'res', 'F_prime': 'jac', 'F_prime_inv': 'jacinv', 'determinant': 'det'}[what])
    RES_MODELS[name] = dict(res=short, eos=eos, what=what, sym=sym, unknowns=unk)

    def fn():
        _, cls = load(RESMOD + ':' + clsname)
        eo = AbstractEos(unk[1]) if eos == 'abs' else load(EOSMOD + ':ideal_gas_eos')[1](S('gamma'))
        res = cls(_ic(S('symmetry') if sym is None else sym), eo)
        x = np.empty(n, dtype=object)
        for i, u in enumerate(unk):
            x[i] = S(u)
        if what == 'determinant' and n == 3:
            # the 3-D classes take the matrix, as F_prime_inv hands it over
            return res.determinant(res.F_prime(x))
        return getattr(res, what)(x)

    @target(name, ['eos'], deriv=([] if what == 'F' else None))
    def _b():
        return trace_func(name, fn, [], _outs(what, n), modules=[RESMOD, EOSMOD], pvars=tuple(unk),
                          source='%s.%s.%s (%s EOS)' % (RESMOD, clsname, what, eos))
    return _b


for _r, (_c, _u) in RESIDUALS.items():
    _syms = [0, 1, 2] if len(_u) == 3 else [0]
    for _w in ('F', 'F_prime', 'F_prime_inv', 'determinant'):
        for _sy in _syms:
            _res_target(_r, 'abs', _w, _sy)
    # the whole acceptance tree of the constructor, symmetry symbolic, with the concrete ideal gas
    for _w in ('F', 'F_prime'):
        _res_target(_r, 'ideal', _w, None)


# --------------------------------------------------------------------------
# solution assembly: NohBlackBoxEos._run with the Newton result as free symbols
# --------------------------------------------------------------------------

def _bb_target(name, eos_short):
    def fn():
        from ..sym import point
        _, cls = load(BBMOD + ':NohBlackBoxEos')
        eos = make_eos(eos_short)
        s = cls.__new__(cls)
        s.eos = eos
        s.symmetry = S('symmetry')
        s.rho0, s.u0, s.p0 = S('rho0'), S('u0'), S('p0')
        # what solve_jump_conditions stores (blackboxnoh.py): solution[0], solution[1], solution[2], eos.P(...)
        s.shocked_density, s.shocked_energy, s.shock_speed = S('x0'), S('x1'), S('x2')
        s.shocked_pressure = eos.P(s.shocked_density, s.shocked_energy)
        return s._run(point(('r',)), S('t'))

    @target(name, ['eos'], deriv=None)
    def _b():
        return trace_func(name, fn, [], None, modules=[BBMOD, EOSMOD], pvars=('r',), tvar='t',
                          source=BBMOD + ':NohBlackBoxEos._run (%s)' % EOS_CLASSES[eos_short][0])
    return _b


_bb_target('BBNohIdeal', 'Ideal')
_bb_target('BBNohStiff', 'Stiff')
_bb_target('BBNohNobleAbel', 'NobleAbel')
_bb_target('BBNohCS', 'CS')
