"""Constructors of the closed-form hydro solvers (Noh, Noh2, Noh2Cog, Coggeshall 1-21):
the acceptance tree of `__init__` on fully symbolic parameters (C20).

Several Coggeshall constructors only *warn* (print) about a documented restriction; the
branch stays in the tree (it is a traced comparison), the text is kept off our stdout."""
import contextlib
import os
from . import target
from ..trace import trace_init
from .t_hydro import COG


HYDRO_INIT = {'InitNoh': 'exactpack.solvers.noh.noh1:Noh',
              'InitNoh2': 'exactpack.solvers.noh2.noh2:Noh2',
              'InitNoh2Cog': 'exactpack.solvers.noh2.noh2_cog:Noh2Cog'}
for _n in COG:
    HYDRO_INIT['InitCog%d' % _n] = 'exactpack.solvers.cog.cog%d:Cog%d' % (_n, _n)

for _name, _cls in HYDRO_INIT.items():
    def _mk(name, cls):
        @target(name, ['hydroinit'], deriv=None)
        def _b():
            with open(os.devnull, 'w') as null, contextlib.redirect_stdout(null):
                return trace_init(name, cls)
    _mk(_name, _cls)
