"""Work package `rad`: Su-Olson (C18), 2-D steady Riemann (C19), radiative shocks (C12).

All interiors (oscillatory quadrature, root solves, ODE integration) are numerical ATOMS:
they are replaced, inside the traced module only and for the duration of one trace, by free
symbols or uninterpreted function symbols; what is traced is the logic around them.
"""
import importlib

import numpy as np

from . import target
from ..trace import trace_solver, trace_func
from ..sym import S, E, TraceError, symbols
from .. import sym

def with_funs(m, funs):
    """declare uninterpreted function symbols (name -> arity) as parameters of the model"""
    m.fun_params = dict(funs)
    m.params = sorted(set(m.params) | set(funs))
    return m


# =====================================================================================
# C18  Su-Olson  (exactpack/solvers/suolson/timmes.py, suolson.py)
# =====================================================================================
SUO = 'exactpack.solvers.suolson.timmes'


def _timmes():
    return importlib.import_module(SUO)


class _Globals(object):
    """timmes.py passes (posx, tau, epsilon, jwant) through module globals ("common block")"""

    def __init__(self, mod, **kw):
        self.mod, self.kw = mod, kw

    def __enter__(self):
        self.saved = {k: getattr(self.mod, k, None) for k in self.kw}
        for k, v in self.kw.items():
            setattr(self.mod, k, v)

    def __exit__(self, *a):
        for k, v in self.saved.items():
            setattr(self.mod, k, v)
        return False


def _family(name, gamma, theta, parts):
    """one integrand family: the coded gamma_i(eta, eps), theta_i(eta, eps) and the integrands
    that use them, evaluated at a generic eta with the common block (posx, tau, epsilon) symbolic"""
    outs = ['g', 'th'] + parts

    @target(name, ['rad', 'suolson'], floats=True)
    def _b():
        T = _timmes()

        def run():
            eta, eps = S('eta'), S('epsilon')
            with _Globals(T, posx=S('posx'), tau=S('tau'), epsilon=eps, jwant=1):
                return tuple([getattr(T, gamma)(eta, eps), getattr(T, theta)(eta, eps)]
                             + [getattr(T, f)(eta) for f in parts])
        return trace_func(name, run, [], outs, modules=[SUO], pvars=('posx',), tvar='tau',
                          source='%s:%s,%s,%s' % (SUO, gamma, theta, ','.join(parts)))
    return _b


_family('SuFam1', 'gamma_one', 'theta_one', ['upart1'])
_family('SuFam2', 'gamma_two', 'theta_two', ['upart2', 'vpart2'])
_family('SuFam3', 'gamma_three', 'theta_three', ['vpart1'])
SU_FAMILIES = {'SuFam1': ('gamma_one', 'theta_one', ['upart1']),
               'SuFam2': ('gamma_two', 'theta_two', ['upart2', 'vpart2']),
               'SuFam3': ('gamma_three', 'theta_three', ['vpart1'])}


def _su_assembly(name, fn, nargs):
    """usolution / vsolution with the quadratures as atoms: `quad` returns the free symbol
    I<k> for the k-th distinct integrand (upart1 -> I_upart1 ...), `brentq` a free symbol, and the
    splitting loop is cut after its first piece (`range(100)` -> one pass).  What remains is
    how the integrals are combined: the constant 1, the prefactors and exp(-tau)."""
    @target(name, ['rad', 'suolson'], floats=False)
    def _b():
        T = _timmes()

        def quad(f, a, b, **kw):
            return (S('I_' + f.__name__), 0.0)

        def brentq(f, a, b, **kw):
            return S('eta_' + f.__name__)

        def run():
            args = [S('posx'), S('tau'), S('epsilon')] + ([S('uans')] if nargs == 4 else [])
            T.range = lambda n: range(1)
            try:
                with _Globals(T, posx=None, tau=None, epsilon=None, jwant=None):
                    return getattr(T, fn)(*args)
            finally:
                del T.range
        return trace_func(name, run, [], ['val'], modules=[SUO], extra_shims=dict(quad=quad, brentq=brentq),
                          source='%s:%s [quad, brentq atoms]' % (SUO, fn))
    return _b


_su_assembly('SuUsol', 'usolution', 3)
_su_assembly('SuVsol', 'vsolution', 4)


@target('SuOlson', ['rad', 'suolson'], floats=False)
def _suolson():
    """the public solver with the dimensionless solutions as uninterpreted functions
    Usol(x, tau, eps), Vsol(x, tau, eps, u): the conversion to physical temperatures"""
    def usolution(x, tau, eps):
        return E('app', 'Usol', sym.lift(x), sym.lift(tau), sym.lift(eps))

    def vsolution(x, tau, eps, u):
        return E('app', 'Vsol', sym.lift(x), sym.lift(tau), sym.lift(eps), sym.lift(u))
    m = trace_solver('SuOlson', 'exactpack.solvers.suolson.suolson:SuOlson', pvars=('z',), tvar='t',
                     extra_modules=[SUO], extra_shims=dict(usolution=usolution, vsolution=vsolution))
    return with_funs(m, {'Usol': 3, 'Vsol': 4})
