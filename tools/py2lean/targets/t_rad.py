"""Work package `rad`: Su-Olson (C18), 2-D steady Riemann (C19), radiative shocks (C12).

All interiors (oscillatory quadrature, root solves, ODE integration) are numerical ATOMS:
they are replaced, inside the traced module only and for the duration of one trace, by free
symbols or uninterpreted function symbols; what is traced is the logic around them.
"""
import importlib

import numpy as np

from . import target
from ..trace import trace_solver, trace_func
from ..sym import S, E, TraceError, symbols
from .. import sym

def with_funs(m, funs):
    """declare uninterpreted function symbols (name -> arity) as parameters of the model"""
    m.fun_params = dict(funs)
    m.params = sorted(set(m.params) | set(funs))
    return m


# =====================================================================================
# C18  Su-Olson  (exactpack/solvers/suolson/timmes.py, suolson.py)
# =====================================================================================
SUO = 'exactpack.solvers.suolson.timmes'


def _timmes():
    return importlib.import_module(SUO)


class _Globals(object):
    """timmes.py passes (posx, tau, epsilon, jwant) through module globals ("common block")"""

    def __init__(self, mod, **kw):
        self.mod, self.kw = mod, kw

    def __enter__(self):
        self.saved = {k: getattr(self.mod, k, None) for k in self.kw}
        for k, v in self.kw.items():
            setattr(self.mod, k, v)

    def __exit__(self, *a):
        for k, v in self.saved.items():
            setattr(self.mod, k, v)
        return False


def _family(name, gamma, theta, parts):
    """one integrand family: the coded gamma_i(eta, eps), theta_i(eta, eps) and the integrands
    that use them, evaluated at a generic eta with the common block (posx, tau, epsilon) symbolic"""
    outs = ['g', 'th'] + parts

    @target(name, ['rad', 'suolson'], floats=True)
    def _b():
        T = _timmes()

        def run():
            eta, eps = S('eta'), S('epsilon')
            with _Globals(T, posx=S('posx'), tau=S('tau'), epsilon=eps, jwant=1):
                return tuple([getattr(T, gamma)(eta, eps), getattr(T, theta)(eta, eps)]
                             + [getattr(T, f)(eta) for f in parts])
        return trace_func(name, run, [], outs, modules=[SUO], pvars=('posx',), tvar='tau',
                          source='%s:%s,%s,%s' % (SUO, gamma, theta, ','.join(parts)))
    return _b


_family('SuFam1', 'gamma_one', 'theta_one', ['upart1'])
_family('SuFam2', 'gamma_two', 'theta_two', ['upart2', 'vpart2'])
_family('SuFam3', 'gamma_three', 'theta_three', ['vpart1'])
SU_FAMILIES = {'SuFam1': ('gamma_one', 'theta_one', ['upart1']),
               'SuFam2': ('gamma_two', 'theta_two', ['upart2', 'vpart2']),
               'SuFam3': ('gamma_three', 'theta_three', ['vpart1'])}


def _su_assembly(name, fn, nargs):
    """usolution / vsolution with the quadratures as atoms: `quad` returns the free symbol
    I<k> for the k-th distinct integrand (upart1 -> I_upart1 ...), `brentq` a free symbol, and the
    splitting loop is cut after its first piece (`range(100)` -> one pass).  What remains is
    how the integrals are combined: the constant 1, the prefactors and exp(-tau)."""
    @target(name, ['rad', 'suolson'], floats=False)
    def _b():
        T = _timmes()

        def quad(f, a, b, **kw):
            return (S('I_' + f.__name__), 0.0)

        def brentq(f, a, b, **kw):
            return S('eta_' + f.__name__)

        def run():
            args = [S('posx'), S('tau'), S('epsilon')] + ([S('uans')] if nargs == 4 else [])
            T.range = lambda n: range(1)
            try:
                with _Globals(T, posx=None, tau=None, epsilon=None, jwant=None):
                    return getattr(T, fn)(*args)
            finally:
                del T.range
        return trace_func(name, run, [], ['val'], modules=[SUO], extra_shims=dict(quad=quad, brentq=brentq),
                          source='%s:%s [quad, brentq atoms]' % (SUO, fn))
    return _b


_su_assembly('SuUsol', 'usolution', 3)
_su_assembly('SuVsol', 'vsolution', 4)


@target('SuOlson', ['rad', 'suolson'], floats=False)
def _suolson():
    """the public solver with the dimensionless solutions as uninterpreted functions
    Usol(x, tau, eps), Vsol(x, tau, eps, u): the conversion to physical temperatures"""
    def usolution(x, tau, eps):
        return E('app', 'Usol', sym.lift(x), sym.lift(tau), sym.lift(eps))

    def vsolution(x, tau, eps, u):
        return E('app', 'Vsol', sym.lift(x), sym.lift(tau), sym.lift(eps), sym.lift(u))
    m = trace_solver('SuOlson', 'exactpack.solvers.suolson.suolson:SuOlson', pvars=('z',), tvar='t',
                     extra_modules=[SUO], extra_shims=dict(usolution=usolution, vsolution=vsolution))
    return with_funs(m, {'Usol': 3, 'Vsol': 4})


# =====================================================================================
# C19  2-D steady supersonic Riemann problem
#      (exactpack/solvers/riemann2D_2section_steadystate/{riemann2D_…,ep_riemann2D_…}.py)
# =====================================================================================
R2M = 'exactpack.solvers.riemann2D_2section_steadystate.riemann2D_2section_steadystate'
R2E = 'exactpack.solvers.riemann2D_2section_steadystate.ep_riemann2D_2section_steadystate'
R2_STATE = ('p0', 'r0', 'M0', 'theta0', 'g')
R2_FUNCS = {'R2Comp': ('compression_states', ['deflection', 'rs', 'Ms']),
            'R2Exp': ('expansion_states', ['deflection', 'rs', 'Ms']),
            'R2PM': ('PrandtlMeyer_function', ['nu'])}


def _r2_prob():
    M = importlib.import_module(R2M)
    return M, object.__new__(M.SetupRiemannProblem)


def _r2_func(name):
    fn, outs = R2_FUNCS[name]

    @target(name, ['rad', 'riemann2d'])
    def _b():
        def run():
            M, prob = _r2_prob()
            if fn == 'PrandtlMeyer_function':
                return prob.PrandtlMeyer_function(S('Ms'), S('g'))
            return getattr(prob, fn)(S('ps'), [S(k) for k in R2_STATE])
        return trace_func(name, run, [], outs, modules=[R2M], source='%s:SetupRiemannProblem.%s' % (R2M, fn))
    return _b


for _n in R2_FUNCS:
    _r2_func(_n)

R2_BOTTOM = ('pB', 'rB', 'MB', 'thetaB', 'gB')
R2_TOP = ('pT', 'rT', 'MT', 'thetaT', 'gT')
R2_MORPH = {'R2dSCS': 'S-C-S', 'R2dSCR': 'S-C-R', 'R2dRCS': 'R-C-S', 'R2dRCR': 'R-C-R'}


def _r2_stub(morph):
    """SetupRiemannProblem with the numerical solves replaced by free symbols (ATOMS): the
    pressure-deflection intersection of `find_overlap` (p_star, cd_angle and the pattern string `morph`) and
    the shock-angle solves (beta_B, beta_T).  Everything else is the real code: set_initial_state_values,
    set_starstate_values (with the real compression_states / expansion_states), assign_lineout_vals."""
    M = importlib.import_module(R2M)

    class Prob(M.SetupRiemannProblem):
        def __init__(self, bottom_state, top_state):
            self.bottom_state = bottom_state
            self.top_state = top_state
            self.set_initial_state_values()
            self.pressure_solution = S('p_star')
            self.deflection_angle_solution = S('cd_angle')
            self.morphology = morph
            self.bottom_compression_arrays = self.bottom_expansion_arrays = [None, None, None, None]
            self.top_compression_arrays = self.top_expansion_arrays = [None, None, None, None]
            self.set_starstate_values()

        def determine_shock_angle(self, state):
            return S('beta_B') if state is self.bottom_state else S('beta_T')
    return Prob


def _r2_solver(name):
    """the public solver `IGEOS_Solver._run` at one symbolic point (x, y) for one wave pattern;
    additional ATOM: the pressure solve inside a fan (p_fanB, p_fanT)."""
    morph = R2_MORPH[name]

    @target(name, ['rad', 'riemann2d'])
    def _b():
        class Mod(object):
            SetupRiemannProblem = _r2_stub(morph)

        def fsolve(f, x0, *a, **k):
            return [S('p_fanB') if 'pB' in symbols(x0) else S('p_fanT')]
        return trace_solver(name, R2E + ':IGEOS_Solver', pvars=('x', 'y'), tvar=None, concrete=dict(t=0.25),
                            structured=dict(bottom_state=lambda: [S(k) for k in R2_BOTTOM],
                                            top_state=lambda: [S(k) for k in R2_TOP]),
                            extra_modules=[R2M],
                            extra_shims=dict(riemann2D_2section_steadystate=Mod, fsolve=fsolve))
    return _b


R2_STAR = {'R2StarSCS': 'S-C-S', 'R2StarSCR': 'S-C-R', 'R2StarRCS': 'R-C-S', 'R2StarRCR': 'R-C-R'}
R2_STAR_OUTS = ['pBs', 'rBs', 'MBs', 'uBs', 'vBs', 'pTs', 'rTs', 'MTs', 'uTs', 'vTs']


def _r2_star(name):
    """the two star states `set_starstate_values` assembles on either side of the slip line"""
    morph = R2_STAR[name]

    @target(name, ['rad', 'riemann2d'])
    def _b():
        def run():
            prob = _r2_stub(morph)([S(k) for k in R2_BOTTOM], [S(k) for k in R2_TOP])
            return tuple(prob.bottom_star_vals) + tuple(prob.top_star_vals)
        return trace_func(name, run, [], R2_STAR_OUTS, modules=[R2M],
                          source='%s:SetupRiemannProblem.set_starstate_values [%s]' % (R2M, morph))
    return _b


for _n in R2_MORPH:
    _r2_solver(_n)
for _n in R2_STAR:
    _r2_star(_n)


# =====================================================================================
# C12  radiative shocks  (exactpack/solvers/radshocks/{nED_radshocks,radshock,utils,fnctn_ED}.py)
# =====================================================================================
RSW = 'exactpack.solvers.radshocks.nED_radshocks'
RSP = 'exactpack.solvers.radshocks.radshock'
RSU = 'exactpack.solvers.radshocks.utils'
RSF = 'exactpack.solvers.radshocks.fnctn_ED'


def vec2(name):
    a = np.empty(2, dtype=object)
    a[0], a[1] = S(name + '0'), S(name + '1')
    return a


class _Ns(object):
    """attribute bag"""

    def __init__(self, **kw):
        self.__dict__.update(kw)


def _scipy_stub(cap):
    """stands in for the name `scipy` inside utils.py: root finder and ODE integrator are ATOMS.
    fsolve(momentum_and_energy, …) returns the free symbols (rho1, T1) and records the residual
    function evaluated at a generic (rho, T); the two discriminant solves return free symbols;
    odeint returns one free symbol per requested abscissa."""
    def fsolve(f, x0, *a, **k):
        if f.__name__ == 'momentum_and_energy':
            cap['residual'] = f([S('rho'), S('T')])
            return [S('rho1'), S('T1')]
        return S('root_' + f.__name__)

    def odeint(f, y0, ts, *a, **k):
        out = np.empty((len(ts), 1), dtype=object)
        for i in range(len(ts)):
            out[i, 0] = S('x_ode%d' % i)
        return out
    return _Ns(optimize=_Ns(fsolve=fsolve), integrate=_Ns(odeint=odeint))


@target('RadJump', ['rad', 'radshock'])
def _rad_jump():
    """RadShockProfile.downstream_equilibrium: the residual `momentum_and_energy` whose root is the
    far-downstream equilibrium state, and the derived downstream quantities"""
    def run():
        U = importlib.import_module(RSU)
        prof = object.__new__(U.RadShockProfile)
        prof.M0, prof.gamma, prof.P0 = S('M0'), S('gamma'), S('P0')
        cap = {}
        saved = U.scipy
        U.scipy = _scipy_stub(cap)
        try:
            prof.downstream_equilibrium()
        finally:
            U.scipy = saved
        mom, ene = cap['residual']
        return (mom, ene, prof.M1, prof.speed1, prof.Pr1, prof.Er1, prof.rho1, prof.T1)
    return trace_func('RadJump', run, [], ['momentum', 'energy', 'M1', 'speed1', 'Pr1', 'Er1', 'rho1', 'T1'], modules=[RSU],
                      source=RSU + ':RadShockProfile.downstream_equilibrium [fsolve atoms]')


@target('RadIEJump', ['rad', 'radshock'])
def _rad_iejump():
    """IEShockProfile.downstream_equilibrium: the hydrodynamic downstream state of the ion-electron shock"""
    def run():
        U = importlib.import_module(RSU)
        prof = object.__new__(U.IEShockProfile)
        prof.M0, prof.gamma, prof.rho0 = S('M0'), S('gamma'), S('rho0')
        prof.downstream_equilibrium()
        return (prof.M1, prof.speed1, prof.rho1, prof.T1)
    return trace_func('RadIEJump', run, [], ['M1', 'speed1', 'rho1', 'T1'], modules=[RSU],
                      source=RSU + ':IEShockProfile.downstream_equilibrium')


ED_FIELDS = ['Tm', 'Density', 'Speed', 'Pressure', 'SIE', 'Fr', 'Mach']
ED_PARAMS = ['M0', 'gamma', 'P0', 'C0', 'sigA', 'sigS', 'expDensity_abs', 'expTemp_abs', 'expDensity_scat', 'expTemp_scat']


@target('RadED', ['rad', 'radshock'])
def _rad_ed():
    """ED_ShockProfiles.make_ED_solution on a three-point temperature grid [1, T, T1] (upstream
    equilibrium, a generic interior temperature, downstream equilibrium): `numpy.linspace` returns the
    one symbolic abscissa T, `odeint` and the `interp` that centres the profile are ATOMS, and the tail
    that only builds Mach_precursor / Mach_relaxation (not used by the solver) sees an all-zero mask.
    Outputs: the profile arrays at the three points (index 0 = upstream, 1 = interior, 2 = downstream)
    and the traced ODE right-hand side dx/dT and total cross-section at T."""
    def run():
        U = importlib.import_module(RSU)
        F = importlib.import_module(RSF)
        prof = object.__new__(U.ED_ShockProfiles)
        for k in ED_PARAMS:
            setattr(prof, k, S(k))
        prof.eps_precursor_equil, prof.eps_relaxation_equil = S('eps_pre'), S('eps_rel')
        prof.left_pts, prof.use_jac = 1, False
        prof.T1, prof.rho1, prof.M1 = S('T1'), S('rho1'), S('M1')
        saved = (U.scipy, getattr(U, 'fnctn', None))
        U.scipy, U.fnctn, U.print = _scipy_stub({}), F, (lambda *a, **k: None)
        try:
            prof.make_ED_solution()
        finally:
            U.scipy, U.fnctn = saved
            del U.print
        out = []
        for i in range(3):
            out += [getattr(prof, k)[i] for k in ED_FIELDS]
        out += [F.dxdT(0., S('T'), prof), F.sigma_t(S('T'), prof), F.rho(S('T'), prof)]
        return tuple(out)

    def linspace(a, b, n, *r, **k):
        o = np.empty(1, dtype=object)
        o[0] = S('T')
        return o

    def interp(x, xp, fp, *r, **k):
        return S('x_shift')

    def where(c, a, b):
        return np.zeros(len(a))

    class Quiet(np.ndarray):
        """the Mach array is compared with 1 only to build Mach_precursor / Mach_relaxation, which the
        solver never reads: those comparisons are not path decisions of the profile"""

        def __ge__(self, o):
            return np.zeros(self.shape, dtype=bool)

        def __lt__(self, o):
            return np.zeros(self.shape, dtype=bool)

    _sqrt = sym._un('sqrt', np.sqrt)

    def qsqrt(x, *a, **k):
        r = _sqrt(x, *a, **k)
        return r.view(Quiet) if isinstance(r, np.ndarray) and r.dtype == object else r
    outs = ['%s%d' % (k, i) for i in range(3) for k in ED_FIELDS] + ['dxdT', 'sigma_t', 'rho']
    return trace_func('RadED', run, [], outs, modules=[RSU, RSF],
                      extra_shims={'np': dict(linspace=linspace, interp=interp, where=where, sqrt=qsqrt)},
                      source=RSU + ':ED_ShockProfiles.make_ED_solution + fnctn_ED [odeint, interp atoms]')


# ---- the four public wrappers -----------------------------------------------------------------------
RAD_WRAPPERS = {
    'RadWrapED': ('ED_Solver', dict(), ['x', 'Fr', 'Tm', 'Density', 'Speed', 'Mach', 'Pressure']),
    'RadWrapNED': ('nED_Solver', dict(problem='nED'), ['x', 'Fr', 'Tm', 'Tr', 'Density', 'Speed', 'Mach', 'Pressure']),
    'RadWrapSn': ('Sn_Solver', dict(problem='nED', Sn=16), ['x', 'Fr', 'Tm', 'Tr', 'Density', 'Speed', 'Mach', 'Pressure', 'x_RT', 'f']),
    'RadWrapIE': ('ie_Solver', dict(), ['x', 'Ti', 'Tm', 'Te', 'Density', 'Speed', 'Mach', 'Pressure', 'Fe']),
}
RAD_ATTRS = {
    'RadWrapED': ['sound', 'Fr', 'Tm', 'Density', 'Speed', 'Mach', 'Pressure', 'SIE', 'RADE', 'Sound_Speed', 'P0', 'C0'],
    'RadWrapNED': ['sound', 'Fr', 'Tm', 'Tr', 'Density', 'Speed', 'Mach', 'Pressure', 'SIE', 'RADE', 'Sound_Speed', 'P0', 'C0'],
    'RadWrapSn': ['sound', 'Fr', 'Tm', 'Tr', 'Density', 'Speed', 'Mach', 'Pressure', 'SIE', 'RADE', 'Sound_Speed', 'P0', 'C0'],
    'RadWrapIE': ['sound', 'Ti', 'Tm', 'Te', 'Density', 'Speed', 'Mach', 'Pressure', 'SIE', 'Sound_Speed'],
}


def _rad_problem_module():
    """stands in for the name `radshock` inside nED_radshocks.py.  The problem classes are the REAL ones
    (their constructors compute sound, C0, P0 from the instance's gamma, Cv, Tref, rho0); only the
    drivers — the ODE integrations that build the stored profile — are replaced: they install a profile
    whose arrays are two free symbols each (ATOM: the stored nondimensional profile)."""
    R = importlib.import_module(RSP)

    def prof(names):
        return _Ns(**{n: vec2('prof_' + n) for n in names})

    class ED(R.greyED_RadShock):
        def ED_driver(self):
            self.ED_profile = prof(RAD_WRAPPERS['RadWrapED'][2])

    class NED(R.greyNED_RadShock):
        def nED_driver(self, epsilon=1., **k):
            self.nED_profile = prof(RAD_WRAPPERS['RadWrapNED'][2])

    class SN(R.greySn_RadShock):
        def Sn_driver(self, Sn=16, f_tol=1.e-4, **k):
            self.Sn_profile = prof(RAD_WRAPPERS['RadWrapSn'][2])

    class IE(R.Shock_2Tie):
        def IE_driver(self):
            self.IE_profile = prof(RAD_WRAPPERS['RadWrapIE'][2])
    return _Ns(greyED_RadShock=ED, greyNED_RadShock=NED, greySn_RadShock=SN, Shock_2Tie=IE)


class _Interp(object):
    """`np.interp(x, xp, fp)` on the stored profile.  When every abscissa is `base_i + shift` with one common
    `shift`, the piecewise-linear interpolant through (base_i + shift, fp_i) evaluated at x is the interpolant
    through (base_i, fp_i) evaluated at x - shift (also in the clamped ends); it is kept as the application
    of an uninterpreted function symbol `prof<k>` (k = k-th interpolated field) to x - shift.  `base_i`, `fp_i`
    must not depend on time — otherwise the trace fails, so "nothing else changes with time" is checked here."""

    def __init__(self, tvar='t'):
        self.k = 0
        self.tvar = tvar
        self.funs = {}

    def __call__(self, x, xp, fp, *a, **kw):
        xp = np.asarray(xp, dtype=object).reshape(-1)
        fp = np.asarray(fp, dtype=object).reshape(-1)
        shift = None
        ok = True
        for e in xp:
            if isinstance(e, E) and e.op == 'add' and self.tvar in symbols(e.a[1]):
                if shift is None:
                    shift = e.a[1]
                ok = ok and shift.id == e.a[1].id and self.tvar not in symbols(e.a[0])
            else:
                ok = False
        if not ok:
            # an interpolation that does not involve time (Sn: the Eddington factor on the hydro grid): atoms
            if any(self.tvar in symbols(e) for e in list(xp) + list(fp) if isinstance(e, E)):
                raise TraceError('np.interp: the abscissae are not a common time shift of a stored array')
            out = np.empty(np.shape(x), dtype=object)
            for i in range(out.size):
                out.reshape(-1)[i] = S('interp%d_%d' % (len(self.funs) + 100, i))
            self.funs['x%d' % len(self.funs)] = None
            return out
        for e in fp:
            if isinstance(e, E) and self.tvar in symbols(e):
                raise TraceError('np.interp: the interpolated profile array depends on time')
        name = 'prof%d' % self.k
        self.k += 1
        xs = np.asarray(x, dtype=object)
        out = np.empty(xs.shape, dtype=object)
        for i in range(xs.size):
            out.reshape(-1)[i] = E('app', name, E('sub', sym.lift(xs.reshape(-1)[i]), shift))
        return out


def _rad_wrapper(name):
    cls, concrete, _ = RAD_WRAPPERS[name]

    @target(name, ['rad', 'radshock'], floats=False)
    def _b():
        ip = _Interp()
        m = trace_solver(name, '%s:%s' % (RSW, cls), pvars=('x',), tvar='t', mode='init', concrete=concrete,
                         extra_modules=[RSP],
                         extra_shims={'radshock': _rad_problem_module(), 'np': dict(interp=ip)})
        return with_funs(m, {'prof%d' % i: 1 for i in range(ip.k)})

    @target(name.replace('Wrap', 'Attr'), ['rad', 'radshock'])
    def _a():
        """the solver attributes `setup_solver` derives from the stored nondimensional profile (first node)"""
        from ..trace import load, sym_params
        _, C = load('%s:%s' % (RSW, cls))

        def run():
            s = C(**sym_params(C, concrete))
            out = []
            for k in RAD_ATTRS[name]:
                v = getattr(s, k)
                out.append(v[0] if isinstance(v, np.ndarray) else v)
            return tuple(out)
        return trace_func(name.replace('Wrap', 'Attr'), run, [], RAD_ATTRS[name], modules=[RSW, RSP],
                          extra_shims={'radshock': _rad_problem_module(), 'np': dict(interp=_Interp())},
                          source='%s:%s.setup_solver + %s:RadShock.__init__ [profile atoms]' % (RSW, cls, RSP))
    return _b


for _n in RAD_WRAPPERS:
    _rad_wrapper(_n)
