"""Work package `rad`: Su-Olson (C18), 2-D steady Riemann (C19), radiative shocks (C12).

All interiors (oscillatory quadrature, root solves, ODE integration) are numerical ATOMS:
they are replaced, inside the traced module only and for the duration of one trace, by free
symbols or uninterpreted function symbols; what is traced is the logic around them.
"""
import importlib

import numpy as np

from . import target
from ..trace import trace_solver, trace_func
from ..sym import S, E, TraceError, symbols
from .. import sym

def with_funs(m, funs):
    """declare uninterpreted function symbols (name -> arity) as parameters of the model"""
    m.fun_params = dict(funs)
    m.params = sorted(set(m.params) | set(funs))
    return m


# =====================================================================================
# C18  Su-Olson  (exactpack/solvers/suolson/timmes.py, suolson.py)
# =====================================================================================
SUO = 'exactpack.solvers.suolson.timmes'


def _timmes():
    return importlib.import_module(SUO)


class _Globals(object):
    """timmes.py passes (posx, tau, epsilon, jwant) through module globals ("common block")"""

    def __init__(self, mod, **kw):
        self.mod, self.kw = mod, kw

    def __enter__(self):
        self.saved = {k: getattr(self.mod, k, None) for k in self.kw}
        for k, v in self.kw.items():
            setattr(self.mod, k, v)

    def __exit__(self, *a):
        for k, v in self.saved.items():
            setattr(self.mod, k, v)
        return False


def _family(name, gamma, theta, parts):
    """one integrand family: the coded gamma_i(eta, eps), theta_i(eta, eps) and the integrands
    that use them, evaluated at a generic eta with the common block (posx, tau, epsilon) symbolic"""
    outs = ['g', 'th'] + parts

    @target(name, ['rad', 'suolson'], floats=True)
    def _b():
        T = _timmes()

        def run():
            eta, eps = S('eta'), S('epsilon')
            with _Globals(T, posx=S('posx'), tau=S('tau'), epsilon=eps, jwant=1):
                return tuple([getattr(T, gamma)(eta, eps), getattr(T, theta)(eta, eps)]
                             + [getattr(T, f)(eta) for f in parts])
        return trace_func(name, run, [], outs, modules=[SUO], pvars=('posx',), tvar='tau',
                          source='%s:%s,%s,%s' % (SUO, gamma, theta, ','.join(parts)))
    return _b


_family('SuFam1', 'gamma_one', 'theta_one', ['upart1'])
_family('SuFam2', 'gamma_two', 'theta_two', ['upart2', 'vpart2'])
_family('SuFam3', 'gamma_three', 'theta_three', ['vpart1'])
SU_FAMILIES = {'SuFam1': ('gamma_one', 'theta_one', ['upart1']),
               'SuFam2': ('gamma_two', 'theta_two', ['upart2', 'vpart2']),
               'SuFam3': ('gamma_three', 'theta_three', ['vpart1'])}


def _su_assembly(name, fn, nargs):
    """usolution / vsolution with the quadratures as atoms: `quad` returns the free symbol
    I<k> for the k-th distinct integrand (upart1 -> I_upart1 ...), `brentq` a free symbol, and the
    splitting loop is cut after its first piece (`range(100)` -> one pass).  What remains is
    how the integrals are combined: the constant 1, the prefactors and exp(-tau)."""
    @target(name, ['rad', 'suolson'], floats=False)
    def _b():
        T = _timmes()

        def quad(f, a, b, **kw):
            return (S('I_' + f.__name__), 0.0)

        def brentq(f, a, b, **kw):
            return S('eta_' + f.__name__)

        def run():
            args = [S('posx'), S('tau'), S('epsilon')] + ([S('uans')] if nargs == 4 else [])
            T.range = lambda n: range(1)
            try:
                with _Globals(T, posx=None, tau=None, epsilon=None, jwant=None):
                    return getattr(T, fn)(*args)
            finally:
                del T.range
        return trace_func(name, run, [], ['val'], modules=[SUO], extra_shims=dict(quad=quad, brentq=brentq),
                          source='%s:%s [quad, brentq atoms]' % (SUO, fn))
    return _b


_su_assembly('SuUsol', 'usolution', 3)
_su_assembly('SuVsol', 'vsolution', 4)


@target('SuOlson', ['rad', 'suolson'], floats=False)
def _suolson():
    """the public solver with the dimensionless solutions as uninterpreted functions
    Usol(x, tau, eps), Vsol(x, tau, eps, u): the conversion to physical temperatures"""
    def usolution(x, tau, eps):
        return E('app', 'Usol', sym.lift(x), sym.lift(tau), sym.lift(eps))

    def vsolution(x, tau, eps, u):
        return E('app', 'Vsol', sym.lift(x), sym.lift(tau), sym.lift(eps), sym.lift(u))
    m = trace_solver('SuOlson', 'exactpack.solvers.suolson.suolson:SuOlson', pvars=('z',), tvar='t',
                     extra_modules=[SUO], extra_shims=dict(usolution=usolution, vsolution=vsolution))
    return with_funs(m, {'Usol': 3, 'Vsol': 4})


# =====================================================================================
# C19  2-D steady supersonic Riemann problem
#      (exactpack/solvers/riemann2D_2section_steadystate/{riemann2D_…,ep_riemann2D_…}.py)
# =====================================================================================
R2M = 'exactpack.solvers.riemann2D_2section_steadystate.riemann2D_2section_steadystate'
R2E = 'exactpack.solvers.riemann2D_2section_steadystate.ep_riemann2D_2section_steadystate'
R2_STATE = ('p0', 'r0', 'M0', 'theta0', 'g')
R2_FUNCS = {'R2Comp': ('compression_states', ['deflection', 'rs', 'Ms']),
            'R2Exp': ('expansion_states', ['deflection', 'rs', 'Ms']),
            'R2PM': ('PrandtlMeyer_function', ['nu'])}


def _r2_prob():
    M = importlib.import_module(R2M)
    return M, object.__new__(M.SetupRiemannProblem)


def _r2_func(name):
    fn, outs = R2_FUNCS[name]

    @target(name, ['rad', 'riemann2d'])
    def _b():
        def run():
            M, prob = _r2_prob()
            if fn == 'PrandtlMeyer_function':
                return prob.PrandtlMeyer_function(S('Ms'), S('g'))
            return getattr(prob, fn)(S('ps'), [S(k) for k in R2_STATE])
        return trace_func(name, run, [], outs, modules=[R2M], source='%s:SetupRiemannProblem.%s' % (R2M, fn))
    return _b


for _n in R2_FUNCS:
    _r2_func(_n)

R2_BOTTOM = ('pB', 'rB', 'MB', 'thetaB', 'gB')
R2_TOP = ('pT', 'rT', 'MT', 'thetaT', 'gT')
R2_MORPH = {'R2dSCS': 'S-C-S', 'R2dSCR': 'S-C-R', 'R2dRCS': 'R-C-S', 'R2dRCR': 'R-C-R'}


def _r2_stub(morph):
    """SetupRiemannProblem with the numerical solves replaced by free symbols (ATOMS): the
    pressure-deflection intersection of `find_overlap` (p_star, cd_angle and the pattern string `morph`) and
    the shock-angle solves (beta_B, beta_T).  Everything else is the real code: set_initial_state_values,
    set_starstate_values (with the real compression_states / expansion_states), assign_lineout_vals."""
    M = importlib.import_module(R2M)

    class Prob(M.SetupRiemannProblem):
        def __init__(self, bottom_state, top_state):
            self.bottom_state = bottom_state
            self.top_state = top_state
            self.set_initial_state_values()
            self.pressure_solution = S('p_star')
            self.deflection_angle_solution = S('cd_angle')
            self.morphology = morph
            self.bottom_compression_arrays = self.bottom_expansion_arrays = [None, None, None, None]
            self.top_compression_arrays = self.top_expansion_arrays = [None, None, None, None]
            self.set_starstate_values()

        def determine_shock_angle(self, state):
            return S('beta_B') if state is self.bottom_state else S('beta_T')
    return Prob


def _r2_solver(name):
    """the public solver `IGEOS_Solver._run` at one symbolic point (x, y) for one wave pattern;
    additional ATOM: the pressure solve inside a fan (p_fanB, p_fanT)."""
    morph = R2_MORPH[name]

    @target(name, ['rad', 'riemann2d'])
    def _b():
        class Mod(object):
            SetupRiemannProblem = _r2_stub(morph)

        def fsolve(f, x0, *a, **k):
            return [S('p_fanB') if 'pB' in symbols(x0) else S('p_fanT')]
        return trace_solver(name, R2E + ':IGEOS_Solver', pvars=('x', 'y'), tvar=None, concrete=dict(t=0.25),
                            structured=dict(bottom_state=lambda: [S(k) for k in R2_BOTTOM],
                                            top_state=lambda: [S(k) for k in R2_TOP]),
                            extra_modules=[R2M],
                            extra_shims=dict(riemann2D_2section_steadystate=Mod, fsolve=fsolve))
    return _b


R2_STAR = {'R2StarSCS': 'S-C-S', 'R2StarSCR': 'S-C-R', 'R2StarRCS': 'R-C-S', 'R2StarRCR': 'R-C-R'}
R2_STAR_OUTS = ['pBs', 'rBs', 'MBs', 'uBs', 'vBs', 'pTs', 'rTs', 'MTs', 'uTs', 'vTs']


def _r2_star(name):
    """the two star states `set_starstate_values` assembles on either side of the slip line"""
    morph = R2_STAR[name]

    @target(name, ['rad', 'riemann2d'])
    def _b():
        def run():
            prob = _r2_stub(morph)([S(k) for k in R2_BOTTOM], [S(k) for k in R2_TOP])
            return tuple(prob.bottom_star_vals) + tuple(prob.top_star_vals)
        return trace_func(name, run, [], R2_STAR_OUTS, modules=[R2M],
                          source='%s:SetupRiemannProblem.set_starstate_values [%s]' % (R2M, morph))
    return _b


for _n in R2_MORPH:
    _r2_solver(_n)
for _n in R2_STAR:
    _r2_star(_n)
