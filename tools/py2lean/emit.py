"""py2lean.emit -- Lean 4 emitters for traced models.

One dialect table (`OPS`) drives the three outputs so they cannot drift:
  * real model         (noncomputable defs over ℝ)
  * Float twin         (computable, Mathlib-free, used by the correspondence)
  * derivative certificates (structural HasDerivAt proofs, side conditions as
    explicit hypotheses)
"""
import fractions
import math
import os
import struct
import sys

from .sym import E, B, TraceError, symbols, has_nan

sys.setrecursionlimit(20000)

RESERVED = {'at', 'in', 'from', 'end', 'do', 'then', 'else', 'if', 'fun', 'let', 'have', 'show',
            'by', 'with', 'match', 'def', 'theorem', 'open', 'Type', 'Prop', 'Sort', 'where',
            'instance', 'class', 'structure', 'namespace', 'section', 'variable', 'import',
            'λ', 'Π', 'Σ', 'rec', 'mk', 'casesOn', 'recOn', 'noConfusion', 'ctorIdx', 'local',
            'private', 'protected', 'mutual', 'deriving', 'extends', 'for', 'return', 'try',
            'catch', 'finally', 'unless', 'macro', 'syntax', 'notation', 'prefix', 'infix',
            'universe', 'export', 'axiom', 'example', 'abbrev', 'inductive', 'attribute', 'set_option'}


def ident(n):
    n = n.replace('.', '_')
    if n in RESERVED:
        return n + '_'
    return n


# --------------------------------------------------------------------------
# literals
# --------------------------------------------------------------------------

def fbits(x):
    return struct.unpack('<Q', struct.pack('<d', float(x)))[0]


def rationalise(x):
    """exact real a double literal denotes: small rational, small rational
    multiple of pi, sqrt of a small rational -- else its exact dyadic value.
    returns (lean_string, kind)"""
    if x != x or x in (float('inf'), float('-inf')):
        raise TraceError('non-finite literal')
    if x == int(x) and abs(x) < 2 ** 53:
        n = int(x)
        return ('(%d : ℝ)' % n if n >= 0 else '(-%d : ℝ)' % -n), 'int'
    fr = fractions.Fraction(x).limit_denominator(10000)
    if abs(fr.numerator) <= 10 ** 6 and fr.numerator / fr.denominator == x:
        s = '((%d : ℝ) / %d)' % (abs(fr.numerator), fr.denominator)
        return (s if fr > 0 else '(-%s)' % s), 'rat'
    # Euler's number: the correctly rounded double of e (cog3.py types it as 2.718281828459045)
    if abs(x) == math.e:
        return ('(Real.exp (1 : ℝ))' if x > 0 else '(-(Real.exp (1 : ℝ)))'), 'e'
    # rational multiple of pi
    q = fractions.Fraction(x / math.pi).limit_denominator(1000)
    if q != 0 and abs(q.numerator) <= 1000:
        y = q.numerator * math.pi / q.denominator
        if abs(y - x) <= 2 * abs(math.ulp(x)):
            s = '((%d : ℝ) * Real.pi / %d)' % (abs(q.numerator), q.denominator)
            return (s if q > 0 else '(-%s)' % s), 'pi'
    # square root of a small rational
    q = fractions.Fraction(x * x).limit_denominator(1000)
    if q > 0 and abs(q.numerator) <= 1000:
        y = math.sqrt(q.numerator / q.denominator)
        if abs(y - abs(x)) <= 2 * abs(math.ulp(x)):
            s = '(Real.sqrt ((%d : ℝ) / %d))' % (q.numerator, q.denominator)
            return (s if x > 0 else '(-%s)' % s), 'sqrt'
    fr = fractions.Fraction(x)
    s = '((%d : ℝ) / %d)' % (abs(fr.numerator), fr.denominator)
    return (s if fr > 0 else '(-%s)' % s), 'dyadic'


# --------------------------------------------------------------------------
# expressions
# --------------------------------------------------------------------------

BIN = {'add': '+', 'sub': '-', 'mul': '*', 'div': '/'}
UNR = {'sqrt': 'Real.sqrt', 'exp': 'Real.exp', 'log': 'Real.log', 'sin': 'Real.sin', 'cos': 'Real.cos',
       'tan': 'Real.tan', 'arccos': 'Real.arccos', 'arcsin': 'Real.arcsin', 'arctan': 'Real.arctan',
       'sinh': 'Real.sinh', 'cosh': 'Real.cosh', 'tanh': 'Real.tanh'}
UNF = {'sqrt': 'Float.sqrt', 'exp': 'Float.exp', 'log': 'Float.log', 'sin': 'Float.sin', 'cos': 'Float.cos',
       'tan': 'Float.tan', 'arccos': 'Float.acos', 'arcsin': 'Float.asin', 'arctan': 'Float.atan',
       'sinh': 'Float.sinh', 'cosh': 'Float.cosh', 'tanh': 'Float.tanh'}


class Emitter(object):
    """turns expression nodes into Lean text; `env` maps symbol name -> Lean text"""

    def __init__(self, env, real=True):
        self.env = env
        self.real = real
        self.memo = {}
        self.consts = {}

    def sym(self, n):
        if n not in self.env:
            raise TraceError('free symbol %s not bound in the model' % n)
        return self.env[n]

    def e(self, x):
        r = self.memo.get(x.id)
        if r is None:
            r = self._e(x)
            self.memo[x.id] = r
        return r

    def _e(self, x):
        op, a, real = x.op, x.a, self.real
        if op in ('sym', 'atom'):
            return self.sym(a[0])
        if op == 'int':
            n = a[0]
            if real:
                return '(%d : ℝ)' % n if n >= 0 else '(-%d : ℝ)' % -n
            return '(Float.ofInt (%d))' % n
        if op == 'flt':
            if real:
                s, kind = rationalise(a[0])
                self.consts[repr(a[0])] = (s, kind)
                return s
            return '(Float.ofBits %d)' % fbits(a[0])
        if op in BIN:
            return '(%s %s %s)' % (self.e(a[0]), BIN[op], self.e(a[1]))
        if op == 'neg':
            return '(-%s)' % self.e(a[0])
        if op == 'abs':
            return ('|%s|' if real else '(Float.abs %s)') % self.e(a[0])
        if op == 'npow':
            n = a[1].a[0]
            if real:
                return '(%s ^ (%d : ℕ))' % (self.e(a[0]), n)
            return '(Float.pow %s (Float.ofInt %d))' % (self.e(a[0]), n)
        if op == 'zpow':
            n = a[1].a[0]
            if real:
                return '((%s ^ (%d : ℕ))⁻¹)' % (self.e(a[0]), -n)
            return '(Float.pow %s (Float.ofInt (%d)))' % (self.e(a[0]), n)
        if op == 'rpow':
            if real:
                return '(%s ^ %s)' % (self.e(a[0]), self.e(a[1]))
            return '(Float.pow %s %s)' % (self.e(a[0]), self.e(a[1]))
        if op in UNR:
            return '(%s %s)' % ((UNR if real else UNF)[op], self.e(a[0]))
        if op == 'arctan2':
            if real:
                return '(EPV.arctan2 %s %s)' % (self.e(a[0]), self.e(a[1]))
            return '(Float.atan2 %s %s)' % (self.e(a[0]), self.e(a[1]))
        if op == 'app':
            # application of an uninterpreted function parameter
            f = self.sym(a[0])
            return '(%s %s)' % (f, ' '.join(self.e(y) for y in a[1:]))
        if op in ('max', 'min'):
            # Python's builtin max(a, b) / min(a, b) kept as ONE operation (opt-in shim, see targets/t_burn.py):
            # max keeps a unless b > a, min keeps a unless b < a
            if real:
                return '(%s %s %s)' % (op, self.e(a[0]), self.e(a[1]))
            return '(if %s %s %s then %s else %s)' % (self.e(a[1]), '>' if op == 'max' else '<', self.e(a[0]),
                                                      self.e(a[1]), self.e(a[0]))
        raise TraceError('emit: unknown op %s' % op)

    def c(self, b):
        op, a = b.op, b.a
        if op == 'lt':
            return '(%s < %s)' % (self.e(a[0]), self.e(a[1]))
        if op == 'le':
            return '(%s ≤ %s)' % (self.e(a[0]), self.e(a[1]))
        if op == 'eq':
            if self.real:
                return '(%s = %s)' % (self.e(a[0]), self.e(a[1]))
            return '(%s == %s)' % (self.e(a[0]), self.e(a[1]))
        if op == 'not':
            if self.real:
                return '(¬ %s)' % self.c(a[0])
            return '(!%s)' % self.c(a[0])
        if op == 'and':
            return '(%s %s %s)' % (self.c(a[0]), '∧' if self.real else '&&', self.c(a[1]))
        if op == 'or':
            return '(%s %s %s)' % (self.c(a[0]), '∨' if self.real else '||', self.c(a[1]))
        raise TraceError('emit: unknown condition %s' % op)


# --------------------------------------------------------------------------
# derivative certificates
# --------------------------------------------------------------------------

class Deriv(object):
    """d/dvar of an expression DAG: returns (derivative DAG, HasDerivAt proof
    term).  The derivative node has exactly the shape the Mathlib combinator
    produces, so the certificate is `unfold; exact <term>`; sub-expressions
    that do not depend on the variable use the *_const combinators, which
    need no side conditions."""

    def __init__(self, em, var, varname):
        self.em = em            # real Emitter
        self.var = var          # symbol name in the DAG
        self.v = varname        # Lean name of the variable
        self.side = []          # side conditions (Lean text), de-duplicated
        self.sidx = {}
        self.dep = {}
        self.memo = {}

    def depends(self, e):
        r = self.dep.get(e.id)
        if r is None:
            if e.op == 'sym':
                r = e.a[0] == self.var
            elif e.op in ('int', 'flt', 'atom'):
                r = False
            else:
                r = any(self.depends(x) for x in e.a if isinstance(x, E))
            self.dep[e.id] = r
        return r

    def hyp(self, text):
        if text not in self.sidx:
            self.side.append(text)
            self.sidx[text] = 'hs%d' % len(self.side)
        return self.sidx[text]

    def d(self, e):
        r = self.memo.get(e.id)
        if r is None:
            r = self._d(e)
            self.memo[e.id] = r
        return r

    def _d(self, e):
        R = self.em.e
        v = self.v
        ZERO, ONE, TWO = E('int', 0), E('int', 1), E('int', 2)
        if not self.depends(e):
            return ZERO, '(hasDerivAt_const %s %s)' % (v, R(e))
        if e.op == 'sym':
            return ONE, "(hasDerivAt_id' %s)" % v
        a = e.a
        op = e.op
        if op == 'add':
            if not self.depends(a[0]):
                db, pb = self.d(a[1])
                return db, '(EPV.D.const_add %s %s)' % (R(a[0]), pb)
            if not self.depends(a[1]):
                da, pa = self.d(a[0])
                return da, '(EPV.D.add_const %s %s)' % (pa, R(a[1]))
            (da, pa), (db, pb) = self.d(a[0]), self.d(a[1])
            return E('add', da, db), '(EPV.D.add %s %s)' % (pa, pb)
        if op == 'sub':
            if not self.depends(a[0]):
                db, pb = self.d(a[1])
                return E('neg', db), '(EPV.D.const_sub %s %s)' % (R(a[0]), pb)
            if not self.depends(a[1]):
                da, pa = self.d(a[0])
                return da, '(EPV.D.sub_const %s %s)' % (pa, R(a[1]))
            (da, pa), (db, pb) = self.d(a[0]), self.d(a[1])
            return E('sub', da, db), '(EPV.D.sub %s %s)' % (pa, pb)
        if op == 'neg':
            da, pa = self.d(a[0])
            return E('neg', da), '(EPV.D.neg %s)' % pa
        if op == 'mul':
            if not self.depends(a[0]):
                db, pb = self.d(a[1])
                return E('mul', a[0], db), '(EPV.D.const_mul %s %s)' % (R(a[0]), pb)
            if not self.depends(a[1]):
                da, pa = self.d(a[0])
                return E('mul', da, a[1]), '(EPV.D.mul_const %s %s)' % (pa, R(a[1]))
            (da, pa), (db, pb) = self.d(a[0]), self.d(a[1])
            return (E('add', E('mul', da, a[1]), E('mul', a[0], db)),
                    '(EPV.D.mul %s %s)' % (pa, pb))
        if op == 'div':
            if not self.depends(a[1]):
                da, pa = self.d(a[0])
                return E('div', da, a[1]), '(EPV.D.div_const %s %s)' % (pa, R(a[1]))
            (da, pa), (db, pb) = self.d(a[0]), self.d(a[1])
            h = self.hyp('%s ≠ 0' % R(a[1]))
            return (E('div', E('sub', E('mul', da, a[1]), E('mul', a[0], db)), E('npow', a[1], TWO)),
                    '(EPV.D.div %s %s %s)' % (pa, pb, h))
        if op == 'npow':
            da, pa = self.d(a[0])
            n = a[1].a[0]
            if n < 1:
                raise TraceError('x ** %d on a symbolic value' % n)
            return (E('mul', E('mul', E('int', n), E('npow', a[0], E('int', n - 1))), da),
                    '(EPV.D.pow %s %d %d (%d : ℝ) rfl (by norm_num))' % (pa, n, n - 1, n))
        if op == 'zpow':
            n = -a[1].a[0]
            da, pa = self.d(a[0])
            inner = E('npow', a[0], E('int', n))
            dinner = E('mul', E('mul', E('int', n), E('npow', a[0], E('int', n - 1))), da)
            h = self.hyp('%s ≠ 0' % R(inner))
            return (E('div', E('neg', dinner), E('npow', inner, TWO)),
                    '(EPV.D.inv_pow %s %d %d (%d : ℝ) rfl (by norm_num) %s)' % (pa, n, n - 1, n, h))
        if op == 'rpow':
            if not self.depends(a[1]):
                da, pa = self.d(a[0])
                h = self.hyp('0 < %s' % R(a[0]))
                # logarithmic form  f' * e * (f^e / f)
                return (E('mul', E('mul', da, a[1]), E('div', e, a[0])),
                        '(EPV.D.rpow_const %s %s %s)' % (pa, R(a[1]), h))
            (da, pa), (db, pb) = self.d(a[0]), self.d(a[1])
            h = self.hyp('0 < %s' % R(a[0]))
            return (E('add', E('mul', E('mul', da, a[1]), E('rpow', a[0], E('sub', a[1], ONE))),
                      E('mul', E('mul', db, e), E('log', a[0]))),
                    '(EPV.D.rpow %s %s %s)' % (pa, pb, h))
        if op == 'exp':
            da, pa = self.d(a[0])
            return E('mul', e, da), '(EPV.D.exp %s)' % pa
        if op == 'log':
            da, pa = self.d(a[0])
            h = self.hyp('%s ≠ 0' % R(a[0]))
            return E('div', da, a[0]), '(EPV.D.log %s %s)' % (pa, h)
        if op == 'sqrt':
            da, pa = self.d(a[0])
            h = self.hyp('%s ≠ 0' % R(a[0]))
            return E('div', da, E('mul', TWO, e)), '(EPV.D.sqrt %s %s)' % (pa, h)
        if op == 'sin':
            da, pa = self.d(a[0])
            return E('mul', E('cos', a[0]), da), '(EPV.D.sin %s)' % pa
        if op == 'cos':
            da, pa = self.d(a[0])
            return E('mul', E('neg', E('sin', a[0])), da), '(EPV.D.cos %s)' % pa
        if op == 'sinh':
            da, pa = self.d(a[0])
            return E('mul', E('cosh', a[0]), da), '(EPV.D.sinh %s)' % pa
        if op == 'cosh':
            da, pa = self.d(a[0])
            return E('mul', E('sinh', a[0]), da), '(EPV.D.cosh %s)' % pa
        if op == 'arctan':
            da, pa = self.d(a[0])
            return (E('mul', E('div', ONE, E('add', ONE, E('npow', a[0], TWO))), da),
                    '(EPV.D.arctan %s)' % pa)
        if op == 'tan':
            da, pa = self.d(a[0])
            h = self.hyp('Real.cos %s ≠ 0' % R(a[0]))
            return (E('mul', E('div', ONE, E('npow', E('cos', a[0]), TWO)), da),
                    '(EPV.D.tan %s %s)' % (pa, h))
        if op in ('arccos', 'arcsin'):
            da, pa = self.d(a[0])
            h1 = self.hyp('%s ≠ -1' % R(a[0]))
            h2 = self.hyp('%s ≠ 1' % R(a[0]))
            core = E('div', ONE, E('sqrt', E('sub', ONE, E('npow', a[0], TWO))))
            if op == 'arccos':
                core = E('neg', core)
            return E('mul', core, da), '(EPV.D.%s %s %s %s)' % (op, pa, h1, h2)
        raise TraceError('no derivative rule for op %s' % op)


def well_defined_conditions(em, exprs):
    """side conditions under which the expressions are free of division by
    zero, non-positive bases under real exponents, negative square roots and
    logarithms of non-positive numbers (exact arithmetic)."""
    out = []
    seen = set()
    texts = set()

    def add(t):
        if t not in texts:
            texts.add(t)
            out.append(t)

    def go(x):
        if not isinstance(x, E) or x.id in seen:
            return
        seen.add(x.id)
        for y in x.a:
            go(y)
        if x.op == 'div':
            if not x.a[1].is_const() or x.a[1].a[0] == 0:
                add('%s ≠ 0' % em.e(x.a[1]))
        elif x.op == 'zpow':
            add('%s ≠ 0' % em.e(x.a[0]))
        elif x.op == 'rpow':
            if not (x.a[0].is_const() and x.a[0].a[0] > 0):
                add('0 < %s' % em.e(x.a[0]))
        elif x.op == 'sqrt':
            add('0 ≤ %s' % em.e(x.a[0]))
        elif x.op == 'log':
            add('0 < %s' % em.e(x.a[0]))
        elif x.op in ('arccos', 'arcsin'):
            add('-1 ≤ %s' % em.e(x.a[0]))
            add('%s ≤ 1' % em.e(x.a[0]))
    for e in exprs:
        go(e)
    return out


# --------------------------------------------------------------------------
# files
# --------------------------------------------------------------------------

def write_if_changed(path, text):
    os.makedirs(os.path.dirname(path), exist_ok=True)
    try:
        with open(path) as f:
            if f.read() == text:
                return False
    except IOError:
        pass
    with open(path, 'w') as f:
        f.write(text)
    return True
