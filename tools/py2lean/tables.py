"""py2lean.tables -- class tables read by introspection of the imported classes
(declared parameters, defaulted parameters, ancestry, returned field names), emitted
as a Lean list so that table-wide statements are proved by `decide` (a finite
quantifier, so a proof)."""
import ast
import contextlib
import inspect
import io
import random
import textwrap
import warnings

from .model import HEADER


def _literal_strings(value, scope, depth=0):
    """the list of string literals an expression denotes, or None: a list/tuple display of strings,
    `list(...)`/`tuple(...)` of one, a concatenation `a + b` of two, or a name bound exactly once in
    `scope` (the function, then the module) to one of these"""
    if depth > 4 or value is None:
        return None
    if isinstance(value, (ast.List, ast.Tuple)):
        if all(isinstance(e, ast.Constant) and isinstance(e.value, str) for e in value.elts):
            return [e.value for e in value.elts]
        return None
    if isinstance(value, ast.Call) and isinstance(value.func, ast.Name) and value.func.id in ('list', 'tuple') \
            and len(value.args) == 1 and not value.keywords:
        return _literal_strings(value.args[0], scope, depth + 1)
    if isinstance(value, ast.BinOp) and isinstance(value.op, ast.Add):
        l, r = _literal_strings(value.left, scope, depth + 1), _literal_strings(value.right, scope, depth + 1)
        return None if l is None or r is None else l + r
    if isinstance(value, ast.Name):
        for sc in scope:
            bound = []
            for node in ast.walk(sc):
                if isinstance(node, ast.Assign):
                    for t in node.targets:
                        for n in ast.walk(t):
                            if isinstance(n, ast.Name) and n.id == value.id:
                                bound.append(node.value if t is n else None)
                elif isinstance(node, (ast.AugAssign, ast.AnnAssign, ast.For, ast.NamedExpr, ast.comprehension)):
                    t = node.target
                    if any(isinstance(n, ast.Name) and n.id == value.id for n in ast.walk(t)):
                        bound.append(None)
                elif isinstance(node, ast.Call) and isinstance(node.func, ast.Attribute) \
                        and isinstance(node.func.value, ast.Name) and node.func.value.id == value.id:
                    bound.append(None)          # names.append(...) and the like: not a literal any more
            if len(bound) == 1 and bound[0] is not None:
                return _literal_strings(bound[0], scope, depth + 1)
            if bound:
                return None
    return None


def static_names(cls):
    """field names from the literal `names=[...]` of the class's own _run (None if not literal)"""
    if '_run' not in cls.__dict__:
        return None
    try:
        ctree = ast.parse(textwrap.dedent(inspect.getsource(cls)))
    except Exception:
        return None
    tree = None
    for node in ast.walk(ctree):
        if isinstance(node, ast.FunctionDef) and node.name == '_run':
            tree = node
            break
    if tree is None:
        return None
    found = None
    for node in ast.walk(tree):
        if isinstance(node, ast.Call) and getattr(node.func, 'id', getattr(node.func, 'attr', None)) == 'ExactSolution':
            for kw in node.keywords:
                if kw.arg == 'names' and isinstance(kw.value, (ast.List, ast.Tuple)) \
                        and all(isinstance(e, ast.Constant) for e in kw.value.elts):
                    found = [e.value for e in kw.value.elts]
            if found is None:
                # the same table written another way: second positional argument, a name bound once to the
                # literal in `_run` (or at module level), list(...)/tuple(...), a concatenation of literals
                value = next((kw.value for kw in node.keywords if kw.arg == 'names'), None)
                if value is None and len(node.args) >= 2:
                    value = node.args[1]
                scope = [tree]
                try:
                    scope.append(ast.parse(inspect.getsource(inspect.getmodule(cls))))
                except Exception:
                    pass
                found = _literal_strings(value, scope)
    return found


class TableModel(object):
    def __init__(self, name='Tables'):
        import sys
        import os
        sys.path.insert(0, os.path.dirname(os.path.dirname(os.path.abspath(__file__))))
        from harness import catalog
        from exactpack.base import ExactSolver
        self.name = name
        self.rows = []
        rng = random.Random(12345)
        classes = catalog.discover()
        for path, c in sorted(classes.items()):
            e = catalog.entry(path)
            declared = list(c.parameters)
            defaulted = [p for p in declared if hasattr(c, p)]
            parents = [k.__name__ for k in c.__mro__[1:] if issubclass(k, ExactSolver) and k is not ExactSolver]
            own_run = '_run' in c.__dict__
            fields, how = None, 'none'
            if not e.slow and not e.unconstructible:
                try:
                    with warnings.catch_warnings(), contextlib.redirect_stdout(io.StringIO()):
                        warnings.simplefilter('ignore')
                        s, _ = catalog.build(path, c, rng)
                        sol = s(e.points(rng, max(2, e.min_n)), e.t(rng))
                    fields, how = list(sol.dtype.names), 'call'
                except Exception:
                    fields = None
            if fields is None:
                k = c
                for k in c.__mro__:
                    if '_run' in k.__dict__:
                        break
                st = static_names(k)
                if st is not None:
                    fields, how = st, 'ast'
            self.rows.append(dict(path=path, name=c.__name__, module=c.__module__, declared=declared,
                                  defaulted=defaulted, parents=parents, own_run=own_run,
                                  own_init='__init__' in c.__dict__,
                                  none_defaults=[q for q in declared if hasattr(c, q) and getattr(c, q) is None],
                                  fields=fields or [], how=how, dim=e.dim,
                                  usable=not e.unconstructible, grid=e.grid))

    def real_file(self):
        def lst(xs):
            return '[' + ', '.join('"%s"' % x for x in xs) + ']'
        o = [HEADER, '', 'namespace EPV.Gen.Tables', '',
             '/-- one public solver class, as found by introspection of exactpack.solvers -/',
             'structure Cls where', '  name : String', '  module : String', '  declared : List String',
             '  defaulted : List String', '  noneDefaults : List String', '  parents : List String', '  ownRun : Bool', '  ownInit : Bool', '  fields : List String',
             '  dim : Nat', '  usable : Bool', '  grid : Bool', '  deriving Repr, DecidableEq', '',
             'def classes : List Cls := [']
        rows = []
        for r in self.rows:
            rows.append('  { name := "%s", module := "%s", declared := %s, defaulted := %s, noneDefaults := %s, parents := %s, ownRun := %s, ownInit := %s, '
                        'fields := %s, dim := %d, usable := %s, grid := %s }'
                        % (r['name'], r['module'], lst(r['declared']), lst(r['defaulted']), lst(r['none_defaults']), lst(r['parents']),
                           'true' if r['own_run'] else 'false', 'true' if r['own_init'] else 'false',
                           lst(r['fields']), r['dim'],
                           'true' if r['usable'] else 'false', 'true' if r['grid'] else 'false'))
        o.append(',\n'.join(rows))
        o += [']', '', 'end EPV.Gen.Tables', '']
        return '\n'.join(o)

    def describe(self):
        return {'name': self.name, 'source': 'introspection of exactpack.solvers', 'params': [], 'pvars': [],
                'tvar': None, 'fields': [], 'conds': {}, 'leaves': [], 'consts': {},
                'rows': self.rows}
