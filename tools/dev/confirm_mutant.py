#!/venv/bin/python
"""dev tool: confirm a seeded change independently (scratch worktree, never /repo) and store it under /verif/seeded/<id>/.
   usage: confirm_mutant.py <src dir with patch.diff demo.py meta.json> <seed id> <check results json or ->"""
import json, os, subprocess, sys, shutil
src, sid = sys.argv[1], sys.argv[2]
WT = '/tmp/mut_confirm_' + os.environ.get('MUT_SLOT', '0')
def sh(cmd, **kw):
    return subprocess.run(cmd, shell=True, capture_output=True, text=True, **kw)
if not os.path.isdir(WT):
    sh('git -C /repo worktree add -q %s HEAD' % WT)
sh('git -C %s checkout -q -- . && git -C %s clean -fdq && git -C %s reset -q --hard $(git -C /repo rev-parse HEAD)' % (WT, WT, WT))
meta = json.load(open(os.path.join(src, 'meta.json')))
env = dict(os.environ, PYTHONPATH=WT)
r0 = subprocess.run(['/venv/bin/python', os.path.join(src, 'demo.py')], capture_output=True, text=True, env=env, cwd=WT, timeout=3000)
ap = sh('git -C %s apply %s' % (WT, os.path.join(src, 'patch.diff')))
r1 = subprocess.run(['/venv/bin/python', os.path.join(src, 'demo.py')], capture_output=True, text=True, env=env, cwd=WT, timeout=3000)
files = [l[6:] for l in open(os.path.join(src, 'patch.diff')) if l.startswith('+++ b/')]
tests = set()
for f in files:
    parts = f.split('/')
    if 'solvers' in parts:
        pk = parts[parts.index('solvers') + 1]
        for cand in os.listdir(os.path.join(WT, 'exactpack/tests')):
            if cand.startswith('test_') and (pk.split('_')[0] in cand or (pk == 'nohblackboxeos' and 'nohblackbox' in cand) or (pk == 'blake' and 'elastic' in cand)):
                tests.add('exactpack/tests/' + cand)
    if f.endswith('base.py'):
        tests.update(['exactpack/tests/test_noh.py', 'exactpack/tests/test_cog.py', 'exactpack/tests/test_kenamond.py'])
tr = subprocess.run(['/venv/bin/python', '-m', 'pytest', '-q', '-p', 'no:cacheprovider', '-n', '8', '--timeout=900'] + sorted(tests),
                    capture_output=True, text=True, env=env, cwd=WT, timeout=6000)
tail = [l for l in tr.stdout.strip().split('\n') if l.strip()][-1] if tr.stdout.strip() else ''
failed = [l for l in tr.stdout.split('\n') if l.startswith('FAILED')]
only_baseline = all('test_riemLeegen_region_boundaries' in l for l in failed)
sh('git -C %s checkout -q -- .' % WT)
ok = (r0.returncode == 0 and ap.returncode == 0 and r1.returncode != 0 and only_baseline)
print(sid, 'demo clean rc=%d, patched rc=%d, apply rc=%d, tests: %s, failed=%s => %s' % (r0.returncode, r1.returncode, ap.returncode, tail, failed, 'CONFIRMED' if ok else 'NOT CONFIRMED'))
if ok:
    dst = os.path.join('/verif/seeded', sid)
    os.makedirs(dst, exist_ok=True)
    for f in ('patch.diff', 'demo.py'):
        shutil.copy(os.path.join(src, f), os.path.join(dst, f))
    meta['confirmed'] = dict(demo_on_clean_tree='exit 0', demo_with_patch='exit %d' % r1.returncode,
                             demo_output=(r1.stdout + r1.stderr)[-400:], tests_run=sorted(tests), tests_result=tail,
                             method='scratch worktree of /repo HEAD + PYTHONPATH override (never applied to /repo while work packages were running)')
    if len(sys.argv) > 3 and sys.argv[3] != '-':
        meta['checks'] = json.loads(sys.argv[3])
    json.dump(meta, open(os.path.join(dst, 'meta.json'), 'w'), indent=1)
