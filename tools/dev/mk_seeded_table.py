#!/venv/bin/python
"""dev tool: the §0.6 table of DESIGN.md from seeded/<id>/meta.json and seeded/RESULTS.json"""
import glob, json, os, re
res = json.load(open('/verif/seeded/RESULTS.json'))
def key(p):
    m = re.match(r'.*/(C\d\d)-(\d+)/meta.json', p); return (m.group(1), int(m.group(2)))
rows = []
for m in sorted(glob.glob('/verif/seeded/C*-*/meta.json'), key=key):
    sid = os.path.basename(os.path.dirname(m))
    d = json.load(open(m))
    what = re.sub(r'\s+', ' ', d.get('what', '')).strip()
    files = ', '.join(os.path.basename(f) for f in d.get('files', []))
    short = what[:150].rsplit(' ', 1)[0] + '…' if len(what) > 150 else what
    r = res.get(sid, {})
    fr = (r.get('first_run') or '?').replace('|', '/')
    st = (r.get('strengthened') or '—').replace('|', '/')
    rows.append('| %s | %s: %s | %s | %s |' % (sid, files, short.replace('|', '/'), fr, st))
print('| id | change | first run | after strengthening |')
print('|---|---|---|---|')
print('\n'.join(rows))
first = [res.get(os.path.basename(os.path.dirname(m)), {}).get('first_run') or '' for m in glob.glob('/verif/seeded/C*-*/meta.json')]
res_items = [res.get(os.path.basename(os.path.dirname(m)), {}) for m in glob.glob('/verif/seeded/C*-*/meta.json')]
caught = sum(1 for x in res_items if (x.get('first_run') or '').lower().startswith('caught'))
gaps = sum(1 for x in res_items if (x.get('strengthened') or '').lower().startswith('not strengthened'))
print()
print('%d seeded changes; %d reported by the property\'s check on the first run, %d not (missed, or the check itself failed) and reported '
      'after strengthening, %d recorded as open gaps.' % (len(res_items), caught, len(res_items) - caught - gaps, gaps))
