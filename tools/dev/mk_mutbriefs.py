#!/venv/bin/python
"""dev tool: write the briefs for a round of independent seeded-change sub-agents (they see ONLY this text).
   usage: mk_mutbriefs.py <round> <n per property> [extra emphasis text file]"""
import glob, json, os, sys
rnd, n = sys.argv[1], int(sys.argv[2])
extra = open(sys.argv[3]).read() if len(sys.argv) > 3 else ''
tmpl = open('/verif/tools/dev/MUTANT_BRIEF.md').read()
props = [json.loads(l) for l in open('/verif/properties.jsonl')]
for p in props:
    pid = p['id']
    avoid = []
    for m in sorted(glob.glob('/verif/seeded/%s-*/meta.json' % pid)):
        d = json.load(open(m))
        avoid.append('- %s: %s' % (', '.join(os.path.basename(f) for f in d.get('files', [])), d.get('what', '')[:160]))
    wt = '/tmp/mut%s_%s' % (rnd, pid.lower())
    txt = tmpl.format(worktree=wt, n=n, outdir='/tmp/mutants%s/%s' % (rnd, pid), pid=pid, title=p['title'],
                      statement=p['statement'], quantifier=p['quantifier']['text'])
    ins = ''
    if avoid:
        ins += 'These ideas were already tried by others — do something DIFFERENT (other solvers/modules of the property, other mechanisms):\n' + '\n'.join(avoid) + '\n'
    ins += extra
    ins += ('Never use `git stash` (the stash is shared between all worktrees of /repo): to go back to a clean tree use '
            '`git -C %s diff > /tmp/x.diff; git -C %s checkout -- .`.\n\n' % (wt, wt))
    txt = txt.replace('For each change deliver,', ins + 'For each change deliver,', 1)
    open('/tmp/mutbrief%s_%s.txt' % (rnd, pid), 'w').write(txt)
print('written', len(props))
