"""dev tool (not part of any check): write lean/EPV/Props/C03/Cog.lean.
The output is committed and hand-maintained afterwards."""
K = '(p.geometry - 1)'
GAMMA = {3: '((%s - 1) / (%s + 1))' % (K, K), 5: '((1:ℝ) / 2)', 6: '((%s + 3) / (%s + 1))' % (K, K),
         7: '((%s + 3) / (%s + 1))' % (K, K), 18: '((%s + 3) / (%s + 1))' % (K, K), 21: '(5:ℝ)'}
COG = [1, 2, 3, 4, 5, 6, 7, 8, 9, 10, 11, 12, 13, 14, 16, 17, 18, 19, 20, 21]
o = ['''/-
C03 — Coggeshall solutions: the returned thermodynamic fields obey the declared
equation of state  p = Γ ρ T  and  e = Γ T / (γ - 1)  (γ the solver's own adiabatic
index: a parameter, or the value its documentation derives from the geometry).

Stated on the tree-level generated definitions, so every leaf of the traced
decision tree is covered; on NaN leaves the hypothesis `outcome = ok` is false.
-/''']
o += ['import EPV.Gen.Cog%d' % n for n in COG] + ['import EPV.Tactics']
o += ['', 'set_option linter.all false', '', 'open EPV EPV.Gen', '', 'namespace EPV.C03', '']
for n in COG:
    g = GAMMA.get(n, 'p.gamma')
    o.append('''/-- Cog%(n)d: p = Γ ρ T at every point the solver returns numbers -/
theorem cog%(n)d_pressure (p : Cog%(n)d.P) (r t : ℝ) (h : Cog%(n)d.outcome p r t = .ok) :
    Cog%(n)d.pressure p r t = p.Gamma * Cog%(n)d.density p r t * Cog%(n)d.temperature p r t := by
  epv_on_leaves epv_leaf_ring

/-- Cog%(n)d: e = Γ T / (γ - 1) wherever the density does not vanish (γ ≠ 1) -/
theorem cog%(n)d_energy (p : Cog%(n)d.P) (r t : ℝ) (h : Cog%(n)d.outcome p r t = .ok)
    (hρ : Cog%(n)d.density p r t ≠ 0) (hγ : %(g)s - 1 ≠ 0) :
    Cog%(n)d.specific_internal_energy p r t = p.Gamma * Cog%(n)d.temperature p r t / (%(g)s - 1) := by
  have hp := cog%(n)d_pressure p r t h
  have he : Cog%(n)d.specific_internal_energy p r t
      = Cog%(n)d.pressure p r t / Cog%(n)d.density p r t / (%(g)s - 1) := by
    clear hp hρ hγ
    epv_on_leaves epv_leaf_ring
  rw [he, hp]
  field_simp
''' % dict(n=n, g=g))
o += ['end EPV.C03', '']
open('/verif/lean/EPV/Props/C03/Cog.lean', 'w').write('\n'.join(o))
