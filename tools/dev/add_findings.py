#!/venv/bin/python
"""dev tool: append known-finding entries (JSON list on stdin) to known_findings.json, skipping duplicates; atomic."""
import json, os, sys
p = '/verif/known_findings.json'
kf = json.load(open(p))
have = {(e.get('obligation'), e.get('site')) for e in kf}
n = 0
for e in json.load(sys.stdin):
    e.setdefault('status', 'finding')
    if (e['obligation'], e['site']) not in have:
        kf.append(e); have.add((e['obligation'], e['site'])); n += 1
json.dump(kf, open(p + '.tmp', 'w'), indent=1); os.replace(p + '.tmp', p)
print('added', n, 'total', len(kf))
