#!/bin/sh
# dev tool: combine the stored behaviour-preserving refactors of each family into as few union patches as apply together
# (the diffs of a union touch different code; a union that is not quiet is then run diff by diff).  Output: /tmp/harmless_unions/
set -e
OUT=/tmp/harmless_unions; rm -rf $OUT; mkdir -p $OUT
WT=/tmp/harmless_union_wt
[ -d $WT ] || git -C /repo worktree add -q $WT HEAD
for fam in noh hydro riemann heat deton base eos semi; do
  todo=$(ls /verif/seeded/harmless/$fam-[0-9]*.diff 2>/dev/null | sort -V)
  k=0
  while [ -n "$todo" ]; do
    k=$((k+1)); rest=""; members=""
    git -C $WT checkout -q -- . ; git -C $WT clean -fdq; git -C $WT reset -q --hard $(git -C /repo rev-parse HEAD)
    for d in $todo; do
      if git -C $WT apply --check $d 2>/dev/null; then git -C $WT apply $d; members="$members $(basename $d)"; else rest="$rest $d"; fi
    done
    [ -n "$members" ] || { echo "cannot apply: $todo"; break; }
    git -C $WT diff > $OUT/$fam-u$k.diff
    echo "$fam-u$k:$members" >> $OUT/MEMBERS
    todo=$rest
  done
done
git -C $WT checkout -q -- . ; git -C /repo worktree remove --force $WT
cat $OUT/MEMBERS
