#!/venv/bin/python
"""Writes lean/EPV/Props/C07/Wrappers.lean: one theorem per geometry wrapper class
(Planar/Cylindrical/Spherical<Noh|Noh2|CogN>, Kidder74, Kidder76).

The *statements* are fixed by this table, not by the code: the geometry comes from the
class NAME (Planar = 1, Cylindrical = 2, Spherical = 3), the parameters a wrapper does not
declare take the documented values (the general class's defaults; b = 3 for Kidder74 and
b = 0 for Kidder76 as their docstrings say).  Run once, commit the output:

    /venv/bin/python tools/dev/mk_c07_wrappers.py
"""
import fractions
import os
import sys

HERE = os.path.dirname(os.path.abspath(__file__))
sys.path.insert(0, os.path.dirname(HERE))

from py2lean.targets.t_wrappers import WRAPPERS      # noqa: E402
from py2lean.trace import load                        # noqa: E402
from py2lean.emit import ident                        # noqa: E402

# documented values of the parameters a wrapper does not declare (besides geometry)
DOC = {'Kidder74': {'b': 3}, 'Kidder76': {'b': 0}}


def lit(x):
    fr = fractions.Fraction(x).limit_denominator(10000)
    assert float(fr) == float(x), x
    s = '%d' % abs(fr.numerator) if fr.denominator == 1 else '%d / %d' % (abs(fr.numerator), fr.denominator)
    return '(-%s)' % s if fr < 0 else s


def lname(w):
    return w[0].lower() + w[1:]


def main():
    import json
    man = json.load(open(os.path.join(os.path.dirname(os.path.dirname(HERE)), 'lean', 'EPV', 'Gen', 'gen_manifest.json')))
    out = []
    parents = []
    for w in WRAPPERS:
        if w['parent'] not in parents:
            parents.append(w['parent'])
    out.append('''/-
C07 — every geometry-specific wrapper class returns the fields of the general class at that
geometry.

GENERATED ONCE by tools/dev/mk_c07_wrappers.py and committed (the statements are fixed by
the table in that script: geometry from the class *name*, undeclared parameters at their
documented values).  For each wrapper `W` of a general class `M`:

    theorem <w>_eq_general (p : W.P) (q : M.P) (r t : ℝ)
        (declared parameters of W agree: q.x = p.x) (q.geometry = 1|2|3) (undeclared: q.y = documented value) :
        W.outcome p r t = M.outcome q r t ∧ W.<field> p r t = M.<field> q r t ∧ …   (every returned field)

Both models are traces of the same inherited `_run`; in the wrapper's model the fixed
attributes are literals (folded by Python: `geometry - 1.` is already a number), in the
general model they are symbols.  No hypothesis on parameters, r or t is needed: the two
sides are the same expression after evaluating the literals.  (The conduction symbols
`a_rad … lam0_` of the general Coggeshall models belong to the derived heat flux and do
not occur in the returned fields; they are left free.)
-/''')
    for m in parents:
        out.append('import EPV.Gen.%s' % m)
    for w in WRAPPERS:
        out.append('import EPV.Gen.%s' % w['name'])
    out.append('''import EPV.Tactics

set_option linter.all false

open EPV EPV.Gen
open Classical

namespace EPV.C07

/-- a path condition of the general model is the wrapper's condition once the parameter
agreement is substituted and the literals are evaluated -/
macro "wrapper_cond" : tactic =>
  `(tactic| (
    simp only [epv_cond, *]
    try first
      | exact Iff.rfl
      | (norm_num; done)
      | (constructor <;> intro h <;> norm_num at h ⊢ <;> linarith)))

/-- unfold both trees, rewrite the general model's path conditions into the wrapper's (so both
sides branch on literally the same propositions), split, and compare the leaves: substitute the
parameter agreement, evaluate the literals; what is left differs at most by ring normalisation -/
macro "wrapper_eq" : tactic =>
  `(tactic| (
    simp only [epv_tree, *]
    (repeat' constructor) <;> (try split_ifs) <;> (try simp only [epv_leaf, *]) <;>
      first | rfl | ring1 | (norm_num; done) | (ring_nf; done) | (field_simp; done) | (field_simp; ring1)))
''')
    for w in WRAPPERS:
        _, W = load(w['cls'])
        _, M = load(w['parent_cls'])
        fields = man[w['parent']]['fields']
        assert man[w['name']]['fields'] == fields
        hyps = []
        for k in sorted(M.parameters):
            if k in W.parameters:
                hyps.append('(h_%s : q.%s = p.%s)' % (k, ident(k), ident(k)))
            elif k == 'geometry':
                hyps.append('(h_geometry : q.geometry = %d)' % w['geometry'])
            else:
                v = DOC.get(w['name'], {}).get(k, getattr(M, k))
                hyps.append('(h_%s : q.%s = %s)' % (k, ident(k), lit(v)))
        concl = ['%s.outcome p r t = %s.outcome q r t' % (w['name'], w['parent'])]
        concl += ['%s.%s p r t = %s.%s q r t' % (w['name'], ident(f), w['parent'], ident(f)) for f in fields]
        conds = sorted(man[w['name']]['conds'], key=lambda c: int(c[1:]))
        assert conds == sorted(man[w['parent']]['conds'], key=lambda c: int(c[1:])), w['name']
        assert [(l['kind'], l['path']) for l in man[w['name']]['leaves']] == \
            [(l['kind'], l['path']) for l in man[w['parent']]['leaves']], w['name']
        body = ''.join('  have h%s : %s.%s q r t ↔ %s.%s p r t := by wrapper_cond\n' % (c, w['parent'], c, w['name'], c)
                       for c in conds)
        body += '  wrapper_eq\n'
        out.append('theorem %s_eq_general (p : %s.P) (q : %s.P) (r t : ℝ)\n    %s :\n    %s := by\n%s'
                   % (lname(w['name']), w['name'], w['parent'], ' '.join(hyps), ' ∧\n    '.join(concl), body))
        # non-vacuity: for every wrapper parameter set there is such a general parameter set
        vals = {}
        props = []
        for k in sorted(M.parameters):
            if k in W.parameters:
                vals[ident(k)] = 'p.%s' % ident(k)
            elif k == 'geometry':
                vals['geometry'] = '%d' % w['geometry']
            else:
                vals[ident(k)] = lit(DOC.get(w['name'], {}).get(k, getattr(M, k)))
            props.append('q.%s = %s' % (ident(k), vals[ident(k)]))
        for k in man[w['parent']]['all_params']:
            vals.setdefault(ident(k), '0')
        out.append('example (p : %s.P) : ∃ q : %s.P, %s :=\n  ⟨{ %s }, %s⟩\n'
                   % (w['name'], w['parent'], ' ∧ '.join(props), ', '.join('%s := %s' % kv for kv in sorted(vals.items())),
                      ', '.join('rfl' for _ in props)))
    out.append('end EPV.C07\n')
    path = os.path.join(os.path.dirname(os.path.dirname(HERE)), 'lean', 'EPV', 'Props', 'C07', 'Wrappers.lean')
    with open(path, 'w') as f:
        f.write('\n'.join(out))
    print('wrote', path, len(WRAPPERS), 'theorems')


if __name__ == '__main__':
    main()
