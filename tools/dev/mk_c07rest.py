#!/venv/bin/python
"""Writes the "same trace" theorems of work package c07rest (run once, commit the output):

    lean/EPV/Props/C07/SedovWrappersGen.lean     Planar/Cylindrical/SphericalSedov  = Sedov at that geometry, documented values
    lean/EPV/Props/C07/BBNohWrappersGen.lean     Planar/Cylindrical/SphericalNohBlackBox = NohBlackBoxEos(symmetry k-1, geometry k)

For a pair (W, G) of generated models (targets/t_c07rest.py) with the same symbols, one theorem

    theorem <name> (p : W.P) [r t] : W.outcome p … = G.outcome (toG p) … ∧ W.<field> p … = G.<field> (toG p) … ∧ …

for EVERY output of the manifest; the proof is `rfl` (the two traces are the same DAG, the definitions unfold to the
same term).  The hand-written statements about tables, constants and the findings are in SedovWrappers.lean /
BBNohWrappers.lean, which import these files.

    /venv/bin/python tools/dev/mk_c07rest.py
"""
import json
import os
import sys

HERE = os.path.dirname(os.path.abspath(__file__))
ROOT = os.path.dirname(os.path.dirname(HERE))
sys.path.insert(0, os.path.dirname(HERE))

from py2lean.emit import ident      # noqa: E402

SEDOV_PAIRS = [
    ('sedovPlanar_init_eq_general', 'SedovWPlanarInit', 'SedovG1Init'),
    ('sedovCylindrical_init_eq_general', 'SedovWCylindricalInit', 'SedovG2Init'),
    ('sedovSpherical_init_eq_general', 'SedovWSphericalInit', 'SedovG3Init'),
    ('sedovPlanar_run_eq_general', 'SedovWPlanarRun', 'SedovG1Run'),
    ('sedovCylindrical_run_eq_general', 'SedovWCylindricalRun', 'SedovG2Run'),
    ('sedovSpherical_run_eq_general', 'SedovWSphericalRun', 'SedovG3Run'),
    ('sedovSpherical_runSing_eq_general', 'SedovWSphericalRunSing', 'SedovG3RunSing'),
    ('sedovSpherical_runVac_eq_general', 'SedovWSphericalRunVac', 'SedovG3RunVac'),
]
BB_PAIRS = [
    ('bbinitPlanar_eq_general', 'BBInitPlanar', 'BBInitGen1'),
    ('bbinitCylindrical_eq_general', 'BBInitCylindrical', 'BBInitGen2'),
    ('bbinitSpherical_eq_general', 'BBInitSpherical', 'BBInitGen3'),
    ('bbrunPlanar_eq_general', 'BBRunPlanar', 'BBRunGen1'),
    ('bbrunCylindrical_eq_general', 'BBRunCylindrical', 'BBRunGen2'),
    ('bbrunSpherical_eq_general', 'BBRunSpherical', 'BBRunGen3'),
    # the general class at its own defaults (symmetry 2, geometry 3) is the spherical wrapper as well
    ('bbrunSpherical_eq_base', 'BBRunSpherical', 'BBRunBase'),
]


def theorems(pairs, man):
    out = []
    for name, W, G in pairs:
        w, g = man[W], man[G]
        assert w['status'] == 'ok' and g['status'] == 'ok', (W, G)
        assert w['all_params'] == g['all_params'] and w['fields'] == g['fields'] and w['pvars'] == g['pvars'] \
            and w['tvar'] == g['tvar'], (W, G)
        vs = w['pvars'] + ([w['tvar']] if w['tvar'] else [])
        bind = (' (%s : ℝ)' % ' '.join(vs)) if vs else ''
        args = (' ' + ' '.join(vs)) if vs else ''
        toG = '{ %s }' % ', '.join('%s := p.%s' % (ident(k), ident(k)) for k in w['all_params'])
        out.append('/-- the same symbols, read by the general-class model -/')
        out.append('def %s_params (p : %s.P) : %s.P := %s\n' % (name, W, G, toG))
        concl = ['%s.outcome p%s = %s.outcome (%s_params p)%s' % (W, args, G, name, args)]
        concl += ['%s.%s p%s = %s.%s (%s_params p)%s' % (W, ident(f), args, G, ident(f), name, args) for f in w['fields']]
        out.append('theorem %s (p : %s.P)%s :\n    %s :=\n  ⟨%s⟩\n' % (name, W, bind, ' ∧\n    '.join(concl), ', '.join('rfl' for _ in concl)))
    return out


def write(path, doc, pairs, man):
    mods = []
    for _, W, G in pairs:
        for m in (W, G):
            if m not in mods:
                mods.append(m)
    o = ['/-\n' + doc + '\n-/'] + ['import EPV.Gen.%s' % m for m in mods]
    o += ['', 'set_option linter.all false', '', 'open EPV EPV.Gen', '', 'namespace EPV.C07', '']
    o += theorems(pairs, man)
    o.append('end EPV.C07\n')
    with open(path, 'w') as f:
        f.write('\n'.join(o))
    print('wrote', path, len(pairs), 'theorems')


def main():
    man = json.load(open(os.path.join(ROOT, 'lean', 'EPV', 'Gen', 'gen_manifest.json')))
    d = os.path.join(ROOT, 'lean', 'EPV', 'Props', 'C07')
    write(os.path.join(d, 'SedovWrappersGen.lean'),
          'C07 — Sedov wrapper classes: the trace of the wrapper and the trace of `Sedov` at that geometry with the DOCUMENTED\n'
          'values (rho0 = 1, omega = 0, E0 = 0.0673185 / 0.311357 / 0.851072) are the same function, output by output:\n'
          'constructor attributes (…Init) and the whole of `_run` (…Run: standard type; …RunSing / …RunVac: spherical only).\n'
          'GENERATED ONCE by tools/dev/mk_c07rest.py and committed.  Proofs are `rfl`: both models unfold to the same term.',
          SEDOV_PAIRS, man)
    write(os.path.join(d, 'BBNohWrappersGen.lean'),
          'C07 — black-box Noh wrapper classes: the trace of `W(eos, ic)` and of `NohBlackBoxEos(eos, ic + symmetry k-1, geometry=k)`\n'
          'are the same function, output by output: constructor attributes for symbolic initial conditions (…Init) and the\n'
          'public route constructor + solve_jump_conditions + `_run` at the default initial conditions (…Run).\n'
          'GENERATED ONCE by tools/dev/mk_c07rest.py and committed.  Proofs are `rfl`: both models unfold to the same term.',
          BB_PAIRS, man)


if __name__ == '__main__':
    main()
