"""dev tool (work package sedov2; not part of any check): regenerates lean/EPV/Lemmas/SedovODEAlg.lean.

The logarithmic derivatives of the Sedov similarity functions are rational in v; for each branch and
each ODE bracket the script asks sympy for the numerator polynomial over the common denominator and
writes Lean lemmas `<b>_<ode>_num` (bracket = numerator/denominator, arbitrary constants),
`<b>_<ode>_c<i>_zero` (each coefficient vanishes for the constants of Sedov.__init__) and
`<b>_<ode>_bracket`.  Nothing computed here is trusted: Lean proves every identity.
Needs sympy:  python3-vt tools/dev/mk_sedov_ode_alg.py [OUT]"""
import os
import sys
OUT = sys.argv[1] if len(sys.argv) > 1 else os.path.join(os.path.dirname(os.path.abspath(__file__)), '..', '..', 'lean', 'EPV',
                                                        'Lemmas', 'SedovODEAlg.lean')
import sympy as sp
a0,a1,a2,a3,a4,a5,c,e,X,gamma,k,omega,v,av,c2,c6,b0=sp.symbols('a0 a1 a2 a3 a4 a5 c e X gamma k omega v av c2 c6 b0')
g=gamma; w=omega
s=X*v/2
D2=c*v-1; D3=1-e*v; D4=2-X*v; Dy=av*v-c2; D6=c6-av*v
def brackets(lL,lG,lH):
    lF=1/v+lL
    Bm=(s-1)*lG+s*lF+((k-1)*s-w)*lL
    Be=-(k-w)*lL+(s-1)*(lH-lG)+(g-1)*(s*lF+(k-1)*s*lL)
    Bp=(s-1)*lF-(k-w)/2*lL+(g-1)*X*v*D4/(8*D2)*lH
    return dict(mass=Bm,energy=Be,mom=Bp)
def L(x): return str(x).replace('**','^')
def numer(B,den):
    n=sp.expand(sp.cancel(sp.together(B*den)))
    P=sp.Poly(n,v)
    assert all(v not in cf.free_symbols for cf in P.all_coeffs())
    assert sp.fraction(sp.together(n))[1].free_symbols==set()
    return [sp.expand(cf) for cf in P.all_coeffs()[::-1]]
BR={}
# std
sL=-(a0/v+a2*c/D2-a1*e/D3)
sG=a0*w/v+(a3+a2*w)*c/D2-(a4+a1*w)*e/D3-a5*X/D4
sH=a0*k/v-(a4+a1*(w-2))*e/D3-(1+a5)*X/D4
BR['std']=dict(den='v * (c * v - 1) * (1 - e * v)',densym=v*D2*D3,br=brackets(sL,sG,sH))
# O2
dpp2=-(g+1)*b0*av*(1/Dy)*(1+(1-av*v)/Dy)
oL=-a0/v+(g-1)*b0*c/D2+dpp2
oG=a0*w/v+(4-k-2*g)*b0*c/D2-a5*X/D4-2*dpp2
oH=a0*k/v+(-k*g)*b0*c/D2-(1+a5)*X/D4
BR['o2']=dict(den='v * (c * v - 1) ^ 2 * (av * v - c2) ^ 2',densym=v*D2**2*Dy**2,br=brackets(oL,oG,oH))
# O3
dpp3=av*b0*g*k*(c6-1)*(g+1)/D6**2
tL=-(a0/v+a2*c/D2-a1*X/D4)
tG=a0*w/v+(a3+w*a2)*c/D2-(1-4*b0)*X/D4+dpp3
tH=a0*k/v-2*(k*(g-1)-g)*b0*X/D4+dpp3
BR['o3']=dict(den='v * (c * v - 1) * (2 - X * v) * (c6 - av * v) ^ 2',densym=v*D2*D4*D6**2,br=brackets(tL,tG,tH))

ARGS=dict(
 std=dict(L='a0 a1 a2 c e v',G='a0 a1 a2 a3 a4 a5 c e X omega v',H='a0 a1 a4 a5 e X k omega v',
          all='a0 a1 a2 a3 a4 a5 c e X',
          gens=[('c * v - 1','D2','h2'),('1 - e * v','D3','h3'),('2 - X * v','D4','h4')],
          hden='(h0 : v ≠ 0) (h2 : c * v - 1 ≠ 0) (h3 : 1 - e * v ≠ 0) (h4 : 2 - X * v ≠ 0)'),
 o2=dict(L='a0 b0 av c c2 gamma v',G='a0 a5 b0 av c c2 X gamma k omega v',H='a0 a5 b0 c X gamma k v',
          all='a0 a5 b0 av c c2 X',
          gens=[('c * v - 1','D2','h2'),('av * v - c2','Dy','h3'),('2 - X * v','D4','h4')],
          hden='(h0 : v ≠ 0) (h2 : c * v - 1 ≠ 0) (h3 : av * v - c2 ≠ 0) (h4 : 2 - X * v ≠ 0)'),
 o3=dict(L='a0 a1 a2 c X v',G='a0 a2 a3 b0 av c c6 X gamma k omega v',H='a0 b0 av c6 X gamma k v',
          all='a0 a1 a2 a3 b0 av c c6 X',
          gens=[('c * v - 1','D2','h2'),('c6 - av * v','D6','h3'),('2 - X * v','D4','h4')],
          hden='(h0 : v ≠ 0) (h2 : c * v - 1 ≠ 0) (h3 : c6 - av * v ≠ 0) (h4 : 2 - X * v ≠ 0)'),
)
DEFS=dict(
 std=dict(L='-(a0 / v + a2 * c / (c * v - 1) - a1 * e / (1 - e * v))',
          G='a0 * omega / v + (a3 + a2 * omega) * c / (c * v - 1) - (a4 + a1 * omega) * e / (1 - e * v) - a5 * X / (2 - X * v)',
          H='a0 * k / v - (a4 + a1 * (omega - 2)) * e / (1 - e * v) - (1 + a5) * X / (2 - X * v)'),
 o2=dict(L='-a0 / v + (gamma - 1) * b0 * c / (c * v - 1) + dpp2 b0 av c2 gamma v',
         G='a0 * omega / v + (4 - k - 2 * gamma) * b0 * c / (c * v - 1) - a5 * X / (2 - X * v) - 2 * dpp2 b0 av c2 gamma v',
         H='a0 * k / v + (-k * gamma) * b0 * c / (c * v - 1) - (1 + a5) * X / (2 - X * v)'),
 o3=dict(L='-(a0 / v + a2 * c / (c * v - 1) - a1 * X / (2 - X * v))',
         G='a0 * omega / v + (a3 + omega * a2) * c / (c * v - 1) - (1 - 4 * b0) * X / (2 - X * v) + dpp3 b0 av c6 gamma k v',
         H='a0 * k / v - 2 * (k * (gamma - 1) - gamma) * b0 * X / (2 - X * v) + dpp3 b0 av c6 gamma k v'),
)
# hypotheses tying the atoms to (gamma, k, omega): the code's formulas (sedov.py:81-137)
HYP=dict(
 std='''(hX0 : X ≠ 0) (hd20 : d2 ≠ 0) (hd30 : d3 ≠ 0) (hE0 : E ≠ 0) (hg0 : gamma ≠ 0)
    (hX : X = k + 2 - omega) (hd2 : d2 = 2 * (gamma - 1) + k - gamma * omega) (hd3 : d3 = k * (2 - gamma) - omega)
    (hE : E = 2 + k * (gamma - 1))
    (ha0 : a0 = 2 / X) (ha2 : a2 = -(gamma - 1) / d2) (ha1 : a1 = X * gamma / E * (2 * d3 / (gamma * X * X) - a2))
    (ha3 : a3 = (k - omega) / d2) (ha4 : a4 = X * (k - omega) * a1 / d3) (ha5 : a5 = (omega * (gamma + 1) - 2 * k) / d3)
    (hc : c = 1 / 2 * X * gamma) (he : e = 1 / 2 * E)''',
 o2='''(hE0 : E ≠ 0) (hg0 : gamma ≠ 0) (hg1 : gamma - 1 ≠ 0)
    (hE : E = 2 + k * (gamma - 1)) (hX : X = E / gamma) (hω : omega = k + 2 - E / gamma)
    (ha0 : a0 = 2 / X) (ha5 : a5 = (omega * (gamma + 1) - 2 * k) / (-(gamma - 1) * E / gamma))
    (hb0 : b0 = 1 / E) (hc : c = 1 / 2 * X * gamma) (hav : av = 1 / 4 * X * (gamma + 1)) (hc2 : c2 = (gamma + 1) / 2 / gamma)''',
 o3='''(hX0 : X ≠ 0) (hd20 : d2 ≠ 0) (hE0 : E ≠ 0) (hg0 : gamma ≠ 0)
    (hω : omega = k * (2 - gamma)) (hX : X = k + 2 - omega) (hd2 : d2 = 2 * (gamma - 1) + k - gamma * omega)
    (hE : E = 2 + k * (gamma - 1))
    (ha0 : a0 = 2 / X) (ha2 : a2 = -(gamma - 1) / d2) (ha1 : a1 = X * gamma / E * (2 * (k * (2 - gamma) - omega) / (gamma * X * X) - a2))
    (ha3 : a3 = (k - omega) / d2) (hb0 : b0 = 1 / E) (hc : c = 1 / 2 * X * gamma) (hav : av = 1 / 4 * X * (gamma + 1))
    (hc6 : c6 = (gamma + 1) / 2)''',
)
VARS=dict(std='gamma k omega X d2 d3 E a0 a1 a2 a3 a4 a5 c e',
          o2='gamma k omega X E a0 a5 b0 av c c2',
          o3='gamma k omega X d2 E a0 a1 a2 a3 b0 av c c6')
PROOF=dict(
 std='''  subst ha4 ha1 ha0 ha2 ha3 ha5 hc he
  field_simp
  subst hX hd2 hd3 hE
  ring''',
 o2='''  subst ha0 ha5 hb0 hc hav hc2 hX hω
  field_simp
  subst hE
  ring''',
 o3='''  subst ha1 ha0 ha2 ha3 hb0 hc hav hc6
  field_simp
  subst hX hd2 hE hω
  ring''')
out=[]
out.append('''/-
Sedov (C01 growth): the algebra behind "the similarity functions solve the similarity ODEs".

Each of λ, f, g, h of `sedov_funcs_standard` is a product of real powers (and, in the two ω-special
branches, an exponential) of functions of v that are affine (rational in the exponential), so its
logarithmic derivative is a rational function of v; with them the three parametric ODE residuals
factor as (positive function) × (bracket), `massODEv_factor` … below, where the bracket is a
rational function of v and of the constants a0…a5, a_val, c_val, e_val, xg2.

For each branch (standard: `s…`, omega2: `o…`, omega3: `t…`) and each bracket:
  * `…_num`: bracket = (numerator polynomial in v) / (product of the pole factors), for ARBITRARY
    values of the constants (proof: clear denominators, `ring`);
  * `…_c<i>`: every coefficient of that numerator vanishes once the constants have the values the
    constructor computes from (γ, k, ω) (sedov.py:81-137; in the ω-special branches: at the exactly
    special ω) — identities of rational functions of (γ, k, ω);
  * `…_bracket`: hence the bracket is 0.
The numerator polynomials were computed with a computer-algebra system and pasted; nothing about
them is trusted: Lean checks both the expansion and the vanishing of each coefficient.
Also: d log λ/dv = (positive) · N(v)/(…) with N(v) = γ(γ+1)X²v² - 4(γ+1)Xv + 8 > 0 (`N_pos`), which
gives dλ/dv ≠ 0 strictly inside each branch.
-/
import Mathlib.Tactic
import EPV.Spec.SedovODE

set_option linter.all false
set_option maxRecDepth 100000

open EPV.Spec.SedovODE

namespace EPV.Sedov.Alg

noncomputable section

/-! ### The three brackets, for arbitrary logarithmic derivatives lL, lG, lH (lF = 1/v + lL) -/

/-- mass bracket; s = X v/2 = (2/(γ+1)) a_val v -/
def Bmass (X k omega v lL lG : ℝ) : ℝ :=
  (X / 2 * v - 1) * lG + X / 2 * v * (1 / v + lL) + ((k - 1) * (X / 2 * v) - omega) * lL
/-- energy bracket -/
def Benergy (X gamma k omega v lL lG lH : ℝ) : ℝ :=
  -(k - omega) * lL + (X / 2 * v - 1) * (lH - lG) + (gamma - 1) * (X / 2 * v * (1 / v + lL) + (k - 1) * (X / 2 * v) * lL)
/-- momentum bracket; the factor of lH is ((γ-1)/(γ+1)) x1 x4/x2 -/
def Bmom (X c gamma k omega v lL lH : ℝ) : ℝ :=
  (X / 2 * v - 1) * (1 / v + lL) - (k - omega) / 2 * lL + (gamma - 1) * X * v * (2 - X * v) / (8 * (c * v - 1)) * lH

/-- mass ODE residual = G · L · bracket, when F = x1 L, L' = L lL, F' = F (1/v + lL), G' = G lG
and (2/(γ+1)) x1 = X v/2 -/
theorem massODEv_factor (gamma k omega X v L G x1 lL lG : ℝ) (hL : L ≠ 0) (hv : v ≠ 0) (hg : gamma + 1 ≠ 0)
    (hs : 2 / (gamma + 1) * x1 = X / 2 * v) :
    massODEv gamma k omega L (x1 * L) G (L * lL) (x1 * L * (1 / v + lL)) (G * lG) = G * L * Bmass X k omega v lL lG := by
  unfold massODEv Bmass
  rw [← hs]
  field_simp
  ring

theorem energyODEv_factor (gamma k omega X v L G H x1 lL lG lH : ℝ) (hL : L ≠ 0) (hG : G ≠ 0) (hv : v ≠ 0)
    (hg : gamma + 1 ≠ 0) (hs : 2 / (gamma + 1) * x1 = X / 2 * v) :
    energyODEv gamma k omega L (x1 * L) G H (L * lL) (x1 * L * (1 / v + lL)) (G * lG) (H * lH)
      = H / G * L * Benergy X gamma k omega v lL lG lH := by
  unfold energyODEv Benergy
  rw [← hs]
  field_simp
  ring

/-- momentum; `hH`: H x2 = G x1² L² x4 (the exponents of the four bases add up), with
x2 = b (c v - 1), x4 = b (1 - X v/2) -/
theorem momODEv_factor (gamma k omega X c v L G H x1 lL lH : ℝ) (hL : L ≠ 0) (hG : G ≠ 0) (hv : v ≠ 0)
    (hg : gamma + 1 ≠ 0) (h2 : c * v - 1 ≠ 0) (hs : 2 / (gamma + 1) * x1 = X / 2 * v)
    (hH : H * (c * v - 1) = G * x1 ^ 2 * L ^ 2 * (1 - X / 2 * v)) :
    momODEv gamma k omega L (x1 * L) G (L * lL) (x1 * L * (1 / v + lL)) (H * lH)
      = x1 * L ^ 2 * Bmom X c gamma k omega v lL lH := by
  have hHe : H = G * x1 ^ 2 * L ^ 2 * (1 - X / 2 * v) / (c * v - 1) := by
    rw [eq_div_iff h2]; exact hH
  have hx1 : x1 = (gamma + 1) / 2 * (X / 2 * v) := by
    rw [← hs]; field_simp
  unfold momODEv Bmom
  rw [hHe, hx1]
  generalize hD2 : c * v - 1 = D2 at h2 ⊢
  field_simp
  ring

/-- N(v) = γ(γ+1)X²v² - 4(γ+1)Xv + 8 has no real root for γ > 1 -/
theorem N_pos (gamma X v : ℝ) (hg : 1 < gamma) :
    0 < gamma * (gamma + 1) * X ^ 2 * v ^ 2 - 4 * (gamma + 1) * X * v + 8 := by
  have h : 0 < gamma * (gamma * (gamma + 1) * X ^ 2 * v ^ 2 - 4 * (gamma + 1) * X * v + 8) := by
    nlinarith [sq_nonneg (gamma * X * v - 2), mul_nonneg (by linarith : (0:ℝ) ≤ gamma + 1) (sq_nonneg (gamma * X * v - 2))]
  exact (mul_pos_iff_of_pos_left (by linarith : (0:ℝ) < gamma)).mp h
''')
names=dict(std='s',o2='o',o3='t')
for br in ('std','o2','o3'):
    A=ARGS[br]; D=DEFS[br]; n=names[br]
    out.append('\n/-! ### %s branch -/\n' % dict(std='Standard',o2='omega2',o3='omega3')[br])
    if br=='o2':
        out.append('/-- d/dv of pp2 = (γ+1) β0 (1-x1)/(x1-c2), as coded (`dpp2dv`) -/\ndef dpp2 (b0 av c2 gamma v : ℝ) : ℝ := -(gamma + 1) * b0 * av * (1 / (av * v - c2)) * (1 + (1 - av * v) / (av * v - c2))\n')
    if br=='o3':
        out.append('/-- d/dv of pp3 = -kγ(γ+1) β0 (1-x1)/(c6-x1) -/\ndef dpp3 (b0 av c6 gamma k v : ℝ) : ℝ := av * b0 * gamma * k * (c6 - 1) * (gamma + 1) / (c6 - av * v) ^ 2\n')
    for fn in 'LGH':
        out.append('def %s%s (%s : ℝ) : ℝ :=\n  %s\n' % (n,fn,A[fn],D[fn]))
    unf=' '.join('%s%s'%(n,fn) for fn in 'LGH')+(' dpp2' if br=='o2' else ' dpp3' if br=='o3' else '')
    for ode,call in (('mass','Bmass X k omega v (%sL %s) (%sG %s)'%(n,A['L'],n,A['G'])),
                     ('energy','Benergy X gamma k omega v (%sL %s) (%sG %s) (%sH %s)'%(n,A['L'],n,A['G'],n,A['H'])),
                     ('mom','Bmom X c gamma k omega v (%sL %s) (%sH %s)'%(n,A['L'],n,A['H']))):
        cs=numer(BR[br]['br'][ode],BR[br]['densym'])
        cname=lambda i: '%s_%s_c%d'%(n,ode,i)
        nz=[i for i,cf in enumerate(cs) if cf!=0]
        # coefficient definitions
        for i in nz:
            out.append('def %s (%s gamma k omega : ℝ) : ℝ :=\n  %s\n' % (cname(i),A['all'],L(cs[i])))
        num=' + '.join('%s %s gamma k omega * v ^ %d'%(cname(i),A['all'],i) for i in nz)
        gens='\n'.join('  generalize h%s : %s = %s at %s ⊢'%(d,ex,d,h) for ex,d,h in A['gens'])
        subs='subst '+' '.join('h'+d for ex,d,h in A['gens'])
        out.append('''theorem %s_%s_num (%s gamma k omega v : ℝ) %s :
    %s
      = (%s) / (%s) := by
  simp only [%s, Bmass, Benergy, Bmom, %s]
%s
  field_simp
  %s
  ring
''' % (n,ode,A['all'],A['hden'],call,num,BR[br]['den'],unf.replace(' ',', '),', '.join(cname(i) for i in nz),gens,subs))
        for i in nz:
            out.append('''theorem %s_zero (%s : ℝ)
    %s :
    %s %s gamma k omega = 0 := by
  unfold %s
%s
''' % (cname(i),VARS[br],HYP[br],cname(i),A['all'],cname(i),PROOF[br]))
        import re
        hn=' '.join(re.findall(r'\((h\w+) :',HYP[br]))
        rws=', '.join('%s_zero %s %s'%(cname(i),VARS[br],hn) for i in nz)
        out.append('''/-- the %s bracket of the %s branch vanishes for the constants of `__init__` -/
theorem %s_%s_bracket (%s v : ℝ)
    %s
    %s :
    %s = 0 := by
  rw [%s_%s_num %s gamma k omega v h0 h2 h3 h4, %s]
  simp
''' % (ode,br,n,ode,VARS[br],HYP[br],A['hden'],call,n,ode,A['all'],rws))

out.append('''
/-! ### d log λ / dv in closed form (sign of dλ/dv) -/

theorem s_L_eq (gamma k omega X d2 d3 E a0 a1 a2 a3 a4 a5 c e v : ℝ)
    %s
    %s :
    sL a0 a1 a2 c e v = (gamma * (gamma + 1) * X ^ 2 * v ^ 2 - 4 * (gamma + 1) * X * v + 8)
      / (4 * X * v * (c * v - 1) * (1 - e * v)) := by
  unfold sL
  generalize hD2 : c * v - 1 = D2 at h2 ⊢
  generalize hD3 : 1 - e * v = D3 at h3 ⊢
  subst ha1 ha0 ha2
  field_simp
  subst hD2 hD3 hc he hX hd2 hd3 hE
  ring

theorem o_L_eq (gamma k omega X E a0 a5 b0 av c c2 v : ℝ)
    %s
    %s (hgp : gamma + 1 ≠ 0) :
    oL a0 b0 av c c2 gamma v = -(gamma * (gamma * (gamma + 1) * X ^ 2 * v ^ 2 - 4 * (gamma + 1) * X * v + 8))
      / (4 * E * v * (c * v - 1) ^ 2) := by
  have hX0 : X ≠ 0 := by rw [hX]; exact div_ne_zero hE0 hg0
  have hXE : E = X * gamma := by rw [hX]; field_simp
  have hDy : av * v - c2 = (gamma + 1) / (2 * gamma) * (c * v - 1) := by
    subst hav hc hc2; field_simp; ring
  unfold oL dpp2
  rw [hDy]
  generalize hD2 : c * v - 1 = D2 at h2 ⊢
  subst ha0 hb0
  rw [hXE] at hE0 ⊢
  field_simp
  subst hD2 hc hav
  ring

theorem t_L_eq (gamma k omega X d2 E a0 a1 a2 a3 b0 av c c6 v : ℝ)
    %s
    %s :
    tL a0 a1 a2 c X v = (gamma * (gamma + 1) * X ^ 2 * v ^ 2 - 4 * (gamma + 1) * X * v + 8)
      / (2 * E * v * (c * v - 1) * (2 - X * v)) := by
  unfold tL
  generalize hD2 : c * v - 1 = D2 at h2 ⊢
  generalize hD4 : 2 - X * v = D4 at h4 ⊢
  subst ha1 ha0 ha2
  field_simp
  subst hD2 hD4 hc hX hd2 hE hω
  ring
''' % (HYP['std'],ARGS['std']['hden'],HYP['o2'],ARGS['o2']['hden'],HYP['o3'],ARGS['o3']['hden']))

open(OUT, "w").write('\n'.join(out)+'\nend\n\nend EPV.Sedov.Alg\n')
print('written',sum(len(x) for x in out))
