#!/bin/sh
# dev tool: evaluate round-2 seeded changes:  MUT_SLOT=n eval_mutants2.sh Cxx [extra checks...]   (reads /tmp/mutants2/Cxx/<k>/patch.diff)
P=$1; shift
for d in /tmp/mutants2/$P/*/; do
  k=$(basename $d)
  [ -f $d/patch.diff ] || continue
  echo "######## $P-$((k+3))"
  /verif/tools/dev/try_mutant.sh $d/patch.diff $P "$@" 2>&1 | grep -v "^regenerated" | tail -8
done
