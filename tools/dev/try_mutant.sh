#!/bin/sh
# dev tool: run checks against a seeded change WITHOUT touching /repo or /verif
# (other work may be reading them): a scratch worktree of /repo gets the patch, a scratch
# copy of /verif runs the checks with PYTHONPATH pointing at that worktree.
#   usage: try_mutant.sh <patch.diff> <Cxx> [<Cyy> ...]
set -e
PATCH=$(readlink -f "$1"); shift
SLOT=${MUT_SLOT:-0}
WT=/tmp/mut_apply_$SLOT
COPY=/tmp/verif_mut_$SLOT
[ -d $WT ] || git -C /repo worktree add -q $WT HEAD
git -C $WT checkout -q -- . ; git -C $WT clean -fdq
git -C $WT reset -q --hard $(git -C /repo rev-parse HEAD)
mkdir -p $COPY
rsync -a --delete --exclude evidence --exclude replays --exclude .git /verif/ $COPY/ || true   # files may vanish while others edit /verif
mkdir -p $COPY/evidence
git -C $WT apply "$PATCH"
cd $COPY
for P in "$@"; do
  echo "=== $P with $(basename $(dirname $PATCH))/$(basename $PATCH)"
  PYTHONPATH=$WT ./check $P 2>&1 | grep -v "^KNOWN-FINDING" | cut -c1-220 | tail -6 || true
done
git -C $WT checkout -q -- .
