"""dev tool (not part of any check): write lean/EPV/Props/C05/Positions{A,B,..}.lean — for every generated
solver-level model, the first field(s) of the returned record are the point that was passed, on every
path on which the solver returns numbers.  The output is committed and hand-maintained afterwards."""
import json
m = json.load(open('/verif/lean/EPV/Gen/gen_manifest.json'))
rows = []
for n, d in sorted(m.items()):
    if d.get('status') != 'ok':
        continue
    f, pv = d.get('fields') or [], d.get('pvars') or []
    if f and pv and (f[0].startswith('position') or f[0] in ('radius', 'x_position')):
        rows.append((n, pv, d.get('tvar'), f[:len(pv)]))
RES = {'at', 'in', 'from', 'end', 'do', 'then', 'else', 'if', 'fun', 'let', 'have', 'show', 'by', 'with', 'match'}
def ident(x):
    return x + '_' if x in RES else x
CH = 30
names = []
for k in range(0, len(rows), CH):
    part = rows[k:k + CH]
    tag = chr(ord('A') + k // CH)
    o = ['/-', 'C05 — "the first field(s) are the positions that were passed (unchanged)", on the models regenerated from',
         'the source: for every generated solver-level model and every path of its traced decision tree on which',
         'the solver returns numbers, the leading field(s) equal the symbolic point handed to `_run`.',
         'Part %s (models %s … %s).' % (tag, part[0][0], part[-1][0]), '-/']
    o += ['import EPV.Gen.%s' % r[0] for r in part]
    o += ['import EPV.Tactics', '', 'set_option linter.all false', 'set_option maxHeartbeats 1000000', '',
          'open EPV EPV.Gen', '', 'namespace EPV.C05', '']
    for n, pv, tv, fs in part:
        vs = ' '.join(ident(v) for v in pv + ([tv] if tv else []))
        concl = ' ∧ '.join('%s.%s p %s = %s' % (n, ident(f), vs, ident(v)) for f, v in zip(fs, pv))
        o.append('theorem positions_%s (p : %s.P) (%s : ℝ) (h : %s.outcome p %s = .ok) :\n    %s := by\n'
                 '  simp only [epv_tree] at h ⊢\n  epv_cases h\n  all_goals first | (exact absurd h (by decide)) | (simp only [epv_leaf] <;> trivial) | trivial\n'
                 % (n, n, vs, n, vs, concl))
        names.append('EPV.C05.positions_%s' % n)
    o += ['end EPV.C05', '']
    open('/verif/lean/EPV/Props/C05/Positions%s.lean' % tag, 'w').write('\n'.join(o))
json.dump(names, open('/verif/tools/dev/c05_positions.json', 'w'))
print(len(names))
