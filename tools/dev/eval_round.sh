#!/bin/sh
# dev tool: confirm + evaluate the seeded changes of one round:  MUT_SLOT=n eval_round.sh <round dir e.g. /tmp/mutants3> <id offset e.g. 5> Cxx [extra checks...]
DIR=$1; OFF=$2; P=$3; shift 3
for d in $DIR/$P/*/; do
  k=$(basename $d)
  [ -f $d/patch.diff ] || continue
  echo "######## $P-$((k+OFF))"
  /verif/tools/dev/confirm_mutant.py $d $P-$((k+OFF)) - 2>&1 | tail -1 | cut -c1-260
  /verif/tools/dev/try_mutant.sh $d/patch.diff $P "$@" 2>&1 | grep -v "^regenerated" | tail -8
done
