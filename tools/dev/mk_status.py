#!/venv/bin/python
"""dev tool: numbers for DESIGN.md §0 (obligations, theorems, findings, quick time per property; totals)"""
import glob, json, os, subprocess, sys
sys.path.insert(0, '/verif')
import obligations
kf = json.load(open('/verif/known_findings.json'))
tot_o = tot_t = 0
rows = []
for k in sorted(obligations.PROPS):
    ob = obligations.PROPS[k]['obligations']
    no, nt = len(ob), sum(len(o['theorems']) for o in ob)
    tot_o += no; tot_t += nt
    nf = sum(1 for e in kf if e['property'] == k and e['status'] == 'finding')
    try:
        ev = json.load(open('/verif/evidence/%s.json' % k)); w = '%s %.0f s' % (ev['tier'], ev['wall_s'])
    except Exception:
        w = '?'
    rows.append((k, no, nt, nf, w))
for r in rows:
    print('%s obligations=%d theorems=%d findings=%d last=%s' % r)
print('TOTAL obligations', tot_o, 'theorems', tot_t, 'findings', sum(1 for e in kf if e['status'] == 'finding'),
      'fixed', sum(1 for e in kf if e['status'] == 'fixed'))
print('generated models', len([f for f in os.listdir('/verif/lean/EPV/Gen') if f.endswith('.lean') and not f.endswith(('D.lean', 'F.lean'))]),
      'lean files', int(subprocess.run("find /verif/lean/EPV -name '*.lean' | wc -l", shell=True, capture_output=True, text=True).stdout),
      'hand lean lines', int(subprocess.run("find /verif/lean/EPV -name '*.lean' -not -path '*/Gen/*' | xargs cat | wc -l", shell=True, capture_output=True, text=True).stdout),
      'python lines', int(subprocess.run("find /verif/tools /verif/obligations -name '*.py' | xargs cat | wc -l", shell=True, capture_output=True, text=True).stdout))
for d in ('Spec', 'Lemmas', 'Model', 'Props'):
    print(d, int(subprocess.run("find /verif/lean/EPV/%s -name '*.lean' | wc -l" % d, shell=True, capture_output=True, text=True).stdout))
print('seeded', len(glob.glob('/verif/seeded/C*-*/meta.json')), 'harmless', len(glob.glob('/verif/seeded/harmless/*.diff')))
