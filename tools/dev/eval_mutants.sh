#!/bin/sh
# dev tool: confirm and evaluate every seeded change of one property:  eval_mutants.sh Cxx [other checks...]
P=$1; shift
for d in /tmp/mutants/$P/*/; do
  k=$(basename $d)
  [ -f $d/patch.diff ] || continue
  echo "######## $P-$k"
  /verif/tools/dev/confirm_mutant.py $d $P-$k - 2>&1 | tail -1
  /verif/tools/dev/try_mutant.sh $d/patch.diff $P "$@" 2>&1 | grep -v "^regenerated" | tail -8
done
