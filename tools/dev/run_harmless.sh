#!/bin/sh
# dev tool: run the family's checks on behaviour-preserving refactors (they must stay quiet):  MUT_SLOT=n run_harmless.sh <patch>...
checks_for() {
  case "$1" in
    noh*|hydro*) echo "C01 C02 C03 C07 C08 C10 C17 C20" ;;
    riemann*)    echo "C02 C03 C04 C07 C08 C09 C10 C17 C20" ;;
    heat*)       echo "C14 C07 C08 C20" ;;
    deton*)      echo "C13 C15 C09 C08 C02 C03 C10 C17 C20 C01 C07" ;;
    base*)       echo "C05 C06 C20" ;;
    eos*)        echo "C16 C02 C03 C07 C08 C17 C20" ;;
    semi*)       echo "C11 C12 C18 C19 C01 C02 C03 C08 C10 C17 C20" ;;
  esac
}
for p in "$@"; do
  b=$(basename $p .diff)
  /verif/tools/dev/try_mutant.sh $p $(checks_for $b) 2>&1 | grep "^=== \|^VIOLATION\|quick:" | cut -c1-200 | sed "s/^/[$b] /"
done
