"""Sedov, work package sedov2: the similarity functions solve the similarity ODEs (C01) and the
mass integral (C11) — numeric oracles on the REAL `sedov_funcs_standard`, and the tie of the
generated constant models.

  ode         at a point v strictly inside the solution branch, (lambda, f, g, h)(v) of the real
              method are differentiated by 4th-order central differences in v and put into the
              parametric similarity ODEs written from the Euler equations (the same expressions as
              Spec/SedovODE.lean: massODEv, momODEv, energyODEv); each residual is scaled by the sum
              of the magnitudes of its terms.  Also: the returned `dlamdv` against the finite
              difference, and its sign (lambda increases on the standard branch, decreases on the
              vacuum branch).  Confirmed by step halving.  Inside the special-singularity bands
              (|denom2| or |denom3| <= 1e-4 but not 0) the code uses the closed forms of the exactly
              special omega, which are approximations there: the tolerance is widened by 2|denom|.
  mass_v      int g lambda^(k-1) (dlambda/dv) dv over the branch, by scipy quadrature in v-space,
              against (gamma-1)/((gamma+1)(k-omega))  (the identity proved in Props/C11/SedovMass.lean);
              includes the regimes with integrable end-point singularities.
  tie_consts  Float twins of SedovConsts (the traced constructor with the constants a0..e_val as
              outputs) and SedovEnds against the real constructor.
Calibration on the unchanged tree (300 random + special cases): worst ODE residual 1.8e-10, worst
mass defect 2.2e-10; tolerances 1e-8."""
import math
import warnings

import numpy as np

from . import oracle as O
from . import o_sedov as S0

ODE_TOL = 1e-8
MASS_TOL = 1e-8

EXACT_SPECIAL = [
    dict(geometry=3, gamma=1.4, rho0=1.0, omega=1.8, eblast=0.851072),                     # omega3
    dict(geometry=3, gamma=1.4, rho0=1.0, omega=(2 * 0.4 + 3) / 1.4, eblast=0.851072),     # omega2
    dict(geometry=2, gamma=1.4, rho0=1.0, omega=1.2, eblast=0.311357),                     # omega3
    dict(geometry=3, gamma=1.7, rho0=1.0, omega=(2 * 0.7 + 3) / 1.7, eblast=1.0),          # omega2
    dict(geometry=3, gamma=1.7, rho0=1.0, omega=3 * 0.3, eblast=1.0),                      # omega3
]
BAND = [
    dict(geometry=3, gamma=1.4, rho0=1.0, omega=1.8 + 3e-5, eblast=1.0),                   # omega3 band
    dict(geometry=3, gamma=1.4, rho0=1.0, omega=(2 * 0.4 + 3) / 1.4 + 3e-5, eblast=1.0),   # omega2 band
    dict(geometry=2, gamma=1.4, rho0=1.0, omega=1.2 - 9e-5, eblast=1.0),                   # omega3 band
]
DEFAULTS = [dict(geometry=k, gamma=1.4, rho0=1.0, omega=0.0, eblast=1.0) for k in (1, 2, 3)]


def branch(s):
    return (s.v0, s.v2) if s.solution_type == 'standard' else (s.v2, s.vv)


def band_slack(s):
    """0 off the bands; 2|denom| of the TRUE denominator inside a band"""
    d2 = 2.0 * s.gamm1 + s.geometry - s.gamma * s.omega
    d3 = s.geometry * (2.0 - s.gamma) - s.omega
    if s.special_singularity == 'omega2':
        return 2.0 * abs(d2)
    if s.special_singularity == 'omega3':
        return 2.0 * abs(d3)
    return 0.0


def residuals(s, v, h):
    k, gam, om = float(s.geometry), s.gamma, s.omega

    def F(x):
        return np.array(s.sedov_funcs_standard(x), dtype=float)
    c = 2.0 / (gam + 1.0)
    d = (-F(v + 2 * h) + 8 * F(v + h) - 8 * F(v - h) + F(v - 2 * h)) / (12 * h)
    L, dl, f, g, hh = F(v)
    Ld, _, fd, gd, hd = d
    out = {}

    def scaled(t):
        t = [float(x) for x in t]
        if not all(map(math.isfinite, t)):
            return float('nan')
        return abs(sum(t)) / max(sum(map(abs, t)), 1e-300)
    out['mass'] = scaled([(c * f - L) * gd, c * g * fd, c * g * (k - 1) * f / L * Ld, -om * g * Ld])
    out['momentum'] = scaled([(c * f - L) * fd, -(k - om) / 2 * f * Ld, (gam - 1) / (gam + 1) * hd / g])
    th = hh / g
    thd = (hd * g - hh * gd) / g ** 2
    out['energy'] = scaled([(c * f - L) * thd, -(k - om) * th * Ld, (gam - 1) * c * th * fd,
                            (gam - 1) * c * th * (k - 1) * f / L * Ld])
    out['dlamdv'] = abs(dl - Ld) / max(abs(dl), abs(Ld), 1e-300)
    return out, float(dl)


def _gen_ode(rng):
    u = rng.random()
    if u < 0.15:
        p = rng.choice(EXACT_SPECIAL)
    elif u < 0.22:
        p = rng.choice(BAND)
    elif u < 0.3:
        p = rng.choice(DEFAULTS)
    else:
        p = S0.sample(rng, rng.choice(['standard', 'standard', 'vacuum']))
    return dict(params=p, frac=rng.choice([rng.uniform(0.02, 0.98), rng.uniform(0.02, 0.98), 0.03, 0.97]))


def _check_ode(c):
    try:
        s = S0.construct(c['params'])
    except Exception:
        return None          # construction failures are C20's business
    if s.solution_type == 'singular':
        return None
    lo, hi = branch(s)
    v = lo + c['frac'] * (hi - lo)
    h = 2e-3 * min(v - lo, hi - v)
    tol = ODE_TOL + band_slack(s)
    try:
        r1, dl = residuals(s, v, h)
        bad = [n for n in r1 if not r1[n] <= tol]
        if bad:
            r2, dl = residuals(s, v, h / 2)          # step halving: truncation error is never reported
            bad = [n for n in bad if not r2[n] <= tol]
            r1 = r2
    except Exception:
        return None
    tag = 'Sedov.sedov_funcs_standard[%s]' % s.special_singularity
    if bad:
        n = bad[0]
        return dict(site='%s:%s-ode' % (tag, n) if n != 'dlamdv' else '%s:dlamdv' % tag,
                    detail='v=%r (branch %r..%r, %s type): scaled residuals %r, tolerance %.3g' % (
                        v, lo, hi, s.solution_type, {a: float('%.3g' % b) for a, b in r1.items()}, tol))
    want = 1.0 if s.solution_type == 'standard' else -1.0
    if not dl * want > 0:
        return dict(site='%s:dlamdv-sign' % tag,
                    detail='v=%r %s type: dlamdv=%r (lambda must be strictly %s in v)' % (
                        v, s.solution_type, dl, 'increasing' if want > 0 else 'decreasing'))
    return None


ode = O.make(_gen_ode, _check_ode, 'sedov2.ode')


def mass_defect(s):
    import scipy.integrate as si
    lo, hi = branch(s)
    k = s.geometry

    def integrand(v):
        L, dl, f, g, hh = s.sedov_funcs_standard(v)
        return g * L ** (k - 1) * dl
    val, err = si.quad(integrand, lo, hi, epsabs=1e-13, epsrel=1e-11, limit=400)
    if s.solution_type == 'vacuum':
        val = -val
    target = (s.gamma - 1.0) / ((s.gamma + 1.0) * (k - s.omega))
    return val, target, err


def _gen_mass(rng):
    u = rng.random()
    if u < 0.15:
        p = rng.choice(EXACT_SPECIAL)
    elif u < 0.25:
        p = rng.choice(DEFAULTS)
    elif u < 0.35:
        p = rng.choice([w['params'] for w in S0.SINGULAR_WITNESSES])       # integrable end-point singularities
    else:
        p = S0.sample(rng, rng.choice(['standard', 'standard', 'vacuum']))
    return dict(params=p)


def _check_mass(c):
    try:
        s = S0.construct(c['params'])
        if s.solution_type == 'singular':
            return None
        val, target, err = mass_defect(s)
    except Exception:
        return None
    tol = MASS_TOL + band_slack(s) + 10 * abs(err) / abs(target)
    if not abs(val / target - 1.0) <= tol:
        return dict(site='Sedov.sedov_funcs_standard[%s]:mass-integral[%s]' % (s.special_singularity, s.solution_type),
                    detail='int g lambda^(k-1) dlambda = %r, (gamma-1)/((gamma+1)(k-omega)) = %r, ratio-1 = %.3g (quad error %.2g)' % (
                        val, target, val / target - 1.0, err))
    return None


mass_v = O.make(_gen_mass, _check_mass, 'sedov2.mass_v')


# --------------------------------------------------------------------------
# tie: Float twins of the constant models vs the real constructor
# --------------------------------------------------------------------------
from py2lean.targets.t_sedov2 import SEDOV_CONSTS, SEDOV_ENDS

_TIE_CACHE = {}


def tie_consts(rng, deep):
    if deep in _TIE_CACHE:
        c = dict(_TIE_CACHE[deep])
        c['evaluations'] = 0
        c['distinct_nontrivial'] = 0
        return c
    man = S0._manifest()
    st = dict(evaluations=0, distinct_nontrivial=0, mismatches=[], samples=[], leaf_hist={})
    n = 60 if deep else 14
    C = S0._cls()
    # --- SedovConsts: admissible, boundary, malformed, special and band arguments
    e = man['SedovConsts']
    lines, exp, info = [], [], []
    stream = S0.init_stream(rng, n) + EXACT_SPECIAL + BAND + DEFAULTS
    for p in stream:
        full = {k: p.get(k, getattr(C, k)) for k in S0.PNAMES}
        try:
            with np.errstate(all='ignore'):
                s = S0.construct(p)
            ex = ('ok', [float(getattr(s, k)) for k in SEDOV_CONSTS])
        except Exception as err:
            ex = ('raise', type(err).__name__)
            if ex[1] == 'OverflowError':
                continue      # the energy quadrature overflowed (C20 finding); the constants are not observable
        lines.append(S0._twin('SedovConsts', e, full))
        exp.append(ex)
        info.append(dict(params=p))
    S0._compare(st, 'SedovConsts', lines, exp, info)
    # --- SedovEnds
    e = man['SedovEnds']
    lines, exp, info = [], [], []
    for i in range(n):
        p = S0.sample(rng, rng.choice(['standard', 'vacuum']))
        try:
            s = S0.construct(p)
        except Exception:
            continue
        if s.solution_type == 'singular':
            continue
        lines.append(S0._twin('SedovEnds', e, p))
        exp.append(('ok', [float(getattr(s, k)) for k in SEDOV_ENDS]))
        info.append(dict(params=p))
    S0._compare(st, 'SedovEnds', lines, exp, info)
    _TIE_CACHE[deep] = st
    return st
