"""C15 oracles and ties (Blake): numeric checks on the REAL code, and correspondences of the generated
Float twins (`BlakeMod<XY>`, `BlakeInit<XY>`, `BlakeFields`) with the real calls.

Oracles (real code only):
  attrs[XY]     the six attributes the constructor ends up with reproduce the two supplied values and
                satisfy the isotropy identities, or construction fails with ValueError
  hooke         constitutive identities among the returned fields
  fd_strain     strain_rr = d(displacement)/dr by central differences (confirmed by step halving)
  wave          residual of the spherical wave equation by second differences (step halving)
  wall          stress_rr(a, t) = -pressure_scale for t > 0
  causal        everything vanishes for t <= (r - a)/c_L
  zero_division (finding) lame_mod > 0 with poisson_ratio = 0 raises ZeroDivisionError, not ValueError
Ties:
  tie_moduli[XY]  Float twin of BlakeMod<XY> vs set_elastic_params (and vs the constructor's attributes)
  tie_fields      Float twin of BlakeFields, fed with the attributes of a really constructed solver, vs the call
"""
import math
import warnings

import numpy as np

from . import oracle as O
from . import lean_io
from py2lean.trace import load

BLAKE = 'exactpack.solvers.blake.blake:Blake'
MODULI = ('lame_mod', 'shear_mod', 'youngs_mod', 'poisson_ratio', 'bulk_mod', 'long_mod')
SHORT = dict(lame_mod='L', shear_mod='G', youngs_mod='E', poisson_ratio='Nu', bulk_mod='K', long_mod='M')
PAIRS = [(MODULI[i], MODULI[j]) for i in range(6) for j in range(i + 1, 6)]
PAIR_NAME = {pr: SHORT[pr[0]] + SHORT[pr[1]] for pr in PAIRS}
FIELDS = ['position', 'curr_posn', 'displacement', 'strain_rr', 'strain_qq', 'strain_vol', 'density', 'stress_rr',
          'stress_qq', 'pressure', 'stress_dev_rr', 'stress_dev_qq', 'stress_diff']


def six(lam, G):
    """the six parameters of the material with Lamé moduli (lam, G)"""
    return dict(lame_mod=lam, shear_mod=G, youngs_mod=G * (3 * lam + 2 * G) / (lam + G),
                poisson_ratio=lam / (2 * (lam + G)), bulk_mod=lam + 2 * G / 3, long_mod=lam + 2 * G)


def random_material(rng, positive_lame=None):
    """random positive-definite isotropic material: G > 0, 3 lam + 2 G > 0 (so -1 < nu < 1/2)"""
    G = 10 ** rng.uniform(8.5, 11.0)
    nu = rng.uniform(-0.9, 0.49) if positive_lame is None else (rng.uniform(0.02, 0.49) if positive_lame
                                                                  else rng.uniform(-0.9, -0.02))
    lam = 2 * G * nu / (1 - 2 * nu)
    return six(lam, G)


def _blake():
    return load(BLAKE)[1]


def _elas():
    return load('exactpack.solvers.blake.set_check_elastic_params:')[0]


def call_set_elastic(kw):
    """real set_elastic_params with Blake's own tables; returns ('ok', dict) | ('raise:<Exc>', None)"""
    B = _blake()
    with warnings.catch_warnings():
        warnings.simplefilter('ignore')
        try:
            d = _elas().set_elastic_params(B.elas_prm_names, B.elas_prm_dflt_vals, B.elas_prm_order, False, False, **kw)
            return 'ok', {k: float(d[k]) for k in MODULI}
        except Exception as ex:
            return 'raise:' + type(ex).__name__, None


def construct(kw):
    B = _blake()
    with warnings.catch_warnings():
        warnings.simplefilter('ignore')
        try:
            return 'ok', B(**kw)
        except Exception as ex:
            return 'raise:' + type(ex).__name__, None


# --------------------------------------------------------------------------
# oracle: attribute consistency for each of the 15 pairs
# --------------------------------------------------------------------------

def _pair_case(pr, rng):
    """mostly values of a random PD material (with either sign of lame_mod); sometimes perturbed so that the
    pair is inconsistent, sometimes exactly on a boundary (0, -1, 1/2, the singular lines)"""
    m = random_material(rng)
    x, y = m[pr[0]], m[pr[1]]
    u = rng.random()
    if u < 0.25:
        x *= rng.choice([-1.0, 0.0, 0.3, 3.0, 10.0])
    elif u < 0.45:
        y *= rng.choice([-1.0, 0.0, 0.3, 3.0, 10.0])
    elif u < 0.5:
        if pr[1] == 'poisson_ratio':
            y = rng.choice([0.0, -1.0, 0.5, 0.4999999, -0.9999999])
        elif pr[0] == 'poisson_ratio':
            x = rng.choice([0.0, -1.0, 0.5, 0.4999999, -0.9999999])
        else:
            sing = {('lame_mod', 'bulk_mod'): 1 / 3.0, ('shear_mod', 'youngs_mod'): 3.0, ('shear_mod', 'long_mod'): 1.0,
                    ('youngs_mod', 'bulk_mod'): 1 / 9.0, ('youngs_mod', 'long_mod'): 1.0}.get(pr)
            if sing:
                y = x * sing * rng.choice([1.0, 1 - 1e-12, 1 + 1e-12, 1 - 1e-14, 1 + 1e-14])
    return {pr[0]: x, pr[1]: y}


def attrs_oracle(pr):
    nm = PAIR_NAME[pr]

    def gen(rng):
        return dict(kw=_pair_case(pr, rng))

    def check(c):
        kw = c['kw']
        tag, s = construct(kw)
        if tag == 'raise:ValueError':
            return None
        if tag == 'raise:ZeroDivisionError' and kw.get('poisson_ratio') == 0.0 and 'lame_mod' in kw:
            return None         # the known defect of the pair (lame_mod, poisson_ratio = 0): oracle `zero_division`
        if tag != 'ok':
            site = 'Blake:construct:' + nm + ':' + tag
            return dict(site=site, detail='Blake(%r) -> %s (property allows only ValueError)' % (kw, tag))
        v = {k: float(getattr(s, k)) for k in MODULI}
        if not all(math.isfinite(x) for x in v.values()):
            return dict(site='Blake:attrs:' + nm + ':nonfinite', detail='%r -> %r' % (kw, v))
        lam, G = v['lame_mod'], v['shear_mod']
        for k in pr:
            if O.relerr(v[k], kw[k]) > 1e-12:
                return dict(site='Blake:attrs:' + nm + ':reproduce', detail='%s given %r stored %r' % (k, kw[k], v[k]))
        if not (G > 0 and 3 * lam + 2 * G > 0):
            return dict(site='Blake:attrs:' + nm + ':not-PD', detail='%r -> lame %r shear %r' % (kw, lam, G))
        ref = six(lam, G)
        scale = max(abs(lam), G)
        for k in MODULI:
            tol = 2e-9 * (1.0 if k == 'poisson_ratio' else scale)
            # cancellation in lam + G etc. is bounded by the condition of the formulas near nu -> -1, 1/2
            if abs(v[k] - ref[k]) > tol * max(1.0, 1.0 / abs(1 - 2 * ref['poisson_ratio']), 1.0 / abs(1 + ref['poisson_ratio'])):
                return dict(site='Blake:attrs:' + nm + ':' + k, detail='%r -> %s = %r, isotropy gives %r' % (kw, k, v[k], ref[k]))
        return None
    return O.make(gen, check, 'c15.attrs.' + nm)


attrs = {PAIR_NAME[pr]: attrs_oracle(pr) for pr in PAIRS}


def _zd_gen(rng):
    return dict(kw=dict(lame_mod=10 ** rng.uniform(6, 11), poisson_ratio=0.0))


def _zd_check(c):
    tag, s = construct(c['kw'])
    if tag == 'raise:ValueError':
        return None
    return dict(site='Blake:zero_division' if tag == 'raise:ZeroDivisionError' else 'Blake:construct:LNu:' + tag,
                detail='Blake(%r) -> %s; the pair is inconsistent (no material has lame_mod > 0 and poisson_ratio = 0) '
                       'and must be rejected with ValueError' % (c['kw'], tag))


zero_division = O.make(_zd_gen, _zd_check, 'c15.zero_division')


# --------------------------------------------------------------------------
# field oracles
# --------------------------------------------------------------------------

def _problem(rng):
    """random admissible problem: a PD material given through a random pair, a, rho, P0 in the small-strain range"""
    for _ in range(50):
        m = random_material(rng)
        pr = rng.choice(PAIRS)
        kw = {pr[0]: m[pr[0]], pr[1]: m[pr[1]]}
        kw.update(ref_density=rng.uniform(500.0, 9000.0), cavity_radius=10 ** rng.uniform(-2.0, 0.5),
                  pressure_scale=m['bulk_mod'] * 10 ** rng.uniform(-6.0, -1.3))
        tag, s = construct(kw)
        if tag == 'ok':
            return kw, s
    raise RuntimeError('no admissible Blake problem found')


def _consts(s):
    cl = math.sqrt(s.long_mod / s.ref_density)
    n = ((1. - 2. * s.poisson_ratio) / (1. - s.poisson_ratio)) * (cl / s.cavity_radius)
    return cl, n


def _safe_t(s, tau, r):
    """time with reduced time tau at radius r, kept below the overflow threshold of the solver's own
    `exp(n (t + a/c))` (that defect is C20's finding `Blake:overflow`)"""
    cl, n = _consts(s)
    return tau + (r - s.cavity_radius) / cl


def _gen_behind(rng):
    kw, s = _problem(rng)
    cl, n = _consts(s)
    a = s.cavity_radius
    r = a * (1 + 10 ** rng.uniform(-2.0, 1.0))
    # reduced time of a few decay times, total exponent n (t + a/c) < 600
    tmax = 600.0 / n - a / cl
    tau = min(rng.uniform(0.05, 6.0) / n, 0.9 * (tmax - (r - a) / cl))
    if tau <= 0:
        r = a * 1.5
        tau = min(1.0 / n, 0.5 * (tmax - (r - a) / cl))
    return dict(kw=kw, r=r, t=tau + (r - a) / cl)


def _call(kw, pts, t):
    tag, s = construct(kw)
    if tag != 'ok':
        return None, None
    with warnings.catch_warnings():
        warnings.simplefilter('ignore')
        try:
            sol = s(np.array(pts, dtype=float), t)
        except Exception:
            return s, None
    return s, {k: [float(x) for x in sol[k]] for k in sol.dtype.names}


def _hooke_check(c):
    s, f = _call(c['kw'], c['pts'], c['t'])
    if f is None:
        return None
    lam, G, K = s.lame_mod, s.shear_mod, s.lame_mod + 2 * s.shear_mod / 3
    P0 = s.pressure_scale
    for i, r in enumerate(c['pts']):
        g = {k: f[k][i] for k in FIELDS}
        if not all(math.isfinite(x) for x in g.values()):
            continue
        u, err, eqq = g['displacement'], g['strain_rr'], g['strain_qq']
        es = max(abs(err), abs(eqq), 1e-300)
        ss = max((abs(lam) + 2 * G) * es, 1e-300)
        chk = [
            ('strain_qq=u/r', eqq, u / r, es), ('strain_vol', g['strain_vol'], err + 2 * eqq, es),
            ('stress_rr=Hooke', g['stress_rr'], lam * (err + 2 * eqq) + 2 * G * err, ss),
            ('stress_qq=Hooke', g['stress_qq'], lam * (err + 2 * eqq) + 2 * G * eqq, ss),
            ('pressure=-tr/3', g['pressure'], -(g['stress_rr'] + 2 * g['stress_qq']) / 3, ss),
            ('pressure=-K*strain_vol', g['pressure'], -K * g['strain_vol'], ss),
            ('dev_rr', g['stress_dev_rr'], g['stress_rr'] + g['pressure'], ss),
            ('dev_qq', g['stress_dev_qq'], g['stress_qq'] + g['pressure'], ss),
            ('stress_diff', g['stress_diff'], abs(g['stress_rr'] - g['stress_qq']), ss),
            ('density', g['density'] * (1 + g['strain_vol']), s.ref_density, s.ref_density),
            ('curr_posn', g['curr_posn'], r + u, r), ('position', g['position'], r, r),
        ]
        for name, a, b, scale in chk:
            if abs(a - b) > 1e-9 * scale:
                return dict(site='Blake:' + name, detail='r=%r t=%r: %r vs %r' % (r, c['t'], a, b))
    return None


def _hooke_gen(rng):
    c = _gen_behind(rng)
    a = c['kw']['cavity_radius']
    pts = sorted([c['r'], a, a * 1.0001, c['r'] * 1.3, c['r'] * 4.0, c['r'] * 50.0])
    return dict(kw=c['kw'], pts=pts, t=c['t'])


hooke = O.make(_hooke_gen, _hooke_check, 'c15.hooke')


def _fd(kw, r, t, h):
    s, f = _call(kw, [r - h, r, r + h], t)
    if f is None:
        return None
    u = f['displacement']
    return s, (u[2] - u[0]) / (2 * h), (u[2] - 2 * u[1] + u[0]) / (h * h), u[1], f['strain_rr'][1]


def _fd_strain_check(c):
    kw, r, t = c['kw'], c['r'], c['t']
    tag, s = construct(kw)
    if tag != 'ok':
        return None
    cl, n = _consts(s)
    a = s.cavity_radius
    tau = t - (r - a) / cl
    # stay inside the smooth region: a < r-h, and the front is more than h away
    h0 = 0.2 * min(r - a, tau * cl, 0.05 * cl / n, 0.05 * r)
    if h0 <= 0:
        return None
    errs = []
    for h in (h0, h0 / 2):
        res = _fd(kw, r, t, h * 1e-2)
        if res is None:
            return None
        _, du, _, u, e = res
        scale = max(abs(e), abs(u) / r, 1e-300)
        errs.append(abs(du - e) / scale)
    if min(errs) > 1e-6 and errs[1] > 0.5 * errs[0]:
        return dict(site='Blake:strain_rr=d(displacement)/dr',
                    detail='r=%r t=%r: relative defect %r (h), %r (h/2)' % (r, t, errs[0], errs[1]))
    return None


fd_strain = O.make(_gen_behind, _fd_strain_check, 'c15.fd_strain')


def _wave_check(c):
    kw, r, t = c['kw'], c['r'], c['t']
    tag, s = construct(kw)
    if tag != 'ok':
        return None
    cl, n = _consts(s)
    a = s.cavity_radius
    tau = t - (r - a) / cl
    L = 0.2 * min(r - a, tau * cl, 0.2 * cl / n, 0.2 * r)
    if L <= 0:
        return None
    res = []
    with warnings.catch_warnings():
        warnings.simplefilter('ignore')
        for h in (L * 2e-2, L * 1e-2):
            try:
                ur = s(np.array([r - h, r, r + h]), t)['displacement']
                ut = [float(s(np.array([r]), t + k * h / cl)['displacement'][0]) for k in (-1, 0, 1)]
            except Exception:
                return None
            u = float(ur[1])
            u_rr = (ur[2] - 2 * ur[1] + ur[0]) / h ** 2
            u_r = (ur[2] - ur[0]) / (2 * h)
            u_tt = (ut[2] - 2 * ut[1] + ut[0]) / (h / cl) ** 2
            rhs = cl ** 2 * (u_rr + 2 * u_r / r - 2 * u / r ** 2)
            # second differences of a quantity of size |u| with step h carry roundoff ~ eps |u| / h^2
            noise = 50 * 2.3e-16 * max(abs(x) for x in list(ur) + ut) / h ** 2 * cl ** 2
            scale = max(abs(u_tt), abs(cl ** 2 * u_rr), abs(cl ** 2 * 2 * u_r / r), abs(cl ** 2 * 2 * u / r ** 2), 1e-300)
            res.append((abs(u_tt - rhs), scale, noise))
    (d1, s1, n1), (d2, s2, n2) = res
    if d2 > 2e-5 * s2 + n2 and d1 > 2e-5 * s1 + n1 and d2 > 0.5 * d1:
        return dict(site='Blake:wave_equation',
                    detail='r=%r t=%r: |u_tt - c^2(...)| = %r (h), %r (h/2), scale %r' % (r, t, d1, d2, s2))
    return None


wave = O.make(_gen_behind, _wave_check, 'c15.wave')


def _wall_gen(rng):
    kw, s = _problem(rng)
    cl, n = _consts(s)
    tmax = 600.0 / n - s.cavity_radius / cl
    return dict(kw=kw, t=min(10 ** rng.uniform(-3, 1.0) / n, 0.9 * tmax))


def _wall_check(c):
    s, f = _call(c['kw'], [c['kw']['cavity_radius']], c['t'])
    if f is None:
        return None
    sig, P0 = f['stress_rr'][0], s.pressure_scale
    if not math.isfinite(sig) or abs(sig + P0) > 1e-8 * P0:
        return dict(site='Blake:stress_rr(a,t)=-P0', detail='t=%r stress_rr=%r pressure_scale=%r' % (c['t'], sig, P0))
    return None


wall = O.make(_wall_gen, _wall_check, 'c15.wall')


def _causal_gen(rng):
    kw, s = _problem(rng)
    cl, n = _consts(s)
    a = s.cavity_radius
    t = 10 ** rng.uniform(-2, 0.5) / n
    front = a + cl * t
    # not monotone on purpose: points ahead of the front sit between disturbed points (a mesh flattened
    # from 2-D, an unsorted probe list) -- each point's value must not depend on its neighbours in the array
    b = lambda q: a + q * (front - a)
    return dict(kw=kw, t=t, front=front,
                pts=[b(0.3), front * (1 + 1e-9) + 1e-12, b(0.8), front * 1.01, b(0.5), front * 2.0, b(0.95), front * 30.0])


def _causal_check(c):
    s, f = _call(c['kw'], c['pts'], c['t'])
    if f is None:
        return None
    for i, r in enumerate(c['pts']):
        if 'front' in c and r <= c['front']:
            continue
        for k in ('displacement', 'strain_rr', 'strain_qq', 'strain_vol', 'stress_rr', 'stress_qq', 'pressure',
                  'stress_dev_rr', 'stress_dev_qq', 'stress_diff'):
            if f[k][i] != 0.0:
                return dict(site='Blake:causality:' + k, detail='r=%r t=%r ahead of the front: %s=%r' % (r, c['t'], k, f[k][i]))
        if f['density'][i] != s.ref_density:
            return dict(site='Blake:causality:density', detail='r=%r t=%r: %r' % (r, c['t'], f['density'][i]))
    return None


causal = O.make(_causal_gen, _causal_check, 'c15.causal')


# --------------------------------------------------------------------------
# ties
# --------------------------------------------------------------------------

def _manifest():
    import json
    import os
    return json.load(open(os.path.join(lean_io.LEAN_DIR, 'EPV', 'Gen', 'gen_manifest.json')))


def _close(a, b, rtol, atol=0.0):
    fa, fb = math.isfinite(a), math.isfinite(b)
    if not fa or not fb:
        return (not fa) and (not fb)
    return abs(a - b) <= rtol * max(abs(a), abs(b)) + atol


ARITH = ('ZeroDivisionError', 'OverflowError', 'FloatingPointError')


def tie_moduli(pr):
    nm = PAIR_NAME[pr]
    model = 'BlakeMod' + nm

    def tie(rng, deep):
        ent = _manifest()[model]
        order = ent['params']
        n = 400 if deep else 60
        cases = [_pair_case(pr, rng) for _ in range(n)]
        lines = [model + ' ' + ' '.join(lean_io.bits(kw[a]) for a in order) for kw in cases]
        outs = lean_io.run_lines(lines)
        st = dict(evaluations=0, distinct_nontrivial=0, mismatches=[], samples=[], outcome_hist={})
        for kw, line in zip(cases, outs):
            tag, mv = lean_io.parse_result(line)
            kind = tag.split(':')[0]
            rtag, rv = call_set_elastic(kw)
            ctag, s = construct(kw)
            st['evaluations'] += 1
            bad = None
            if ctag != rtag:
                bad = 'constructor %s but set_elastic_params %s' % (ctag, rtag)
            elif kind == 'ok':
                if rtag != 'ok':
                    if not (rtag.split(':')[1] in ARITH and any(not math.isfinite(v) for v in mv)):
                        bad = 'model ok, code %s' % rtag
                else:
                    for k, a in zip(ent['fields'], mv):
                        if not _close(rv[k], a, 1e-12) or not _close(float(getattr(s, k)), a, 1e-12):
                            bad = '%s: code %r / attribute %r, model %r' % (k, rv[k], getattr(s, k), a)
                            break
                    else:
                        st['distinct_nontrivial'] += 1
            else:
                want = 'raise:' + tag.split(':')[2]
                if rtag != want:
                    bad = 'model %s, code %s' % (tag, rtag)
            oc = kind if kind == 'ok' else tag.split(':', 2)[-1]
            st['outcome_hist'][oc] = st['outcome_hist'].get(oc, 0) + 1
            if bad:
                st['mismatches'].append(dict(model=model, kw=kw, why=bad))
            if not st['samples']:
                st['samples'].append(dict(model=model, kw=kw, outcome=tag))
        return st
    tie.__name__ = 'tie_moduli_' + nm
    return tie


ties_moduli = {PAIR_NAME[pr]: tie_moduli(pr) for pr in PAIRS}

_FIELDS_CACHE = {}


def tie_fields(rng, deep):
    """BlakeFields twin on the attributes of a really constructed solver vs the real call.  The closed form has
    cancellation (1 - e^{-n t'}(…) near the front, e^{-x}·e^{+x} in the strain), and Lean's libm exp/sin/cos and
    NumPy's differ in the last bit, so values are compared to 1e-9 of the natural scale of each field."""
    key = 'deep' if deep else 'quick'
    if key in _FIELDS_CACHE:
        st = dict(_FIELDS_CACHE[key])
        st['evaluations'] = 0
        st['distinct_nontrivial'] = 0
        return st
    ent = _manifest()['BlakeFields']
    order = ent['params'] + ent['pvars'] + [ent['tvar']]
    n = 600 if deep else 120
    cases = []
    lines = []
    for i in range(n):
        kw, s = _problem(rng)
        cl, nn = _consts(s)
        a = s.cavity_radius
        u = rng.random()
        tmax = 600.0 / nn - a / cl
        t = min(10 ** rng.uniform(-2, 1.0) / nn, 0.9 * tmax)
        if u < 0.55:
            r = a + rng.random() * cl * t          # behind the front
        elif u < 0.65:
            r = a                                   # the wall
        elif u < 0.85:
            r = a + cl * t * rng.uniform(1.0, 3.0)  # ahead
        elif u < 0.95:
            r = a * rng.random()                    # inside the cavity
        else:
            r = -a * rng.random() - 1e-6            # negative radius: ValueError
        vals = {k: float(getattr(s, k)) for k in ent['params']}
        vals['r'], vals['t'] = r, t
        cases.append((kw, s, r, t))
        lines.append('BlakeFields ' + ' '.join(lean_io.bits(vals[a_]) for a_ in order))
    outs = lean_io.run_lines(lines)
    st = dict(evaluations=0, distinct_nontrivial=0, mismatches=[], samples=[], leaf_hist={})
    for (kw, s, r, t), line in zip(cases, outs):
        tag, mv = lean_io.parse_result(line)
        kind = tag.split(':')[0]
        st['evaluations'] += 1
        st['leaf_hist'][tag] = st['leaf_hist'].get(tag, 0) + 1
        with warnings.catch_warnings():
            warnings.simplefilter('ignore')
            try:
                sol = s(np.array([r]), t)
                rtag = 'ok'
            except Exception as ex:
                rtag = 'raise:' + type(ex).__name__
        bad = None
        if kind == 'ok':
            if rtag != 'ok':
                bad = 'model ok, code %s' % rtag
            elif list(sol.dtype.names) != ent['fields']:
                bad = 'field names differ: %r' % (list(sol.dtype.names),)
            else:
                P0, M, a = s.pressure_scale, s.long_mod, s.cavity_radius
                e0 = P0 / M * (a / max(r, a)) if r > 0 else P0 / M
                scale = dict(position=abs(r), curr_posn=abs(r), displacement=e0 * max(r, a), strain_rr=e0, strain_qq=e0,
                             strain_vol=e0, density=s.ref_density, stress_rr=P0, stress_qq=P0, pressure=P0,
                             stress_dev_rr=P0, stress_dev_qq=P0, stress_diff=P0)
                for k, b in zip(ent['fields'], mv):
                    x = float(sol[k][0])
                    if not _close(x, b, 1e-9, 1e-9 * scale[k]):
                        bad = '%s: code %r model %r' % (k, x, b)
                        break
                else:
                    st['distinct_nontrivial'] += 1
        else:
            want = 'raise:' + tag.split(':')[2]
            if rtag != want:
                bad = 'model %s, code %s' % (tag, rtag)
        if bad:
            st['mismatches'].append(dict(model='BlakeFields', kw=kw, r=r, t=t, why=bad))
        if not st['samples']:
            st['samples'].append(dict(model='BlakeFields', kw=kw, r=r, t=t, outcome=tag))
    _FIELDS_CACHE[key] = st
    return st
