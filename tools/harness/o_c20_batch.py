"""C20: a request that contains ONE out-of-domain point among valid ones is rejected (or NaN) exactly like that
point alone -- the domain check of a solver must not be defeated by the companions of the offending point.
Real code; cases derive from the rng."""
import contextlib
import io
import math
import warnings

import numpy as np

from . import oracle as O


def _outcome(fn):
    with warnings.catch_warnings(), contextlib.redirect_stdout(io.StringIO()), np.errstate(all='ignore'):
        warnings.simplefilter('ignore')
        try:
            return 'ok', fn()
        except Exception as ex:
            return type(ex).__name__, None


def _cases(rng):
    from exactpack.solvers.kenamond import Kenamond3
    from exactpack.solvers.blake import Blake
    from exactpack.solvers.dsd import CylindricalExpansion
    out = []
    for dim in (2, 3):
        R = float(Kenamond3.R)
        def inside(d=dim):
            v = np.array([rng.gauss(0, 1) for _ in range(d)])
            return (v / np.linalg.norm(v) * rng.uniform(0.05, 0.95) * R).tolist()
        def outside(d=dim):
            v = np.array([rng.gauss(0, 1) for _ in range(d)])
            return (v / np.linalg.norm(v) * rng.uniform(1.1, 2.5) * R).tolist()
        xd = (0.0, 5.0) if dim == 2 else (0.0, 0.0, 5.0)
        out.append(('Kenamond3[%dD]' % dim, lambda d=dim, x=xd: Kenamond3(geometry=d, x_d=x), inside, outside, 0.6, 'burntime'))
    out.append(('Blake', lambda: Blake(), lambda: -rng.uniform(0.01, 1.0), lambda: rng.uniform(0.1, 0.4),
                rng.uniform(1e-5, 1e-4), 'displacement'))
    return out


def _gen(rng):
    return dict(seed=rng.randrange(10 ** 9))


def _check(c):
    import random
    rng = random.Random(c['seed'])
    for name, mk, bad, good, t, field in _cases(rng):
        b = bad()
        goods = [good() for _ in range(rng.randint(2, 5))]
        alone, _ = _outcome(lambda: mk()(np.array([b]), t))
        pos = rng.randrange(len(goods) + 1)
        pts = goods[:pos] + [b] + goods[pos:]
        mixed, sol = _outcome(lambda: mk()(np.array(pts), t))
        if alone == 'ok':
            return dict(site='%s:out-of-domain-point-served' % name.split('[')[0],
                        detail='%s: the out-of-domain point %r alone is served' % (name, b))
        only_good, _ = _outcome(lambda: mk()(np.array(goods), t))
        if only_good != 'ok':
            continue
        if alone != 'ok' and mixed == 'ok':
            v = float(np.asarray(sol[field])[pos])
            if math.isfinite(v):
                return dict(site='%s:domain-check-defeated-by-batch' % name.split('[')[0],
                            detail='%s: the point %r alone raises %s; among %d valid points the request is served and the point '
                                   'gets the finite value %r' % (name, b, alone, len(goods), v))
    return None


mixed_batch = O.make(_gen, _check, 'c20.mixed_batch')
