"""C20: a request that contains ONE out-of-domain point among valid ones is rejected (or NaN) exactly like that
point alone -- the domain check of a solver must not be defeated by the companions of the offending point.
Real code; cases derive from the rng."""
import contextlib
import io
import math
import warnings

import numpy as np

from . import oracle as O


def _outcome(fn):
    with warnings.catch_warnings(), contextlib.redirect_stdout(io.StringIO()), np.errstate(all='ignore'):
        warnings.simplefilter('ignore')
        try:
            return 'ok', fn()
        except Exception as ex:
            return type(ex).__name__, None


def _cases(rng):
    from exactpack.solvers.kenamond import Kenamond3
    from exactpack.solvers.blake import Blake
    from exactpack.solvers.dsd import CylindricalExpansion
    out = []
    for dim in (2, 3):
        R = float(Kenamond3.R)
        def inside(d=dim):
            v = np.array([rng.gauss(0, 1) for _ in range(d)])
            return (v / np.linalg.norm(v) * rng.uniform(0.05, 0.95) * R).tolist()
        def outside(d=dim):
            v = np.array([rng.gauss(0, 1) for _ in range(d)])
            return (v / np.linalg.norm(v) * rng.uniform(1.1, 2.5) * R).tolist()
        xd = (0.0, 5.0) if dim == 2 else (0.0, 0.0, 5.0)
        out.append(('Kenamond3[%dD]' % dim, lambda d=dim, x=xd: Kenamond3(geometry=d, x_d=x), inside, outside, 0.6, 'burntime'))
    out.append(('Blake', lambda: Blake(), lambda: -rng.uniform(0.01, 1.0), lambda: rng.uniform(0.1, 0.4),
                rng.uniform(1e-5, 1e-4), 'displacement'))
    return out


def _gen(rng):
    return dict(seed=rng.randrange(10 ** 9))


def _check(c):
    import random
    rng = random.Random(c['seed'])
    for name, mk, bad, good, t, field in _cases(rng):
        b = bad()
        goods = [good() for _ in range(rng.randint(2, 5))]
        alone, _ = _outcome(lambda: mk()(np.array([b]), t))
        pos = rng.randrange(len(goods) + 1)
        pts = goods[:pos] + [b] + goods[pos:]
        mixed, sol = _outcome(lambda: mk()(np.array(pts), t))
        if alone == 'ok':
            return dict(site='%s:out-of-domain-point-served' % name.split('[')[0],
                        detail='%s: the out-of-domain point %r alone is served' % (name, b))
        only_good, _ = _outcome(lambda: mk()(np.array(goods), t))
        if only_good != 'ok':
            continue
        if alone != 'ok' and mixed == 'ok':
            v = float(np.asarray(sol[field])[pos])
            if math.isfinite(v):
                return dict(site='%s:domain-check-defeated-by-batch' % name.split('[')[0],
                            detail='%s: the point %r alone raises %s; among %d valid points the request is served and the point '
                                   'gets the finite value %r' % (name, b, alone, len(goods), v))
    return None


mixed_batch = O.make(_gen, _check, 'c20.mixed_batch')


# ---- a domain that is derived from the request must be derived from THIS request --------------------------------
# EPpiston rejects times after the elastic wave has left the requested grid (xmax = max of the points).  A solver object
# that served a long grid first must still reject, on a short grid with the same number of points, a time that is out of
# the short grid's domain (seeded C20-10 cached the extent by point count).

def _gen_regrid(rng):
    return dict(n=rng.choice([11, 51, 101]), long=rng.uniform(1.5, 3.0), short=rng.uniform(0.3, 0.8), f=rng.uniform(1.05, 1.6),
                model=rng.choice(['hypo', 'hyperIfin', 'hyperFin']))


def _check_regrid(c):
    from exactpack.solvers.ep_piston import EPpiston
    def mk():
        return EPpiston(model=c['model'])
    s0 = mk()
    t = c['f'] * c['short'] / float(s0.wv_el)            # beyond the short grid's limit, within the long grid's
    if t >= c['long'] / float(s0.wv_el):
        return None
    short = np.linspace(0.0, c['short'], c['n'])
    fresh, _ = _outcome(lambda: mk()(short, t))
    used = mk()
    first, _ = _outcome(lambda: used(np.linspace(0.0, c['long'], c['n']), t))
    again, sol = _outcome(lambda: used(short, t))
    if first != 'ok' or fresh == 'ok':
        return None
    if again == 'ok':
        return dict(site='EPpiston:domain-of-an-earlier-request',
                    detail='t = %r is beyond xmax / wv_el of the grid [0, %r]: a fresh solver raises %s, a solver that served '
                           '[0, %r] (%d points) first returns finite fields' % (t, c['short'], fresh, c['long'], c['n']))
    return None


eppiston_regrid = O.make(_gen_regrid, _check_regrid, 'c20.eppiston_regrid')
