"""Oracles of the work package `rad2` (C12 strengthening).

(W1) `rs_units`: the flux-constancy / far-field / jump checks of C12 re-done in PHYSICAL units from the public attributes
     (Density, Speed, Pressure, SIE, Tm, Tr, Fr, RADE, VEF) with the physical radiation constant a_r written here from the
     physics, NOT read from the solver -- over non-default rho0, Tref, Cv, gamma, sigS != 0 with unequal absorption /
     scattering exponents, all closure variants of nED.  A solver that nondimensionalises with a wrong P0 (or C0, or
     sound speed) solves a self-consistent but different problem: its own nondimensional fluxes are constant, the
     physical ones are not.
(W2) `rs_history`: ONE solver object asked at a sequence of times (repeated times, t = 0 after t != 0), compared with the
     shift law, with its own first answers and with a pristine copy; after every call no array the object held before the
     call may have changed (in place or by re-binding) and no attribute it held may have been re-bound.

Convention of the attributes (from the suite's own flux tests, `test_radshocks.py::Test_ConservationEquationsSatisfied`,
and recorded in Spec/RadShock.lean): `Fr` is the radiation energy flux divided by the upstream sound speed and already
contains the advected radiation enthalpy; `RADE` is the radiation energy density a_r T^4 (T = Tm for ED, Tr otherwise);
the radiation pressure is RADE/3 (Eddington; Sn: VEF * RADE; flux-limited variants: their own Eddington factor, which
is not a public attribute and is read from the stored profile)."""
import contextlib
import copy
import io
import json
import math
import warnings

import numpy as np

from . import oracle as O

RSW = 'exactpack.solvers.radshocks.nED_radshocks'
RS_KINDS = {'ED': 'ED_Solver', 'nED': 'nED_Solver', 'ie': 'ie_Solver', 'Sn': 'Sn_Solver'}

# physical constants, from the physics (CODATA), not from the code:
#   a_r = 4 sigma_SB / c = 7.565733e-15 erg cm^-3 K^-4 ;  1 eV = 11604.518 K  =>  a_r = 137.2017 erg cm^-3 eV^-4
#   (the documentation of radshock.py quotes 137.20172 erg / cm^3 / eV^4) ;  c = 2.99792458e10 cm / s (exact)
AR = 137.20172
CLIGHT = 2.99792458e10
assert abs(7.565733e-15 * 11604.518 ** 4 / AR - 1) < 2e-6

# ---------------------------------------------------------------------------------------------------------------
# construction (own cache: the objects of `rs_units` are never called, only their attributes are read)
# ---------------------------------------------------------------------------------------------------------------
_CACHE = {}
_BUILT = {}        # kind -> number of objects the checks obtained (a sweep that obtains none of a kind cannot decide)


class _Timeout(BaseException):
    pass


@contextlib.contextmanager
def _alarm(seconds):
    """some parameter sets send the real ODE drivers into a loop that does not end (seen: FLD_LP at Tref >= 300): a
    construction that does not finish is `no solution produced`, never a hang of the check"""
    import signal
    import threading
    if threading.current_thread() is not threading.main_thread() or not hasattr(signal, 'SIGALRM'):
        yield
        return

    def handler(signum, frame):
        raise _Timeout()
    old = signal.signal(signal.SIGALRM, handler)
    signal.alarm(int(seconds))
    try:
        yield
    finally:
        signal.alarm(0)
        signal.signal(signal.SIGALRM, old)


def build(kind, params, limit=None):
    """a NEW radiative-shock solver object (ED ~0.5-1.5 s, nED / ie ~0.2 s, Sn ~20 s); None if no solution is produced"""
    _, C = O.load('%s:%s' % (RSW, RS_KINDS[kind]))
    try:
        with warnings.catch_warnings():
            warnings.simplefilter('ignore')
            with contextlib.redirect_stdout(io.StringIO()), np.errstate(all='ignore'):
                with _alarm(limit or (240 if kind == 'Sn' else 30)):
                    return C(**params)
    except (Exception, _Timeout):
        return None


def cached(kind, params):
    key = json.dumps([kind, params], sort_keys=True)
    if key not in _CACHE:
        # an ED object holds ~25 arrays of 10^6 doubles: keep at most two of them
        big = [k for k in _CACHE if k.startswith('["ED"')]
        if kind == 'ED' and len(big) >= 2:
            del _CACHE[big[0]]
        if len(_CACHE) > 10:
            _CACHE.pop(next(iter(_CACHE)))
        _CACHE[key] = build(kind, params)
    return _CACHE[key]


# cross sections: (sigA, sigS, expDensity_abs, expTemp_abs, expDensity_scat, expTemp_scat); scattering present and
# its exponents different from the absorption exponents (a total cross section that mixes them up shows only then)
XS = [
    dict(sigS=100., expDensity_abs=1., expTemp_abs=-1., expDensity_scat=0., expTemp_scat=0.5),
    dict(sigA=300., sigS=200., expDensity_abs=0.5, expTemp_abs=-2., expDensity_scat=2., expTemp_scat=1.),
    dict(sigA=44.93983839817290, sigS=0.4006, expDensity_abs=1., expTemp_abs=-3.5),
    dict(sigS=50., expTemp_scat=0.5),
]
# the quick tier draws from a fixed pool so that the oracles of one run share the constructed objects
POOL = {
    'ED': [dict(rho0=2.0, Tref=150., **XS[0]),
           dict(rho0=0.5, Tref=200., Cv=2.0e12, gamma=1.4, M0=1.05, **XS[1])],
    'nED': [dict(rho0=2.0, Tref=150., **XS[0]),
            dict(rho0=0.5, Tref=200., Cv=2.0e12, gamma=1.4, M0=1.4, **XS[1]),
            dict(rho0=3.0, M0=3.0, problem='LM_nED', **XS[2]),
            dict(rho0=2.0, problem='FLD_1', **XS[3]),
            dict(rho0=2.0, Tref=200., problem='FLD_LP'),
            dict(rho0=3.0, epsilon=0.5, Tref=150., **XS[0])],
    'ie': [dict(Tref=150., Cv=2.0e12, gamma=1.4, M0=1.2), dict(Tref=80., M0=1.3, Z=2.0)],
    'Sn': [dict(rho0=2.0, Tref=150.)],
}
PROBLEMS = ['nED', 'nED', 'LM_nED', 'FLD_1', 'FLD_LP', 'FLD_2', 'FLD_poly']


def _random_params(rng, kind):
    p = dict(Tref=rng.choice([100., 80., 150., 200., 250.]), Cv=1.4472799784454e12 * rng.choice([1.0, 0.7, 1.4]),
             gamma=rng.choice([5. / 3., 1.4, 1.5]))
    if kind == 'ie':
        # the ion-electron shock is not a radiative shock and `rho0` is outside C12's quantifier for it
        p['M0'] = rng.choice([1.4, 1.2, 1.3, 1.05])
        return p
    p['rho0'] = rng.choice([2.0, 0.5, 3.0, 0.25, 1.5])
    p['M0'] = rng.choice([1.2, 1.05, 1.4] + ([2.0, 3.0] if kind == 'nED' else []))
    if rng.random() < 0.7:
        p.update(rng.choice(XS))
    if kind == 'nED':
        p['problem'] = rng.choice(PROBLEMS)
        if rng.random() < 0.3:
            p['epsilon'] = rng.choice([0.5, 0.8])
        if p['problem'].startswith('FLD'):
            # the flux-limited drivers were seen not to return for strong radiation (FLD_LP at Tref >= 500: minutes, inside
            # compiled code where the alarm of `build` cannot interrupt): keep P0 moderate
            p['Tref'] = min(p['Tref'], 200.)
    return p


def _case(kinds, pool_only):
    def gen(rng):
        kind = rng.choice(kinds)
        if pool_only or rng.random() < 0.3:
            p = dict(rng.choice(POOL[kind]))
        else:
            p = _random_params(rng, kind)
        return dict(kind=kind, params=p, frac=sorted(rng.random() for _ in range(5)),
                    times=[rng.choice([1e-9, 2.5e-9, rng.uniform(0.2e-9, 6e-9)]) for _ in range(3)])
    return gen


def _tiered(check, name, quick, deep=('ED', 'nED', 'nED', 'nED', 'ie')):
    """quick tier: ONE deterministic sweep over `quick`, a list of (kind, index into POOL[kind]) -- ED / nED / ie, a few
    seconds, independent of the budget, so every run covers rho0 != 1, sigS != 0 with unequal exponents and every
    closure variant of the pool.  Thorough tier (or a broken obligation): the sweep, then Sn from the pool (~20 s to
    construct), then random parameters of the kinds `deep` within the budget."""
    rnd = O.make(_case(list(deep), False), check, name)

    def run(rng, budget, deep_, replay=None):
        if replay is not None:
            return rnd(rng, budget, deep_, replay)
        res = dict(evaluations=0, failures=[], samples=[], worst=None, distinct_nontrivial=0)
        todo = [(k, POOL[k][i]) for k, i in quick] + ([('Sn', p) for p in POOL['Sn']] if deep_ else [])
        before = dict(_BUILT)
        with warnings.catch_warnings():
            warnings.simplefilter('ignore')
            with np.errstate(all='ignore'):
                for n, (kind, params) in enumerate(todo):
                    case = dict(kind=kind, params=dict(params), frac=[0.07 + 0.01 * n, 0.31, 0.5, 0.69, 0.93 - 0.01 * n],
                                times=[1e-9, 2.5e-9, 4.1e-9 + 1e-10 * n])
                    f = check(case)
                    res['evaluations'] += 1
                    res['distinct_nontrivial'] += 1
                    if not res['samples']:
                        res['samples'].append(dict(oracle=name, case=case))
                    if f:
                        f['case'] = case
                        f.setdefault('oracle', name)
                        if f.get('site') not in [x.get('site') for x in res['failures']]:
                            res['failures'].append(f)
        none = sorted(set(k for k, _ in todo if _BUILT.get(k, 0) == before.get(k, 0)))
        if none:
            # (check.py turns this into a broken obligation: the parameter sets of the pool all produce a solution on
            # the unchanged tree)
            raise RuntimeError('no %s solver of the fixed parameter pool could be constructed' % '/'.join(none))
        if deep_:
            r2 = rnd(rng, budget, deep_)
            res['evaluations'] += r2['evaluations']
            res['distinct_nontrivial'] += r2['distinct_nontrivial']
            for f in r2['failures']:
                if f.get('site') not in [x.get('site') for x in res['failures']]:
                    res['failures'].append(f)
        return res
    run.__name__ = name
    return run


# ---------------------------------------------------------------------------------------------------------------
# (W1) physical units
# ---------------------------------------------------------------------------------------------------------------
def sound_speed(s):
    """upstream sound speed of an ideal gas from the USER's gamma, specific heat and reference temperature"""
    return math.sqrt(s.gamma * (s.gamma - 1.) * s.Cv * s.Tref)


def _eddington(s, kind):
    """Eddington factor P_r / E_r at every node"""
    if kind == 'Sn':
        return s.VEF
    prob = getattr(s, '_%s__prob' % RS_KINDS[kind], None)
    if kind == 'nED' and 'FLD' in str(getattr(s, 'problem', '')) and prob is not None:
        prof = prob.nED_profile
        try:
            f = np.asarray(prof.Pr, dtype=float) / np.asarray(prof.Er, dtype=float)
            if f.shape == s.Tr.shape and np.all(np.isfinite(f)):
                return f
        except Exception:
            pass
    return 1. / 3.


def _limited(s, kind):
    """a flux-limited closure whose Eddington factor is not 1/3 (FLD_1 runs with Lambda = 1/3, R = 0)"""
    return kind == 'nED' and str(getattr(s, 'problem', '')) in ('FLD_LP', 'FLD_2', 'FLD_poly')


def physical_fluxes(s, kind):
    """(mass, momentum, energy) flux in cgs / eV units from the public attributes, with the physical a_r"""
    cs = sound_speed(s)
    mass = s.Density * s.Speed
    hydro_e = s.Speed * (0.5 * s.Density * s.Speed ** 2 + s.Density * s.SIE + s.Pressure)
    if kind == 'ie':
        # `Fe` (electron heat flux) is left nondimensional by the wrapper: units rho0 c_s^3
        return mass, s.Density * s.Speed ** 2 + s.Pressure, hydro_e + s.rho0 * cs ** 3 * s.Fe
    T = s.Tm if kind == 'ED' else s.Tr
    Er = AR * T ** 4
    mom = s.Density * s.Speed ** 2 + s.Pressure + _eddington(s, kind) * Er
    return mass, mom, hydro_e + cs * s.Fr


def _var(a, ref=None):
    a = np.asarray(a, dtype=float)
    ref = a[0] if ref is None else ref
    return float(np.max(np.abs(a / ref - 1)))


def _units_failures(c):
    """ALL failing sites of one case (one entry per site), so that a slip which shows at several sites is reported under
    every obligation it belongs to"""
    out = []
    kind = c['kind']
    s = cached(kind, c['params'])
    if s is None:
        return out
    _BUILT[kind] = _BUILT.get(kind, 0) + 1
    site = 'RadShock:%s:' % kind
    g, cs = s.gamma, sound_speed(s)
    flux_tol = 1e-9
    if kind == 'Sn':
        flux_tol = 1e-7           # calibrated 2.3e-9 (momentum, VEF iteration tolerance)
    elif _limited(s, kind):
        flux_tol = 1e-8           # Eddington factor read back from the stored profile: calibrated 1e-15 .. 4e-10
    # -- the nondimensional constants the object reports ------------------------------------------------------
    if O.relerr(float(s.sound), cs) > 1e-13:
        out.append(dict(site=site + 'sound', detail='solver.sound = %r, sqrt(gamma (gamma-1) Cv Tref) = %r' % (s.sound, cs)))
    if kind != 'ie':
        P0 = AR * s.Tref ** 4 / (s.rho0 * cs ** 2)
        if O.relerr(float(s.P0), P0) > 1e-12:
            out.append(dict(site=site + 'P0', detail='solver.P0 = %r, a_r Tref^4 / (rho0 c_s^2) = %r (rho0 = %r, Tref = %r)' % (s.P0, P0, s.rho0, s.Tref)))
        if O.relerr(float(s.C0), CLIGHT / cs) > 1e-12:
            out.append(dict(site=site + 'C0', detail='solver.C0 = %r, c / c_s = %r' % (s.C0, CLIGHT / cs)))
        T = s.Tm if kind == 'ED' else s.Tr
        e = _var(s.RADE / (AR * T ** 4), 1.0)
        if not e <= 1e-12:
            out.append(dict(site=site + 'rade', detail='RADE / (a_r T^4) - 1 = %.3e' % e))
    # -- ideal gas with the user's Cv: p = (gamma - 1) rho Cv T, e = Cv T ---------------------------------------
    e = _var(s.Pressure / ((g - 1.) * s.Density * s.Cv * s.Tm), 1.0)
    if not e <= 1e-9:
        out.append(dict(site=site + 'eos-units', detail='Pressure / ((gamma-1) Density Cv Tm) - 1 = %.3e' % e))
    e = _var(s.SIE / (s.Cv * s.Tm), 1.0)
    if not e <= 1e-9:
        out.append(dict(site=site + 'sie-units', detail='SIE / (Cv Tm) - 1 = %.3e' % e))
    # -- fluxes in physical units --------------------------------------------------------------------------------
    mass, mom, en = physical_fluxes(s, kind)
    e = _var(mass, s.rho0 * s.M0 * cs)
    if not e <= flux_tol:
        out.append(dict(site=site + 'mass-flux-units', detail='Density Speed / (rho0 M0 c_s) - 1 = %.3e' % e))
    e = _var(mom)
    if not e <= flux_tol:
        out.append(dict(site=site + 'momentum-flux-units',
                    detail='rho u^2 + p + f a_r T^4 varies by %.3e (relative) along the profile; rho0 = %r, Tref = %r, solver.P0 = %r'
                    % (e, s.rho0, s.Tref, getattr(s, 'P0', None))))
    body = en[:-1] if kind == 'ED' else en       # last ED node: obligation C12.radshock.ed_last_node (known finding)
    e = _var(body, en[0])
    if _limited(s, kind):
        e = 0.0                                  # obligation C12.radshock.fld_energy_flux (finding, `rs_fld_energy`)
    if not e <= flux_tol:
        out.append(dict(site=site + 'energy-flux-units',
                    detail='u (rho u^2/2 + rho e + p) + F_r varies by %.3e (relative) along the profile; rho0 = %r, Tref = %r, sigS = %r'
                    % (e, s.rho0, s.Tref, getattr(s, 'sigS', None))))
    # -- far field -----------------------------------------------------------------------------------------------
    up = (float(s.Density[0] / s.rho0), float(s.Tm[0] / s.Tref), float(s.Speed[0] / (s.M0 * cs)),
          float(s.Pressure[0] * g / (s.rho0 * cs ** 2)))
    if max(abs(v - 1) for v in up) > 1e-6:
        out.append(dict(site=site + 'far-upstream-units', detail='(rho/rho0, T/Tref, u/(M0 c_s), gamma p/(rho0 c_s^2)) = %r' % (up,)))
    if kind != 'ie' and kind != 'ED':
        if abs(float(s.Tr[0] / s.Tm[0]) - 1) > 1e-6 or abs(float(s.Tr[-1] / s.Tm[-1]) - 1) > 1e-5:
            out.append(dict(site=site + 'far-field-equilibrium', detail='Tr/Tm = %r upstream, %r downstream' % (s.Tr[0] / s.Tm[0], s.Tr[-1] / s.Tm[-1])))

    def state(i):
        rho, u, p, T, sie = (float(v[i]) for v in (s.Density, s.Speed, s.Pressure, s.Tm, s.SIE))
        if kind == 'ie':
            return rho * u, rho * u * u + p, u * (0.5 * rho * u * u + rho * sie + p)
        return rho * u, rho * u * u + p + AR * T ** 4 / 3., u * (0.5 * rho * u * u + rho * sie + p + 4. * AR * T ** 4 / 3.)
    a, b = state(0), state(-1)
    d = [abs(y / x - 1) for x, y in zip(a, b)]
    if max(d) > 1e-7:
        out.append(dict(site=site + 'jump-units',
                    detail='radiation-modified jump conditions between the first and the last node, physical units: relative defects '
                           'mass %.3e momentum %.3e energy %.3e; rho0 = %r, Tref = %r' % (d[0], d[1], d[2], s.rho0, s.Tref)))
    return out



_UNITS_MEMO = {}


def _units_check_in(family):
    def check(c):
        key = json.dumps([c['kind'], c['params']], sort_keys=True)
        if key not in _UNITS_MEMO:
            if len(_UNITS_MEMO) > 64:
                _UNITS_MEMO.clear()
            n0 = _BUILT.get(c['kind'], 0)
            fs = _units_failures(c)
            _UNITS_MEMO[key] = (_BUILT.get(c['kind'], 0) > n0, fs)
        elif _UNITS_MEMO[key][0]:
            _BUILT[c['kind']] = _BUILT.get(c['kind'], 0) + 1
        for f in _UNITS_MEMO[key][1]:
            if str(f.get('site', '')).split(':')[-1] in family:
                return dict(f)
        return None
    return check


UNITS_CONSTANTS = ('sound', 'P0', 'C0', 'rade', 'eos-units', 'sie-units')
UNITS_FLUXES = ('mass-flux-units', 'momentum-flux-units', 'energy-flux-units', 'far-upstream-units', 'far-field-equilibrium', 'jump-units')
UNITS_SWEEP = [('nED', 0), ('ED', 0), ('nED', 2), ('nED', 1), ('ie', 0), ('nED', 3), ('nED', 4), ('nED', 5), ('ED', 1), ('ie', 1)]
rs_units = _tiered(_units_check_in(UNITS_CONSTANTS + UNITS_FLUXES), 'c12.radshock.units', quick=UNITS_SWEEP)
rs_units_constants = _tiered(_units_check_in(UNITS_CONSTANTS), 'c12.radshock.units', quick=UNITS_SWEEP)
rs_units_fluxes = _tiered(_units_check_in(UNITS_FLUXES), 'c12.radshock.units', quick=UNITS_SWEEP)
rs_units_energy = _tiered(_units_check_in(('energy-flux-units',)), 'c12.radshock.units', quick=UNITS_SWEEP)


# FINDING reproduction: the flux-limited closures FLD_LP, FLD_2, FLD_poly do not conserve the total energy flux
FLD_WITNESSES = [dict(problem='FLD_poly', M0=3.0), dict(problem='FLD_LP'), dict(problem='FLD_2'), dict(problem='FLD_poly', M0=2.0)]


def _fld_energy_check(c):
    """total energy flux along a flux-limited nED profile.  `fnctn_FLD.dPdx` evaluates the far-field reference
    beta0 (Em0 + P0 F20) through `mat_total_energy`, `rad_flux2`, `mat_beta`, which form the radiation pressure of the
    EQUILIBRIUM state with the LOCAL flux limiter (self.Lambda, self.R) instead of Lambda = 1/3, R = 0: the quantity the
    energy flux is pinned to changes from node to node."""
    s = cached('nED', c['params'])
    if s is None or not _limited(s, 'nED'):
        return None
    mass, mom, en = physical_fluxes(s, 'nED')
    e = _var(en)
    if not e <= 1e-9:
        i = int(np.argmax(np.abs(np.asarray(en) / en[0] - 1)))
        return dict(site='RadShock:nED:FLD-energy-flux',
                    detail='problem %s, M0 = %r: u (rho u^2/2 + rho e + p) + F_r varies by %.3e (relative) along the profile '
                           '(largest at node %d, local Mach number %.3f); mass and momentum flux are constant to %.1e, %.1e'
                           % (s.problem, s.M0, e, i, float(s.Mach[i]), _var(mass), _var(mom)))
    return None


rs_fld_energy = O.make(lambda rng: dict(kind='nED', params=dict(rng.choice(FLD_WITNESSES[:2]))), _fld_energy_check,
                       'c12.radshock.fld_energy_flux')


# ---------------------------------------------------------------------------------------------------------------
# (W2) one object, many times
# ---------------------------------------------------------------------------------------------------------------
def _holders(s, kind):
    """the objects whose arrays the solver holds: itself and (through the private problem object) the stored profile"""
    out = [('', s)]
    prob = getattr(s, '_%s__prob' % RS_KINDS[kind], None)
    if prob is not None:
        out.append(('prob.', prob))
        for k, v in vars(prob).items():
            if k.endswith('_profile'):
                out.append(('prob.%s.' % k, v))
    return out


def _snapshot(s, kind):
    snap = {}
    for pre, obj in _holders(s, kind):
        for k, v in vars(obj).items():
            if isinstance(v, np.ndarray):
                snap[pre + k] = ('a', v, v.copy())
            elif isinstance(v, (int, float, str, bool, np.floating, np.integer, type(None))):
                snap[pre + k] = ('s', v, v)
            else:
                snap[pre + k] = ('o', v, None)
    return snap


def _same_bits(a, b):
    if a.shape != b.shape or a.dtype != b.dtype:
        return False
    if a.dtype == np.float64:
        return bool(np.array_equal(np.ascontiguousarray(a).view(np.int64), np.ascontiguousarray(b).view(np.int64)))
    return a.tobytes() == b.tobytes()


def _modified(s, kind, snap):
    """name of an attribute (held before the call) that was re-bound or whose array changed, else None"""
    for pre, obj in _holders(s, kind):
        d = vars(obj)
        for k in list(d):
            ent = snap.get(pre + k)
            if ent is None:
                continue
            tag, old, cp = ent
            v = d[k]
            if tag == 'a':
                if v is not old:
                    return pre + k, 're-bound to another array'
                if not _same_bits(v, cp):
                    i = int(np.argmax(v != cp)) if v.shape == cp.shape else -1
                    return pre + k, 'modified in place (e.g. element %d: %r -> %r)' % (i, cp.reshape(-1)[i], v.reshape(-1)[i])
            elif tag == 's':
                if not (v is old or v == old or (v != v and old != old)):
                    return pre + k, 'changed from %r to %r' % (old, v)
            elif v is not old:
                return pre + k, 're-bound'
    for pre, obj in _holders(s, kind):
        gone = [k for k in snap if k.startswith(pre) and '.' not in k[len(pre):] and k[len(pre):] not in vars(obj)]
        if gone:
            return gone[0], 'deleted'
    return None


def _fields_close(a, b, rtol, skip=()):
    for nm in a.dtype.names:
        if nm in skip:
            continue
        x, y = np.asarray(a[nm], dtype=float), np.asarray(b[nm], dtype=float)
        scale = float(np.max(np.abs(x))) or 1.0
        err = float(np.max(np.abs(x - y))) / scale
        if not err <= rtol:
            return nm, err
    return None


def _history_check(c):
    kind = c['kind']
    s = build(kind, c['params'])          # an object of its own: it is about to be used
    if s is None:
        return None
    _BUILT[kind] = _BUILT.get(kind, 0) + 1
    site = 'RadShock:%s:' % kind
    cs = sound_speed(s)
    w = s.M0 * cs
    x = np.asarray(s.x, dtype=float)
    xs = np.sort(-x)                      # the wrappers return the profile mirrored: abscissa -flip(x)
    lo, hi = xs[1], xs[-2]
    pts0 = np.array([lo + f * (hi - lo) for f in c['frac']])
    t1, t2, t3 = c['times']
    seq = [t1, t2, t1, 0.0, t3, t3, 0.0, t2]
    pristine = copy.deepcopy(s) if kind != 'ED' else None      # (an ED object holds ~250 MB of arrays)
    snap = _snapshot(s, kind)
    first, seen = None, {}
    for k, t in enumerate(seq):
        pts = pts0 + w * t
        given = pts.copy()
        try:
            r = s(pts, t)
        except Exception as ex:
            if k == 0:
                return None
            return dict(site=site + 'history-raise', detail='call %d of the same object (t = %r, after t = %r) raised %s: %s'
                        % (k + 1, t, seq[:k], type(ex).__name__, str(ex)[:120]))
        if not np.array_equal(pts, given):
            return dict(site=site + 'request-modified', detail='the array of requested positions was modified by call %d' % (k + 1))
        m = _modified(s, kind, snap)
        if m is not None:
            return dict(site=site + 'state-modified',
                        detail='call %d (t = %r) changed the stored state of the solver object: attribute %s %s' % (k + 1, t, m[0], m[1]))
        if first is None:
            first = r
        else:
            # shift law against the object's own first answer: field(x0 + w t, t) does not depend on t
            bad = _fields_close(first, r, 1e-9, skip=('position',))
            if bad:
                return dict(site=site + 'history-shift',
                            detail='same object, call %d at t = %r after calls at %r: field %s at x0 + M0 c_s t differs from the first '
                                   'call by %.3e (relative)' % (k + 1, t, seq[:k], bad[0], bad[1]))
        if t in seen:
            bad = _fields_close(seen[t], r, 0.0)
            if bad:
                return dict(site=site + 'history-repeat',
                            detail='same object, same request (t = %r) asked again as call %d: field %s differs by %.3e' % (t, k + 1, bad[0], bad[1]))
        seen[t] = r
    if pristine is not None:
        k = 4 + (len(c['frac']) + int(1e3 * c['frac'][0])) % 4           # one of the later calls, against an object never called
        t = seq[k]
        try:
            fresh = pristine(pts0 + w * t, t)
        except Exception:
            return None
        bad = _fields_close(fresh, seen[t], 1e-13)
        if bad:
            return dict(site=site + 'history-fresh',
                        detail='t = %r: the used object (asked before at %r) and an object never asked before differ in field %s by %.3e'
                        % (t, seq[:k], bad[0], bad[1]))
    return None


rs_history = _tiered(_history_check, 'c12.radshock.history', quick=[('nED', 0), ('ie', 0), ('ED', 0), ('nED', 2), ('nED', 4)],
                      deep=('ED', 'nED', 'nED', 'ie'))


# ---------------------------------------------------------------------------------------------------------------
# ties: generated models of this package (Float twins) against the REAL objects
# ---------------------------------------------------------------------------------------------------------------
CONST_TIES = {
    # model: (kind, pool indices, fnctn module, profile attribute)
    'RadConstED': ('ED', [0, 1], 'fnctn_ED', 'ED_profile'),
    'RadConstNED': ('nED', [0, 1, 5], 'fnctn_nED', 'nED_profile'),
    'RadConstLM': ('nED', [2], 'fnctn_nED', 'nED_profile'),
    'RadConstFLD': ('nED', [4], None, 'nED_profile'),
    'RadConstSn': ('Sn', [0], 'fnctn_nED', 'Sn_profile'),
}
USER_KEYS = ('M0', 'rho0', 'Tref', 'Cv', 'gamma', 'sigA', 'sigS', 'expDensity_abs', 'expTemp_abs', 'expDensity_scat', 'expTemp_scat',
             'epsilon')


def _private(s, kind):
    return getattr(s, '_%s__prob' % RS_KINDS[kind])


def const_tie(rng, deep):
    """RadConst<X> twins against real solver objects of the pool: every output is read off the REAL wrapper, its private
    problem object and profile object; the cross sections are the real fnctn_* functions on the real profile object"""
    import importlib
    from py2lean.targets.t_rad2 import rad_const_outs, PROFILE_COPIES
    from .o_rad import twin_tie, _manifest
    tot = dict(evaluations=0, distinct_nontrivial=0, mismatches=[], samples=[])
    for name, (kind, idx, fmod, pattr) in CONST_TIES.items():
        if kind == 'Sn' and not deep:
            continue
        ent = _manifest(name)
        cases, want = [], {}
        for i in idx:
            s = cached(kind, POOL[kind][i])
            if s is None:
                continue
            prob = _private(s, kind)
            prof = getattr(prob, pattr)
            for rep in range(6):
                c = {k: float(getattr(s, k)) for k in USER_KEYS if k in ent['params']}
                if 'T' in ent['params']:
                    c['T'] = float(rng.uniform(1.0, float(prof.T1)))
                if 'P' in ent['params']:
                    j = rng.randrange(1, len(prof.Mach) - 1)
                    c['P'], c['M'] = float(prof.Pr[j]), float(prof.Mach[j])
                w = {'w_sound': s.sound, 'w_P0': s.P0, 'w_C0': s.C0, 'w_ar': getattr(s, 'ar', None),
                     'p_c': prob.c, 'p_ar': prob.ar, 'p_sound': prob.sound, 'p_C0': prob.C0, 'p_P0': prob.P0, 'p_rho0': prob.rho0,
                     'p_Tref': prob.Tref, 'f_P0': prof.P0, 'f_C0': prof.C0}
                for k in PROFILE_COPIES:
                    w['f_' + k] = getattr(prof, k)
                for k in ('Pr0', 'epsilon', 'T0'):
                    w['f_' + k] = getattr(prof, k, None)
                if fmod:
                    F = importlib.import_module('exactpack.solvers.radshocks.' + fmod)
                    st = [c['T']] if fmod == 'fnctn_ED' else [c['P'], c['M']]
                    w.update(sigma_a=F.sigma_a(*st, prof), sigma_s=F.sigma_s(*st, prof), sigma_t=F.sigma_t(*st, prof))
                    if fmod == 'fnctn_ED':
                        w['density'] = F.rho(*st, prof)
                    else:
                        w.update(density=F.mat_density(*st, prof), temperature=F.mat_temp(*st, prof))
                cases.append(c)
                want[json.dumps(c, sort_keys=True)] = [float(w[k]) for k in rad_const_outs(name)]
        if not cases:
            tot['mismatches'].append(dict(model=name, why='no real solver object of the pool could be constructed'))
            continue
        st = twin_tie(name, cases, lambda c: want[json.dumps(c, sort_keys=True)], rtol=1e-11)
        for k in ('evaluations', 'distinct_nontrivial'):
            tot[k] += st[k]
        tot['mismatches'] += st['mismatches']
        tot['samples'] += st['samples'][:1]
    return tot


NODE_TIES = {'RadNED': [0, 1, 5], 'RadNEDLM': [2]}


def node_tie(rng, deep):
    """RadNED / RadNEDLM twins against the STORED arrays of real nED profiles at their own nodes (Density, Tm, Speed, Pressure,
    Er, Tr, Fr as `splice_precursor_and_relaxation` stored them) and the real fnctn_nED functions on the real profile object"""
    import importlib
    from py2lean.targets.t_rad2 import NED_OUTS
    from .o_rad import twin_tie, _manifest
    F = importlib.import_module('exactpack.solvers.radshocks.fnctn_nED')
    tot = dict(evaluations=0, distinct_nontrivial=0, mismatches=[], samples=[])
    for name, idx in NODE_TIES.items():
        ent = _manifest(name)
        cases, want = [], {}
        for i in idx:
            s = cached('nED', POOL['nED'][i])
            if s is None:
                continue
            prof = _private(s, 'nED').nED_profile
            n = len(prof.Mach)
            for j in [rng.randrange(1, n - 1) for _ in range(40 if deep else 10)]:
                P, M = float(prof.Pr[j]), float(prof.Mach[j])
                c = dict(C0=float(prof.C0), P0=float(prof.P0), M=M, P=P, M0=float(s.M0), M1=float(prof.M1), T1=float(prof.T1),
                         epsilon=float(s.epsilon), gamma=float(s.gamma), sigA=float(s.sigA), sigS=float(s.sigS),
                         expDensity_abs=float(s.expDensity_abs), expTemp_abs=float(s.expTemp_abs),
                         expDensity_scat=float(s.expDensity_scat), expTemp_scat=float(s.expTemp_scat))
                c = {k: v for k, v in c.items() if k in ent['params']}
                Meq, Preq = (prof.M0, prof.Pr0) if M > 1 else (prof.M1, prof.Pr1)
                w = dict(Density=prof.Density[j], Tm=prof.Tm[j], Speed=prof.Speed[j], Pressure=prof.Pressure[j], Er=prof.Er[j],
                         Tr=prof.Tr[j], Fr=prof.Fr[j], sigma_t=F.sigma_t(P, M, prof), dPdx=F.dPdx(P, M, prof), F2=F.rad_flux2(P, M, prof),
                         beta0=F.mat_beta(Preq, Meq, prof), Em0=F.mat_total_energy(Preq, Meq, prof), F20=F.rad_flux2(Preq, Meq, prof),
                         Mach=M)
                cases.append(c)
                want[json.dumps(c, sort_keys=True)] = [float(w[k]) for k in NED_OUTS]
        if not cases:
            tot['mismatches'].append(dict(model=name, why='no real nED solver object of the pool could be constructed'))
            continue
        # dPdx and Fr are differences of nearly equal terms near the end states: relative 1e-7 of the field is the
        # rounding of the two evaluation orders, not a model difference
        st = twin_tie(name, cases, lambda c: want[json.dumps(c, sort_keys=True)], rtol=1e-7)
        for k in ('evaluations', 'distinct_nontrivial'):
            tot[k] += st[k]
        tot['mismatches'] += st['mismatches']
        tot['samples'] += st['samples'][:1]
    return tot


def fld_tie(rng, deep):
    """RadFLD twin against the real fnctn_FLD functions on a REAL flux-limited profile object, at its own nodes, with the
    flux limiter the driver stored for that node"""
    import importlib
    from py2lean.targets.t_rad2 import FLD_OUTS
    from .o_rad import twin_tie, _manifest
    F = importlib.import_module('exactpack.solvers.radshocks.fnctn_FLD')
    ent = _manifest('RadFLD')
    tot = dict(evaluations=0, distinct_nontrivial=0, mismatches=[], samples=[])
    s = cached('nED', POOL['nED'][4])
    if s is None:
        tot['mismatches'].append(dict(model='RadFLD', why='the flux-limited solver of the pool could not be constructed'))
        return tot
    prof = _private(s, 'nED').nED_profile
    lam, rr = np.array(prof.Lambda, dtype=float), np.array(prof.R, dtype=float)
    cases, want = [], {}
    try:
        for j in [rng.randrange(1, len(prof.Mach) - 1) for _ in range(40 if deep else 12)]:
            En, M = float(prof.Er[j]), float(prof.Mach[j])
            prof.Lambda, prof.R = float(lam[j]), float(rr[j])
            c = dict(C0=float(prof.C0), P0=float(prof.P0), E=En, M=M, Lam=float(lam[j]), R=float(rr[j]), M0=float(s.M0), M1=float(prof.M1),
                     T1=float(prof.T1), epsilon=float(s.epsilon), gamma=float(s.gamma), sigA=float(s.sigA), sigS=float(s.sigS),
                     expDensity_abs=float(s.expDensity_abs), expTemp_abs=float(s.expTemp_abs),
                     expDensity_scat=float(s.expDensity_scat), expTemp_scat=float(s.expTemp_scat))
            c = {k: v for k, v in c.items() if k in ent['params']}
            Meq, Ereq = (prof.M0, prof.Er0) if M > 1 else (prof.M1, prof.Er1)
            rho, T = F.mat_density(En, M, prof), F.mat_temp(En, M, prof)
            w = dict(Density=rho, Tm=T, Speed=F.mat_speed(En, M, prof), Pressure=F.mat_pres(En, M, prof),
                     Pr=(lam[j] + (lam[j] * rr[j]) ** 2) * En, Fr=F.rad_flux(En, M, prof),
                     sigma_t=prof.sigA * rho ** prof.expDensity_abs * T ** prof.expTemp_abs
                     + prof.sigS * rho ** prof.expDensity_scat * T ** prof.expTemp_scat,
                     dPdx=F.dPdx(En, M, prof), F2=F.rad_flux2(En, M, prof), beta0=F.mat_beta(Ereq, Meq, prof),
                     Em0=F.mat_total_energy(Ereq, Meq, prof), F20=F.rad_flux2(Ereq, Meq, prof))
            cases.append(c)
            want[json.dumps(c, sort_keys=True)] = [float(w[k]) for k in FLD_OUTS]
    finally:
        prof.Lambda, prof.R = lam, rr
    st = twin_tie('RadFLD', cases, lambda c: want[json.dumps(c, sort_keys=True)], rtol=1e-7)
    for k in ('evaluations', 'distinct_nontrivial'):
        tot[k] += st[k]
    tot['mismatches'] += st['mismatches']
    tot['samples'] += st['samples'][:1]
    return tot
