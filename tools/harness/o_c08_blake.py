"""C08 (Blake share) oracles: two public calls on the REAL code, one with every input re-expressed in other units
(mass, length, time factors M, L, T): moduli and pressure_scale x M/(L T^2), ref_density x M/L^3, lengths x L,
time x T; every output must come back re-expressed by its own dimension, and acceptance must not change."""
import math
import warnings

import numpy as np

from . import oracle as O
from .o_c15 import (MODULI, PAIRS, PAIR_NAME, construct, _problem, _consts, _pair_case, FIELDS, random_material)

DIM = dict(position='L', curr_posn='L', displacement='L', strain_rr='1', strain_qq='1', strain_vol='1', density='rho',
           stress_rr='p', stress_qq='p', pressure='p', stress_dev_rr='p', stress_dev_qq='p', stress_diff='p')


def _units(rng):
    M, L, T = (10 ** rng.uniform(-3, 3) for _ in range(3))
    return dict(M=M, L=L, T=T, p=M / (L * T * T), rho=M / L ** 3)


def rescale(kw, u):
    out = {}
    for k, v in kw.items():
        if k in MODULI:
            out[k] = v if k == 'poisson_ratio' else v * u['p']
        elif k == 'pressure_scale':
            out[k] = v * u['p']
        elif k == 'ref_density':
            out[k] = v * u['rho']
        elif k == 'cavity_radius':
            out[k] = v * u['L']
        else:
            out[k] = v
    return out


def _fields_gen(rng):
    kw, s = _problem(rng)
    cl, n = _consts(s)
    a = s.cavity_radius
    t = min(10 ** rng.uniform(-2, 1.0) / n, 0.9 * (600.0 / n - a / cl))
    front = a + cl * t
    pts = [a, a + (front - a) * rng.random(), a + (front - a) * rng.random(), front * 1.5, a * 0.5]
    return dict(kw=kw, u=_units(rng), pts=pts, t=t)


def _fields_check(c):
    kw, u = c['kw'], c['u']
    tag1, s1 = construct(kw)
    tag2, s2 = construct(rescale(kw, u))
    if tag1 != tag2:
        return dict(site='Blake:units:accept', detail='%r -> %s, re-expressed -> %s' % (kw, tag1, tag2))
    if tag1 != 'ok':
        return None
    with warnings.catch_warnings():
        warnings.simplefilter('ignore')
        try:
            f1 = s1(np.array(c['pts']), c['t'])
            f2 = s2(np.array(c['pts']) * u['L'], c['t'] * u['T'])
        except Exception:
            return None
    P0, Mm, a = s1.pressure_scale, s1.long_mod, s1.cavity_radius
    fac = {'L': u['L'], '1': 1.0, 'rho': u['rho'], 'p': u['p']}
    for i, r in enumerate(c['pts']):
        e0 = P0 / Mm * (a / max(r, a))
        scale = dict(position=r, curr_posn=r, displacement=e0 * max(r, a), strain_rr=e0, strain_qq=e0, strain_vol=e0,
                     density=s1.ref_density, stress_rr=P0, stress_qq=P0, pressure=P0, stress_dev_rr=P0, stress_dev_qq=P0,
                     stress_diff=P0)
        for k in FIELDS:
            x, y = float(f1[k][i]) * fac[DIM[k]], float(f2[k][i])
            if not (math.isfinite(x) and math.isfinite(y)):
                continue
            if abs(x - y) > 1e-9 * max(abs(x), abs(y)) + 1e-8 * scale[k] * fac[DIM[k]]:
                return dict(site='Blake:units:' + k, detail='r=%r t=%r units=%r: %r re-expressed vs %r' % (r, c['t'], u, x, y))
    return None


fields = O.make(_fields_gen, _fields_check, 'c08.blake.fields')


def moduli_oracle(pr):
    nm = PAIR_NAME[pr]

    def gen(rng):
        # values of a random PD material, sometimes made inconsistent by a coarse factor; never on or next to a
        # boundary of the acceptance region (there the floating-point outcome depends on rounding, which a change of
        # units alters: the property is about exact quantities)
        m = random_material(rng)
        kw = {pr[0]: m[pr[0]], pr[1]: m[pr[1]]}
        if rng.random() < 0.4:
            k = rng.choice(pr)
            kw[k] = kw[k] * rng.choice([-1.0, 0.3, 3.0, 10.0])
        return dict(kw=kw, u=_units(rng), cond=max(1.0, 1 / abs(1 - 2 * m['poisson_ratio']), 1 / abs(1 + m['poisson_ratio'])))

    def check(c):
        kw, u = c['kw'], c['u']
        tag1, s1 = construct(kw)
        tag2, s2 = construct(rescale(kw, u))
        if tag1 != tag2:
            return dict(site='Blake:units:accept:' + nm, detail='%r -> %s, re-expressed -> %s' % (kw, tag1, tag2))
        if tag1 != 'ok':
            return None
        for k in MODULI:
            x = float(getattr(s1, k)) * (1.0 if k == 'poisson_ratio' else u['p'])
            y = float(getattr(s2, k))
            big = max(abs(float(getattr(s1, q))) for q in MODULI if q != 'poisson_ratio')
            tol = 1e-10 * c['cond'] ** 2 * (1.0 if k == 'poisson_ratio' else u['p'] * big)
            if abs(x - y) > tol:
                return dict(site='Blake:units:' + nm + ':' + k, detail='%r units=%r: %r vs %r' % (kw, u, x, y))
        return None
    return O.make(gen, check, 'c08.blake.moduli.' + nm)


moduli = {PAIR_NAME[pr]: moduli_oracle(pr) for pr in PAIRS}
