"""harness.lean_io -- talk to the Lean side (line protocol, exact float transport)."""
import os
import struct
import subprocess

ROOT = os.path.dirname(os.path.dirname(os.path.dirname(os.path.abspath(__file__))))
LEAN_DIR = os.path.join(ROOT, 'lean')


def bits(x):
    return str(struct.unpack('<Q', struct.pack('<d', float(x)))[0])


def unbits(s):
    return struct.unpack('<d', struct.pack('<Q', int(s)))[0]


def run_lines(lines, timeout=900):
    """feed operation lines to `lake env lean --run Main.lean`; return output lines"""
    inp = '\n'.join(lines) + '\n'
    p = subprocess.run(['lake', 'env', 'lean', '--run', 'Main.lean'], cwd=LEAN_DIR, input=inp,
                       capture_output=True, text=True, timeout=timeout)
    if p.returncode != 0:
        raise RuntimeError('lean driver failed: ' + (p.stderr or p.stdout)[-2000:])
    out = p.stdout.split('\n')
    if out and out[-1] == '':
        out.pop()
    if len(out) != len(lines):
        raise RuntimeError('lean driver: %d lines in, %d lines out\n%s' % (len(lines), len(out), p.stderr[-1000:]))
    return out


def parse_result(line):
    ws = line.split()
    tag = ws[0]
    vals = [unbits(w) for w in ws[1:]]
    return tag, vals
