"""C07, work package c07rest — oracles on the real code and ties of the generated models.

Oracles (public calls of the real classes):
  bbnoh_vs_noh            NohBlackBoxEos / wrappers with ideal_gas_eos(gamma), Newton started near the physical root,
                          vs Noh(gamma, geometry): every field, both sides of the shock.  Tolerance: first-order bound
                          from the residual the Newton loop actually achieved (recorded by the solver), x10, plus rounding.
  sedov_wrappers          W(gamma) vs Sedov(geometry=k, gamma, rho0=1, omega=0, eblast=E_k documented): identical arrays.
  bbnoh_wrappers          W(eos, ic) vs NohBlackBoxEos(eos, ic + symmetry k-1, geometry=k): identical attributes and fields.
  default_dicts_do_not_leak   constructs base class and wrappers with their DEFAULT dictionaries in random orders and checks
                          that every object has the symmetry of its own class (all three places).
  geometry_keyword        FINDING  NohBlackBoxEos(eos, geometry=k) vs the k-wrapper.
  shared_ic               FINDING  one user dictionary handed to two wrappers.

Ties: Float twins of every model of targets/t_c07rest.py against the real classes, all in ONE run of the Lean driver
(cached per process and tier; each obligation sees the part that concerns its models)."""
import importlib
import json
import math
import os
import warnings

import numpy as np

from . import oracle as O
from . import lean_io
from . import o_c16 as H16
from . import o_sedov as HS
from py2lean.targets import t_c07rest as T7

BB = H16.BB
L = H16.L
NS = H16.NS
NOH = 'exactpack.solvers.noh.noh1:Noh'
BBW = {1: 'PlanarNohBlackBox', 2: 'CylindricalNohBlackBox', 3: 'SphericalNohBlackBox'}
FIELDS = ('position', 'density', 'pressure', 'specific_internal_energy', 'velocity')


# ------------------------------------------------------------------------------------------
# black-box Noh = Noh
# ------------------------------------------------------------------------------------------
def _bb_object(kind, k, gamma, guess, ic=None):
    """kind 'wrapper' | 'general' (symmetry k-1, geometry k) | 'base' (class defaults; k must be 3) |
    'ic' (general class, the incoming state `ic` given consistently: initial_conditions and rho0, u0)"""
    eos = L.ideal_gas_eos(gamma)
    if kind == 'wrapper':
        cls = getattr(BB, BBW[k])
        s = cls(eos) if ic is None else cls(eos, dict(ic))
    elif kind == 'general':
        d = dict(T7.DEFAULT_IC if ic is None else ic)
        d['symmetry'] = k - 1
        s = BB.NohBlackBoxEos(eos, d, geometry=k)
    elif kind == 'ic':
        s = BB.NohBlackBoxEos(eos, dict(density=ic['density'], velocity=ic['velocity'], pressure=0, symmetry=k - 1), geometry=k,
                              rho0=ic['density'], u0=ic['velocity'])
    else:
        s = BB.NohBlackBoxEos(eos)
    s.solver = NS.newton_solver()            # the class shares one solver object between all instances (finding C06)
    if guess is not None:
        s.set_new_solver_initial_guess(list(guess))
    return s


def _gen_bbnoh(rng):
    k = rng.choice([1, 2, 3])
    g = rng.uniform(1.1, 3.0)
    kind = rng.choice(['wrapper', 'wrapper', 'general', 'base', 'ic', 'ic'])
    if kind == 'base':
        k = 3
    rho0, u0 = (rng.uniform(0.3, 3.0), -rng.uniform(0.3, 3.0)) if kind == 'ic' else (1.0, -1.0)
    t = rng.uniform(0.1, 2.0)
    D = (g - 1) * abs(u0) / 2
    pts = sorted([rng.uniform(0.01, 2.0) for _ in range(5)] + [D * t * rng.uniform(0.05, 0.95), D * t * rng.uniform(1.05, 3.0)])
    return dict(kind=kind, geometry=k, gamma=g, rho0=rho0, u0=u0, pert=[rng.uniform(-0.2, 0.2) for _ in range(3)], pts=pts, t=t)


def _bb_call(c, kind=None):
    g, k = c['gamma'], c['geometry']
    ic = dict(density=c.get('rho0', 1.0), velocity=c.get('u0', -1.0), pressure=0, symmetry=k - 1)
    ex = H16.ideal_solution(g, ic)
    s = _bb_object(kind or c['kind'], k, g, [v * (1 + p) for v, p in zip(ex, c['pert'])], ic if (kind or c['kind']) == 'ic' else None)
    try:
        with np.errstate(all='ignore'):
            sol = s(np.array(c['pts'], dtype=float), c['t'])
    except Exception:
        return None, None
    return s, sol


def _chk_bbnoh(c):
    g, k, t = c['gamma'], c['geometry'], c['t']
    rho0, u0 = c.get('rho0', 1.0), c.get('u0', -1.0)
    s, sol = _bb_call(c)
    if s is None:
        return None                         # Newton failure is C16's business
    rho, e, D = [float(v) for v in s.solution_data['solution']]
    if not (D > 0 and rho > 0):
        return dict(site='NohBlackBoxEos:physical-root', detail='Newton result %r from a guess within 20%% of the physical root' % ((rho, e, D),))
    eps = max(float(s.solution_data['error_achieved']), float(s.solution_data['residual_achieved']) ** 2, 1e-15)
    # first-order sensitivity of the root to |F| <= eps (P0 = 0): theorem bbnoh_approx_root_partial + the derivative of F0 in D
    a = abs(u0)
    de = eps
    dD = (eps / rho + (g - 1) * eps) / a
    drho = eps + rho0 * k * (1 + a / D) ** (k - 1) * a / D ** 2 * dD
    dP = (g - 1) * (rho * de + e * drho)
    tol = dict(density=10 * drho + 1e-12 * rho, specific_internal_energy=10 * de + 1e-12 * a * a, pressure=10 * dP + 1e-12 * rho * a * a,
               velocity=0.0, position=0.0)
    ref = O.try_fields(NOH, dict(gamma=g, geometry=k, rho0=rho0, u0=u0), c['pts'], t)
    if ref is None:
        return None
    Dn = (g - 1) * a / 2
    for i, x in enumerate(c['pts']):
        if abs(x - Dn * t) <= 10 * dD * t + 1e-9 * x:
            continue                        # within the uncertainty of the shock position
        shocked = x < Dn * t
        for n in FIELDS:
            u, v = float(sol[n][i]), ref[n][i]
            lim = tol[n] if shocked else 1e-13 * max(abs(u), abs(v))
            if not (math.isfinite(u) and math.isfinite(v)) or abs(u - v) > lim:
                return dict(site='BBNoh=Noh:%s:%s' % ('shocked' if shocked else 'unshocked', n),
                            detail='%s geometry=%d gamma=%r rho0=%r u0=%r r=%r t=%r black-box=%r Noh=%r tol=%.3g (achieved residual %.3g)'
                                   % (c['kind'], k, g, rho0, u0, x, t, u, v, lim, eps))
    return None


bbnoh_vs_noh = O.make(_gen_bbnoh, _chk_bbnoh, 'c07.bbnoh_vs_noh')


# ------------------------------------------------------------------------------------------
# black-box wrappers = general class
# ------------------------------------------------------------------------------------------
def _attrs(s):
    r = s.residual_funciton
    return dict(symmetry=s.symmetry, geometry=s.geometry, rho0=s.rho0, u0=s.u0, p0=s.p0, ic=dict(s.initial_conditions),
                res=(type(r).__name__, r.u_0, r.rho_0, r.P_0, r.symmetry, float(r.e_0)), guess=list(s.initial_guess),
                tol=s.solver_tolerance, maxit=s.solver_max_iterations)


def _gen_bbw(rng):
    c = _gen_bbnoh(rng)
    c['kind'] = 'wrapper'
    c['geometry'] = rng.choice([1, 2, 3])
    # initial conditions other than the defaults too: the wrappers must still equal the general class (the
    # unshocked state then comes from the class attributes in BOTH: finding C02.bbnoh.initial_state)
    c['ic'] = None if rng.random() < 0.5 else dict(density=rng.uniform(0.5, 2.0), velocity=-rng.uniform(0.5, 2.0), pressure=0)
    if c['ic'] is not None and rng.random() < 0.5:
        # a dictionary written for the general class carries 'symmetry'; handed to a wrapper of another geometry, the
        # wrapper's own geometry must win (seeded C16-10: `defaults.update(user)` let the user's key override it)
        c['ic']['symmetry'] = (c['geometry'] - 1 + rng.choice([1, 2])) % 3
    return c


def _chk_bbw(c):
    g, k = c['gamma'], c['geometry']
    ic = c.get('ic')
    icx = dict(T7.DEFAULT_IC if ic is None else ic, symmetry=k - 1)
    guess = [v * (1 + p) for v, p in zip(H16.ideal_solution(g, icx), c['pert'])]
    a = _bb_object('wrapper', k, g, guess, ic)
    b = _bb_object('general', k, g, guess, ic)
    if _attrs(a) != _attrs(b):
        return dict(site='%s:attributes' % BBW[k], detail='%r vs %r' % (_attrs(a), _attrs(b)))
    out = []
    for s in (a, b):
        try:
            with np.errstate(all='ignore'):
                out.append(s(np.array(c['pts'], dtype=float), c['t']))
        except Exception as ex:
            out.append(type(ex).__name__)
    if isinstance(out[0], str) or isinstance(out[1], str):
        if out[0] != out[1] if isinstance(out[0], str) and isinstance(out[1], str) else True:
            return dict(site='%s:raises' % BBW[k], detail='%r vs %r' % (out[0] if isinstance(out[0], str) else 'returned',
                                                                         out[1] if isinstance(out[1], str) else 'returned'))
        return None
    if out[0].dtype.names != out[1].dtype.names:
        return dict(site='%s:fields' % BBW[k], detail='%r vs %r' % (out[0].dtype.names, out[1].dtype.names))
    for n in out[0].dtype.names:
        if not np.array_equal(out[0][n], out[1][n], equal_nan=True):
            return dict(site='%s:%s' % (BBW[k], n), detail='gamma=%r t=%r wrapper %r general %r' % (g, c['t'], list(out[0][n]), list(out[1][n])))
    return None


bbnoh_wrappers = O.make(_gen_bbw, _chk_bbw, 'c07.bbnoh_wrappers')


def _gen_order(rng):
    n = rng.choice([2, 3, 4, 5])
    return dict(order=[rng.choice('BPCS') for _ in range(n)], gamma=rng.uniform(1.1, 3.0), call=rng.random() < 0.5)


def _chk_order(c):
    cls = dict(B=BB.NohBlackBoxEos, P=BB.PlanarNohBlackBox, C=BB.CylindricalNohBlackBox, S=BB.SphericalNohBlackBox)
    want = dict(B=2, P=0, C=1, S=2)
    objs = []
    for k in c['order']:
        s = cls[k](L.ideal_gas_eos(c['gamma']))
        objs.append((k, s))
    for i, (k, s) in enumerate(objs):
        got = (s.symmetry, s.initial_conditions.get('symmetry'), s.residual_funciton.symmetry)
        if got != (want[k],) * 3:
            return dict(site='NohBlackBox:default-dictionary-leak', detail='order %r: object %d (%s) has symmetry %r' % (c['order'], i, k, got))
    if c['call']:
        # the residual re-reads the dictionary at the first call: check the symmetry it then solves for
        k, s = objs[0]
        s.solver = NS.newton_solver()
        g = c['gamma']
        s.set_new_solver_initial_guess(H16.ideal_solution(g, dict(T7.DEFAULT_IC, symmetry=want[k])))
        try:
            s(np.array([0.01, 5.0]), 1.0)
        except Exception:
            return None
        if s.residual_funciton.symmetry != want[k]:
            return dict(site='NohBlackBox:default-dictionary-leak', detail='order %r: first object solves for symmetry %r' % (c['order'], s.residual_funciton.symmetry))
    return None


default_dicts_do_not_leak = O.make(_gen_order, _chk_order, 'c07.bbnoh_default_dicts')


# ---------------------------------------------------------------- findings
GK_WITNESS = dict(geometry=1, gamma=5. / 3., pts=[0.1, 1.0], t=1.0)


def _gen_gk(rng):
    return dict(geometry=rng.choice([1, 2]), gamma=rng.uniform(1.2, 3.0), pts=sorted(rng.uniform(0.02, 2.0) for _ in range(4)),
                t=rng.uniform(0.2, 1.5))


def _solve_exact(s, gamma, sym):
    s.solver = NS.newton_solver()
    s.set_new_solver_initial_guess(H16.ideal_solution(gamma, dict(T7.DEFAULT_IC, symmetry=sym)))


def _chk_gk(c):
    """NohBlackBoxEos(eos, geometry=k) should be the k-wrapper (each Newton started AT the physical root of the problem
    the object actually solves, so the comparison does not depend on convergence)"""
    g, k = c['gamma'], c['geometry']
    a = getattr(BB, BBW[k])(L.ideal_gas_eos(g))
    b = BB.NohBlackBoxEos(L.ideal_gas_eos(g), geometry=k)
    _solve_exact(a, g, a.symmetry)
    _solve_exact(b, g, b.symmetry)
    try:
        with np.errstate(all='ignore'):
            sa, sb = a(np.array(c['pts']), c['t']), b(np.array(c['pts']), c['t'])
    except Exception:
        return None
    for n in FIELDS:
        for i, x in enumerate(c['pts']):
            u, v = float(sa[n][i]), float(sb[n][i])
            if abs(u - v) > 1e-6 * max(abs(u), abs(v)):
                return dict(site='NohBlackBoxEos:geometry-keyword-ignored',
                            detail='gamma=%r r=%r t=%r %s: %s(eos)=%r, NohBlackBoxEos(eos, geometry=%d)=%r (object has geometry=%r, symmetry=%r)'
                                   % (g, x, c['t'], n, BBW[k], u, k, v, b.geometry, b.symmetry))
    return None


def geometry_keyword():
    st = dict(n=0)

    def gen(rng):
        st['n'] += 1
        return dict(GK_WITNESS) if st['n'] == 1 else _gen_gk(rng)
    run = O.make(gen, _chk_gk, 'c07.bbnoh_geometry_keyword')

    def wrapped(rng, budget, deep, replay=None):
        st['n'] = 0
        return run(rng, budget, deep, replay)
    wrapped.__name__ = 'c07.bbnoh_geometry_keyword'
    return wrapped


def _chk_shared(c):
    """d = {...}; a = W1(eos, d); W2(eos, d): a must still be a W1"""
    g, k1, k2 = c['gamma'], c['first'], c['second']
    d = dict(T7.DEFAULT_IC)
    a = getattr(BB, BBW[k1])(L.ideal_gas_eos(g), d)
    getattr(BB, BBW[k2])(L.ideal_gas_eos(g), d)
    ref = getattr(BB, BBW[k1])(L.ideal_gas_eos(g), dict(T7.DEFAULT_IC))
    # start each Newton at the physical root of the problem the object will actually solve
    _solve_exact(a, g, a.initial_conditions['symmetry'])
    _solve_exact(ref, g, ref.initial_conditions['symmetry'])
    try:
        with np.errstate(all='ignore'):
            sa, sr = a(np.array(c['pts']), c['t']), ref(np.array(c['pts']), c['t'])
    except Exception:
        return None
    for n in FIELDS:
        for i, x in enumerate(c['pts']):
            u, v = float(sa[n][i]), float(sr[n][i])
            if abs(u - v) > 1e-6 * max(abs(u), abs(v)):
                return dict(site='NohBlackBoxWrappers:shared-initial-conditions',
                            detail='gamma=%r r=%r t=%r %s: %s built from a dictionary later reused for %s returns %r, a fresh one %r '
                                   '(solves for symmetry %r, assembles with symmetry %r)'
                                   % (g, x, c['t'], n, BBW[k1], BBW[k2], u, v, a.residual_funciton.symmetry, a.symmetry))
    return None


def shared_ic():
    st = dict(n=0)

    def gen(rng):
        st['n'] += 1
        if st['n'] == 1:
            return dict(first=1, second=3, gamma=5. / 3., pts=[0.1, 1.0], t=1.0)
        k1 = rng.choice([1, 2, 3])
        return dict(first=k1, second=rng.choice([k for k in (1, 2, 3) if k != k1]), gamma=rng.uniform(1.2, 3.0),
                    pts=sorted(rng.uniform(0.02, 2.0) for _ in range(4)), t=rng.uniform(0.2, 1.5))
    run = O.make(gen, _chk_shared, 'c07.bbnoh_shared_ic')

    def wrapped(rng, budget, deep, replay=None):
        st['n'] = 0
        return run(rng, budget, deep, replay)
    wrapped.__name__ = 'c07.bbnoh_shared_ic'
    return wrapped


# ------------------------------------------------------------------------------------------
# Sedov wrappers = general class
# ------------------------------------------------------------------------------------------
SEDOV_PKG = importlib.import_module(T7.SEDOV_PKG)
_SW = list(T7.SEDOV_WRAPPERS.values())
_sedov_state = dict(n=0)


def _gen_sedov(rng):
    # every wrapper in turn (a public Sedov call costs ~0.3 s: the oracle runs few cases)
    _sedov_state['n'] += 1
    w = _SW[_sedov_state['n'] % 3]
    u = rng.random()
    if w['geometry'] == 3 and u < 0.15:
        g = 7.0 + rng.choice([-1, 1]) * rng.uniform(0.002, 0.035)   # singular type (|v2 - v*| <= 1e-4; exactly 7 divides by zero: C20)
    elif w['geometry'] == 3 and u < 0.3:
        g = rng.uniform(7.5, 10.0)                # vacuum
    elif u < 0.5:
        g = 1.4
    else:
        g = rng.uniform(1.1, 3.0)
    return dict(wrapper=w['cls'], geometry=w['geometry'], eblast=w['eblast'], gamma=g, frac=[rng.uniform(0.05, 1.6) for _ in range(6)],
                t=rng.uniform(0.2, 2.0), default_gamma=(u > 0.9))


def _chk_sedov(c):
    W = getattr(SEDOV_PKG, c['wrapper'])
    try:
        with warnings.catch_warnings():
            warnings.simplefilter('ignore')
            if c['default_gamma']:
                a = W()
                b = HS._cls()(geometry=c['geometry'], gamma=T7.SEDOV_DOC['gamma'], rho0=T7.SEDOV_DOC['rho0'], omega=T7.SEDOV_DOC['omega'],
                              eblast=c['eblast'])
            else:
                a = W(gamma=c['gamma'])
                b = HS._cls()(geometry=c['geometry'], gamma=c['gamma'], rho0=T7.SEDOV_DOC['rho0'], omega=T7.SEDOV_DOC['omega'],
                              eblast=c['eblast'])
    except Exception as ex:
        return dict(site='%s:constructor' % c['wrapper'], detail='%s: %s' % (type(ex).__name__, ex))
    r2 = HS.r2_of(b, c['t'])
    pts = np.array(sorted(f * r2 for f in c['frac']))
    out = []
    for s in (a, b):
        try:
            with warnings.catch_warnings():
                warnings.simplefilter('ignore')
                with np.errstate(all='ignore'):
                    out.append(s(pts.copy(), c['t']))
        except Exception as ex:
            out.append(type(ex).__name__)
    if isinstance(out[0], str) or isinstance(out[1], str):
        if not (isinstance(out[0], str) and out[0] == out[1]):
            return dict(site='%s:raises' % c['wrapper'], detail='%r vs %r' % tuple(o if isinstance(o, str) else 'returned' for o in out))
        return None
    if out[0].dtype.names != out[1].dtype.names:
        return dict(site='%s:fields' % c['wrapper'], detail='%r vs %r' % (out[0].dtype.names, out[1].dtype.names))
    for n in out[0].dtype.names:
        if not np.array_equal(out[0][n], out[1][n], equal_nan=True):
            return dict(site='%s:%s' % (c['wrapper'], n),
                        detail='gamma=%r t=%r r=%r: %s %r, Sedov(geometry=%d, eblast=%r) %r'
                               % (c['gamma'], c['t'], list(pts), c['wrapper'], list(out[0][n]), c['geometry'], c['eblast'], list(out[1][n])))
    ja, jb = a.jumps[0], b.jumps[0]
    if getattr(ja, 'location', None) != getattr(jb, 'location', None):
        return dict(site='%s:jump' % c['wrapper'], detail='shock position %r vs %r' % (getattr(ja, 'location', None), getattr(jb, 'location', None)))
    return None


sedov_wrappers = O.make(_gen_sedov, _chk_sedov, 'c07.sedov_wrappers')


# ------------------------------------------------------------------------------------------
# ties: Float twins of the generated models vs the real classes, one Lean process
# ------------------------------------------------------------------------------------------
def _manifest():
    return json.load(open(os.path.join(lean_io.LEAN_DIR, 'EPV', 'Gen', 'gen_manifest.json')))


def _bb_real(kind, k, ic=None, gamma=5. / 3.):
    """the real object of a traced black-box route (same construction as targets/t_c07rest._bb_make)"""
    eos = L.ideal_gas_eos(gamma)
    _, s = T7._bb_make(kind, k, ic, eos)
    return eos, s


BB_RUN = {'BBRunBase': ('Base', 3), 'BBRunPlanar': ('Planar', 1), 'BBRunCylindrical': ('Cylindrical', 2), 'BBRunSpherical': ('Spherical', 3),
          'BBRunGen1': ('Gen', 1), 'BBRunGen2': ('Gen', 2), 'BBRunGen3': ('Gen', 3), 'BBRunGeomOnly1': ('GeomOnly', 1),
          'BBRunGeomOnly2': ('GeomOnly', 2), 'BBRunSharedIC': ('SharedIC', 1),
          'BBRunIC1': ('IC', 1), 'BBRunIC2': ('IC', 2), 'BBRunIC3': ('IC', 3)}
BB_INIT = {}
for _g, (_c, _k) in T7.BB_WRAPPERS.items():
    BB_INIT['BBInit' + _g] = (_g, _k, True)
    BB_INIT['BBInitGen%d' % _k] = ('Gen', _k, True)
    BB_INIT['BBInitGeomOnly%d' % _k] = ('GeomOnly', _k, False)


def _bb_run_cases(name, rng, n):
    kind, k = BB_RUN[name]
    cases = []
    for i in range(n):
        g = rng.uniform(1.1, 3.0) if i else 1.0           # first case: the AssertionError leaf
        ic, extra = None, {}
        if kind == 'IC':
            ic = dict(density=rng.uniform(0.3, 3.0), velocity=-rng.uniform(0.3, 3.0))
            if i == 1:
                ic['velocity'] = rng.choice([0.0, 0.7])    # rejected by the residual's validation (ValueError)
            if i == 2:
                ic['density'] = rng.choice([0.0, -0.5])
            extra = dict(rho_0=ic['density'], u_0=ic['velocity'])
        try:
            eos, s = _bb_real(kind, k, ic, g)
        except (AssertionError, ValueError) as ex:
            cases.append((dict(extra, gamma=g, x0=1.0, x1=1.0, x2=1.0, r=1.0, t=1.0), ('raise', type(ex).__name__)))
            continue
        s.solver = NS.newton_solver()
        default_guess = [float(v) for v in s.initial_guess]  # what the untouched object hands to the solver (the traced route)
        d = dict(s.initial_conditions)                      # what the residual will solve for at the first call
        ex = H16.ideal_solution(g, d)
        guess = [v * (1 + rng.uniform(-0.15, 0.15)) for v in ex]
        s.set_new_solver_initial_guess(guess)
        t = rng.uniform(0.1, 2.0)
        r = ex[2] * t * rng.choice([rng.uniform(0.05, 0.95), rng.uniform(1.05, 3.0)])
        try:
            with np.errstate(all='ignore'):
                sol = s(np.array([r]), t)
        except Exception:
            continue
        x = [float(v) for v in s.solution_data['solution']]
        F = [float(v) for v in s.residual_funciton.F(np.array(x)).copy()]
        want = [float(sol[f][0]) for f in T7.BB_RUN_FIELDS] + F + [float(s.residual_funciton.symmetry), float(s.symmetry)] + default_guess
        # |F| is a difference of nearly equal numbers: compare with an absolute tolerance scaled by its terms
        sc = max(1.0, abs(x[0])) * max(1.0, abs(d['velocity'])) ** 2
        atol = [0.0] * 5 + [1e-12 * sc, 1e-12 * sc, 1e-12 * sc] + [0.0] * 5
        cases.append((dict(extra, gamma=g, x0=x[0], x1=x[1], x2=x[2], r=r, t=t), ('ok', want, atol)))
    return cases


def _bb_init_cases(name, rng, n):
    kind, k, symbolic = BB_INIT[name]
    cases = []
    for i in range(n):
        g = rng.uniform(1.1, 3.0)
        ic = None
        vals = dict(gamma=g)
        if symbolic:
            j = i % 6
            ic = dict(density=rng.uniform(0.5, 2.0), velocity=-rng.uniform(0.5, 2.0), pressure=0.0)
            if j == 1:
                ic['velocity'] = rng.choice([0.0, rng.uniform(0.1, 1.0)])
            elif j == 2:
                ic['density'] = rng.choice([0.0, -rng.uniform(0.1, 1.0)])
            elif j == 3:
                ic['pressure'] = rng.choice([-0.1, rng.uniform(0.01, 0.5)])
            vals.update(rho_0=ic['density'], u_0=ic['velocity'], P_0=ic['pressure'])
        try:
            eos, s = _bb_real(kind, k, ic, g)
            want = [float(v) for v in T7._bb_attrs(eos, s)]
            cases.append((vals, ('ok', want, None)))
        except Exception as ex:
            cases.append((vals, ('raise', type(ex).__name__)))
    return cases


def _sedov_real(name):
    """(kind, wrapper record) of a Sedov model of this package"""
    if name.startswith('SedovW'):
        for g, w in T7.SEDOV_WRAPPERS.items():
            if name.startswith('SedovW' + g):
                return 'W', w
    k = int(name[len('SedovG')])
    return 'G', [w for w in T7.SEDOV_WRAPPERS.values() if w['geometry'] == k][0]


def _sedov_attr_values(s):
    out = []
    with_codes = T7._sedov_attrs(s)
    for k in T7.SEDOV_ATTR_OUTS:
        out.append(float(with_codes[k]))
    return out


def _sedov_gammas(w, rng, n):
    gs = [0.9, 1.4, 2.0]     # rejected, default, gamma = 2 (denom3 = 0: special singularity omega3)
    if w['geometry'] == 3:
        gs += [7.01, 9.0]
    while len(gs) < n:
        gs.append(rng.uniform(1.05, 4.0))
    return gs[:max(n, 3)]


def _sedov_init_cases(name, rng, n):
    kind, w = _sedov_real(name)
    cases = []
    for g in _sedov_gammas(w, rng, n):
        vals = dict(gamma=g, eval1_quad=0.0, eval2_quad=0.0)
        try:
            with warnings.catch_warnings():
                warnings.simplefilter('ignore')
                s = T7._sedov_make(kind, w, g)
        except Exception as ex:
            cases.append((vals, ('raise', type(ex).__name__)))
            continue
        if s.solution_type != 'singular':
            vals.update(eval1_quad=float(s.eval1), eval2_quad=float(s.eval2))
        cases.append((vals, ('ok', _sedov_attr_values(s), None)))
    return cases


def _sedov_run_cases(name, man, rng, n):
    kind, w = _sedov_real(name)
    which = 'Sing' if name.endswith('Sing') else 'Vac' if name.endswith('Vac') else 'Std'
    e = man[name]
    cases = []
    for i in range(n):
        g = {'Std': rng.uniform(1.1, 3.0), 'Sing': 7.0 + rng.choice([-1, 1]) * rng.uniform(0.002, 0.035),
             'Vac': rng.uniform(7.5, 10.0)}[which]
        with warnings.catch_warnings():
            warnings.simplefilter('ignore')
            s = T7._sedov_make(kind, w, g)
        if s.solution_type != T7.SEDOV_RUN_WITNESS[which][0] or s.special_singularity != 'none':
            continue
        t = rng.uniform(0.1, 2.0) if i else 0.0
        r2 = HS.r2_of(s, max(t, 0.1))
        r = r2 * rng.choice([rng.uniform(0.02, 0.99), rng.uniform(1.01, 2.0)])
        sol, atoms = HS._run2_capture(s, r, t)
        vals = dict(gamma=g, alpha=float(s.alpha), r=r, t=t)
        vals.update(atoms)
        for a in e['params']:
            vals.setdefault(a, 0.0)
        if t > 0:
            cases.append((vals, ('ok', [float(sol[f][0]) for f in e['fields']], None)))
        else:
            cases.append((vals, ('nan',)))
    return cases


_TIE_CACHE = {}
ARITH = ('ZeroDivisionError', 'OverflowError', 'FloatingPointError')


def _close(a, b, rtol, atol):
    fa, fb = math.isfinite(a), math.isfinite(b)
    if not fa or not fb:
        return (not fa and not fb) and (math.isnan(a) == math.isnan(b))
    return abs(a - b) <= rtol * max(abs(a), abs(b)) + atol


def _all_ties(rng, deep):
    """{model: stats}; every model of the package, one Lean process"""
    if deep in _TIE_CACHE:
        return _TIE_CACHE[deep]
    man = _manifest()
    n = 30 if deep else 6
    jobs = []
    stats = {}
    for name in T7.C7_MODELS:
        if name == 'C7Table':
            continue
        ent = man.get(name, {})
        st = stats[name] = dict(evaluations=0, distinct_nontrivial=0, mismatches=[], samples=[])
        if ent.get('status') != 'ok':
            st['mismatches'].append(dict(model=name, why='model was not generated: %s' % ent.get('error')))
            continue
        try:
            with np.errstate(all='ignore'):
                if name in BB_RUN:
                    cases = _bb_run_cases(name, rng, n)
                elif name in BB_INIT:
                    cases = _bb_init_cases(name, rng, max(n, 6))
                elif name.endswith('Init'):
                    cases = _sedov_init_cases(name, rng, n)
                else:
                    cases = _sedov_run_cases(name, man, rng, n if deep else 4)
        except Exception as ex:
            st['mismatches'].append(dict(model=name, why='real side failed: %s: %s' % (type(ex).__name__, ex)))
            continue
        order = ent['params'] + ent['pvars'] + ([ent['tvar']] if ent['tvar'] else [])
        for vals, exp in cases:
            jobs.append((name, vals, exp, name + ' ' + ' '.join(lean_io.bits(float(vals[a])) for a in order)))
    outs = lean_io.run_lines([j[3] for j in jobs]) if jobs else []
    for (name, vals, exp, line), out in zip(jobs, outs):
        st = stats[name]
        st['evaluations'] += 1
        tag, mv = lean_io.parse_result(out)
        kind = tag.split(':')[0]
        bad = None
        if exp[0] == 'ok':
            if kind != 'ok':
                bad = 'code returned, model %s' % tag
            elif len(mv) != len(exp[1]):
                bad = 'arity: model %d code %d' % (len(mv), len(exp[1]))
            else:
                atol = exp[2] or [0.0] * len(mv)
                for f, a, b, at in zip(man[name]['fields'], exp[1], mv, atol):
                    if not _close(a, b, 1e-11, at + 1e-300):
                        bad = 'output %s: code %r model %r' % (f, a, b)
                        break
                if not bad:
                    st['distinct_nontrivial'] += 1
        elif exp[0] == 'nan':
            if kind != 'nan':
                bad = 'code NaN, model %s' % tag
        else:
            if kind == 'raise':
                if tag.split(':')[2] != exp[1]:
                    bad = 'code raises %s, model %s' % (exp[1], tag)
            elif not (exp[1] in ARITH and kind == 'ok' and any(not math.isfinite(v) for v in mv)):
                bad = 'code raises %s, model %s' % (exp[1], tag)
        if bad:
            st['mismatches'].append(dict(model=name, input=vals, why=bad))
        if not st['samples']:
            st['samples'].append(dict(model=name, input=vals, outcome=tag))
    _TIE_CACHE[deep] = stats
    return stats


def tie(models):
    """tie function of an obligation: the part of the package-wide run that concerns `models`"""
    def f(rng, deep):
        allst = _all_ties(rng, deep)
        tot = dict(evaluations=0, distinct_nontrivial=0, mismatches=[], samples=[])
        for m in models:
            st = allst.get(m)
            if st is None:
                tot['mismatches'].append(dict(model=m, why='no tie for this model'))
                continue
            tot['evaluations'] += st['evaluations']
            tot['distinct_nontrivial'] += st['distinct_nontrivial']
            tot['mismatches'] += st['mismatches'][:1]
            if len(tot['samples']) < 2:
                tot['samples'] += st['samples'][:1]
        return tot
    return f


def table_tie(rng, deep):
    """the introspection table against the live classes (same facts, read directly)"""
    man = _manifest()
    rows = {r['name']: r for r in man.get('C7Table', {}).get('rows', [])}
    st = dict(evaluations=0, distinct_nontrivial=0, mismatches=[], samples=[])
    for mod, cn in T7.C7_CLASSES:
        c = getattr(importlib.import_module(mod), cn)
        st['evaluations'] += 1
        r = rows.get(cn)
        if r is None:
            st['mismatches'].append(dict(model='C7Table', why='no row for %s' % cn))
            continue
        owner = [k.__name__ for k in c.__mro__ if '_run' in k.__dict__][0]
        init_owner = [k.__name__ for k in c.__mro__ if '__init__' in k.__dict__][0]
        if r['run_owner'] != owner or r['init_owner'] != init_owner or sorted(c.parameters) != r['declared']:
            st['mismatches'].append(dict(model='C7Table', why='%s: table %r, class %r' % (cn, r, (owner, init_owner, sorted(c.parameters)))))
        else:
            st['distinct_nontrivial'] += 1
    # the default dictionaries, read from the live constructors now (after whatever this process has constructed)
    import inspect
    ent = man.get('C7Table', {})
    defaults = [inspect.signature(getattr(BB, c).__init__).parameters['initial_conditions'].default
                for c in ('NohBlackBoxEos', 'PlanarNohBlackBox', 'CylindricalNohBlackBox', 'SphericalNohBlackBox')]
    st['evaluations'] += 1
    live = (len(set(id(d) for d in defaults)) == 4, sorted('%s=%r' % kv for kv in defaults[0].items()))
    if live != (ent.get('distinct_defaults'), ent.get('base_default')):
        st['mismatches'].append(dict(model='C7Table', why='default dictionaries: table %r, live %r'
                                     % ((ent.get('distinct_defaults'), ent.get('base_default')), live)))
    for k, d in zip((0, 1, 2), defaults[1:]):
        if d.get('symmetry', k) != k:
            st['mismatches'].append(dict(model='C7Table', why='default dictionary of wrapper %d holds symmetry %r' % (k + 1, d.get('symmetry'))))
    st['samples'].append(dict(model='C7Table', rows=len(rows)))
    return st
