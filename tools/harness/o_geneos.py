"""Tie and oracles of the work package `geneos`: the GENERAL-EOS 1-D Riemann driver
(`RiemannGenEOS.driver`, public wrapper `GenEOS_Solver`), ideal-gas and JWL data (properties C02, C03, C04, C07, C09).

TIE
  tie_geneos   the hand model lean/EPV/Model/RiemannGen.lean (Float instance, driver `RiemannGen`) vs the REAL
               public `GenEOS_Solver`.  For one public call the numerical atoms are captured by wrapping
               `r_int_call`, `match_shocks` and `bisect` in the namespace of `riemann.py` for that call:
               the isentrope tables (scipy ode), the Hugoniot densities (scipy bisect per ladder pressure) and
               the star pressure (scipy bisect on the interpolated P-U curves).  They are handed to the model,
               which rebuilds the pressure ladders, `star_velocity` on the Hugoniot ladder, the splice, the
               star values by `np.interp`, the filters, the side classification, `Vregs`, the window and the
               grid, the `reg_state_geos` sequence at grid nodes and the wrapper's final `np.interp`.
               Compared: pattern (exact), `Vregs`, the window, and (p, rho, u, e) at user points — random points,
               the grid nodes next to every wave position, and points inside the smeared cells.
               All atoms are captured, so the comparison is to rounding (1e-9 relative; worst observed on
               the unchanged tree is recorded in `worst`).  The model also returns the residual of the P-U
               crossing at `px`, which must vanish to the tolerance of `bisect` (the defining property of
               the atom `px`).  Cases: random ideal-gas data and perturbed JWL data (Shyue, Lee: the JWL
               problems of the test-suite) covering all four patterns with velocity differences; coverage is
               measured and returned.  Table sizes are reduced (`num_int_pts`, `num_x_pts` are parameters of
               the solver) so that a solve costs ~0.1 s.

ORACLES (numeric checks on the REAL GenEOS_Solver; tests, not proofs) — quick tier: a smoke set of fixed
problems at reduced table size; thorough tier: random sweep
  ig_vs_gen  C07  GenEOS_Solver vs IGEOS_Solver on ideal-gas data, away from the smeared cells
  rh         C02  Rankine-Hugoniot / contact conditions from the returned fields next to each wave
  eos        C03  e = sie(p, rho) of the declared closure at returned points away from the smeared cells
  mirror     C09  two public calls related by the mirror symmetry
  boost      C09  two public calls related by a Galilean boost
Tolerances follow the table resolution (relative error of linear interpolation in tables of `num_int_pts`
rows, calibrated on the unchanged tree with a 10x margin)."""
import contextlib
import io
import math
import warnings

import numpy as np

from . import lean_io
from . import oracle as O

GEN = 'exactpack.solvers.riemann.ep_riemann:GenEOS_Solver'
IG = 'exactpack.solvers.riemann.ep_riemann:IGEOS_Solver'
STATE = ('pl', 'rl', 'ul', 'gl', 'pr', 'rr', 'ur', 'gr')
JWLC = ('A', 'B', 'R1', 'R2', 'r0')
PATTERNS = ('SCS', 'SCR', 'RCS', 'RCR')
FIELDS = ('pressure', 'density', 'velocity', 'specific_internal_energy')

# the two JWL problems of the test-suite (exactpack/tests/test_riemann.py: Shyue 2001, Lee 2013)
SHYUE = dict(rl=1.7, ul=0., pl=10.0, gl=1.25, rr=1.0, ur=0., pr=0.5, gr=1.25,
             A=8.545, B=0.205, R1=4.6, R2=1.35, r0=1.84, e0=0.0, problem='JWL')
LEE = dict(rl=0.9525, ul=0., pl=1.0, gl=1.8938, rr=3.81, ur=0., pr=2.0, gr=1.8938,
           A=632.1, B=-0.04472, R1=11.3, R2=1.13, r0=1.905, e0=0.0, problem='JWL')


@contextlib.contextmanager
def hush():
    with contextlib.redirect_stdout(io.StringIO()), warnings.catch_warnings(), np.errstate(all='ignore'):
        warnings.simplefilter('ignore')
        yield


def lu(rng, lo, hi):
    return math.exp(rng.uniform(math.log(lo), math.log(hi)))


def rel(a, b, floor=1e-300):
    if not (math.isfinite(a) and math.isfinite(b)):
        return 0.0 if (math.isfinite(a) == math.isfinite(b)) else float('inf')
    return abs(a - b) / max(abs(a), abs(b), floor)


# ======================================================================================
# the real call, with the numerical atoms captured
# ======================================================================================

class Captured(object):
    """what one public call left behind"""
    pass


def solve(c, xs, capture=True):
    """GenEOS_Solver(**c)(xs, t) with r_int_call / match_shocks / bisect wrapped in riemann.py's namespace for
    this one call.  Returns a Captured (fields, solver attributes, atoms) or the name of the exception."""
    from exactpack.solvers.riemann import riemann as RM
    from py2lean.trace import load
    _, C = load(GEN)
    cap = Captured()
    cap.rint, cap.shocks, cap.px = [], [], []
    orig = (RM.r_int_call, RM.match_shocks, RM.bisect)

    def w_rint(*a, **k):
        r = orig[0](*a, **k)
        cap.rint.append([np.array(v, dtype=float) for v in r])
        return r

    def w_shocks(*a, **k):
        r = orig[1](*a, **k)
        cap.shocks.append([np.array(v, dtype=float) for v in r])
        return r

    def w_bisect(*a, **k):
        r = orig[2](*a, **k)
        cap.px.append(float(r))
        return r
    kw = {k: c[k] for k in c if k not in ('t', 'tag')}
    try:
        with hush():
            s = C(**kw)
            if capture:
                RM.r_int_call, RM.match_shocks, RM.bisect = w_rint, w_shocks, w_bisect
            try:
                sol = s(np.array(xs, dtype=float), c['t'])
            finally:
                RM.r_int_call, RM.match_shocks, RM.bisect = orig
    except Exception as ex:
        cap.error = type(ex).__name__
        return cap
    cap.error = None
    cap.fields = {n: np.array(sol[n], dtype=float) for n in sol.dtype.names}
    cap.pattern = str(s.soln_type)
    cap.Vregs = [float(v) for v in np.asarray(s.Vregs)]
    cap.x = np.array(s.x, dtype=float)
    cap.grid = dict(p=np.array(s.p, dtype=float), r=np.array(s.r, dtype=float), u=np.array(s.u, dtype=float),
                    e=np.array(s.e, dtype=float))
    cap.solver = s
    return cap


def model_line(c, cap, pts):
    """the line for the Lean driver `RiemannGen` (see EPV/Model/RiemannGen.lean:driver)"""
    n = int(c['num_int_pts'])
    (pLi, rls, uls), (pRi, rrs, urs) = cap.rint[0], cap.rint[1]
    (pLs, rlx, ulx), (pRs, rrx, urx) = cap.shocks[0], cap.shocks[1]
    if not (len(rls) == len(uls) == n and len(rrs) == len(urs) == n):
        return None          # the integration stopped early: the driver's np.interp raises (lengths differ)
    b = lean_io.bits
    head = [1 if c.get('problem', 'igeos') != 'igeos' else 0, n, int(c['num_x_pts']), len(rlx), len(rrx), len(pts)]
    vals = [c[k] for k in STATE] + [c.get(k, 0.) for k in JWLC] + [c['xmin'], c['xd0'], c['xmax'], c['t'], cap.px[0]]
    toks = [str(v) for v in head] + [b(v) for v in vals]
    for arr in (rls, uls, rrs, urs, rlx, rrx, pts):
        toks += [b(v) for v in arr]
    return 'RiemannGen ' + ' '.join(toks)


def parse_model(line, npts):
    o = line.split()
    pat, k = o[0], int(o[1])
    if k == 0:
        return dict(pattern=pat, Vregs=[], points=[])
    u = lean_io.unbits
    V = [u(w) for w in o[2:2 + k]]
    rest = o[2 + k:]
    cross, rx1, ux1, rx2, ux2, lo, hi = [u(w) for w in rest[:7]]
    rest = rest[7:]
    pts = []
    for i in range(npts):
        q = rest[5 * i:5 * i + 5]
        pts.append((int(q[0]), [u(w) for w in q[1:]]))
    return dict(pattern=pat, Vregs=V, crossing=cross, star=(rx1, ux1, rx2, ux2), window=(lo, hi), points=pts)
