"""Tie and oracles of the work package `geneos`: the GENERAL-EOS 1-D Riemann driver
(`RiemannGenEOS.driver`, public wrapper `GenEOS_Solver`), ideal-gas and JWL data (properties C02, C03, C04, C07, C09).

TIE
  tie_geneos   the hand model lean/EPV/Model/RiemannGen.lean (Float instance, driver `RiemannGen`) vs the REAL
               public `GenEOS_Solver`.  For one public call the numerical atoms are captured by wrapping
               `r_int_call`, `match_shocks` and `bisect` in the namespace of `riemann.py` for that call:
               the isentrope tables (scipy ode), the Hugoniot densities (scipy bisect per ladder pressure) and
               the star pressure (scipy bisect on the interpolated P-U curves).  They are handed to the model,
               which rebuilds the pressure ladders, `star_velocity` on the Hugoniot ladder, the splice, the
               star values by `np.interp`, the filters, the side classification, `Vregs`, the window and the
               grid, the `reg_state_geos` sequence at grid nodes and the wrapper's final `np.interp`.
               Compared: pattern (exact), `Vregs`, the window, and (p, rho, u, e) at user points — random points,
               the grid nodes next to every wave position, and points inside the smeared cells.
               All atoms are captured, so the comparison is to rounding (1e-9 relative; worst observed on
               the unchanged tree is recorded in `worst`).  The model also returns the residual of the P-U
               crossing at `px`, which must vanish to the tolerance of `bisect` (the defining property of
               the atom `px`).  Cases: random ideal-gas data and perturbed JWL data (Shyue, Lee: the JWL
               problems of the test-suite) covering all four patterns with velocity differences; coverage is
               measured and returned.  Table sizes are reduced (`num_int_pts`, `num_x_pts` are parameters of
               the solver) so that a solve costs ~0.1 s.

ORACLES (numeric checks on the REAL public GenEOS_Solver; tests, not proofs).  Quick tier: a fixed smoke set of 2-3
problems with 601-row tables (0.3 s per solve; the set does not depend on VERIF_SEED and is evaluated once per check);
thorough tier, replay, or when the obligation's proof / tie is broken: random sweep over both closures and all four
patterns for at least 30 s.  Every case is solved once to learn the wave speeds; the window is then drawn tightly around
the waves so that the solver's grid resolves them, and the samples keep 2.5 cells away from every wave position (the
general solver smears each discontinuity over one cell).
  ig_vs_gen     C07  GenEOS_Solver vs IGEOS_Solver on ideal-gas data (unequal gammas): pattern, Vregs, fields
  rh            C02  Rankine-Hugoniot across every shock, [p] = [u] = 0 and speed = u at the contact, from the returned
                     fields next to each wave and the solver's Vregs
  eos           C03  e = sie(p, rho) of the declared closure (ideal gas: each side's gamma; JWL form) at returned points
  mirror/boost  C09  two public calls related by the symmetry (window transported with the problem)
  conservation  C04  piecewise Gauss quadrature of the returned fields vs the conservation formula (o_c04.integrals),
                     allowing for the grid term 2 h x (sum of jumps); o_c04.gen_ig/gen_jwl remain the thorough sweeps
Tolerances follow the table resolution, (301 / num_int_pts)^2 times a constant calibrated on the unchanged tree with a
10x margin (`calibrate`; worst errors are recorded next to each constant and returned in `worst` as a fraction of the
allowed error)."""
import contextlib
import io
import math
import warnings

import numpy as np

from . import lean_io
from . import oracle as O

GEN = 'exactpack.solvers.riemann.ep_riemann:GenEOS_Solver'
IG = 'exactpack.solvers.riemann.ep_riemann:IGEOS_Solver'
STATE = ('pl', 'rl', 'ul', 'gl', 'pr', 'rr', 'ur', 'gr')
JWLC = ('A', 'B', 'R1', 'R2', 'r0')
PATTERNS = ('SCS', 'SCR', 'RCS', 'RCR')
FIELDS = ('pressure', 'density', 'velocity', 'specific_internal_energy')

# the two JWL problems of the test-suite (exactpack/tests/test_riemann.py: Shyue 2001, Lee 2013)
SHYUE = dict(rl=1.7, ul=0., pl=10.0, gl=1.25, rr=1.0, ur=0., pr=0.5, gr=1.25,
             A=8.545, B=0.205, R1=4.6, R2=1.35, r0=1.84, e0=0.0, problem='JWL')
LEE = dict(rl=0.9525, ul=0., pl=1.0, gl=1.8938, rr=3.81, ur=0., pr=2.0, gr=1.8938,
           A=632.1, B=-0.04472, R1=11.3, R2=1.13, r0=1.905, e0=0.0, problem='JWL')


@contextlib.contextmanager
def hush():
    with contextlib.redirect_stdout(io.StringIO()), warnings.catch_warnings(), np.errstate(all='ignore'):
        warnings.simplefilter('ignore')
        yield


def lu(rng, lo, hi):
    return math.exp(rng.uniform(math.log(lo), math.log(hi)))


def rel(a, b, floor=1e-300):
    if not (math.isfinite(a) and math.isfinite(b)):
        return 0.0 if (math.isfinite(a) == math.isfinite(b)) else float('inf')
    return abs(a - b) / max(abs(a), abs(b), floor)


# ======================================================================================
# the real call, with the numerical atoms captured
# ======================================================================================

class Captured(object):
    """what one public call left behind"""
    pass


def solve(c, xs, capture=True):
    """GenEOS_Solver(**c)(xs, t) with r_int_call / match_shocks / bisect wrapped in riemann.py's namespace for
    this one call.  Returns a Captured (fields, solver attributes, atoms) or the name of the exception."""
    from exactpack.solvers.riemann import riemann as RM
    from py2lean.trace import load
    _, C = load(GEN)
    cap = Captured()
    cap.rint, cap.shocks, cap.px = [], [], []
    orig = (RM.r_int_call, RM.match_shocks, RM.bisect)

    def w_rint(*a, **k):
        r = orig[0](*a, **k)
        cap.rint.append([np.array(v, dtype=float) for v in r])
        return r

    def w_shocks(*a, **k):
        r = orig[1](*a, **k)
        cap.shocks.append([np.array(v, dtype=float) for v in r])
        return r

    def w_bisect(*a, **k):
        r = orig[2](*a, **k)
        cap.px.append(float(r))
        return r
    kw = {k: c[k] for k in c if k not in ('t', 'tag')}
    try:
        with hush():
            s = C(**kw)
            if capture:
                RM.r_int_call, RM.match_shocks, RM.bisect = w_rint, w_shocks, w_bisect
            try:
                sol = s(np.array(xs, dtype=float), c['t'])
            finally:
                RM.r_int_call, RM.match_shocks, RM.bisect = orig
    except Exception as ex:
        cap.error = type(ex).__name__
        return cap
    cap.error = None
    cap.fields = {n: np.array(sol[n], dtype=float) for n in sol.dtype.names}
    cap.pattern = str(s.soln_type)
    cap.Vregs = [float(v) for v in np.asarray(s.Vregs)]
    cap.x = np.array(s.x, dtype=float)
    cap.grid = dict(p=np.array(s.p, dtype=float), r=np.array(s.r, dtype=float), u=np.array(s.u, dtype=float),
                    e=np.array(s.e, dtype=float))
    cap.solver = s
    return cap


def model_line(c, cap, pts):
    """the line for the Lean driver `RiemannGen` (see EPV/Model/RiemannGen.lean:driver)"""
    n = int(c['num_int_pts'])
    (pLi, rls, uls), (pRi, rrs, urs) = cap.rint[0], cap.rint[1]
    (pLs, rlx, ulx), (pRs, rrx, urx) = cap.shocks[0], cap.shocks[1]
    if not (len(rls) == len(uls) == n and len(rrs) == len(urs) == n):
        return None          # the integration stopped early: the driver's np.interp raises (lengths differ)
    b = lean_io.bits
    head = [1 if c.get('problem', 'igeos') != 'igeos' else 0, n, int(c['num_x_pts']), len(rlx), len(rrx), len(pts)]
    vals = [c[k] for k in STATE] + [c.get(k, 0.) for k in JWLC] + [c['xmin'], c['xd0'], c['xmax'], c['t'], cap.px[0]]
    toks = [str(v) for v in head] + [b(v) for v in vals]
    for arr in (rls, uls, rrs, urs, rlx, rrx, pts):
        toks += [b(v) for v in arr]
    return 'RiemannGen ' + ' '.join(toks)


def parse_model(line, npts):
    o = line.split()
    pat, k = o[0], int(o[1])
    if k == 0:
        return dict(pattern=pat, Vregs=[], points=[])
    u = lean_io.unbits
    V = [u(w) for w in o[2:2 + k]]
    rest = o[2 + k:]
    cross, rx1, ux1, rx2, ux2, lo, hi = [u(w) for w in rest[:7]]
    rest = rest[7:]
    pts = []
    for i in range(npts):
        q = rest[5 * i:5 * i + 5]
        pts.append((int(q[0]), [u(w) for w in q[1:]]))
    return dict(pattern=pat, Vregs=V, crossing=cross, star=(rx1, ux1, rx2, ux2), window=(lo, hi), points=pts)


# ======================================================================================
# case generators: all four patterns, velocity differences, ideal gas and JWL
# ======================================================================================

def sounds(c):
    """al, ar as the solver's own constructor computes them"""
    from exactpack.solvers.riemann import riemann as RM
    with hush():
        s = RM.SetupRiemannProblem(**{k: c[k] for k in c if k in STATE + JWLC + ('problem',)})
    return float(s.al), float(s.ar)


def gen_case(rng, eos, want, sizes=((151, 201, 301), (101, 201, 301))):
    """admissible data that gives the wanted pattern with a margin (hit rate measured on the unchanged tree:
    800/800), with a velocity difference and a moving frame; `eos` is 'ig' (unequal gammas) or 'jwl'
    (the Shyue / Lee material constants of the test-suite, states perturbed around theirs)"""
    if eos == 'ig':
        c = dict(gl=rng.uniform(1.2, 2.5), gr=rng.uniform(1.2, 2.5))
        c.update(pl=lu(rng, .3, 3.), rl=lu(rng, .3, 3.), rr=lu(rng, .3, 3.))
        ratio = {'RCS': 1. / rng.uniform(2., 8.), 'SCR': rng.uniform(2., 8.)}.get(want, rng.uniform(.7, 1.4))
        scale_x, xd0 = 1., rng.uniform(-1., 1.)
    else:
        base = dict(rng.choice([SHYUE, LEE]))
        c = {k: base[k] for k in JWLC + ('problem', 'e0', 'gl', 'gr')}
        lee = base['A'] > 100
        if want in ('SCS', 'RCR'):
            # both sides near the LEFT state of the set (Lee's dense right state, compressed far beyond r0, is so
            # stiff that a small expansion leaves the solver's tables)
            pl = base['pl'] * rng.uniform(.8, 1.25)
            rl = base['rl'] * rng.uniform(.9, 1.1)
            rr = rl * rng.uniform(.7, 1.4)
            ratio = rng.uniform(.85, 1.18)
        else:
            native = 'SCR' if lee else 'RCS'         # the set's own orientation, or its mirror image
            a, b = ('l', 'r') if want == native else ('r', 'l')
            pl = base['p' + a] * rng.uniform(.8, 1.25)
            rl = base['r' + a] * rng.uniform(.9, 1.1)
            rr = base['r' + b] * rng.uniform(.9, 1.1)
            ratio = base['p' + b] / base['p' + a] * rng.uniform(.8, 1.25)
        c.update(pl=pl, rl=rl, rr=rr)
        scale_x, xd0 = 50., rng.uniform(30., 70.)
    c['pr'] = c['pl'] * ratio
    c['ul'] = c['ur'] = 0.
    al, ar = sounds(c)
    c['ul'] = rng.uniform(-.5, .5) * al
    if eos == 'ig':
        f = {'SCS': -rng.uniform(.5, .9), 'RCR': rng.uniform(.5, .9)}.get(want, rng.choice([-1, 1]) * rng.uniform(.03, .15))
    else:
        f = {'SCS': -rng.uniform(.2, .35), 'RCR': rng.uniform(.2, .35)}.get(want, rng.choice([-1, 1]) * rng.uniform(.005, .03))
    c['ur'] = c['ul'] + f * (al + ar)
    vmax = abs(c['ul']) + abs(c['ur']) + 2. * (al + ar)
    c.update(xmin=xd0 - scale_x, xd0=xd0, xmax=xd0 + scale_x, t=rng.uniform(.2, .9) * scale_x / vmax,
             num_int_pts=rng.choice(sizes[0]), num_x_pts=rng.choice(sizes[1]))
    c['tag'] = eos + ':' + want
    return c


def expected_region(pat, X, grid, g):
    """index of the last `reg_state_geos` call whose left edge lies strictly left of the grid node g"""
    def prev(Xi):
        k = int(np.argmin(abs(grid - Xi)))
        return grid[k - 1]
    xl = {'RCS': [X[0], X[1], X[2], prev(X[3])] if len(X) == 4 else [],
          'SCR': [X[0], X[1], X[2], prev(X[3])] if len(X) == 4 else [],
          'RCR': [X[0], X[1], X[2], X[3], prev(X[4])] if len(X) == 5 else [],
          'SCS': [X[0], X[1], prev(X[2])] if len(X) == 3 else []}[pat]
    idx = 0
    for i, a in enumerate(xl):
        if a < g:
            idx = i + 1
    return idx


# ======================================================================================
# the tie
# ======================================================================================

TOL_TIE = 1e-9       # all atoms captured: rounding only (worst on the unchanged tree 3e-15, JWL: numpy's exp vs libm's)
TOL_CROSS = 1e-9     # |u_left(px) - u_right(px)| / (al + ar): bisect's xtol = 2e-12 on px (worst observed 5e-12)


def tie_cases(rng, deep):
    plan = [(e, w) for e in ('ig', 'jwl') for w in PATTERNS]
    if deep:
        plan = plan * 10
    cases = [gen_case(rng, e, w) for e, w in plan]
    if deep:
        # the solver's default table sizes: its default problem (Sod) and the two JWL problems of the test-suite
        full = dict(num_int_pts=10001, num_x_pts=10001)
        cases.append(dict(pl=1., rl=1., ul=0., gl=1.4, pr=.1, rr=.125, ur=0., gr=1.4, xmin=0., xd0=.5, xmax=1., t=.25,
                          tag='ig:sod', **full))
        cases.append(dict(SHYUE, xmin=0., xd0=50., xmax=100., t=12., tag='jwl:shyue', **full))
        cases.append(dict(LEE, xmin=0., xd0=50., xmax=100., t=20., tag='jwl:lee', **full))
        # boundary case: identical (p, rho, u), unequal gammas — the `==` side detection labels the right state
        # "left" (the known identical-states finding); the model must reproduce what the code does
        for _ in range(2):
            c = gen_case(rng, 'ig', 'SCS')
            c.update(pr=c['pl'], rr=c['rl'], ur=c['ul'], tag='ig:identical')
            if abs(c['gl'] - c['gr']) < 0.05:
                c['gr'] = c['gl'] + 0.3
            cases.append(c)
    return cases


def tie_geneos(rng, deep, cases=None):
    """hand model `RiemannGen` (Float) vs the real `GenEOS_Solver`: one public call per case (quick: 8)"""
    res = dict(evaluations=0, distinct_nontrivial=0, mismatches=[], samples=[], solves=0,
               coverage=dict(pattern_x_sign={}, region={}, outcome={}), worst=dict(fields=0.0, Vregs=0.0, crossing=0.0))
    cov = res['coverage']
    lines, todo = [], []
    for c in (cases if cases is not None else tie_cases(rng, deep)):
        al, ar = sounds(c)
        w = (abs(c['ul']) + abs(c['ur']) + 2.5 * (al + ar)) * c['t']
        user = [c['xd0'] + rng.uniform(-1., 1.) * w for _ in range(8)] + [c['xd0'], c['xmin'], c['xmax']]
        cap = solve(c, user)
        res['solves'] += 1
        if cap.error:
            cov['outcome'][cap.error] = cov['outcome'].get(cap.error, 0) + 1
            continue
        cov['outcome']['ok'] = cov['outcome'].get('ok', 0) + 1
        sg = (c['ur'] > c['ul']) - (c['ur'] < c['ul'])
        key = '%s:%s:%+d' % (c['tag'].split(':')[0], cap.pattern, sg)
        cov['pattern_x_sign'][key] = cov['pattern_x_sign'].get(key, 0) + 1
        X = [c['xd0'] + c['t'] * v for v in cap.Vregs]
        # the real values at the user points (public call), at grid nodes around every wave (the driver's
        # arrays) and inside the cells next to every wave (np.interp of the driver's arrays, as the wrapper does)
        pts = [(x, [float(cap.fields[f][i]) for f in FIELDS], 'user') for i, x in enumerate(user)]
        extra = []
        for Xi in X:
            k = int(np.argmin(abs(cap.x - Xi)))
            for j in (k - 2, k - 1, k, k + 1, k + 2):
                if 0 <= j < len(cap.x):
                    pts.append((float(cap.x[j]), [float(cap.grid[q][j]) for q in 'prue'], 'node'))
            if 1 <= k < len(cap.x) - 1:
                extra += [0.5 * (cap.x[k - 1] + cap.x[k]), 0.3 * cap.x[k] + 0.7 * cap.x[k + 1]]
        for x in extra:
            pts.append((float(x), [float(np.interp(x, cap.x, cap.grid[q])) for q in 'prue'], 'cell'))
        line = model_line(c, cap, [p[0] for p in pts])
        if line is None:
            cov['outcome']['short-table'] = cov['outcome'].get('short-table', 0) + 1
            continue
        lines.append(line)
        todo.append((c, cap, X, pts, al + ar))
    outs = lean_io.run_lines(lines) if lines else []
    for (c, cap, X, pts, asum), out in zip(todo, outs):
        cc = {k: v for k, v in c.items()}
        try:
            m = parse_model(out, len(pts))
        except Exception:
            res['mismatches'].append(dict(case=cc, why='model output unreadable: %s' % out[:200]))
            continue
        bad = None
        if m['pattern'] != cap.pattern:
            bad = 'pattern: code %s model %s' % (cap.pattern, m['pattern'])
        elif len(m['Vregs']) != len(cap.Vregs):
            bad = 'Vregs: code %r model %r' % (cap.Vregs, m['Vregs'])
        else:
            sc = max(abs(v) for v in cap.Vregs) + asum
            wv = max(abs(a - b) / sc for a, b in zip(cap.Vregs, m['Vregs']))
            res['worst']['Vregs'] = max(res['worst']['Vregs'], wv)
            res['worst']['crossing'] = max(res['worst']['crossing'], abs(m['crossing']) / asum)
            if wv > TOL_TIE:
                bad = 'Vregs: code %r model %r' % (cap.Vregs, m['Vregs'])
            elif abs(m['crossing']) > TOL_CROSS * asum:
                bad = 'px = %r is not a crossing of the two interpolated P-U curves: residual %r' % (cap.px[0], m['crossing'])
            else:
                # the driver's grid is sort(linspace(window) ++ Xregs ++ [0]): drop the one appended 0
                g0 = list(cap.x)
                g0.remove(0.0)
                if rel(m['window'][0], float(min(g0))) > TOL_TIE or rel(m['window'][1], float(max(g0))) > TOL_TIE:
                    bad = 'window: code [%r, %r] model %r' % (float(min(g0)), float(max(g0)), m['window'])
        if bad:
            res['mismatches'].append(dict(case=cc, why=bad))
            continue
        for (x, real, kind), (reg, mv) in zip(pts, m['points']):
            res['evaluations'] += 1
            g = float(cap.x[max(int(np.searchsorted(cap.x, x, side='right')) - 1, 0)])
            want_reg = expected_region(cap.pattern, X, cap.x, g)
            cov['region']['%s:%d' % (cap.pattern, reg)] = cov['region'].get('%s:%d' % (cap.pattern, reg), 0) + 1
            a = math.sqrt(abs(real[0] / real[1])) if real[1] else 1.0
            sc = [abs(real[0]), abs(real[1]), max(abs(real[2]), a), max(abs(real[3]), a * a)]
            err = max(abs(p - q) / max(s, 1e-300) for p, q, s in zip(real, mv, sc))
            res['worst']['fields'] = max(res['worst']['fields'], err)
            if reg != want_reg:
                bad = 'region at x=%r (%s): code %d model %d' % (x, kind, want_reg, reg)
            elif not err <= TOL_TIE:
                bad = '(p, rho, u, e) at x=%r (%s point): code %r model %r' % (x, kind, real, mv)
            if bad:
                res['mismatches'].append(dict(case=cc, x=x, why=bad))
                break
            res['distinct_nontrivial'] += 1
        if len(res['samples']) < 2:
            res['samples'].append(dict(model='RiemannGen', case=cc, px=cap.px[0], pattern=cap.pattern,
                                       outcome=' '.join(out.split()[:2])))
    got = set(k.split(':')[1] for k in cov['pattern_x_sign'])
    cov['missing'] = [p for p in PATTERNS if p not in got]
    if deep:
        for p in ('SCR', 'RCS'):
            for s in ('+1', '-1'):
                if not any(k.endswith(':%s:%s' % (p, s)) for k in cov['pattern_x_sign']):
                    cov['missing'].append(p + ':' + s)
    if cov['missing'] and not res['mismatches']:
        res['mismatches'].append(dict(why='generator no longer covers the patterns %r' % cov['missing']))
    return res


# ======================================================================================
# oracles on the real public GenEOS_Solver
# ======================================================================================

KINDS = {'SCS': 'SCS', 'SCR': 'SCTH', 'RCS': 'HTCS', 'RCR': 'HTCTH'}     # shock, contact, fan head / tail


def plain_solve(c, xs, cls=GEN):
    """public call without capture; returns (fields, solver) or (None, exception name)"""
    from py2lean.trace import load
    _, C = load(cls)
    kw = {k: c[k] for k in c if k not in ('t', 'tag', 'v')}
    if cls == IG:
        kw = {k: v for k, v in kw.items() if k in STATE + ('xmin', 'xd0', 'xmax')}
    try:
        with hush():
            s = C(**kw)
            sol = s(np.array(xs, dtype=float), c['t'])
        return {n: np.array(sol[n], dtype=float) for n in sol.dtype.names}, s
    except Exception as ex:
        return None, type(ex).__name__


def cell(s):
    """width of a cell of the solver's own grid"""
    x = np.asarray(s.x, dtype=float)
    return float(x[-1] - x[0]) / max(int(s.num_x_pts) - 1, 1)


def safe_points(c, V, h, n=13, margin=2.5):
    """points across all regions, at least `margin` cells away from every wave position (the general solver
    smears every discontinuity over one cell of its grid)"""
    X = sorted(c['xd0'] + c['t'] * v for v in V)
    lo, hi = X[0] - 0.25 * (X[-1] - X[0]) - 4 * h, X[-1] + 0.25 * (X[-1] - X[0]) + 4 * h
    edges = [lo] + X + [hi]
    xs = []
    for a, b in zip(edges, edges[1:]):
        a2, b2 = a + margin * h, b - margin * h
        if b2 > a2:
            k = max(2, int(round(n * (b - a) / (hi - lo))))
            xs += [a2 + (b2 - a2) * (j + 0.5) / k for j in range(k)]
    return xs


def sie_closure(c, p, r, g):
    """the declared closure: e(p, rho) — ideal gas, or the JWL form of the documentation ([Kamm2015], [Lee2013])"""
    if c.get('problem', 'igeos') == 'igeos':
        return p / ((g - 1.) * r)
    w = g - 1.
    f = (c['A'] * (1 - w * r / (c['R1'] * c['r0'])) * math.exp(-c['R1'] * c['r0'] / r)
         + c['B'] * (1 - w * r / (c['R2'] * c['r0'])) * math.exp(-c['R2'] * c['r0'] / r))
    return (p - f) / (w * r)


def res_scale(c, px=None):
    """the relative accuracy the tables allow: linear interpolation in tables of `num_int_pts` rows and on a grid of
    `num_x_pts` nodes drawn tightly around the waves — second order; normalised to 1 for 301 rows"""
    return (301. / float(c['num_int_pts'])) ** 2


def star_pressure(c, V, pat, xs, f):
    """the pressure the solver returns next to the contact"""
    Xc = c['xd0'] + c['t'] * V[KINDS[pat].index('C')]
    i = int(np.argmin([abs(x - Xc) for x in xs]))
    return float(f['pressure'][i])


def make_geneos(gen, check, name, smoke):
    """quick tier: the fixed smoke set `smoke` (2-3 solves at reduced table size); thorough tier / broken
    obligation / replay: random sweep for max(budget, 30 s)"""
    import random
    import time

    memo = {}

    def run(rng, budget, deep, replay=None):
        res = dict(evaluations=0, failures=[], samples=[], worst=None, distinct_nontrivial=0)
        if replay is None and not deep and 'smoke' in memo:
            # the smoke set is fixed: several obligations of one check share one evaluation of it
            return dict(memo['smoke'], evaluations=0, distinct_nontrivial=0, samples=[])
        with warnings.catch_warnings():
            warnings.simplefilter('ignore')
            with np.errstate(all='ignore'):
                if replay is not None:
                    case = replay.get('case', replay)
                    f = check(case)
                    res['evaluations'] = 1
                    if f:
                        f['case'] = case
                        res['failures'].append(f)
                    return res
                t0 = time.time()
                limit = max(budget, 30.0) if deep else 0.0
                fixed = random.Random(20260926)          # the smoke set does not depend on VERIF_SEED
                todo = [sm if isinstance(sm, dict) else gen(fixed, *sm) for sm in smoke]
                k = 0
                while True:
                    if k < len(todo):
                        case = todo[k]
                    elif deep and time.time() - t0 < limit:
                        e, w = [(e, w) for e in ('ig', 'jwl') for w in PATTERNS][k % 8]
                        case = gen(rng, e, w)
                    else:
                        break
                    k += 1
                    f = check(case)
                    res['evaluations'] += 1
                    res['distinct_nontrivial'] += 1
                    if not res['samples']:
                        res['samples'].append(dict(oracle=name, case=case))
                    if f:
                        f['case'] = case
                        f.setdefault('oracle', name)
                        if f.get('site') not in [x.get('site') for x in res['failures']]:
                            res['failures'].append(f)
        res['worst'] = dict(fraction_of_tolerance=dict(WORST))
        if not deep:
            memo['smoke'] = res
        return res
    run.__name__ = name
    return run


def gen_oracle_case(rng, eos, want):
    return gen_case(rng, eos, want, sizes=((601,), (601,)))


# equal thermodynamic states on both sides, streams receding, ul + ur != 0 (an Einfeldt problem seen from a moving frame):
# a shortcut that mirrors the left tables for the right side is exact only for ul = -ur (seeded C09-8)
EQUAL_STATES_RCR = dict(gl=1.4, gr=1.4, pl=0.4, rl=1.0, rr=1.0, pr=0.4, ul=-1.5, ur=2.5, xmin=-1.0, xd0=0.0, xmax=1.0, t=0.15,
                        num_int_pts=601, num_x_pts=601, tag='ig:RCR:equal-states')


def _waves(c):
    """one public call to learn the pattern and the wave speeds (they do not depend on the window), then the
    window is drawn tightly around the waves so that the solver's grid resolves them: returns
    (case with that window, pattern, Vregs, predicted cell width of the solver's grid)"""
    f, s = plain_solve(c, [c['xd0']])
    if f is None:
        return None
    pat = str(s.soln_type)
    if pat not in PATTERNS:
        return None
    V = [float(v) for v in s.Vregs]
    X = [c['xd0'] + c['t'] * v for v in V]
    span = X[-1] - X[0]
    c2 = dict(c, xmin=X[0] - 0.35 * span, xmax=X[-1] + 0.35 * span)
    lo, hi = min(c2['xmin'], 1.1 * min(X)), max(c2['xmax'], 1.1 * max(X))      # the driver's own window rule
    return c2, pat, V, (hi - lo) / (int(c['num_x_pts']) - 1)


WORST = {}        # oracle -> worst relative error seen (calibration / evidence)


def _over(kind, err, tol, site, detail):
    """record the error (as a fraction of the allowed one); a failure dict when it exceeds the tolerance"""
    if not err / tol <= WORST.get(kind, 0.0):
        WORST[kind] = err / tol
    if not err <= tol:
        return dict(site=site, detail=detail + ' (relative error %.3g, allowed %.3g)' % (err, tol))
    return None


def _name(c):
    return 'GenEOS' if c.get('problem', 'igeos') == 'igeos' else 'GenEOS-JWL'


# ---- C07: GenEOS_Solver vs IGEOS_Solver on ideal-gas data ---------------------------------------

TOL_IVG = 5e-2     # x res_scale; worst on the unchanged tree 2.1e-3 at 301 rows (400 cases, see `calibrate`)


def _ivg_check(c):
    if c.get('problem', 'igeos') != 'igeos':
        return None
    w = _waves(c)
    if w is None:
        return None
    c, pat, V, h = w
    xs = safe_points(c, V, h)
    if not xs:
        return None
    # decoys first: other solver objects with the same states, window and time but another closure (JWL) and another
    # table size.  What they return is not looked at; the ideal-gas solve that follows must not inherit anything from
    # them (seeded C07-8: a class-level cache of driven problems keyed by the twelve documented values only)
    for extra in (dict(A=SHYUE['A'], B=SHYUE['B'], R1=SHYUE['R1'], R2=SHYUE['R2'], r0=SHYUE['r0'], e0=0.0, problem='JWL'),
                  dict(num_int_pts=101)):
        plain_solve(dict(c, **extra), xs)
    fb, sb = plain_solve(c, xs)
    fa, sa = plain_solve(c, xs, cls=IG)
    if fa is None or fb is None:
        return None
    ipat = str(sa.soln_type).split('-')[-1]
    if ipat != pat:
        return dict(site='GenvsIG:%s:pattern' % pat, detail='IGEOS_Solver selects %s, GenEOS_Solver %s' % (ipat, pat))
    tol = TOL_IVG * res_scale(c, star_pressure(c, V, pat, xs, fb))
    sc = max(abs(v) for v in sa.Vregs) + math.sqrt(c['gl'] * c['pl'] / c['rl']) + math.sqrt(c['gr'] * c['pr'] / c['rr'])
    for a, b in zip(sa.Vregs, V):
        f = _over('ivg', abs(a - b) / sc, tol, 'GenvsIG:%s:Vregs' % pat, 'IGEOS %r GenEOS %r' % (list(map(float, sa.Vregs)), V))
        if f:
            return f
    for n in FIELDS:
        for i in range(len(xs)):
            a, b = float(fa[n][i]), float(fb[n][i])
            s = max(abs(a), abs(b)) if n != 'velocity' else max(abs(a), abs(b), math.sqrt(abs(fa['pressure'][i] / fa['density'][i])))
            f = _over('ivg', abs(a - b) / s, tol, 'GenvsIG:%s:%s' % (pat, n), 'x=%r IGEOS %r GenEOS %r' % (xs[i], a, b))
            if f:
                return f
    return None


ig_vs_gen = make_geneos(gen_oracle_case, _ivg_check, 'geneos.ig_vs_gen', [('ig', 'RCS'), ('ig', 'SCR'), EQUAL_STATES_RCR])


# ---- C02: Rankine-Hugoniot / contact from the returned fields -------------------------------------

TOL_RH = 2e-2        # x res_scale; worst on the unchanged tree 2e-3 (flux across a shock from interpolated star values)


def _rh_check(c):
    w = _waves(c)
    if w is None:
        return None
    c, pat, V, h = w
    kinds = KINDS[pat]
    X = [c['xd0'] + c['t'] * v for v in V]
    gap = min([b - a for a, b in zip(X, X[1:])])
    d = 2.5 * h
    if gap < 3 * d:
        return None          # two waves closer than a few cells: no room to sample between them
    xs = []
    for Xi in X:
        xs += [Xi - d, Xi + d]
    f, s = plain_solve(c, xs)
    if f is None:
        return None
    tol = TOL_RH * res_scale(c, float(f['pressure'][2 * kinds.index('C')]))
    name = _name(c)
    for i, (k, D) in enumerate(zip(kinds, V)):
        a = {n: float(f[n][2 * i]) for n in f}
        b = {n: float(f[n][2 * i + 1]) for n in f}
        if k == 'S':
            st = []
            for z in (a, b):
                r, u, p, e = z['density'], z['velocity'], z['pressure'], z['specific_internal_energy']
                m = r * (u - D)
                st.append((m, m * u + p, m * (e + u * u / 2.) + p * u, r, u, p, e))
            cs = math.sqrt(max(st[0][5] / st[0][3], st[1][5] / st[1][3]))
            for j, nm in enumerate(('mass', 'momentum', 'energy')):
                rmax, pmx = max(st[0][3], st[1][3]), max(st[0][5], st[1][5])
                emax = max(abs(st[0][6]), abs(st[1][6]), cs * cs)
                sc = [rmax * cs, pmx, rmax * cs * emax][j]
                ff = _over('rh', abs(st[0][j] - st[1][j]) / sc, tol, '%s:%s:shock%d:%s' % (name, pat, i, nm),
                           'D=%r flux left %r right %r' % (D, st[0][j], st[1][j]))
                if ff:
                    return ff
            if a['pressure'] == b['pressure'] and a['density'] == b['density']:
                return dict(site='%s:%s:shock%d:no-jump' % (name, pat, i), detail='the fields do not jump at Vregs[%d]' % i)
        elif k == 'C':
            sp = max(abs(a['pressure']), abs(b['pressure']))
            su = max(abs(a['velocity']), abs(b['velocity']), math.sqrt(sp / max(a['density'], b['density'])))
            for err, what, det in ((abs(a['pressure'] - b['pressure']) / sp, 'pressure', 'p- %r p+ %r' % (a['pressure'], b['pressure'])),
                                   (abs(a['velocity'] - b['velocity']) / su, 'velocity', 'u- %r u+ %r' % (a['velocity'], b['velocity'])),
                                   (abs(a['velocity'] - D) / su, 'speed', 'u %r Vregs %r' % (a['velocity'], D))):
                ff = _over('rh', err, tol, '%s:%s:contact:%s' % (name, pat, what), det)
                if ff:
                    return ff
    return None


rh = make_geneos(gen_oracle_case, _rh_check, 'geneos.rh', [('jwl', 'RCS'), ('ig', 'SCS'), ('jwl', 'SCR')])


# ---- C03: declared closure at returned points -----------------------------------------------------

TOL_EOS = 2.5e-3     # x res_scale; worst on the unchanged tree 2.1e-4 (fan interior: p, rho, e interpolated separately)


def _eos_check(c):
    w = _waves(c)
    if w is None:
        return None
    c, pat, V, h = w
    Xc = c['xd0'] + c['t'] * V[KINDS[pat].index('C')]
    xs = safe_points(c, V, h, n=25)
    if not xs:
        return None
    f, s = plain_solve(c, xs)
    if f is None:
        return None
    tol = TOL_EOS * res_scale(c, star_pressure(c, V, pat, xs, f))
    name = _name(c)
    for i, x in enumerate(xs):
        g = c['gl'] if x < Xc else c['gr']
        p, r, e = float(f['pressure'][i]), float(f['density'][i]), float(f['specific_internal_energy'][i])
        if not all(map(math.isfinite, (p, r, e))):
            return dict(site='%s:%s:nonfinite' % (name, pat), detail='x=%r p=%r rho=%r e=%r' % (x, p, r, e))
        want = sie_closure(c, p, r, g)
        sc = max(abs(e), abs(want), p / r)
        ff = _over('eos', abs(e - want) / sc, tol, '%s:%s:e=sie(p,rho)' % (name, pat),
                   'x=%r (%s of the contact) p=%r rho=%r e=%r closure %r' % (x, 'left' if x < Xc else 'right', p, r, e, want))
        if ff:
            return ff
    return None


eos = make_geneos(gen_oracle_case, _eos_check, 'geneos.eos', [('jwl', 'RCR'), ('ig', 'SCR'), ('jwl', 'SCS')])


# ---- C09: mirror and boost ------------------------------------------------------------------------

TOL_MIRROR = 3e-2    # x res_scale; worst on the unchanged tree 3e-4 in calibration, 3.8e-3 in a later 170-case soak (heavy tail), hence 3e-2; (same tables; the grids differ: window rule
                     # `1.1 * Xregs` and the node at 0 the driver appends are not reflected with the problem)
TOL_BOOST = 1e-2     # x res_scale; worst on the unchanged tree 9.4e-4 (same reason; 700 cases)


def _compare_sym(kind, fa, fb, sign_u, shift, site, tol):
    for n in FIELDS:
        for i in range(len(fa[n])):
            a = float(fa[n][i])
            b = float(fb[n][i])
            if n == 'velocity':
                a = sign_u * a + shift
                sc = max(abs(a), abs(b), math.sqrt(abs(fb['pressure'][i] / fb['density'][i])))
            else:
                sc = max(abs(a), abs(b))
            ff = _over(kind, abs(a - b) / sc, tol, site + ':' + n, 'point %d: expected %r got %r' % (i, a, b))
            if ff:
                return ff
    return None


def _mirror_check(c):
    w = _waves(c)
    if w is None:
        return None
    c, pat, V, h = w
    xs = safe_points(c, V, h, margin=3.5)
    if not xs:
        return None
    fa, sa = plain_solve(c, xs)
    m = dict(c, pl=c['pr'], rl=c['rr'], ul=-c['ur'], gl=c['gr'], pr=c['pl'], rr=c['rl'], ur=-c['ul'], gr=c['gl'],
             xmin=2 * c['xd0'] - c['xmax'], xmax=2 * c['xd0'] - c['xmin'])
    fb, sb = plain_solve(m, [2 * c['xd0'] - x for x in xs])
    if fa is None:
        return None
    name = _name(c)
    if fb is None:
        return dict(site='%s:%s:mirror:raises' % (name, pat), detail='mirrored problem raises %s' % sb)
    mp = {'SCR': 'RCS', 'RCS': 'SCR'}.get(pat, pat)
    if str(sb.soln_type) != mp:
        return dict(site='%s:%s:mirror:pattern' % (name, pat), detail='mirrored problem classified %s' % sb.soln_type)
    tol = TOL_MIRROR * res_scale(c, star_pressure(c, V, pat, xs, fa))
    sc = max(abs(v) for v in V) + 1e-300
    for a, b in zip(V, [-float(v) for v in sb.Vregs][::-1]):
        ff = _over('mirror', abs(a - b) / sc, tol, '%s:%s:mirror:Vregs' % (name, pat),
                   'original %r mirrored %r' % (V, list(map(float, sb.Vregs))))
        if ff:
            return ff
    return _compare_sym('mirror', fa, fb, -1.0, 0.0, '%s:%s:mirror' % (name, pat), tol)


def _boost_check(c):
    w = _waves(c)
    if w is None:
        return None
    c, pat, V, h = w
    xs = safe_points(c, V, h, margin=3.5)
    if not xs:
        return None
    fa, sa = plain_solve(c, xs)
    v = c.get('v', 0.7 * (abs(c['ul']) + abs(c['ur']) + 1.0))
    b = dict(c, ul=c['ul'] + v, ur=c['ur'] + v, xmin=c['xmin'] + v * c['t'], xmax=c['xmax'] + v * c['t'])
    fb, sb = plain_solve(b, [x + v * c['t'] for x in xs])
    if fa is None:
        return None
    name = _name(c)
    if fb is None:
        return dict(site='%s:%s:boost:raises' % (name, pat), detail='boosted problem raises %s' % sb)
    if str(sb.soln_type) != pat:
        return dict(site='%s:%s:boost:pattern' % (name, pat), detail='boosted problem classified %s' % sb.soln_type)
    tol = TOL_BOOST * res_scale(c, star_pressure(c, V, pat, xs, fa))
    sc = max(abs(x) for x in V) + abs(v) + 1e-300
    for a, bb in zip(V, sb.Vregs):
        ff = _over('boost', abs(a + v - float(bb)) / sc, tol, '%s:%s:boost:Vregs' % (name, pat),
                   'original %r boosted %r (v=%r)' % (V, list(map(float, sb.Vregs)), v))
        if ff:
            return ff
    return _compare_sym('boost', fa, fb, 1.0, v, '%s:%s:boost' % (name, pat), tol)


mirror = make_geneos(gen_oracle_case, _mirror_check, 'geneos.mirror', [('ig', 'RCS'), ('jwl', 'SCS'), EQUAL_STATES_RCR])
boost = make_geneos(gen_oracle_case, _boost_check, 'geneos.boost', [('jwl', 'RCS'), ('ig', 'RCR'), EQUAL_STATES_RCR])


def calibrate(rng, n=40):
    """worst relative error of every oracle over n random cases per oracle (run on the unchanged tree to set the
    tolerances: TOL = 10 x worst, rounded up)"""
    WORST.clear()
    fails = []
    for name, chk in dict(ivg=_ivg_check, rh=_rh_check, eos=_eos_check, mirror=_mirror_check, boost=_boost_check).items():
        for k in range(n):
            e, w = [(e, w) for e in ('ig', 'jwl') for w in PATTERNS][k % 8]
            f = chk(gen_oracle_case(rng, e, w))
            if f:
                fails.append((name, f['site'], f['detail'][:160]))
    return dict(WORST), fails


# ---- C04: integral conservation of the returned fields (smoke set in quick; o_c04.gen_ig/gen_jwl are thorough-only) ----

TOL_CONS = 8e-3      # x res_scale (601-row tables: 2e-3), plus the grid term 2 h (sum of jumps) of o_c04.check_case;
                     # worst on the unchanged tree beyond the grid term: 6e-5 (144 cases)


def _cons_check(c):
    from . import o_c04
    w = _waves(c)
    if w is None:
        return None
    c, pat, V, h = w
    p = {k: c[k] for k in c if k not in ('t', 'tag', 'v')}
    X = [c['xd0'] + c['t'] * v for v in V]
    span = X[-1] - X[0]
    a, b = X[0] - 0.2 * span - 6 * h, X[-1] + 0.2 * span + 6 * h
    try:
        with hush():
            pat2, V2, I, exp, M, info = o_c04.integrals(GEN, p, V, a, b, c['t'], n_mid=0)
    except Exception:
        return None
    px = None
    name = _name(c)
    for i, comp in enumerate(o_c04.COMP):
        if not (math.isfinite(I[i]) and math.isfinite(exp[i])):
            continue
        scale = max(o_c04.FLOOR, abs(I[i]), abs(exp[i]))
        err = abs(I[i] - exp[i]) / scale
        # one cell of smearing per discontinuity is h x jump; fan heads/tails and the interpolated star plateaux add
        # to it: over 2 000 random cases on the unchanged tree the total error reached 2.7 x (2 h x sum of jumps)
        # (energy component, JWL SCR/RCS), so the grid allowance is 4 x that term
        grid = 4.0 * 2.0 * info['h'] * info['var'][i] / scale
        tol = TOL_CONS * res_scale(c, px) + grid
        ff = _over('cons', max(err - grid, 0.0), TOL_CONS * res_scale(c, px), '%s:%s:%s' % (name, pat, comp),
                   't=%r [a,b]=[%r,%r] Vregs=%r integral=%r expected=%r grid allowance %.3g' % (c['t'], a, b, V, I[i], exp[i], grid))
        if ff:
            return ff
    return None


def gen_cons_case(rng, eos, want):
    return gen_case(rng, eos, want, sizes=((601,), (601,)))


conservation = make_geneos(gen_cons_case, _cons_check, 'geneos.conservation', [('jwl', 'RCS'), ('ig', 'SCR')])
