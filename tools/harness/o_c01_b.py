"""C01 oracles, work package c01b: Coggeshall 13, 14, 16, 17, 18, 19, 20, 21 and the Noh family.

The observe-at of the property on the *real* code: the returned fields are differentiated
by 4th-order central differences of the public call in r and in t, the three balance
equations are assembled exactly as `exactpack/solvers/cog/__init__.py` (rho, u, T form,
with the heat flux F = -(c lam0 rho^alpha T^beta / 3) d(a T^4)/dr where the problem has
conduction) resp. `noh/__init__.py` (rho, u, p, e form) write them, and each residual is
scaled by its largest term.  A residual above the tolerance is re-evaluated with halved
steps and reported only if it does not drop like a truncation error.

Failure sites are '<Solver>:mass', '<Solver>:momentum', '<Solver>:energy' (PDE residual)
and '<Solver>:domain' (the call leaves the reals / returns a non-positive temperature or
density inside the documented parameter range).
"""
import contextlib
import io
import math

import numpy as np

from . import oracle as O
from py2lean.trace import load
from .corr import sample_params

# radiation constants hard-wired in every cog<N>.py
C_LIGHT = 2.997e10
A_RAD = 1.3720e+02

# calibrated on the unchanged tree (python -m harness.o_c01_b, calibrate(4000)): the worst scaled
# residual over 4000 admissible cases per solver is 3.6e-7 (Cog14 energy: second differences of a
# flux of size c a ~ 4e12) for every equation that holds; x10 margin, rounded up.  The genuine
# defects found (Cog13 energy, Cog17 mass/energy, Cog20 energy) are O(0.1 .. 1).
TOL = 1e-5
HREL = 1e-3


def _real_fields(clspath, params, pts, t):
    """public call; None when it raises, returns complex, non-finite numbers"""
    try:
        with contextlib.redirect_stdout(io.StringIO()):     # the Cog constructors print range warnings
            s = O.construct(clspath, params)
            sol = s(np.array(pts, dtype=float), float(t))
    except Exception:
        return None
    out = {}
    for n in sol.dtype.names:
        col = np.asarray(sol[n])
        if col.dtype.kind == 'c':
            if np.any(col.imag != 0):
                return None
            col = col.real
        try:
            col = col.astype(float)
        except (TypeError, ValueError):
            return None
        if not np.all(np.isfinite(col)):
            return None
        out[n] = col
    return out


def _d1(v, h):
    """4th-order central first derivative from 5 equally spaced samples"""
    return (v[0] - 8 * v[1] + 8 * v[3] - v[4]) / (12 * h)


def residuals(clspath, params, r, t, form, k, hrel=HREL, steady=False, cond=None, Gamma=None, gamma=None):
    """scaled residuals dict(mass=, momentum=, energy=) at (r, t) or None (no data)

    form 'T': Coggeshall (rho,u,T) equations; cond = (lam0, alpha, beta) or None
    form 'P': gamma-law (rho,u,p,e) equations"""
    hr = hrel * r
    ht = hrel * max(abs(t), 0.05)
    xs = [r + j * hr for j in range(-4, 5)]
    fr = _real_fields(clspath, params, xs, t)
    if fr is None:
        return None
    if steady:
        ft = None
    else:
        ft = []
        for j in (-2, -1, 0, 1, 2):
            f = _real_fields(clspath, params, [r], t + j * ht)
            if f is None:
                return None
            ft.append(f)

    def Dr(name):
        v = fr[name]
        return _d1(v[2:7], hr)

    def Dt(name):
        if steady:
            return 0.0
        return _d1([f[name][0] for f in ft], ht)

    rho, u = fr['density'][4], fr['velocity'][4]
    out = {}
    # natural rate of the flow at (r, t): a residual is only meaningful relative to it (when every
    # term of an equation vanishes identically, e.g. planar uniform flow, the differences are pure noise)
    rate = abs(u) / r + (0.0 if steady else 1.0 / max(abs(t), 0.05))
    terms = [Dt('density'), u * Dr('density'), rho * Dr('velocity'), k * rho * u / r]
    out['mass'] = (sum(terms), max(max(map(abs, terms)), abs(rho) * rate))
    if form == 'T':
        T = fr['temperature'][4]
        terms = [Dt('velocity'), u * Dr('velocity'), Gamma * T / rho * Dr('density'), Gamma * Dr('temperature')]
        out['momentum'] = (sum(terms), max(max(map(abs, terms)), abs(u) * rate + abs(Gamma * T) / r))
        terms = [Gamma / (gamma - 1) * Dt('temperature'), Gamma / (gamma - 1) * u * Dr('temperature'),
                 Gamma * T * Dr('velocity'), Gamma * T * k * u / r]
        fl = 0.0
        if cond is not None:
            lam0, al, be = cond
            G = A_RAD * fr['temperature'] ** 4
            F = []
            for j in range(2, 7):
                dG = _d1(G[j - 2:j + 3], hr)
                rj, Tj = fr['density'][j], fr['temperature'][j]
                if rj <= 0 or Tj <= 0:
                    return None
                F.append(-(C_LIGHT * lam0 * rj ** al * Tj ** be / 3) * dG)
            terms += [_d1(F, hr) / rho, k * F[2] / r / rho]
            # a divergence-free flux (Cog18) cancels between two huge terms (c a ~ 4e12): scale by |F|/(r rho)
            fl = abs(F[2] / r / rho)
        out['energy'] = (sum(terms), max(max(map(abs, terms)), abs(Gamma * T) * rate, fl))
    else:
        p, e = fr['pressure'][4], fr['specific_internal_energy'][4]
        terms = [Dt('velocity'), u * Dr('velocity'), Dr('pressure') / rho]
        out['momentum'] = (sum(terms), max(max(map(abs, terms)), abs(u) * rate + abs(p / rho) / r))
        terms = [Dt('specific_internal_energy'), u * Dr('specific_internal_energy'),
                 p / rho * Dr('velocity'), p / rho * k * u / r]
        out['energy'] = (sum(terms), max(max(map(abs, terms)), (abs(e) + abs(p / rho)) * rate))
    res = {}
    for key, (s, m) in out.items():
        res[key] = 0.0 if m == 0 else abs(s) / m
    return res


class Spec(object):
    """one solver: how to sample it and how to read its equations"""

    def __init__(self, name, cls, params, r, t, form='T', steady=False, cond=None, gamma=None, Gamma=None,
                 k=None, shock=None, fixed=(), domain_fixed=(), domain_params=None):
        self.name, self.cls, self.params, self.r, self.t = name, cls, params, r, t
        self.form, self.steady, self.cond, self.gamma, self.Gamma = form, steady, cond, gamma, Gamma
        self.k = k or (lambda p: p['geometry'] - 1.0)
        self.shock = shock
        self.fixed = list(fixed)                  # [(params, r, t)] evaluated before any random case
        self.domain_fixed = list(domain_fixed)
        self.domain_params = domain_params
        _, self.C = load(cls)

    def full(self, params):
        d = {q: getattr(self.C, q) for q in self.C.parameters if hasattr(self.C, q)}
        d.update(params)
        return d

    def away_from_shock(self, p, r, t, hrel):
        if self.shock is None:
            return True
        hr = hrel * r
        ht = hrel * max(abs(t), 0.05)
        lo, hi = r - 6 * hr, r + 6 * hr
        for j in (-3, 0, 3):
            R = self.shock(p, t + j * ht)
            if not math.isfinite(R) or lo <= R <= hi:
                return False
        # same side of the shock over the whole time stencil
        s = [r < self.shock(p, t + j * ht) for j in (-3, 0, 3)]
        return len(set(s)) == 1

    def evaluate(self, params, r, t, hrel=HREL):
        p = self.full(params)
        if not self.away_from_shock(p, r, t, hrel):
            return None
        return residuals(self.cls, params, r, t, self.form, self.k(p), hrel=hrel, steady=self.steady,
                         cond=self.cond(p) if self.cond else None,
                         Gamma=self.Gamma(p) if self.Gamma else p.get('Gamma'),
                         gamma=self.gamma(p) if self.gamma else p.get('gamma'))


def pde_oracle(spec, eq, tol=TOL):
    """oracle of one balance equation (eq in 'mass' | 'momentum' | 'energy') of one solver"""
    state = dict(n=0)

    def gen(rng):
        # fixed cases first (class defaults / recorded witnesses), then random draws
        k = state['n'] % 100         # the recorded cases come back every 100 draws
        state['n'] += 1
        if k < len(spec.fixed):
            p, r, t = spec.fixed[k]
            return dict(cls=spec.cls, params=dict(p), r=r, t=t)
        p = sample_params(spec.C, spec.params, rng)
        return dict(cls=spec.cls, params=p, r=rng.uniform(*spec.r), t=rng.uniform(*spec.t))

    def check(c):
        res = spec.evaluate(c['params'], c['r'], c['t'])
        if res is None:
            return None
        if res[eq] > tol:
            # step halving: a truncation error drops ~16x, a genuine residual stays
            r2 = spec.evaluate(c['params'], c['r'], c['t'], hrel=HREL / 2)
            if r2 is None:
                return None
            if r2[eq] > tol and r2[eq] > res[eq] / 4:
                return dict(site='%s:%s' % (spec.name, eq),
                            detail='r=%r t=%r: %s balance residual / largest term = %.3e (step h), %.3e (step h/2); '
                                   'required < %.0e' % (c['r'], c['t'], eq, res[eq], r2[eq], tol))
        return None
    return O.make(gen, check, 'c01.%s.%s' % (spec.name.lower(), eq))


def domain_oracle(spec):
    """the call must return real fields with positive density and temperature for parameters
    drawn from the documented ranges (otherwise the documented equations are not even defined)"""
    state = dict(n=0)

    def gen(rng):
        k = state['n'] % 100
        state['n'] += 1
        if k < len(spec.domain_fixed):
            p, r, t = spec.domain_fixed[k]
            return dict(cls=spec.cls, params=dict(p), r=r, t=t)
        p = sample_params(spec.C, spec.domain_params or spec.params, rng)
        return dict(cls=spec.cls, params=p, r=rng.uniform(*spec.r), t=rng.uniform(*spec.t))

    def check(c):
        site = '%s:domain' % spec.name
        try:
            with contextlib.redirect_stdout(io.StringIO()):
                s = O.construct(spec.cls, c['params'])
                sol = s(np.array([c['r']], dtype=float), float(c['t']))
        except TypeError as ex:
            if 'complex' in str(ex):
                return dict(site=site, detail='r=%r t=%r: the call raises TypeError: %s' % (c['r'], c['t'], ex))
            return None
        except Exception:
            return None
        for n in ('density', 'temperature'):
            v = sol[n][0]
            if isinstance(v, (complex, np.complexfloating)):
                if v.imag != 0:
                    return dict(site=site, detail='r=%r t=%r: %s = %r is not real' % (c['r'], c['t'], n, complex(v)))
                v = v.real
            v = float(v)
            if math.isnan(v):
                return dict(site=site, detail='r=%r t=%r: %s is NaN' % (c['r'], c['t'], n))
            if v <= 0:
                return dict(site=site, detail='r=%r t=%r: %s = %r, required > 0' % (c['r'], c['t'], n, v))
        return None
    return O.make(gen, check, 'c01.%s.domain' % spec.name.lower())


GEOM = [1, 2, 3]
_cog = 'exactpack.solvers.cog.cog%d:Cog%d'


def _kgamma(p):
    k = p['geometry'] - 1.0
    return (k + 3.0) / (k + 1.0)


def _away(lo, hi, bad, gap):
    """uniform on [lo, hi] minus (bad - gap, bad + gap): exponents like 1/(1-alpha), 1/alpha blow up there
    and the finite differences lose all accuracy"""
    def draw(rng, out):
        while True:
            v = rng.uniform(lo, hi)
            if abs(v - bad) >= gap:
                return v
    return draw


SPECS = {
    # alpha, beta over the package's documented ranges -1 <= alpha <= 2, 1 <= beta <= 3
    'Cog13': Spec('Cog13', _cog % (13, 13), dict(geometry=GEOM, gamma=(1.2, 3.0), rho0=(0.5, 3.0), alpha=(-1.0, 2.0),
                                              beta=(1.0, 3.0), lambda0=(0.05, 0.5), Gamma=(10.0, 60.0)),
                  r=(0.3, 3.0), t=(0.2, 2.0), cond=lambda p: (p['lambda0'], p['alpha'], p['beta'])),
    'Cog14': Spec('Cog14', _cog % (14, 14), dict(geometry=GEOM, gamma=(1.2, 3.0), rho0=(0.5, 3.0), alpha=(-1.0, 2.0),
                                              beta=(1.0, 3.0), lambda0=(0.05, 0.5), Gamma=(10.0, 60.0)),
                  r=(0.3, 3.0), t=(0.2, 2.0), steady=True, cond=lambda p: (p['lambda0'], p['alpha'], p['beta'])),
    'Cog16': Spec('Cog16', _cog % (16, 16), dict(geometry=[2, 3], gamma=(1.2, 3.0), u0=(0.5, 4.0), b=(0.2, 0.95),
                                              lambda0=(0.05, 0.5), Gamma=(10.0, 60.0)),
                  r=(0.3, 3.0), t=(0.2, 2.0), steady=True,
                  cond=lambda p: (p['lambda0'], 1.0 - 1.0 / (p['geometry'] - 1.0),
                                  (1.0 - 1.0 / (p['geometry'] - 1.0)) / 2.0 - 3.0)),
    'Cog17': Spec('Cog17', _cog % (17, 17), dict(geometry=GEOM, gamma=(1.2, 3.0), alpha=_away(-2.0, 2.0, 1.0, 0.25), beta=(1.0, 3.0),
                                              lambda0=(0.05, 0.5), Gamma=(10.0, 60.0)),
                  r=(0.3, 3.0), t=(0.2, 2.0), cond=lambda p: (p['lambda0'], p['alpha'], p['beta'])),
    'Cog18': Spec('Cog18', _cog % (18, 18), dict(geometry=GEOM, alpha=_away(-2.0, 2.0, 0.0, 0.4), beta=(1.0, 3.0), rho0=(0.5, 3.0),
                                              tau=(1.0, 2.0), Gamma=(10.0, 60.0)),
                  r=(0.3, 3.0), t=(0.05, 0.8), gamma=_kgamma, cond=None),
    'Cog19': Spec('Cog19', _cog % (19, 19), dict(geometry=GEOM, gamma=(1.2, 3.0), rho0=(0.5, 3.0), u0=(-4.0, -0.3),
                                              Gamma=(10.0, 60.0)),
                  r=(0.05, 3.0), t=(0.1, 2.0),
                  shock=lambda p, t: -(p['gamma'] - 1) * p['u0'] * t / 2),
    'Cog20': Spec('Cog20', _cog % (20, 20), dict(geometry=GEOM, gamma=(1.2, 3.0), rho0=(0.5, 3.0), u0=(-4.0, 4.0),
                                              a=(0.1, 0.5), Gamma=(10.0, 60.0)),
                  r=(0.05, 3.0), t=(0.1, 1.5),
                  shock=lambda p, t: p['u0'] * (p['gamma'] - 1) / (4 * p['a']) * t * (1 - 2 * p['a'] * t) / (1 - p['a'] * t)),
    'Cog21': Spec('Cog21', _cog % (21, 21), dict(rho0=(0.5, 3.0), temp0=(0.5, 5.0), Gamma=(0.5, 400.0)),
                  r=(0.05, 3.0), t=(0.1, 2.0), k=lambda p: 2.0, gamma=lambda p: 5.0,
                  shock=lambda p, t: 2 / (p['Gamma'] * p['temp0'] * t ** 2)),
    'Noh': Spec('Noh', 'exactpack.solvers.noh.noh1:Noh', dict(geometry=GEOM, gamma=(1.1, 3.0), u0=(-3.0, -0.2), rho0=(0.2, 5.0)),
                r=(0.02, 2.0), t=(0.1, 2.0), form='P', shock=lambda p, t: abs(p['u0']) * t * (p['gamma'] - 1) / 2),
    'Noh2': Spec('Noh2', 'exactpack.solvers.noh2.noh2:Noh2', dict(geometry=GEOM, gamma=(1.1, 3.0), e0=(0.2, 3.0), rho0=(0.2, 5.0)),
                 r=(0.02, 2.0), t=(0.02, 0.8), form='P'),
    'Noh2Cog': Spec('Noh2Cog', 'exactpack.solvers.noh2.noh2_cog:Noh2Cog',
                    dict(geometry=GEOM, gamma=(1.1, 3.0), e0=(0.2, 3.0), rho0=(0.2, 5.0)),
                    r=(0.02, 2.0), t=(0.02, 0.8), form='P'),
}
# Cog18 conducts heat as well (alpha, beta are its own parameters, lambda0 is absent: the
# solution is independent of it because its heat flux is divergence free)
SPECS['Cog18'].cond = lambda p: (1.0, p['alpha'], p['beta'])

# recorded inputs, evaluated before any random case ("boundary values first"):
# the class defaults, and the witnesses of the Finding theorems in lean/EPV/Props/C01/Cog<N>.lean
SPECS['Cog13'].fixed = [({}, 1.0, 1.0)]                                     # Finding_cog13_energy (class defaults)
SPECS['Cog14'].fixed = [({}, 1.0, 1.0)]
SPECS['Cog16'].fixed = [({}, 1.0, 1.0)]
SPECS['Cog17'].fixed = [(dict(geometry=3, gamma=1.4, alpha=1.5, beta=3.0, lambda0=0.1, Gamma=40.0), 1.0, 1.0),
                        (dict(geometry=3, gamma=1.4, alpha=1.5, beta=3.0, lambda0=0.1, Gamma=40.0), 2.0, 1.0)]
SPECS['Cog18'].fixed = [(dict(geometry=3, alpha=-1.5, beta=2.0, rho0=1.8, tau=1.25, Gamma=40.0), 1.0, 0.5)]
SPECS['Cog19'].fixed = [({}, 0.1, 1.0), ({}, 2.0, 1.0)]
SPECS['Cog20'].fixed = [({}, 0.1, 0.5), ({}, 2.0, 0.5)]                      # Finding_cog20_post_energy (r = 0.1, t = 0.5)
SPECS['Cog21'].fixed = [({}, 0.05, 0.1), ({}, 2.0, 1.0)]
# documented ranges for the domain oracles: package docstring -1 <= alpha <= 2, constructor warning
# range [-2,-1]; 1 <= beta <= 3; physical signs of the other parameters
_DOC = dict(geometry=GEOM, gamma=(1.2, 3.0), rho0=(0.5, 3.0), alpha=(-2.0, 2.0), beta=(1.0, 3.0),
            lambda0=(0.05, 0.5), Gamma=(10.0, 60.0))
SPECS['Cog13'].domain_params = _DOC
SPECS['Cog13'].domain_fixed = [(dict(alpha=-1.0), 1.0, 1.0)]                # Finding_cog13_domain: complex temperature
SPECS['Cog14'].domain_params = _DOC
SPECS['Cog14'].domain_fixed = [(dict(geometry=1), 1.0, 1.0)]                # Finding_cog14_domain: TypeError (complex)
SPECS['Cog17'].domain_params = {k: v for k, v in _DOC.items() if k != 'rho0'}
SPECS['Cog17'].domain_fixed = [({}, 1.0, 1.0)]                              # Finding_cog17_domain: T < 0, rho < 0
SPECS['Cog18'].domain_params = dict(geometry=GEOM, alpha=_away(-2.0, 2.0, 0.0, 0.05), beta=(1.0, 3.0),
                                    rho0=(0.5, 3.0), tau=(1.0, 2.0), Gamma=(10.0, 60.0))
SPECS['Cog18'].domain_fixed = [({}, 1.0, 0.5)]                              # Finding_cog18_domain: T < 0

EQS = ('mass', 'momentum', 'energy')
ORACLES = {(n, eq): pde_oracle(s, eq) for n, s in SPECS.items() for eq in EQS}
DOMAIN = {n: domain_oracle(SPECS[n]) for n in ('Cog13', 'Cog14', 'Cog17', 'Cog18')}


def cog(n, eq):
    """oracle of one balance equation of Coggeshall solution n (13, 14, 16-21)"""
    return ORACLES[('Cog%d' % n, eq)]


def cog_domain(n):
    return DOMAIN['Cog%d' % n]


def noh(eq):
    return ORACLES[('Noh', eq)]


def noh2(eq):
    return ORACLES[('Noh2', eq)]


def noh2cog(eq):
    return ORACLES[('Noh2Cog', eq)]


def calibrate(n=400, seed=1):
    """worst scaled residual per solver and equation on admissible samples (development aid)"""
    import random
    rng = random.Random(seed)
    out = {}
    for name, s in SPECS.items():
        worst = dict(mass=0.0, momentum=0.0, energy=0.0)
        used = 0
        for _ in range(n):
            p = sample_params(s.C, s.params, rng)
            with np.errstate(all='ignore'):
                res = s.evaluate(p, rng.uniform(*s.r), rng.uniform(*s.t))
            if res is None:
                continue
            used += 1
            for kq in worst:
                worst[kq] = max(worst[kq], res[kq])
        out[name] = (used, worst)
    return out


if __name__ == '__main__':
    import warnings
    warnings.simplefilter('ignore')
    for name, (used, w) in calibrate().items():
        print('%-8s used=%4d  mass=%.2e momentum=%.2e energy=%.2e' % (name, used, w['mass'], w['momentum'], w['energy']))
