"""Sedov, work package sedov3: the energy integrals of the constructor (C11) and the neighbourhood
of the special density exponents omega2 = (2(gamma-1)+k)/gamma, omega3 = k(2-gamma) (C11, C20).
Numeric oracles on the REAL constructor and the REAL `sedov_funcs_standard`.

  quad_atom      the trusted atom of `EPV.C11.sedov_energy_code`: `eval1`, `eval2` of the real constructor
                 (scipy.integrate.quad of efun01 / efun02 between vmin and v2) against an independent
                 reference for the integral of the LEAF-1 integrand (the closed forms with neither guard
                 active): the end-point singularity is removed by a power substitution; on the vacuum
                 branch the integration variable is x4 itself and the guard `max(x4, 1e-12)` is undone
                 (g, h of the real method rescaled by (x4/x4_clamped)^a5, ^(1+a5)).  So "quad returns the
                 integral" is checked for the integrand the theorem is about, including the nearly
                 non-integrable ends (vacuum edge a5 -> -1; origin of the standard type, where the variable is
                 w = c_val v - 1 itself and the guard `max(1e-30, .)` / the cancellation in c_val v - 1 are
                 undone).  Calibration on the unchanged tree (7000 cases, gamma >= 1.15, incl. a5 = -0.988):
                 worst relative defect 6.4e-6 (eval2, standard type, gamma ~ 1.2: end-point exponent -0.82;
                 typical 1e-9, quad's own epsrel is 1.5e-8); tolerance 1e-4.  Observed beyond the sampled
                 range: for 1.02 < gamma < 1.1 (end-point exponent < -0.9) QUADPACK's extrapolation loses
                 accuracy and the defect of eval2 reaches 3.6e-4 — the accuracy limit of the trusted atom.
                 [Remark: the integral of the TREE-level integrand (guard active where x4 < 1e-12) differs
                 from the leaf-1 integral by ~ (1e-12)^(1+a5) (1/(1+a5) - 1), e.g. 1e-2 at a5 = -0.856:
                 QUADPACK never samples that sliver and its extrapolation returns the unclamped value.]
  band           inside the bands |denom2| <= 1e-4, |denom3| <= 1e-4 the code evaluates the closed forms of
                 the exactly special omega, which are approximations there.  How far off: alpha of the
                 constructor against alpha of the exact solution for that omega (the general closed forms,
                 Kamm eqs 38-41, evaluated in log space, which is stable up to |denom| ~ 1e-7), and the mass
                 integral int g lambda^(k-1) dlambda of the coded functions against
                 (gamma-1)/((gamma+1)(k-omega)).  Calibrated law on the unchanged tree (gamma in [1.05, 3],
                 all k, both bands, |denom| in [1e-6, 1e-4]; 2300 cases):
                     |alpha_code/alpha_exact - 1| <= 0.22 |denom|/(gamma-1)   (worst 0.214, omega2, k = 3),
                     |mass_code/mass_exact - 1|   <= 0.32 |denom|/(gamma-1)   (worst 0.315, omega3, k = 1);
                 asserted bound 3 |denom|/(gamma-1) (10x margin), i.e. <= 3e-4/(gamma-1) anywhere in a band.
                 (The ENERGY integral of the returned fields is NOT off inside the band: alpha is computed
                 from the same approximate functions — theorem `sedov_energy` for arbitrary f, g, h.)
                 The reference implementation is validated on every run against the real code OUTSIDE the
                 bands (3e-3 <= |denom| <= 3e-2, where the code evaluates the general forms itself).
  near_special   C20: admissible omega just OUTSIDE a band (1e-4 < |denom| up to 2e-4 ... 3e-3 depending on
                 k, gamma): the exponents a4, a5 ~ 1/denom3 (resp. a1 ... a4 ~ 1/denom2) are of order 1e3-1e4,
                 x3**(a4 + a1 omega) underflows and x4**a5 overflows (their product is O(1)): with Python
                 floats the constructor raises OverflowError, with NumPy floats it returns alpha = nan (the
                 next call dies with UnboundLocalError) or alpha = inf (the next call returns the AMBIENT
                 state everywhere, r2 = 0: finite garbage).  Fixed witnesses on every run + random annulus.
"""
import math
import warnings

import numpy as np

from . import oracle as O
from . import o_sedov as S0

OSMALL = 1e-4
QUAD_TOL = 1e-4
BAND_C = 3.0            # asserted: relative error <= BAND_C * |denom| / (gamma - 1)
REF_TOL = 1e-6          # reference implementation vs the real code outside the bands


def denoms(k, gam, om):
    return 2.0 * (gam - 1.0) + k - gam * om, k * (2.0 - gam) - om


def omega_special(k, gam, which):
    return (2.0 * (gam - 1.0) + k) / gam if which == 2 else k * (2.0 - gam)


def omega_at(k, gam, which, den):
    """omega with denom2 (which = 2) or denom3 (which = 3) equal to den"""
    return omega_special(k, gam, which) - (den / gam if which == 2 else den)


def special_pair(rng, gmin=1.05, gmax=3.0):
    """(k, gamma, which) with the special omega well inside (0, k) and the two special values apart"""
    for _ in range(1000):
        k = rng.choice([1, 2, 3])
        gam = rng.uniform(gmin, gmax)
        which = rng.choice([2, 3])
        om0 = omega_special(k, gam, which)
        other = omega_special(k, gam, 5 - which)
        if 0.01 < om0 < k - 0.01 and abs(om0 - other) > 0.05:
            # the code must not classify the problem as singular type
            v2 = 4.0 / ((k + 2.0 - om0) * (gam + 1.0))
            vstar = 2.0 / ((gam - 1.0) * k + 2.0)
            if abs(v2 - vstar) > 20 * OSMALL:
                return k, gam, which
    raise RuntimeError('sampler failed')


# --------------------------------------------------------------------------
# quad atom
# --------------------------------------------------------------------------

def leaf1(s, v, y):
    """(lambda, dlamdv, f, g, h) of the real method at v with the x4 guard undone; y = exact x4"""
    l, dl, f, g, h = s.sedov_funcs_standard(v)
    x4c = max(s.b_val * (1.0 - 0.5 * s.xg2 * v), 1e-12)
    if y != x4c and y > 0.0 and s.special_singularity != 'omega3':
        r = y / x4c
        g *= r ** s.a5
        h *= r ** (1.0 + s.a5)
    return l, dl, f, g, h


def leaf1_std(s, v, w):
    """(lambda, dlamdv, f, g, h) of the real method at v with the guard `max(1e-30, c_val v - 1)` and the
    cancellation in c_val v - 1 undone; w = exact c_val v - 1  (special_singularity none / omega3)"""
    l, dl, f, g, h = s.sedov_funcs_standard(v)
    cb = max(1e-30, s.c_val * v - 1.0)
    if w != cb and w > 0.0:
        r = w / cb
        slope = dl / l + s.a2 * s.c_val / cb - s.a2 * s.c_val / w
        l *= r ** (-s.a2)
        f *= r ** (-s.a2)
        g *= r ** (s.a3 + s.a2 * s.omega)
        dl = slope * l
    return l, dl, f, g, h


def ref_evals(s):
    """reference values (value, relative error estimate) of the two energy integrals, leaf-1 integrand"""
    import scipy.integrate as si
    k = s.geometry
    z = 8.0 / (s.xg2 ** 2 * s.gamp1)
    out = []
    if s.solution_type == 'standard':
        # w = c_val v - 1 in [0, w2]: v = (1 + w)/c_val, dv = dw/c_val  (w exact, also below the spacing of v)
        w2 = s.c_val * s.v2 - 1.0
        qq = -s.a2 * min(k, 1.0)           # the weakest exponent at the end: lambda^(k-1) lambda' ~ w^(-a2 k - 1)

        def I1(w):
            v = (1.0 + w) / s.c_val
            l, dl, f, g, h = leaf1_std(s, v, w)
            return dl * l ** (k + 1) * s.gpogm * g * v * v

        def I2(w):
            v = (1.0 + w) / s.c_val
            l, dl, f, g, h = leaf1_std(s, v, w)
            return dl * l ** (k - 1) * h * z
        grades = sorted(set([1, 3, int(math.ceil(2.0 / qq)), int(math.ceil(5.0 / qq))]))
        jac = w2 / s.c_val

        def point(u, m):
            return w2 * u ** m
    else:
        # y = x4 in [0, 1] (x4(v2) = 1): v = (1 - y/b) vv, dv = -(vv/b) dy, int_{vv}^{v2} F dv = -(vv/b) int_0^1 F dy
        q = 1.0 + s.a5

        def I1(y):
            v = (1.0 - y / s.b_val) * s.vv
            l, dl, f, g, h = leaf1(s, v, y)
            return dl * l ** (k + 1) * s.gpogm * g * v * v

        def I2(y):
            v = (1.0 - y / s.b_val) * s.vv
            l, dl, f, g, h = leaf1(s, v, y)
            return dl * l ** (k - 1) * h * z
        grades = sorted(set([1, 3, int(math.ceil(2.0 / q)), int(math.ceil(5.0 / q))]))
        jac = -s.vv / s.b_val

        def point(u, m):
            return u ** m
    for I in (I1, I2):
        best = None
        for m in grades:
            if m > 400:
                continue
            val, err = si.quad(lambda u: I(point(u, m)) * m * u ** (m - 1) * jac, 0.0, 1.0, epsabs=0, epsrel=1e-12, limit=400)
            if math.isfinite(val) and val != 0.0 and (best is None or abs(err / val) < best[1]):
                best = (val, abs(err / val))
        out.append(best)
    return out


QUAD_CASES = [
    dict(geometry=3, gamma=1.4, rho0=1.0, omega=0.0, eblast=0.851072),                     # defaults
    dict(geometry=1, gamma=2.4, rho0=1.0, omega=0.85, eblast=1.0),                         # planar, g unbounded at the origin
    dict(geometry=2, gamma=1.3, rho0=1.0, omega=1.94, eblast=1.0),                         # vacuum edge, a5 = -0.856
    dict(geometry=3, gamma=1.4, rho0=1.0, omega=2.95, eblast=1.0),                         # vacuum edge, a5 = -0.939
    dict(geometry=3, gamma=1.4, rho0=1.0, omega=1.8, eblast=0.851072),                     # omega3
    dict(geometry=3, gamma=1.4, rho0=1.0, omega=(2 * 0.4 + 3) / 1.4, eblast=0.851072),     # omega2
    dict(geometry=3, gamma=1.4, rho0=1.0, omega=1.8 + 5e-5, eblast=1.0),                   # omega3 band
    dict(geometry=3, gamma=1.4, rho0=1.0, omega=(2 * 0.4 + 3) / 1.4 - 3e-5, eblast=1.0),   # omega2 band
]


def _gen_quad(rng):
    u = rng.random()
    if u < 0.3:
        return dict(params=rng.choice(QUAD_CASES))
    if u < 0.4:
        # close to omega = k on the vacuum type: the kinetic integrand is nearly non-integrable
        k = rng.choice([2, 3])
        return dict(params=dict(geometry=k, gamma=rng.uniform(1.2, 2.0), rho0=1.0, omega=k - rng.uniform(0.01, 0.08), eblast=1.0))
    return dict(params=S0.sample(rng, rng.choice(['standard', 'vacuum'])))


def _check_quad(c):
    try:
        s = S0.construct(c['params'])
        if s.solution_type == 'singular':
            return None
        refs = ref_evals(s)
    except Exception:
        return None                      # construction failures are C20's business
    for name, got, ref in (('eval1', s.eval1, refs[0]), ('eval2', s.eval2, refs[1])):
        if ref is None:
            continue
        val, rerr = ref
        tol = QUAD_TOL + 10.0 * rerr
        if not abs(got / val - 1.0) <= tol:
            return dict(site='Sedov.__init__:%s-quad[%s,%s]' % (name, s.solution_type, s.special_singularity),
                        detail='quad(%s, vmin, v2) = %r, reference integral of the leaf-1 integrand %r (rel. error estimate %.1g): '
                               'ratio-1 = %.3g, tolerance %.3g' % ('efun01' if name == 'eval1' else 'efun02', float(got), val, rerr,
                                                                got / val - 1.0, tol))
    # alpha is assembled from the two quadratures as sedov.py:176-180 says
    k = s.geometry
    want = 0.5 * s.eval1 + s.eval2 / s.gamm1 if k == 1 else (k - 1.0) * math.pi * (s.eval1 + 2.0 * s.eval2 / s.gamm1)
    if not abs(s.alpha / want - 1.0) <= 1e-13:
        return dict(site='Sedov.__init__:alpha-assembly', detail='alpha = %r, from eval1, eval2: %r' % (s.alpha, want))
    if not (s.alpha > 0 and s.eval1 >= 0 and s.eval2 > 0):
        return dict(site='Sedov.__init__:alpha-sign', detail='alpha = %r, eval1 = %r, eval2 = %r' % (s.alpha, s.eval1, s.eval2))
    return None


quad_atom = O.make(_gen_quad, _check_quad, 'sedov3.quad_atom')


# --------------------------------------------------------------------------
# the bands: reference = the exact solution for that omega, in log space
# --------------------------------------------------------------------------

def consts(k, gam, om):
    gm1, gp1 = gam - 1.0, gam + 1.0
    X = k + 2.0 - om
    d2, d3 = denoms(k, gam, om)
    a0 = 2.0 / X
    a2 = -gm1 / d2
    a1 = X * gam / (2.0 + k * gm1) * ((2.0 * (k * (2.0 - gam) - om)) / (gam * X * X) - a2)
    a3 = (k - om) / d2
    a4 = X * (k - om) * a1 / d3
    a5 = (om * gp1 - 2.0 * k) / d3
    return dict(k=k, gam=gam, om=om, X=X, d2=d2, d3=d3, a0=a0, a1=a1, a2=a2, a3=a3, a4=a4, a5=a5,
                a=0.25 * X * gp1, b=gp1 / gm1, c=0.5 * X * gam, d=X * gp1 / (X * gp1 - 2.0 * (2.0 + k * gm1)),
                e=0.5 * (2.0 + k * gm1), v0=2.0 / (X * gam), v2=4.0 / (X * gp1), vv=2.0 / X, vstar=2.0 / (gm1 * k + 2.0))


def exact_funcs(C, v, w=None, y=None):
    """the general closed forms (sedov.py:455-463) evaluated in log space: no overflow for huge exponents;
    w = exact c v - 1 (standard branch) resp. y = exact x4 (vacuum branch) when the caller integrates in it"""
    x1 = C['a'] * v
    x2 = C['b'] * ((C['c'] * v - 1.0) if w is None else w)
    x3 = C['d'] * (1.0 - C['e'] * v)
    x4 = C['b'] * (1.0 - 0.5 * C['X'] * v) if y is None else y
    l1, l2, l3, l4 = math.log(x1), math.log(x2), math.log(x3), math.log(x4)
    k, om = C['k'], C['om']
    lam = math.exp(-C['a0'] * l1 - C['a2'] * l2 - C['a1'] * l3)
    dl = -(C['a0'] * C['a'] / x1 + C['a2'] * C['b'] * C['c'] / x2 - C['a1'] * C['d'] * C['e'] / x3) * lam
    g = math.exp(C['a0'] * om * l1 + (C['a3'] + C['a2'] * om) * l2 + (C['a4'] + C['a1'] * om) * l3 + C['a5'] * l4)
    h = math.exp(C['a0'] * k * l1 + (C['a4'] + C['a1'] * (om - 2.0)) * l3 + (1.0 + C['a5']) * l4)
    return lam, dl, x1 * lam, g, h


def _graded_quad(F, q):
    """int_0^1 F(y) dy for F ~ y^(q-1) at 0: power substitutions y = u^m, the best error estimate wins"""
    import scipy.integrate as si
    best = None
    for m in sorted(set([1, 3, int(math.ceil(2.0 / q)), int(math.ceil(5.0 / q))])):
        if m > 400:
            continue
        val, err = si.quad(lambda u: F(u ** m) * m * u ** (m - 1), 0.0, 1.0, epsabs=0, epsrel=1e-12, limit=400)
        if math.isfinite(val) and val != 0.0 and (best is None or abs(err / val) < best[1]):
            best = (val, abs(err / val))
    return best


def exact_alpha(k, gam, om):
    C = consts(k, gam, om)
    z = 8.0 / (C['X'] ** 2 * (gam + 1.0))
    if C['v2'] < C['vstar']:
        # standard: w = c v - 1 in [0, w2], dv = dw / c
        w2 = C['c'] * C['v2'] - 1.0
        q = -C['a2'] * min(k, 1.0)
        jac = w2 / C['c']

        def funcs(y):
            w = w2 * y
            v = (1.0 + w) / C['c']
            return v, exact_funcs(C, v, w)
    else:
        # vacuum: y = x4 in [0, 1], v = (1 - y/b) vv, int_{vv}^{v2} F dv = -(vv/b) int_0^1 F dy
        q = 1.0 + C['a5']
        jac = -C['vv'] / C['b']

        def funcs(y):
            v = (1.0 - y / C['b']) * C['vv']
            return v, exact_funcs(C, v, None, y)

    def e1(y):
        v, (lam, dl, f, g, h) = funcs(y)
        return dl * lam ** (k + 1) * C['b'] * g * v * v * jac

    def e2(y):
        v, (lam, dl, f, g, h) = funcs(y)
        return dl * lam ** (k - 1) * h * z * jac
    (E1, r1), (E2, r2) = _graded_quad(e1, q), _graded_quad(e2, q)
    al = 0.5 * E1 + E2 / (gam - 1.0) if k == 1 else (k - 1.0) * math.pi * (E1 + 2.0 * E2 / (gam - 1.0))
    return al, max(r1, r2)


def code_mass(s):
    """int g lambda^(k-1) dlambda of the coded functions (leaf 1) over (gamma-1)/((gamma+1)(k-omega))"""
    k = s.geometry
    if s.solution_type == 'standard':
        w2 = s.c_val * s.v2 - 1.0
        q = -s.a2 * min(k, 1.0)
        jac = w2 / s.c_val

        def m(y):
            w = w2 * y
            v = (1.0 + w) / s.c_val
            L, dl, f, g, hh = leaf1_std(s, v, w)
            return g * L ** (k - 1) * dl * jac
    else:
        q = 1.0 + s.a5
        jac = -s.vv / s.b_val

        def m(y):
            v = (1.0 - y / s.b_val) * s.vv
            L, dl, f, g, hh = leaf1(s, v, y)
            return g * L ** (k - 1) * dl * jac
    val, rerr = _graded_quad(m, q)
    return val * (s.gamma + 1.0) * (k - s.omega) / (s.gamma - 1.0), rerr


BAND_CASES = [
    dict(k=3, gamma=1.4, which=3, den=-5e-5), dict(k=3, gamma=1.4, which=2, den=7e-5), dict(k=2, gamma=1.4, which=3, den=9e-5),
    dict(k=1, gamma=1.15, which=3, den=-8e-5), dict(k=3, gamma=1.2, which=2, den=-6e-5),
]


def _gen_band(rng):
    u = rng.random()
    if u < 0.25:
        return rng.choice(BAND_CASES)
    k, gam, which = special_pair(rng)
    if u < 0.45:
        # outside the bands, where the real code evaluates the general forms: validates the reference
        den = rng.choice([-1, 1]) * 10 ** rng.uniform(math.log10(3e-3), math.log10(3e-2))
    else:
        den = rng.choice([-1, 1]) * 10 ** rng.uniform(-6.0, math.log10(0.98 * OSMALL))
    return dict(k=k, gamma=gam, which=which, den=den)


def _check_band(c):
    k, gam, which, den = c['k'], c['gamma'], c['which'], c['den']
    om = omega_at(k, gam, which, den)
    if not (0.0 <= om < k):
        return None
    p = dict(geometry=k, gamma=gam, rho0=1.0, omega=om, eblast=1.0)
    try:
        s = S0.construct(p)
    except Exception:
        return None                      # C20 (near_special)
    if s.solution_type == 'singular':
        return None
    d2, d3 = denoms(k, gam, om)
    dd = d2 if which == 2 else d3
    try:
        a_exact, rerr = exact_alpha(k, gam, om)
        m_code, merr = code_mass(s)
    except Exception:
        return None
    inband = s.special_singularity != 'none'
    if not inband:
        if not abs(s.alpha / a_exact - 1.0) <= REF_TOL + 10 * rerr:
            return dict(site='Sedov:band-reference-mismatch',
                        detail='outside the bands (denom%d = %.3g) alpha = %r, log-space reference %r' % (which, dd, s.alpha, a_exact))
        return None
    if s.special_singularity != 'omega%d' % which:
        return None
    bound = BAND_C * abs(dd) / (gam - 1.0) + 1e-8 + 10 * max(rerr, merr)
    ea, em = s.alpha / a_exact - 1.0, m_code - 1.0
    if not abs(ea) <= bound:
        return dict(site='Sedov:band[omega%d]:alpha-error' % which,
                    detail='%r: denom%d = %.3g; alpha = %r, alpha of the exact solution for this omega = %r: relative error %.3g > %.3g'
                           % (p, which, dd, s.alpha, a_exact, ea, bound))
    if not abs(em) <= bound:
        return dict(site='Sedov:band[omega%d]:mass-error' % which,
                    detail='%r: denom%d = %.3g; mass integral of the coded functions / exact = %r: relative error %.3g > %.3g'
                           % (p, which, dd, m_code, em, bound))
    return None


band = O.make(_gen_band, _check_band, 'sedov3.band')


# --------------------------------------------------------------------------
# C20: just outside the bands
# --------------------------------------------------------------------------
NEAR_WITNESSES = [
    dict(params=dict(geometry=3, gamma=1.4, omega=1.8005), numpy=False),     # OverflowError
    dict(params=dict(geometry=3, gamma=1.4, omega=1.8005), numpy=True),      # alpha = nan, the call raises UnboundLocalError
    dict(params=dict(geometry=1, gamma=1.2, omega=0.8002), numpy=True),      # alpha = inf, the call returns the ambient state
]


def near_outcome(p, use_numpy):
    q = dict(p)
    if use_numpy:
        q['gamma'] = np.float64(q['gamma'])
        q['omega'] = np.float64(q['omega'])
    try:
        with warnings.catch_warnings():
            warnings.simplefilter('ignore')
            with np.errstate(all='ignore'):
                s = S0._cls()(**q)
    except ValueError:
        return 'ValueError', 'rejected with ValueError'
    except Exception as ex:
        return type(ex).__name__, 'the constructor raises %s(%s)' % (type(ex).__name__, ex)
    a = float(s.alpha)
    if math.isfinite(a) and a > 0:
        return 'ok', 'alpha = %r' % a
    tag = 'alpha-nan' if math.isnan(a) else ('alpha-inf' if math.isinf(a) else 'alpha-nonpositive')
    try:
        with warnings.catch_warnings():
            warnings.simplefilter('ignore')
            with np.errstate(all='ignore'):
                sol = s(np.array([0.1, 0.5]), 1.0)
        vals = [float(sol[n][1]) for n in ('density', 'pressure', 'velocity')]
        how = 'the call at r = 0.5, t = 1 returns density, pressure, velocity = %r' % vals
    except Exception as ex:
        how = 'the next call raises %s' % type(ex).__name__
    return tag, 'the constructor returns alpha = %r (eval1 = %r, eval2 = %r); %s' % (a, float(s.eval1), float(s.eval2), how)


def _gen_near(rng):
    k, gam, which = special_pair(rng, 1.1, 2.8)
    u = rng.random()
    if u < 0.6:
        mag = 10 ** rng.uniform(math.log10(1.02 * OSMALL), math.log10(1.9 * OSMALL))     # fails for every (k, gamma) tried
    else:
        mag = 10 ** rng.uniform(math.log10(1.9 * OSMALL), -2.0)
    den = rng.choice([-1, 1]) * mag
    om = omega_at(k, gam, which, den)
    return dict(params=dict(geometry=k, gamma=gam, omega=om), numpy=rng.random() < 0.5, which=which, den=den)


def _check_near(c):
    p = c['params']
    if not (0.0 <= p['omega'] < p['geometry'] and p['gamma'] > 1.0):
        return None
    tag, how = near_outcome(p, c['numpy'])
    if tag in ('ok', 'ValueError'):
        return None                      # served, or refused loudly with ValueError: both are what C20 asks for
    d2, d3 = denoms(p['geometry'], p['gamma'], p['omega'])
    return dict(site='Sedov:near-special-omega:%s' % tag,
                detail='admissible Sedov(%s) with %s floats (denom2 = %.4g, denom3 = %.4g, both outside the band |denom| <= 1e-4): %s'
                       % (', '.join('%s=%r' % kv for kv in sorted(p.items())), 'NumPy' if c['numpy'] else 'Python', d2, d3, how))


near_special = S0._catalogue(NEAR_WITNESSES, _check_near, 'sedov3.near_special',
                             extra=O.make(_gen_near, _check_near, 'sedov3.near_special.random'))


# --------------------------------------------------------------------------
# tie: the generated models the sedov3 theorems are stated on (SedovInit, SedovConsts, SedovFuncs*,
# SedovShock) are tied to the real code by the Float-twin ties of wp sedov / sedov2; both cache their
# result per run, so naming them here costs nothing when C11 / C20 already ran them.  SedovQuad (the
# traced arguments of the two quad calls) is tied here: the real constructor with `sci_int.quad` wrapped.
# --------------------------------------------------------------------------

_QUAD_TIE = {}


def real_quad_calls(p):
    """the real constructor with `sci_int.quad` wrapped: ('ok', [q1_lo, q1_hi, q2_lo, q2_hi, ncalls]) | ('raise', name)"""
    M = S0._mod()
    real = M.sci_int
    calls = []

    class Rec(object):
        @staticmethod
        def quad(f, a, b, **kw):
            calls.append((f.__name__, float(a), float(b), dict(kw)))
            return real.quad(f, a, b, **kw)
    M.sci_int = Rec
    try:
        with warnings.catch_warnings():
            warnings.simplefilter('ignore')
            with np.errstate(all='ignore'):
                S0._cls()(**p)
    except Exception as err:
        return ('raise', type(err).__name__), calls
    finally:
        M.sci_int = real
    q = {n: (a, b) for n, a, b, kw in calls}
    q1, q2 = q.get('efun01', (0.0, 0.0)), q.get('efun02', (0.0, 0.0))
    return ('ok', [q1[0], q1[1], q2[0], q2[1], float(len(calls))]), calls


def tie_quad(rng, deep):
    """Float twin of SedovQuad (the traced arguments of the two quad calls) vs the real constructor"""
    if deep in _QUAD_TIE:
        c = dict(_QUAD_TIE[deep])
        c['evaluations'] = 0
        c['distinct_nontrivial'] = 0
        return c
    from . import o_sedov2 as S2
    man = S0._manifest()
    st = dict(evaluations=0, distinct_nontrivial=0, mismatches=[], samples=[], leaf_hist={})
    e = man['SedovQuad']
    C = S0._cls()
    lines, exp, info = [], [], []
    stream = S0.init_stream(rng, 60 if deep else 14) + S2.EXACT_SPECIAL + S2.BAND + S2.DEFAULTS
    stream += [S0.sample(rng, 'vacuum') for _ in range(6)] + [S0.sample(rng, 'singular') for _ in range(3)]
    for p in stream:
        full = {k: p.get(k, getattr(C, k)) for k in S0.PNAMES}
        ex, calls = real_quad_calls(p)
        if ex[0] == 'raise' and ex[1] in ('OverflowError', 'ZeroDivisionError'):
            # arithmetic failures of expressions that are not outputs of this model (gpogm at gamma = 1, d_val at
            # the exactly singular omega, the overflowing quadrature near a special omega): C20 findings
            continue
        for n, a, b, kw in calls:
            if kw != dict(epsabs=1e-12):
                st['mismatches'].append(dict(model='SedovQuad', input=dict(params=p), why='quad(%s) called with %r' % (n, kw)))
        lines.append(S0._twin('SedovQuad', e, full))
        exp.append(ex)
        info.append(dict(params=p))
    S0._compare(st, 'SedovQuad', lines, exp, info)
    _QUAD_TIE[deep] = st
    return st


def tie_models(rng, deep):
    from . import o_sedov2 as S2
    parts = [S0.tie_models(rng, deep), S2.tie_consts(rng, deep), tie_quad(rng, deep)]
    out = dict(evaluations=sum(a.get('evaluations', 0) for a in parts),
               distinct_nontrivial=sum(a.get('distinct_nontrivial', 0) for a in parts),
               mismatches=[m for a in parts for m in a.get('mismatches', [])],
               samples=[x for a in parts for x in a.get('samples', [])][:1])
    return out
