"""C16, second package: oracles and ties over OPERATION SEQUENCES on mutated / re-used objects.

Every oracle and tie of o_c16.py builds FRESH objects.  The property is about objects that live: EOS objects whose
constants are changed through the documented setters, residual objects whose initial conditions / EOS are replaced,
one Newton solver object that solves again and again.  The rule checked here, on the real code:

    after ANY sequence of documented operations an object behaves exactly like a freshly constructed object
    with the final constants (same values bit for bit where the computation is deterministic, same exceptions),
    and the round-trip / derivative / jump-condition checks of o_c16.py still pass on the used object.

Oracles (tests, never a substitute for the theorems of EPV/Props/C16/Setters*.lean):
  * eos_seq(cls)       every concrete EOS class of eos_library, found by introspection; random sequences of every
                       `set_*` method the class has (also by introspection) interleaved with: all public methods vs a
                       fresh object, closure round trips, finite-difference derivative checks -- on a small pool of
                       states that is re-visited, so that a cache keyed by the arguments is hit as well;
  * res_seq(...)       residual objects: EOS setters on the EOS object the residual holds, set_new_initial_conditions,
                       set_new_equation_of_state, then F / F_prime / F_prime_inv / determinant vs a fresh residual;
  * newton_seq(...)    ONE newton_solver: set_function / set_new_initial_guess / set_new_tolerance /
                       set_new_max_iteration / set_new_initial_conditions on the residual it holds / solve, each solve
                       compared with the same solve on fresh objects (outcome, iteration count, solution, reported
                       residual and error) and, from reasonable guesses, with the jump conditions and D > 0;
  * bb_seq()           the same through NohBlackBoxEos.solve_jump_conditions (guess / tolerance / max-iterations
                       setters, EOS setters on the instance's EOS, re-solve, public call).
A failing sequence is shrunk (operations removed while the same site keeps failing) before it is recorded, so the
replay file holds a minimal sequence.  Every random choice comes from the rng handed in.

Ties:
  * state_ties()       Float twins of the traced constructor / setter / attribute-level method models (t_eos_b.py)
                       vs the real objects;
  * newton_object_tie  the hand model EPV.Model.NewtonObject (state machine of newton_solver) vs the real solver on
                       operation sequences -- with and without a new guess between two solves, after failed solves,
                       after changes of function / tolerance / max_iterations / initial conditions;
  * coverage_tie(...)  the classes / setters found by introspection are exactly the ones the theorems cover.
"""
import inspect
import math

import numpy as np

from . import lean_io
from . import o_c16 as H
from py2lean.targets import t_eos as TE
from py2lean.targets import t_eos_b as TB

L, R, NS, BB = H.L, H.R, H.NS, H.BB
import time
import warnings


# --------------------------------------------------------------------------
# runner: like oracle.make, but a check may report several failures (one per site) and failing sequences are shrunk
# --------------------------------------------------------------------------

def shrink(case, check, site, max_checks=400):
    """remove operations (largest chunks first) while a failure with the same site remains"""
    ops = list(case['ops'])
    n_checks = 0

    def fails(trial):
        c2 = dict(case)
        c2['ops'] = trial
        try:
            fs = check(c2) or []
        except Exception:
            return False
        return any(f.get('site') == site for f in fs)
    chunk = max(1, len(ops) // 2)
    while True:
        i, progress = 0, False
        while i < len(ops):
            trial = ops[:i] + ops[i + chunk:]
            n_checks += 1
            if trial and n_checks <= max_checks and fails(trial):
                ops, progress = trial, True
            else:
                i += chunk
        if chunk > 1:
            chunk = max(1, chunk // 2)
        elif not progress:
            break
    out = dict(case)
    out['ops'] = ops
    out['shrunk_from'] = len(case['ops'])
    return out


def make_seq(gen, check, name, scale=1.0):
    """gen(rng) -> JSON-able case with a list case['ops'] ; check(case) -> list of dict(site=, detail=) (empty: passed)"""
    def run(rng, budget, deep, replay=None):
        res = dict(evaluations=0, failures=[], samples=[], worst=None, distinct_nontrivial=0)
        with warnings.catch_warnings():
            warnings.simplefilter('ignore')
            with np.errstate(all='ignore'):
                if replay is not None:
                    case = replay.get('case', replay)
                    res['evaluations'] = 1
                    for f in check(case) or []:
                        f['case'] = case
                        res['failures'].append(f)
                    return res
                t0 = time.time()
                n = 0
                while True:
                    case = gen(rng)
                    n += 1
                    fs = check(case) or []
                    res['evaluations'] += 1
                    res['distinct_nontrivial'] += 1
                    if not res['samples']:
                        res['samples'].append(dict(oracle=name, case=case))
                    for f in fs:
                        if f.get('site') in [x.get('site') for x in res['failures']]:
                            continue
                        small = shrink(case, check, f['site'])
                        g = [x for x in (check(small) or []) if x.get('site') == f['site']]
                        f = g[0] if g else f
                        f['case'] = small if g else case
                        f['oracle'] = name
                        res['failures'].append(f)
                    if time.time() - t0 > budget * scale and n >= 3:
                        break
                    if n > 200000:
                        break
        return res
    run.__name__ = name
    return run


def same(a, b):
    """bit-for-bit agreement of two results (values or exceptions) of a deterministic computation"""
    if isinstance(a, BaseException) or isinstance(b, BaseException):
        return type(a) is type(b)
    if isinstance(a, np.ndarray) or isinstance(b, np.ndarray):
        try:
            return np.array_equal(np.asarray(a, dtype=float), np.asarray(b, dtype=float), equal_nan=True)
        except Exception:
            return False
    if a is b:
        return True
    try:
        fa, fb = float(a), float(b)
        return fa == fb or (fa != fa and fb != fb)
    except Exception:
        return a == b


def call(f, *a):
    try:
        with np.errstate(all='ignore'):
            v = f(*a)
        return v.copy() if isinstance(v, np.ndarray) else v
    except Exception as ex:
        return ex


def show(v):
    if isinstance(v, BaseException):
        return 'raise ' + type(v).__name__
    if isinstance(v, np.ndarray):
        return repr([float(x) for x in np.ravel(v)])
    return repr(v)


# --------------------------------------------------------------------------
# EOS objects
# --------------------------------------------------------------------------
GOOD_DERIVS = {'Ideal': ['de_drho', 'de_dP', 'dP_drho', 'dP_de'], 'Stiff': ['de_drho', 'de_dP', 'dP_drho', 'dP_de'],
               'NobleAbel': ['de_drho', 'de_dP', 'dP_drho', 'dP_de'],
               'CS': ['de_dP', 'dP_drho', 'dP_de', 'dZ_deta', 'deta_drho']}     # the other methods are recorded findings
_CLASSES = {}
_SMAP = {}


def eos_classes():
    if not _CLASSES:
        _CLASSES.update(TB.concrete_eos_classes())
    return _CLASSES


def site_name(clsname):
    return H.SITE.get(TB.short_of(clsname)) or clsname


def sample_consts(clsname, rng):
    """admissible constructor constants of an EOS class"""
    short = TB.short_of(clsname)
    if short in TE.EOS_CLASSES:
        return H.sample_consts(short, rng)
    cls = eos_classes()[clsname]
    sig = inspect.signature(cls.__init__)
    out = {}
    for n in TB.ctor_consts(cls):
        d = sig.parameters[n].default
        if d is inspect.Parameter.empty:
            raise KeyError('no sampling rule for %s(%s)' % (clsname, n))
        out[n] = float(d) * rng.uniform(0.8, 1.2)
    return out


def build_eos(clsname, consts):
    return eos_classes()[clsname](**consts)


def setter_map(clsname):
    """setter -> the constructor constant it stands for (None when it cannot be told), found by running the setter on a
    probe object whose constants are pairwise different"""
    if clsname in _SMAP:
        return _SMAP[clsname]
    cls = eos_classes()[clsname]
    names = TB.ctor_consts(cls)
    vals = {n: 1.25 + 0.125 * i for i, n in enumerate(names)}
    out = {}
    for st in TB.setters_of(cls):
        try:
            o = cls(**vals)
            before = dict(vars(o))
            getattr(o, st)(7.0625)
            changed = [a for a in vars(o) if not same(vars(o).get(a), before.get(a, None))]
            hit = [n for n in names if n in changed and same(vars(o)[n], 7.0625)]
            if not hit:
                hit = [n for n in names if any(same(before.get(a), vals[n]) for a in changed)]
            out[st] = hit[0] if len(hit) == 1 else None
        except Exception:
            out[st] = None
    _SMAP[clsname] = out
    return out


def sample_pool(clsname, all_consts, rng, n=3):
    """states [rho, P, e, eta] inside the domain of validity for EVERY constant set of the sequence"""
    short = TB.short_of(clsname)
    pool = []
    for _ in range(n):
        if short == 'CS':
            rho = rng.uniform(0.02, 0.6) / max(abs(c['b']) for c in all_consts)
            P, e = rng.uniform(0.05, 10.0), rng.uniform(0.05, 10.0)
        elif short in TE.EOS_CLASSES:
            rho, P, e = H.sample_state(short, all_consts[0], rng)
        elif short == 'Aluminium':
            rho, P, e = H.sample_state('Stein', H.ALUMINIUM, rng)
        else:
            rho, P, e = rng.uniform(0.1, 10.0), rng.uniform(0.05, 10.0), rng.uniform(0.05, 10.0)
        pool.append([rho, P, e, rng.uniform(0.05, 0.6)])
    return pool


def method_args(argnames, st):
    rho, P, e, eta = st
    table = {'rho': rho, 'P': P, 'e': e, 'eta': eta}
    return [table.get(a, rho) for a in argnames]


def eos_seq(clsname):
    """sequences of setter calls on one EOS object, interleaved with comparisons against a fresh object built with the
    final constants, closure round trips and derivative checks"""
    def gen(rng):
        cls = eos_classes()[clsname]
        setters = TB.setters_of(cls)
        smap = setter_map(clsname)
        short = TB.short_of(clsname)
        c0 = sample_consts(clsname, rng)
        ops, allc, cur = [], [dict(c0)], dict(c0)
        for _ in range(rng.randint(3, 10)):
            u = rng.random()
            if setters and u < 0.45:
                st = rng.choice(setters)
                const = smap.get(st)
                v = sample_consts(clsname, rng)[const] if const else rng.uniform(0.5, 1.5)
                ops.append(['set', st, v])
                if const:
                    cur[const] = v
                    allc.append(dict(cur))
            elif u < 0.72:
                ops.append(['probe', rng.randrange(3)])
            elif u < 0.86 or short not in GOOD_DERIVS:
                ops.append(['roundtrip', rng.randrange(3)])
            else:
                ops.append(['deriv', rng.randrange(3), rng.choice(GOOD_DERIVS[short])])
        ops.append(['probe', rng.randrange(3)])
        ops.append(['roundtrip', rng.randrange(3)])
        return dict(kind='eos', cls=clsname, consts=c0, pool=sample_pool(clsname, allc, rng), ops=ops)

    def check(c):
        cls = eos_classes()[c['cls']]
        smap = setter_map(c['cls'])
        short = TB.short_of(c['cls'])
        where = site_name(c['cls']) + ':after_setters:'
        obj = cls(**c['consts'])
        cur = dict(c['consts'])
        done = []
        methods = TB.public_methods(cls)
        for op in c['ops']:
            if op[0] == 'set':
                const = smap.get(op[1])
                if const is None:
                    return [dict(site='%s:%s:no_constructor_constant' % (site_name(c['cls']), op[1]),
                                 detail='the setter does not change exactly one attribute that a constructor constant initialises')]
                getattr(obj, op[1])(op[2])
                cur[const] = op[2]
                done.append('%s(%r)' % (op[1], op[2]))
                continue
            st = c['pool'][op[1]]
            rho, P, e = st[:3]
            hist = '%s(%s) after [%s]' % (c['cls'], ', '.join('%s=%r' % kv for kv in c['consts'].items()), ', '.join(done))
            if op[0] == 'probe':
                fresh = cls(**cur)
                for m, argn in methods:
                    a = method_args(argn, st)
                    u, f = call(getattr(obj, m), *a), call(getattr(fresh, m), *a)
                    if not same(u, f):
                        return [dict(site=where + m, detail='%s: %s(%s) = %s, a fresh object with the final constants %r gives %s'
                                     % (hist, m, ', '.join(map(repr, a)), show(u), cur, show(f)))]
            elif op[0] == 'roundtrip':
                try:
                    P2 = obj.P(rho, obj.e(rho, P))
                    e2 = obj.e(rho, obj.P(rho, e))
                except Exception:
                    continue
                if H.O.relerr(P2, P) > 1e-9:
                    return [dict(site=where + 'P(rho,e(rho,P))', detail='%s: rho=%r P=%r back %r' % (hist, rho, P, P2))]
                if H.O.relerr(e2, e) > 1e-9:
                    return [dict(site=where + 'e(rho,P(rho,e))', detail='%s: rho=%r e=%r back %r' % (hist, rho, e, e2))]
            elif op[0] == 'deriv':
                m = op[2]
                try:
                    if m in H.DERIV:
                        clo, arg, second = H.DERIV[m]
                        y = {'P': P, 'e': e}[second]
                        an = getattr(obj, m)(rho, y)
                        f = getattr(obj, clo)
                        d = H.disagree(an, (lambda r: f(r, y)) if arg == 0 else (lambda q: f(rho, q)), rho if arg == 0 else y)
                    else:
                        clo, kind = H.HELPER[short][m]
                        x = rho if kind == 'rho' else obj.eta(rho)
                        an = getattr(obj, m)(x)
                        d = H.disagree(an, getattr(obj, clo), x)
                except Exception:
                    continue
                if d is not None:
                    return [dict(site=where + m, detail='%s: rho=%r P=%r e=%r: finite differences %r, %s returns %r'
                                 % (hist, rho, P, e, d[0], m, d[1]))]
        return []
    return make_seq(gen, check, 'c16b.eos_seq.' + clsname)


# --------------------------------------------------------------------------
# residual objects
# --------------------------------------------------------------------------
RESNAME = {k: v[0] for k, v in TE.RESIDUALS.items()}
SHORT_EOS_CLS = {k: v[0] for k, v in TE.EOS_CLASSES.items()}


def sample_ic(rng, n, short, scale=1.0, rho=1.0):
    sym = rng.choice([0, 1, 2]) if n == 3 else 0
    p0 = (n == 3 and rng.random() < 0.4)
    if p0:
        sym = 0
    return dict(density=(rho * rng.uniform(0.2, 0.8) if short == 'Stein' else rng.uniform(0.5, 2.0)),
                velocity=-rng.uniform(0.3, 2.0) * (3e5 if short == 'Stein' else 1.0),
                pressure=(rng.uniform(0.05, 0.5) * scale if p0 else 0.0), symmetry=sym)


def _res_probe(used, fresh, x, n, cls):
    """first difference between a used and a fresh residual object at the state x"""
    xs = np.array(x, dtype=float)
    for what in ('F', 'F_prime', 'F_prime_inv'):
        u, f = call(getattr(used, what), xs.copy()), call(getattr(fresh, what), xs.copy())
        if not same(u, f):
            return what, u, f
    if n == 2:
        u, f = call(used.determinant, xs.copy()), call(fresh.determinant, xs.copy())
    else:
        u = call(lambda: used.determinant(used.F_prime(xs.copy())))
        f = call(lambda: fresh.determinant(fresh.F_prime(xs.copy())))
    if not same(u, f):
        return 'determinant', u, f
    return None


# recorded witnesses of the stale e_0 (replayed first on every run, so the KNOWN-FINDING lines are deterministic)
RES_WITNESSES = [
    dict(kind='res', res='Pressure', eos='Ideal', consts={'gamma': 1.4}, x=[2.0, 1.5, 0.7],
         ic={'density': 1.0, 'velocity': -1.0, 'pressure': 0.3, 'symmetry': 0},
         ops=[['set_eos', 'Ideal', {'gamma': 5. / 3.}, False], ['probe']]),
    dict(kind='res', res='Energy', eos='Ideal', consts={'gamma': 1.4}, x=[2.0, 1.5, 0.7],
         ic={'density': 1.0, 'velocity': -1.0, 'pressure': 0.3, 'symmetry': 0},
         ops=[['set_eos', 'Ideal', {'gamma': 5. / 3.}, False], ['probe']]),
    dict(kind='res', res='Pressure', eos='Stiff', consts={'gamma': 5. / 3., 'c_s': 1.0, 'rho_inf': 1.0}, x=[4.0, 0.5, 0.4],
         ic={'density': 1.0, 'velocity': -1.0, 'pressure': 0.0, 'symmetry': 0},
         ops=[['eos_set', 'set_new_reference_density', 2.0, False], ['probe']]),
    dict(kind='res', res='Energy', eos='Stiff', consts={'gamma': 5. / 3., 'c_s': 1.0, 'rho_inf': 1.0}, x=[4.0, 0.5, 0.4],
         ic={'density': 1.0, 'velocity': -1.0, 'pressure': 0.0, 'symmetry': 0},
         ops=[['eos_set', 'set_new_reference_density', 2.0, False], ['probe']]),
    dict(kind='res', res='SPressure', eos='Stiff', consts={'gamma': 5. / 3., 'c_s': 1.0, 'rho_inf': 1.0}, x=[4.0, 0.5],
         ic={'density': 1.0, 'velocity': -1.0, 'pressure': 0.0, 'symmetry': 0},
         ops=[['eos_set', 'set_new_reference_density', 2.0, False], ['probe']]),
    dict(kind='res', res='SEnergy', eos='Stiff', consts={'gamma': 5. / 3., 'c_s': 1.0, 'rho_inf': 1.0}, x=[4.0, 0.5],
         ic={'density': 1.0, 'velocity': -1.0, 'pressure': 0.0, 'symmetry': 0},
         ops=[['eos_set', 'set_new_reference_density', 2.0, False], ['probe']]),
]


def res_seq(disciplined):
    """sequences on one residual object (and on the EOS object it holds).
    disciplined: every change of the EOS (a setter of the held EOS object, set_new_equation_of_state) is followed by
    set_new_initial_conditions(current conditions) -- what NohBlackBoxEos.solve_jump_conditions does before every
    solve; the residual classes cache e_0 = eos.e(rho_0, P_0) and only that call refreshes it.
    not disciplined: any order (FINDING on the unchanged tree: e_0 stays stale)."""
    first = [] if disciplined else [dict(w) for w in RES_WITNESSES]

    def gen(rng):
        if first:
            return first.pop(0)
        res = rng.choice(sorted(TE.RESIDUALS))
        n = len(TE.RESIDUALS[res][1])
        rescls = getattr(R, RESNAME[res])
        rs = TB.setters_of(rescls)
        eoss = ['Ideal', 'Stiff', 'NobleAbel'] + (['CS'] if 'Pressure' in res else [])
        c = H.sample_residual_case(res, rng, eoss)
        short = c['eos']
        clsname = SHORT_EOS_CLS[short]
        es = TB.setters_of(eos_classes()[clsname])
        smap = setter_map(clsname)
        can_refresh = 'set_new_initial_conditions' in rs
        ops = []
        cur_short = short
        for _ in range(rng.randint(2, 8)):
            u = rng.random()
            cs = SHORT_EOS_CLS[cur_short]
            es = TB.setters_of(eos_classes()[cs])
            if es and u < 0.3 and (can_refresh or not disciplined):
                st = rng.choice(es)
                const = setter_map(cs).get(st)
                v = H.sample_consts(cur_short, rng)[const] if const else rng.uniform(0.5, 1.5)
                ops.append(['eos_set', st, v, bool(disciplined or rng.random() < 0.3) and can_refresh])
            elif 'set_new_equation_of_state' in rs and u < 0.5 and (can_refresh or not disciplined):
                s2 = rng.choice(eoss)
                ops.append(['set_eos', s2, H.sample_consts(s2, rng), bool(disciplined or rng.random() < 0.3) and can_refresh])
                cur_short = s2
            elif can_refresh and u < 0.7:
                ops.append(['set_ic', sample_ic(rng, n, cur_short)])
            else:
                ops.append(['probe'])
        ops.append(['probe'])
        return dict(kind='res', res=res, eos=short, consts=c['consts'], ic=c['ic'], x=c['x'], ops=ops)

    def check(c):
        res = c['res']
        n = len(TE.RESIDUALS[res][1])
        rescls = getattr(R, RESNAME[res])
        cur_short, cur_consts, cur_ic = c['eos'], dict(c['consts']), dict(c['ic'])
        try:
            eos = build_eos(SHORT_EOS_CLS[cur_short], cur_consts)
            used = rescls(dict(cur_ic), eos)
        except Exception:
            return []
        stale_by = None          # which unrefreshed operation changed the EOS since e_0 was last computed
        done = []
        out = []
        for op in c['ops']:
            try:
                if op[0] == 'eos_set':
                    const = setter_map(SHORT_EOS_CLS[cur_short]).get(op[1])
                    if const is None:
                        continue
                    getattr(eos, op[1])(op[2])
                    cur_consts[const] = op[2]
                    stale_by = 'eos_setter'
                    done.append('eos.%s(%r)' % (op[1], op[2]))
                elif op[0] == 'set_eos':
                    cur_short, cur_consts = op[1], dict(op[2])
                    eos = build_eos(SHORT_EOS_CLS[cur_short], cur_consts)
                    used.set_new_equation_of_state(eos)
                    stale_by = 'set_new_equation_of_state'
                    done.append('set_new_equation_of_state(%s(%r))' % (SHORT_EOS_CLS[cur_short], cur_consts))
                elif op[0] == 'set_ic':
                    cur_ic = dict(op[1])
                    used.set_new_initial_conditions(dict(cur_ic))
                    stale_by = None
                    done.append('set_new_initial_conditions(%r)' % cur_ic)
                if op[0] in ('eos_set', 'set_eos') and op[3]:
                    used.set_new_initial_conditions(dict(cur_ic))
                    stale_by = None
                    done.append('set_new_initial_conditions(<unchanged>)')
            except Exception:
                return out          # an inadmissible combination (e.g. the new EOS rejects the state): no data
            if op[0] != 'probe':
                continue
            try:
                fresh = rescls(dict(cur_ic), build_eos(SHORT_EOS_CLS[cur_short], cur_consts))
            except Exception:
                continue
            d = _res_probe(used, fresh, c['x'], n, rescls)
            if d is None:
                continue
            what, u, f = d
            e_used, e_fresh = getattr(used, 'e_0', None), getattr(fresh, 'e_0', None)
            if stale_by and not same(e_used, e_fresh):
                site = '%s:%s:stale_e_0' % (RESNAME[res], stale_by)
            else:
                site = '%s:after_setters:%s' % (RESNAME[res], what)
            if site not in [o['site'] for o in out]:
                out.append(dict(site=site, detail='%s(%r, %s(%r)) after [%s]: %s(%r) = %s, a fresh object (%r, %s(%r)) gives %s'
                                '; cached e_0 = %r, eos.e(rho_0, P_0) = %r'
                                % (RESNAME[res], c['ic'], SHORT_EOS_CLS[c['eos']], c['consts'], ', '.join(done), what, c['x'], show(u),
                                   cur_ic, SHORT_EOS_CLS[cur_short], cur_consts, show(f), e_used, e_fresh)))
        return out
    return make_seq(gen, check, 'c16b.res_seq.' + ('disciplined' if disciplined else 'free'))


# --------------------------------------------------------------------------
# one newton_solver object
# --------------------------------------------------------------------------

def _fn_objects(fn, ic=None):
    eos = build_eos(SHORT_EOS_CLS[fn['eos']], fn['consts'])
    return eos, getattr(R, RESNAME[fn['res']])(dict(ic or fn['ic']), eos)


def _reasonable_guess(fn, ic, pert):
    """guess = physical state x (1 + pert); None when no physical reference state is found"""
    eos = build_eos(SHORT_EOS_CLS[fn['eos']], fn['consts'])
    ref = H.reference_solution(eos, ic, fn['consts']['gamma'])
    reasonable = ref is not None
    if ref is None:
        ref = H.ideal_solution(fn['consts']['gamma'], ic)
    rho, e, D = [v * (1 + p) for v, p in zip(ref, pert)]
    if fn['res'] == 'Energy':
        try:
            return [rho, float(eos.P(rho, e)), D], reasonable
        except Exception:
            return [rho, e, D], False
    return [rho, e, D], reasonable


def _solve(s):
    try:
        with np.errstate(all='ignore'):
            return 'converged', s.solve(verbose=False)
    except Exception as ex:
        return 'raise:' + type(ex).__name__, None


def _compare_solves(tag_u, out_u, tag_f, out_f, tol):
    """None or a description of the first difference between a solve on the used object and on fresh objects"""
    if tag_u != tag_f:
        return 'outcome %s%s, fresh objects: %s%s' % (
            tag_u, '' if out_u is None else ' %r after %d iterations' % ([float(v) for v in out_u['solution']], out_u['number_of_iterations']),
            tag_f, '' if out_f is None else ' %r after %d iterations' % ([float(v) for v in out_f['solution']], out_f['number_of_iterations']))
    if out_u is None:
        return None
    xu, xf = [float(v) for v in out_u['solution']], [float(v) for v in out_f['solution']]
    if out_u['number_of_iterations'] != out_f['number_of_iterations']:
        return 'solution %r after %d iterations, fresh objects: %r after %d iterations' % (
            xu, out_u['number_of_iterations'], xf, out_f['number_of_iterations'])
    for a, b in zip(xu + [float(out_u['residual_achieved']), float(out_u['error_achieved'])],
                    xf + [float(out_f['residual_achieved']), float(out_f['error_achieved'])]):
        if not same(a, b):
            return 'solution/residual/error %r, fresh objects: %r' % (
                xu + [float(out_u['residual_achieved']), float(out_u['error_achieved'])],
                xf + [float(out_f['residual_achieved']), float(out_f['error_achieved'])])
    return None


def _jump_failure(fn, ic, out, tol):
    """the returned state against the three jump conditions, D > 0 (finite states only: NaN exits and the spurious root
    are findings of their own obligations in o_c16.py)"""
    x = [float(v) for v in out['solution']]
    eos = build_eos(SHORT_EOS_CLS[fn['eos']], fn['consts'])
    if not all(map(math.isfinite, x)):
        return None
    if fn['res'] == 'Pressure':
        rho, e, D = x
        P = eos.P(rho, e)
    else:
        rho, P, D = x
        e = eos.e(rho, P)
    if not D > 0:
        return None
    dfs = H.jump_defects(ic, eos.e(ic['density'], ic['pressure']), rho, P, e, D)
    if max(dfs) > 1e3 * tol:
        return 'returned %r, relative jump defects %r' % (x, dfs)
    return None


NEWTON_WITNESS = dict(
    kind='newton', fns=[dict(res='Pressure', eos='Ideal', consts={'gamma': 5. / 3.},
                             ic={'density': 1.0, 'velocity': -1.0, 'pressure': 0.0, 'symmetry': 2})],
    ops=[['set_function', 0], ['set_guess', [-0.0625, 0.0, -0.1]], ['solve'], ['solve']])


def _sample_fn(rng):
    short = rng.choice(['Ideal', 'Ideal', 'Stiff', 'NobleAbel', 'CS'])
    c = H.sample_consts(short, rng)
    if short == 'CS':
        c['b'] = rng.uniform(0.001, 0.01)
    ic = dict(density=rng.uniform(0.5, 2.0), velocity=-rng.uniform(0.3, 2.0), pressure=0.0, symmetry=rng.choice([0, 1, 2]))
    if short == 'Stiff':
        c['rho_inf'] = ic['density']
        c['c_s'] = rng.uniform(0.05, 0.5)
        ic['symmetry'] = 0
    return dict(res=rng.choice(['Pressure', 'Pressure', 'Energy']) if short != 'CS' else 'Pressure', eos=short, consts=c, ic=ic)


def newton_seq(disciplined):
    """sequences on ONE newton_solver object.
    disciplined: set_new_initial_guess is called between any two solves (what solve_jump_conditions does);
    not disciplined: any order.  On the pinned tree `solve` did not reset the convergence state (self.residual,
    self.error), only set_new_initial_guess did, so a second solve without a new guess returned the starting guess after
    0 iterations as a converged solution (site newton_solver:resolve:convergence_state_not_reset; repaired in /repo,
    53f776b).  The witness history is still replayed first on every run: a regression is reported with it."""
    first = [] if disciplined else [NEWTON_WITNESS]

    def gen(rng):
        if first:
            return dict(first.pop(0))
        fns = [_sample_fn(rng) for _ in range(rng.choice([1, 2]))]
        ops = [['set_function', 0], ['set_guess', [rng.uniform(-0.2, 0.2) for _ in range(3)]]]
        if rng.random() < 0.5:
            ops.insert(rng.randrange(3), ['set_tol', rng.choice([1e-6, 1e-8, 1e-10])])
        ops.append(['solve'])
        for _ in range(rng.randint(2, 7)):
            u = rng.random()
            if u < 0.15:
                ops.append(['set_function', rng.randrange(len(fns))])
            elif u < 0.3:
                ops.append(['set_tol', rng.choice([1e-6, 1e-8, 1e-10, 1e-4])])
            elif u < 0.4:
                ops.append(['set_maxit', rng.choice([100, 200, 50, 3])])
            elif u < 0.55:
                k = rng.randrange(len(fns))
                ic = dict(fns[k]['ic'])
                ic['density'] = rng.uniform(0.5, 2.0)
                ic['velocity'] = -rng.uniform(0.3, 2.0)
                if fns[k]['eos'] == 'Stiff':
                    ic['density'] = fns[k]['ic']['density']
                ops.append(['set_ic', k, ic])
            elif u < 0.7:
                ops.append(['set_guess', [rng.uniform(-0.2, 0.2) for _ in range(3)]])
            else:
                if disciplined or rng.random() < 0.5:
                    ops.append(['set_guess', [rng.uniform(-0.2, 0.2) for _ in range(3)]])
                ops.append(['solve'])
        if disciplined or rng.random() < 0.5:
            ops.append(['set_guess', [rng.uniform(-0.2, 0.2) for _ in range(3)]])
        ops.append(['solve'])
        return dict(kind='newton', fns=fns, ops=ops)

    def check(c):
        fns = c['fns']
        try:
            objs = [_fn_objects(f) for f in fns]
        except Exception:
            return []
        ics = [dict(f['ic']) for f in fns]
        s = NS.newton_solver()
        cur_fn, cur_guess, cur_tol, cur_maxit = None, None, None, None
        reasonable = False
        solved_before, guess_since_solve = False, False
        done, out = [], []
        for op in c['ops']:
            try:
                if op[0] == 'set_function':
                    s.set_function(objs[op[1]][1])
                    cur_fn = op[1]
                    done.append('set_function(f%d)' % op[1])
                elif op[0] == 'set_tol':
                    s.set_new_tolerance(op[1])
                    cur_tol = op[1]
                    done.append('set_new_tolerance(%r)' % op[1])
                elif op[0] == 'set_maxit':
                    s.set_new_max_iteration(op[1])
                    cur_maxit = op[1]
                    done.append('set_new_max_iteration(%r)' % op[1])
                elif op[0] == 'set_ic':
                    objs[op[1]][1].set_new_initial_conditions(dict(op[2]))
                    ics[op[1]] = dict(op[2])
                    done.append('f%d.set_new_initial_conditions(%r)' % (op[1], op[2]))
                elif op[0] == 'set_guess':
                    k = cur_fn if cur_fn is not None else 0
                    cur_guess, reasonable = _reasonable_guess(fns[k], ics[k], op[1])
                    s.set_new_initial_guess(list(cur_guess))
                    guess_since_solve = True
                    done.append('set_new_initial_guess(%r)' % cur_guess)
            except Exception:
                return out
            if op[0] != 'solve':
                continue
            done.append('solve()')
            tag_u, out_u = _solve(s)
            # the same solve on fresh objects
            try:
                f = NS.newton_solver()
                if cur_fn is not None:
                    f.set_function(_fn_objects(fns[cur_fn], ics[cur_fn])[1])
                if cur_tol is not None:
                    f.set_new_tolerance(cur_tol)
                if cur_maxit is not None:
                    f.set_new_max_iteration(cur_maxit)
                if cur_guess is not None:
                    f.set_new_initial_guess(list(cur_guess))
            except Exception:
                return out
            tag_f, out_f = _solve(f)
            tol = cur_tol if cur_tol is not None else 1e-6
            diff = _compare_solves(tag_u, out_u, tag_f, out_f, tol)
            if diff is not None:
                if not solved_before:
                    site = 'newton_solver:first_solve'
                elif not guess_since_solve:
                    site = 'newton_solver:resolve:convergence_state_not_reset'
                else:
                    site = 'newton_solver:resolve:after_new_guess'
                if site not in [o['site'] for o in out]:
                    out.append(dict(site=site, detail='one newton_solver, f%s = %s; [%s]: last solve: %s'
                                    % (cur_fn, fns[cur_fn] if cur_fn is not None else None, ', '.join(done), diff)))
            elif tag_u == 'converged' and reasonable and cur_fn is not None:
                j = _jump_failure(fns[cur_fn], ics[cur_fn], out_u, tol)
                if j and 'newton_solver:resolve:jump' not in [o['site'] for o in out]:
                    out.append(dict(site='newton_solver:resolve:jump', detail='[%s]: %s' % (', '.join(done), j)))
            solved_before, guess_since_solve = True, False
        return out
    return make_seq(gen, check, 'c16b.newton_seq.' + ('disciplined' if disciplined else 'free'), scale=3.0)


# --------------------------------------------------------------------------
# through NohBlackBoxEos.solve_jump_conditions
# --------------------------------------------------------------------------

def _bb_make(short, consts, ic):
    eos = build_eos(SHORT_EOS_CLS[short], consts)
    s = BB.NohBlackBoxEos(eos, initial_conditions=dict(ic), geometry=ic['symmetry'] + 1, rho0=ic['density'], u0=ic['velocity'])
    s.solver = NS.newton_solver()        # the class shares one solver object between all instances (a C06 finding)
    return eos, s


def bb_seq():
    """sequences on ONE NohBlackBoxEos instance: set_new_solver_initial_guess / _tolerance / _max_iterations, setters of
    the instance's EOS object, solve_jump_conditions (again and again), the public call"""
    def gen(rng):
        c = H._bb_case(rng, ['Ideal', 'Ideal', 'NobleAbel', 'CS', 'Stiff'])
        es = TB.setters_of(eos_classes()[SHORT_EOS_CLS[c['eos']]])
        ops = [['guess', c['pert']], ['solve']]
        for _ in range(rng.randint(2, 6)):
            u = rng.random()
            if u < 0.2:
                ops.append(['guess', [rng.uniform(-0.2, 0.2) for _ in range(3)]])
            elif u < 0.3:
                ops.append(['tol', rng.choice([1e-6, 1e-8, 1e-10])])
            elif u < 0.36:
                ops.append(['maxit', rng.choice([100, 50])])
            elif es and u < 0.55:
                st = rng.choice(es)
                const = setter_map(SHORT_EOS_CLS[c['eos']]).get(st)
                v = H.sample_consts(c['eos'], rng)[const] if const else 1.0
                if c['eos'] == 'CS':
                    v = rng.uniform(0.001, 0.01)
                if c['eos'] == 'Stiff' and const == 'rho_inf':
                    v = c['ic']['density']
                if c['eos'] == 'Stiff' and const == 'c_s':
                    v = rng.uniform(0.05, 0.5)
                ops.append(['eos_set', st, v])
            elif u < 0.85:
                ops.append(['solve'])
            else:
                ops.append(['call', sorted(rng.uniform(0.01, 1.5) for _ in range(5)), rng.uniform(0.2, 1.5)])
        ops.append(['solve'])
        ops.append(['call', sorted(rng.uniform(0.01, 1.5) for _ in range(5)), rng.uniform(0.2, 1.5)])
        return dict(kind='bb', eos=c['eos'], consts=c['consts'], ic=c['ic'], ops=ops)

    def check(c):
        short, ic = c['eos'], c['ic']
        cur = dict(c['consts'])
        try:
            eos, s = _bb_make(short, cur, ic)
        except Exception:
            return []
        fn = dict(res='Pressure', eos=short, consts=cur)
        guess, tol, maxit, reasonable = None, None, None, False
        dirty, solved = True, False
        done, out = [], []

        def fresh():
            fn2 = dict(fn, consts=dict(cur))
            e2, s2 = _bb_make(short, dict(cur), ic)
            if guess is not None:
                s2.set_new_solver_initial_guess(list(guess))
            if tol is not None:
                s2.set_new_solver_tolerance(tol)
            if maxit is not None:
                s2.set_new_solver_max_iterations(maxit)
            return s2

        def run_solve(obj):
            try:
                with np.errstate(all='ignore'):
                    obj.solve_jump_conditions()
                return 'converged', obj.solution_data
            except Exception as ex:
                return 'raise:' + type(ex).__name__, None
        for op in c['ops']:
            try:
                if op[0] == 'guess':
                    guess, reasonable = _reasonable_guess(dict(fn, consts=dict(cur)), ic, op[1])
                    s.set_new_solver_initial_guess(list(guess))
                    dirty = True
                    done.append('set_new_solver_initial_guess(%r)' % guess)
                elif op[0] == 'tol':
                    tol = op[1]
                    s.set_new_solver_tolerance(tol)
                    dirty = True
                    done.append('set_new_solver_tolerance(%r)' % tol)
                elif op[0] == 'maxit':
                    maxit = op[1]
                    s.set_new_solver_max_iterations(maxit)
                    done.append('set_new_solver_max_iterations(%r)' % maxit)
                elif op[0] == 'eos_set':
                    const = setter_map(SHORT_EOS_CLS[short]).get(op[1])
                    if const is None:
                        continue
                    getattr(s.eos, op[1])(op[2])
                    cur[const] = op[2]
                    dirty = True
                    done.append('eos.%s(%r)' % (op[1], op[2]))
            except Exception:
                return out
            if op[0] == 'solve':
                done.append('solve_jump_conditions()')
                tag_u, out_u = run_solve(s)
                try:
                    s2 = fresh()
                except Exception:
                    return out
                tag_f, out_f = run_solve(s2)
                t = tol if tol is not None else 1e-6
                diff = _compare_solves(tag_u, out_u, tag_f, out_f, t)
                if diff is None and tag_u == 'converged':
                    for a in ('shocked_density', 'shocked_energy', 'shock_speed', 'shocked_pressure'):
                        if not same(getattr(s, a), getattr(s2, a)):
                            diff = '%s = %r, fresh instance: %r' % (a, getattr(s, a), getattr(s2, a))
                            break
                if diff is not None:
                    site = 'NohBlackBoxEos:resolve:' + ('first_solve' if not solved else 'solution')
                    if site not in [o['site'] for o in out]:
                        out.append(dict(site=site, detail='one NohBlackBoxEos(%s(%r), %r); [%s]: last solve: %s'
                                        % (SHORT_EOS_CLS[short], c['consts'], ic, ', '.join(done), diff)))
                elif tag_u == 'converged' and reasonable:
                    j = _jump_failure(dict(fn, consts=dict(cur)), ic, out_u, t)
                    if j and 'NohBlackBoxEos:resolve:jump' not in [o['site'] for o in out]:
                        out.append(dict(site='NohBlackBoxEos:resolve:jump', detail='[%s]: %s' % (', '.join(done), j)))
                solved, dirty = (tag_u == 'converged'), False
            elif op[0] == 'call' and solved and not dirty:
                # the solution is cached by design until solve_jump_conditions is called again: compared only then
                try:
                    s2 = fresh()
                    with np.errstate(all='ignore'):
                        s2.solve_jump_conditions()
                        a = s(np.array(op[1], dtype=float), op[2])
                        b = s2(np.array(op[1], dtype=float), op[2])
                except Exception:
                    continue
                for nm in a.dtype.names:
                    if not same(np.asarray(a[nm]), np.asarray(b[nm])):
                        site = 'NohBlackBoxEos:resolve:call:' + nm
                        if site not in [o['site'] for o in out]:
                            out.append(dict(site=site, detail='[%s]: %s(%r, %r) = %r, fresh instance: %r'
                                            % (', '.join(done), nm, op[1], op[2], list(map(float, a[nm])), list(map(float, b[nm])))))
                        break
        return out
    return make_seq(gen, check, 'c16b.bb_seq', scale=3.0)


# --------------------------------------------------------------------------
# ties
# --------------------------------------------------------------------------

def _raw_eos(clsname, attrs):
    """an object in an arbitrary state: not built by the constructor, every attribute set directly"""
    cls = eos_classes()[clsname]
    o = cls.__new__(cls)
    for k, v in attrs.items():
        setattr(o, k, v)
    return o


def _state_twin(model):
    info = TB.SETTER_MODELS[model]
    clsname = info['cls']
    short = TB.short_of(clsname)
    cls = eos_classes()[clsname]
    consts = TB.ctor_consts(cls)
    man = H.manifest()[model]
    fields = man['fields']

    def vals(o):
        d = TB.attr_dict(o)
        return [d.get(f) for f in fields]

    def gen(rng, deep):
        cases = []
        for i in range(120 if deep else 24):
            c = sample_consts(clsname, rng)
            rho, P, e = sample_pool(clsname, [c], rng, 1)[0][:3]
            if i % 6 == 0:
                rho = 0.0
            d = dict(c)
            # an arbitrary attribute dictionary: whatever attributes the constructor creates (cached ones included),
            # each with a value of its own
            d.update({'a_' + k: (v if k in c else v * rng.uniform(0.5, 1.5)) for k, v in vars(cls(**c)).items()
                      if isinstance(v, (int, float)) and not isinstance(v, bool)})
            d.update(new=rng.uniform(0.05, 2.0), rho=rho, pres=P, sie=e)
            cases.append(d)
        return cases

    if info['kind'] == 'eos_init':
        def real(c):
            return vals(cls(**{k: c[k] for k in consts}))
    elif info['kind'] == 'eos_setter':
        def real(c):
            o = _raw_eos(clsname, {k[2:]: v for k, v in c.items() if k.startswith('a_')})
            getattr(o, info['setter'])(c['new'])
            return vals(o)
    else:
        def real(c):
            o = _raw_eos(clsname, {k[2:]: v for k, v in c.items() if k.startswith('a_')})
            return [getattr(o, info['method'])(*[c[a] for a in info['args']])]
    return H.Twin(model, gen, real)


def state_ties(rng, deep):
    """Float twins of the constructor / setter / attribute-level method models vs the real objects (objects in an
    arbitrary state are made with __new__ and direct attribute assignment)"""
    man = H.manifest()
    tw = [_state_twin(m) for m, i in TB.SETTER_MODELS.items()
          if i['kind'] in ('eos_init', 'eos_setter', 'eos_at') and man.get(m, {}).get('status') == 'ok']
    return H.run_twins(tw)(rng, deep)


def coverage_tie(proved_eos, proved_res, proved_newton):
    """the setters found by introspection are exactly those the theorems of Setters*.lean cover, every state model
    is traceable, and every concrete EOS class has a sampling rule"""
    def tie(rng, deep):
        st = dict(evaluations=0, distinct_nontrivial=0, mismatches=[], samples=[])
        if TB.DISCOVERY_ERROR:
            st['mismatches'].append(dict(model='discovery', why=TB.DISCOVERY_ERROR))
            return st
        found_eos = sorted((n, s) for n, k in eos_classes().items() for s in TB.setters_of(k))
        found_res = sorted((n, s) for n, k in TB.residual_classes().items() for s in TB.setters_of(k))
        found_newton = sorted(TB.setters_of(NS.newton_solver))
        for what, found, proved in (('EOS', found_eos, sorted(map(tuple, proved_eos))),
                                    ('residual', found_res, sorted(map(tuple, proved_res))),
                                    ('newton_solver', found_newton, sorted(proved_newton))):
            st['evaluations'] += len(found)
            st['distinct_nontrivial'] += len(found)
            if found != proved:
                st['mismatches'].append(dict(model='coverage', why='%s setters in the code: %r; covered by theorems: %r'
                                             % (what, found, proved)))
        man = H.manifest()
        for m in TB.SETTER_MODELS:
            if man.get(m, {}).get('status') != 'ok':
                st['mismatches'].append(dict(model=m, why='state model not traceable: %s' % man.get(m, {}).get('error')))
        for n in eos_classes():
            try:
                sample_consts(n, rng)
            except Exception as ex:
                st['mismatches'].append(dict(model='coverage', why='EOS class %s: %s' % (n, ex)))
        # a setter must stand for exactly one constructor constant
        for n in eos_classes():
            for s, c in setter_map(n).items():
                if c is None:
                    st['mismatches'].append(dict(model='coverage', why='%s.%s does not map to one constructor constant' % (n, s)))
        st['samples'].append(dict(model='coverage', case=dict(eos=found_eos, residual=found_res, newton=found_newton)))
        return st
    return tie


def newton_object_tie(rng, deep):
    """hand model EPV.Model.NewtonObject (driver NewtonObj) vs ONE real newton_solver on operation sequences over
    pressure_noh_residual / ideal_gas_eos objects: the outcome of every operation, iteration counts, solutions"""
    cases = []
    for i in range(150 if deep else 30):
        nf = rng.choice([1, 2])
        fns = []
        for _ in range(nf):
            m = rng.choice([0, 1, 2])
            fns.append(dict(gamma=rng.choice([5. / 3., 1.4, rng.uniform(1.1, 3.0)]),
                            ic=dict(density=rng.uniform(0.5, 2.0), velocity=-rng.uniform(0.3, 2.0), symmetry=m,
                                    pressure=(rng.uniform(0.01, 0.2) if (m == 0 and rng.random() < 0.3) else 0.0))))
        # max_iterations is always lowered first: the default 10000 on a trajectory that does not converge costs
        # seconds in the interpreter (the default itself is pinned by the traced constructor, theorem newton_fresh_traced)
        ops = [['M', rng.choice([100, 60])]]
        if i % 10 == 0:
            ops.append(['S'])                                   # solve before anything is set: ValueError
        ops.append(['F', 0])
        if i % 10 == 1:
            ops.append(['S'])                                   # no guess yet: ValueError
        ops.append(['G', [rng.uniform(-0.25, 0.25) for _ in range(3)]])
        for _ in range(rng.randint(3, 9)):
            u = rng.random()
            if u < 0.22:
                ops.append(['G', [rng.uniform(-0.25, 0.25) for _ in range(3)]])
            elif u < 0.32:
                ops.append(['T', rng.choice([1e-6, 1e-8, 1e-10, 1e-4, 1e-4, 0.5])])      # 0.5: rejected by the setter
            elif u < 0.40:
                ops.append(['M', rng.choice([100, 25, 3, 1])])
            elif u < 0.48:
                ops.append(['F', rng.randrange(nf)])
            elif u < 0.58:
                k = rng.randrange(nf)
                ops.append(['I', k, dict(fns[k]['ic'], density=rng.uniform(0.5, 2.0), velocity=-rng.uniform(0.3, 2.0))])
            else:
                ops.append(['S'])
        ops.append(['S'])
        cases.append(dict(fns=fns, ops=ops))
    # run the real objects first (the guesses depend on the current function), recording the model's input line
    lines, real = [], []
    for c in cases:
        objs = [R.pressure_noh_residual(dict(f['ic']), L.ideal_gas_eos(f['gamma'])) for f in c['fns']]
        recs = [_Rec(o) for o in objs]
        ics = [dict(f['ic']) for f in c['fns']]
        s = NS.newton_solver()
        cur = None
        toks, outs = [], []
        for op in c['ops']:
            if op[0] == 'F':
                s.set_function(recs[op[1]])
                cur = op[1]
                f, ic = c['fns'][cur], ics[cur]
                toks += ['1', lean_io.bits(f['gamma']), lean_io.bits(ic['density']), lean_io.bits(ic['velocity']),
                         lean_io.bits(ic['pressure']), str(ic['symmetry'])]
                outs.append(('ok', None, False))
            elif op[0] == 'I':
                objs[op[1]].set_new_initial_conditions(dict(op[2]))
                ics[op[1]] = dict(op[2])
                if cur == op[1]:
                    # the solver holds this very object: for the model the function it solves has changed
                    f, ic = c['fns'][cur], ics[cur]
                    toks += ['1', lean_io.bits(f['gamma']), lean_io.bits(ic['density']), lean_io.bits(ic['velocity']),
                             lean_io.bits(ic['pressure']), str(ic['symmetry'])]
                    outs.append(('ok', None, False))
            elif op[0] == 'G':
                k = cur if cur is not None else 0
                g = [v * (1 + p) for v, p in zip(H.ideal_solution(c['fns'][k]['gamma'], ics[k]), op[1])]
                s.set_new_initial_guess(list(g))
                toks += ['2'] + [lean_io.bits(v) for v in g]
                outs.append(('ok', None, False))
            elif op[0] == 'T':
                try:
                    s.set_new_tolerance(op[1])
                    outs.append(('ok', None, False))
                except Exception as ex:
                    outs.append(('raise:' + type(ex).__name__, None, False))
                toks += ['3', lean_io.bits(op[1])]
            elif op[0] == 'M':
                s.set_new_max_iteration(op[1])
                toks += ['4', str(op[1])]
                outs.append(('ok', None, False))
            elif op[0] == 'S':
                for r in recs:
                    r.reset()
                tag, out = _solve(s)
                chaotic = any(r.min_rho < 1e-8 or r.nonfinite for r in recs)
                toks += ['5']
                outs.append((tag, out, chaotic))
        lines.append('NewtonObj ' + ' '.join(toks))
        real.append(outs)
    answers = lean_io.run_lines(lines)
    st = dict(evaluations=0, distinct_nontrivial=0, mismatches=[], samples=[], outcome_hist={})
    for c, line, outs, ans in zip(cases, lines, real, answers):
        parts = [p.strip() for p in ans.split('|')]
        st['evaluations'] += 1
        bad = None
        if len(parts) != len(outs):
            bad = 'model answered %d operations, %d were run: %r' % (len(parts), len(outs), ans[:200])
        trusted = True          # after a chaotic solve the stored convergence state may differ in the last bits
        for k, ((tag, out, chaotic), mp) in enumerate(zip(outs, parts)):
            if bad:
                break
            ws = mp.split()
            st['outcome_hist'][tag] = st['outcome_hist'].get(tag, 0) + 1
            if chaotic or not trusted:
                trusted = False
                # near the spurious root the trajectories depend on the last bit of the 3x3 inverse: from here on
                # only the outcome classes of this sequence are compared, loosely
                if tag != ws[0] and not {tag, ws[0]} <= {'converged', 'raise:ZeroDensityError', 'raise:IterationError',
                                                          'raise:ZeroDeterminantError'}:
                    bad = 'operation %d: model %s, code %s' % (k, mp[:60], tag)
                continue
            if tag != ws[0]:
                bad = 'operation %d: model %s, code %s' % (k, mp[:60], tag)
            elif tag == 'converged':
                it = int(ws[1])
                mx = [lean_io.unbits(w) for w in ws[2:5]]
                mres, merr = lean_io.unbits(ws[5]), lean_io.unbits(ws[6])
                rx = [float(v) for v in out['solution']]
                if it != out['number_of_iterations']:
                    rr, re_ = float(out['residual_achieved']), float(out['error_achieved'])
                    tols = [1e-4, 1e-6, 1e-8, 1e-10]
                    near = any(abs(v - t) <= 1e-3 * t for v in (rr, re_, mres, merr) for t in tols)
                    if not near:
                        bad = 'operation %d: iterations: model %d, code %d' % (k, it, out['number_of_iterations'])
                    else:
                        trusted = False
                if bad is None and trusted:
                    scale = max(max(abs(v) for v in rx), 1.0)
                    for a, b in zip(rx, mx):
                        if not H._close(a, b, 1e-7, 1e-9 * scale):
                            bad = 'operation %d: solution: code %r model %r' % (k, rx, mx)
                            break
                if bad is None and all(math.isfinite(v) for v in rx):
                    st['distinct_nontrivial'] += 1
        if bad:
            st['mismatches'].append(dict(model='NewtonObj', case=c, why=bad))
        if not st['samples']:
            st['samples'].append(dict(model='NewtonObj', case=c, outcome=ans[:80]))
    return st


class _Rec(object):
    """the real residual object, recording how close to zero density / to non-finite values the iteration came"""

    def __init__(self, res):
        self.res = res
        self.reset()

    def reset(self):
        self.min_rho, self.nonfinite = float('inf'), False

    def _see(self, x):
        try:
            v = [float(a) for a in x]
            self.min_rho = min(self.min_rho, abs(v[0]) / max(abs(self.res.rho_0), 1e-300))
            self.nonfinite = self.nonfinite or not all(map(math.isfinite, v))
        except Exception:
            pass

    def F(self, x, *a, **k):
        self._see(x)
        return self.res.F(x, *a, **k)

    def F_prime_inv(self, x, *a, **k):
        self._see(x)
        return self.res.F_prime_inv(x, *a, **k)
