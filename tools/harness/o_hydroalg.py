"""Oracles of the work package `hydroalg` (C08, C17, C20 for Noh, Noh2, Noh2Cog and the Coggeshall
solvers) — numeric checks on the REAL code.  They support the proofs (search for a failing input,
reproduce findings); they never replace them.

Sites are stable strings '<Solver>:<what>'; the sites of the findings reported with this package are
listed in FINDING_SITES at the end."""
import math
import warnings

import numpy as np

from . import oracle as O
from . import lean_io
from .corr import sample_params
from py2lean.trace import load
from py2lean.targets.t_hydro import COG

CLS = {'Noh': 'exactpack.solvers.noh.noh1:Noh', 'Noh2': 'exactpack.solvers.noh2.noh2:Noh2',
       'Noh2Cog': 'exactpack.solvers.noh2.noh2_cog:Noh2Cog'}
for _n in COG:
    CLS['Cog%d' % _n] = 'exactpack.solvers.cog.cog%d:Cog%d' % (_n, _n)
GEOM = [1, 2, 3]


def K(p):
    return p.get('geometry', 3) - 1.0


def full_params(name, p):
    _, C = load(CLS[name])
    d = {k: getattr(C, k) for k in C.parameters if hasattr(C, k)}
    d.update(p)
    return d


def quiet_fields(name, params, pts, t):
    """public call; dict field -> list of python floats/complex, or ('raise', ExcName)"""
    with warnings.catch_warnings():
        warnings.simplefilter('ignore')
        with np.errstate(all='ignore'):
            try:
                s = O.construct(CLS[name], params)
                sol = s(np.array(pts, dtype=float), t)
            except Exception as ex:
                return ('raise', type(ex).__name__, str(ex)[:80])
    return {n: [complex(v) if isinstance(v, (complex, np.complexfloating)) else float(v) for v in np.atleast_1d(sol[n])]
            for n in sol.dtype.names}


# ======================================================================================
# C08: dimensional consistency
# ======================================================================================
DENS, VEL, PRES, SIE, TEMP, LEN, TIME, GRU, RATE, MASS = ((1, -3, 0, 0), (0, 1, -1, 0), (1, -1, -2, 0), (0, 2, -2, 0),
                                                          (0, 0, 0, 1), (0, 1, 0, 0), (0, 0, 1, 0), (0, 2, -2, -1),
                                                          (0, 0, -1, 0), (1, 0, 0, 0))
FIELD_DIM = dict(position=LEN, density=DENS, velocity=VEL, pressure=PRES, specific_internal_energy=SIE, temperature=TEMP)


def _c2_cog2(p):
    return -2 * (p['b'] + K(p) + 1) / (2 + (p['gamma'] - 1) * (K(p) + 1))


def _c1_cog8(p):
    return (K(p) - 1) / (p['beta'] - p['alpha'] + 4)


def _c_cog9(p):
    c1 = 2 * p['beta'] + K(p) + 7
    return -c1 / p['alpha'], -2 * (p['alpha'] * (K(p) + 1) - c1) / p['alpha'] / (2 + (p['gamma'] - 1) * (K(p) + 1))


def _c_cog18(p):
    c1 = -(2 * p['beta'] + K(p) + 7) / p['alpha']
    return c1, -(K(p) + 1) / 2 - c1 / 2


# the hand table of EPV/Props/C08/Hydro.lean, transcribed: dimension (m, l, t, theta) of every dimensional parameter
PARAM_DIM = {
    'Noh': lambda p: dict(rho0=DENS, u0=VEL),
    'Noh2': lambda p: dict(rho0=DENS, e0=SIE),
    'Noh2Cog': lambda p: dict(rho0=DENS, e0=SIE),
    'Cog1': lambda p: dict(Gamma=GRU, rho0=(1, -3 - p['b'], p['b'] + K(p) + 1, 0),
                           temp0=(0, p['b'], -(p['b'] - (p['gamma'] - 1) * (K(p) + 1)), 1)),
    'Cog2': lambda p: dict(Gamma=GRU, rho0=(1, -3 - p['b'], -_c2_cog2(p), 0)),
    'Cog3': lambda p: dict(Gamma=GRU, b=RATE, rho0=(1, -3 - (p['v'] - K(p) - 1), 0, 0)),
    'Cog4': lambda p: dict(Gamma=GRU, rho0=(1, -3 + 2 * K(p) / (p['gamma'] + 1), 0, 0),
                           u0=(0, 1 + K(p) * (p['gamma'] - 1) / (p['gamma'] + 1), -1, 0)),
    'Cog5': lambda p: dict(Gamma=GRU, rho0=(1, -1, 0, 0), u0=(0, 1, -2, 0)),
    'Cog6': lambda p: dict(Gamma=GRU, tau=TIME, rho0=(1, -3 - p['b'], K(p) + 1 + p['b'], 0)),
    'Cog7': lambda p: dict(Gamma=GRU, tau=TIME, R0=LEN, Ri=LEN),
    'Cog8': lambda p: dict(Gamma=GRU, rho0=(1, -3 - _c1_cog8(p), K(p) + 1 + _c1_cog8(p), 0),
                           temp0=(0, _c1_cog8(p), -((1 - p['gamma']) * (K(p) + 1) + _c1_cog8(p)), 1)),
    'Cog9': lambda p: dict(Gamma=GRU, rho0=(1, -3 - _c_cog9(p)[0], -_c_cog9(p)[1], 0)),
    'Cog11': lambda p: dict(Gamma=GRU, rho0=(1, -3 - ((p['gamma'] - 1) * (K(p) + 1) - 2),
                                             -(1 - K(p) - (p['gamma'] - 1) * (K(p) + 1)), 0),
                            temp0=(0, -(2 - (p['gamma'] - 1) * (K(p) + 1)), 2, 1)),
    'Cog12': lambda p: dict(Gamma=GRU, rho0=(1, -3 + 2 * K(p) / (p['gamma'] + 1), 0, 0),
                            u0=(0, 1 - K(p) * (1 - p['gamma']) / (1 + p['gamma']), -1, 0)),
    'Cog18': lambda p: dict(Gamma=GRU, tau=TIME, rho0=(1, -3 - _c_cog18(p)[0], -2 * _c_cog18(p)[1], 0)),
    'Cog19': lambda p: dict(Gamma=GRU, rho0=DENS, u0=VEL),
    'Cog20': lambda p: dict(Gamma=GRU, rho0=DENS, u0=VEL, a=RATE),
    'Cog21': lambda p: dict(Gamma=GRU, rho0=MASS, temp0=(0, -3, 0, 1)),
}
# Cog3 with the dimensions its help strings state ("b: free dimensionless parameter", "v: ... dimensions of velocity")
COG3_DOC = lambda p: dict(Gamma=GRU, v=VEL, rho0=(1, -3 - (p['v'] - K(p) - 1), 0, 0))

# admissible parameter ranges for the sampling (class default +-50 % where nothing is listed)
UNIT_SPEC = {
    'Noh': dict(geometry=GEOM, gamma=(1.1, 3.0), u0=(-3.0, -0.2), rho0=(0.2, 5.0)),
    'Noh2': dict(geometry=GEOM, gamma=(1.1, 3.0), e0=(0.2, 3.0), rho0=(0.2, 5.0)),
    'Noh2Cog': dict(geometry=GEOM, gamma=(1.1, 3.0), e0=(0.2, 3.0), rho0=(0.2, 5.0)),
    'Cog8': dict(geometry=GEOM, alpha=(-2.0, -1.0), beta=(1.0, 3.0)),
    'Cog9': dict(geometry=GEOM, alpha=(-2.0, -1.0), beta=(1.0, 3.0)),
    'Cog11': dict(geometry=GEOM, Gamma=(20.0, 60.0)),
    'Cog12': dict(geometry=[2, 3], gamma=(0.2, 0.9)),
    'Cog4': dict(geometry=GEOM, gamma=(0.2, 0.9)),
    'Cog18': dict(geometry=GEOM, alpha=(-2.0, -1.0), beta=(1.0, 3.0)),
    'Cog19': dict(geometry=GEOM, u0=(-4.0, -0.3)),
    'Cog5': {}, 'Cog21': {},
}
TIME_RANGE = {'Noh2': (0.0, 0.95), 'Noh2Cog': (0.0, 0.95), 'Noh': (0.05, 2.0)}


def factor(sig, d):
    return sig[0] ** d[0] * sig[1] ** d[1] * sig[2] ** d[2] * sig[3] ** d[3]


def scaled_params(name, p, sig, table=None):
    fp = full_params(name, p)
    dims = (table or PARAM_DIM[name])(fp)
    q = dict(p)
    for k_, d in dims.items():
        q[k_] = fp[k_] * factor(sig, d)
    return q


def _unit_case(name, rng, sig_filter=None):
    _, C = load(CLS[name])
    p = sample_params(C, UNIT_SPEC.get(name, dict(geometry=GEOM)), rng)
    sig = [math.exp(rng.uniform(-1.5, 1.5)) for _ in range(4)]
    if sig_filter:
        sig = sig_filter(sig, full_params(name, p))
    lo, hi = TIME_RANGE.get(name, (0.05, 0.6))
    return dict(solver=name, params=p, sigma=sig, pts=sorted(rng.uniform(0.2, 3.0) for _ in range(5)), t=rng.uniform(lo, hi))


def _compare_units(c, table=None, field_dim=None, tol=1e-10, same_region=None):
    """None | (field, i, got, want)"""
    name, p, sig = c['solver'], c['params'], c['sigma']
    fd = dict(FIELD_DIM)
    fd.update(field_dim or {})
    a = quiet_fields(name, p, c['pts'], c['t'])
    q = scaled_params(name, p, sig, table)
    pts2 = [sig[1] * x for x in c['pts']]
    t2 = sig[2] * c['t']
    b = quiet_fields(name, q, pts2, t2)
    if isinstance(a, tuple):
        return None                      # the original request is not valid: no data
    if isinstance(b, tuple):
        return ('outcome', 0, b[1], 'fields')
    for f, col in a.items():
        for i, v in enumerate(col):
            if same_region is not None and not same_region(c, q, i):
                continue
            w = b[f][i]
            if isinstance(v, complex) or isinstance(w, complex):
                continue
            if not (math.isfinite(v) and math.isfinite(w)):
                if math.isfinite(v) != math.isfinite(w):
                    return (f, i, w, v)
                continue
            want = factor(sig, fd[f]) * v
            if O.relerr(w, want) > tol and abs(w - want) > 1e-290:
                return (f, i, w, want)
    return None


def units(name, sig_filter=None, field_dim=None, same_region=None, suffix=''):
    def gen(rng):
        return _unit_case(name, rng, sig_filter)

    def check(c):
        r = _compare_units(c, field_dim=field_dim, same_region=same_region)
        if r:
            return dict(site='%s:units:%s' % (name, r[0]), detail='point %d: scaled call %r, scaled output %r' % r[1:])
        return None
    return O.make(gen, check, 'c08.units.%s%s' % (name, suffix))


def _fixed_time(sig, p):
    return [sig[0], sig[1], 1.0, sig[3]]


def _cog7_tied(sig, p):
    x = {1: -1.0, 2: -1.0, 3: 0.0}[p['geometry']]
    return [sig[1] ** 3 * sig[2] ** x, sig[1], sig[2], sig[3]]


def _cog20_shock(p, t):
    return p['u0'] * (p['gamma'] - 1) / (4 * p['a']) * t * (1 - 2 * p['a'] * t) / (1 - p['a'] * t)


def _cog20_same_region(c, q, i):
    p, sig = full_params('Cog20', c['params']), c['sigma']
    q = full_params('Cog20', q)
    return (c['pts'][i] < _cog20_shock(p, c['t'])) == (sig[1] * c['pts'][i] < _cog20_shock(q, sig[2] * c['t']))


units_oracle = {n: units(n) for n in ('Noh', 'Cog1', 'Cog2', 'Cog3', 'Cog4', 'Cog5', 'Cog6', 'Cog8', 'Cog9', 'Cog11',
                                       'Cog12', 'Cog18', 'Cog19', 'Cog21')}
units_oracle['Noh2'] = units('Noh2', sig_filter=_fixed_time)
units_oracle['Noh2Cog'] = units('Noh2Cog', sig_filter=_fixed_time, field_dim=dict(temperature=SIE))
units_oracle['Cog7'] = units('Cog7', sig_filter=_cog7_tied)
units_oracle['Cog20'] = units('Cog20', same_region=_cog20_same_region)


def finding_units(name, site, table=None, sig_filter=None, field_dim=None):
    """the full-strength statement on the real code; every disagreement is reported under ONE site"""
    def gen(rng):
        return _unit_case(name, rng, sig_filter)

    def check(c):
        r = _compare_units(c, table=table, field_dim=field_dim)
        if r:
            return dict(site=site, detail='%s, point %d: scaled call %r, scaled output %r' % r)
        return None
    return O.make(gen, check, 'c08.finding.' + site)


noh2_time_unit = finding_units('Noh2', 'Noh2:time-unit')
noh2cog_time_unit = finding_units('Noh2Cog', 'Noh2Cog:time-unit', field_dim=dict(temperature=SIE),
                                  sig_filter=lambda s, p: [s[0], s[1], s[2], 1.0])
cog7_mass_unit = finding_units('Cog7', 'Cog7:mass-unit')
cog20_shock_position = finding_units('Cog20', 'Cog20:shock-position')
cog3_documented_dimensions = finding_units('Cog3', 'Cog3:documented-dimensions', table=COG3_DOC)


# ======================================================================================
# C17: admissibility
# ======================================================================================
SIGN_SPEC = {
    'Noh': dict(geometry=GEOM, gamma=(1.05, 3.0), u0=(-3.0, -0.2), rho0=(0.2, 5.0)),
    'Noh2': dict(geometry=GEOM, gamma=(1.05, 3.0), e0=(0.0, 3.0), rho0=(0.2, 5.0)),
    'Noh2Cog': dict(geometry=GEOM, gamma=(1.05, 3.0), e0=(0.0, 3.0), rho0=(0.2, 5.0)),
    'Cog1': dict(geometry=GEOM, gamma=(1.05, 3.0)), 'Cog2': dict(geometry=GEOM, gamma=(1.05, 3.0), b=(-1.9, 3.0)),
    'Cog6': dict(geometry=GEOM, b=(-1.9, 3.0)), 'Cog8': dict(geometry=GEOM, gamma=(1.05, 3.0)),
    'Cog9': dict(geometry=GEOM, gamma=(1.05, 3.0), alpha=(-2.0, -1.0), beta=(1.0, 3.0)),
    'Cog10': dict(geometry=[2, 3], gamma=(1.05, 3.0)),
    'Cog11': dict(geometry=GEOM, gamma=(1.05, 3.0), Gamma=(20.0, 60.0)),
    'Cog18': dict(geometry=GEOM, alpha=(-2.0, -1.0), beta=(1.0, 3.0)),
    'Cog19': dict(geometry=GEOM, gamma=(1.05, 3.0), u0=(-4.0, -0.3)),
    'Cog21': {},
}
THERMO = ('density', 'temperature', 'pressure', 'specific_internal_energy')


def signs(name, spec, fields=THERMO, site=None, expect_fail=False):
    _, C = load(CLS[name])

    def gen(rng):
        lo, hi = TIME_RANGE.get(name, (0.05, 0.6))
        return dict(solver=name, params=sample_params(C, spec, rng), pts=sorted(rng.uniform(0.05, 3.0) for _ in range(6)),
                    t=rng.uniform(lo, hi))

    def check(c):
        f = quiet_fields(name, c['params'], c['pts'], c['t'])
        if isinstance(f, tuple):
            return None
        for fld in fields:
            if fld not in f:
                continue
            for i, v in enumerate(f[fld]):
                if isinstance(v, complex) or not math.isfinite(v):
                    continue            # C20's business
                if (fld == 'density' and not v > 0) or v < 0:
                    return dict(site=site or '%s:sign:%s' % (name, fld), detail='%s[%d] = %r at r=%r' % (fld, i, v, c['pts'][i]))
        return None
    return O.make(gen, check, 'c17.signs.' + name)


signs_oracle = {n: signs(n, s) for n, s in SIGN_SPEC.items()}
# gamma < 1 solutions: density, temperature, pressure are fine; the energy is not (findings below)
signs_oracle['Cog3'] = signs('Cog3', dict(geometry=GEOM), fields=('density',))
signs_oracle['Cog4'] = signs('Cog4', dict(geometry=GEOM, gamma=(0.2, 0.9)), fields=('density', 'temperature', 'pressure'))
signs_oracle['Cog12'] = signs('Cog12', dict(geometry=[2, 3], gamma=(0.2, 0.9)), fields=('density', 'temperature', 'pressure'))
signs_oracle['Cog5'] = signs('Cog5', {}, fields=('density', 'temperature', 'pressure'))

cog4_energy = signs('Cog4', dict(geometry=GEOM, gamma=(0.2, 0.9)), fields=('specific_internal_energy',), site='Cog4:sie<0')
cog12_energy = signs('Cog12', dict(geometry=[2, 3], gamma=(0.2, 0.9)), fields=('specific_internal_energy',), site='Cog12:sie<0')
cog5_energy = signs('Cog5', {}, fields=('specific_internal_energy',), site='Cog5:sie<0')
cog3_energy = signs('Cog3', dict(geometry=[3]), fields=('specific_internal_energy',), site='Cog3:sie<0')
cog17_temperature = signs('Cog17', dict(geometry=GEOM, alpha=(-2.0, -1.0), beta=(1.0, 3.0)), fields=('temperature',),
                          site='Cog17:temperature<0')


def _locate_jump(name, params, t, lo, hi, key):
    """bisection for the discontinuity of key(fields) between lo and hi (model-free: only public calls)"""
    def val(r):
        f = quiet_fields(name, params, [r], t)
        return None if isinstance(f, tuple) else key(f, 0, r)
    a, b = val(lo), val(hi)
    if a is None or b is None or a == b:
        return None
    for _ in range(60):
        mid = 0.5 * (lo + hi)
        m = val(mid)
        if m == a:
            lo = mid
        else:
            hi = mid
    return 0.5 * (lo + hi)


def shock_direction(name, spec, key, site, tspan=(0.3, 1.0)):
    """locate the shock at t and t+dt by bisection on the public output, D = dR/dt; the material crosses from the
    side where rho (u - D) points away... : with m = rho_in (u_in - D), m > 0 means in -> out.  Compressive iff
    density and pressure are larger on the downstream side."""
    _, C = load(CLS[name])

    def gen(rng):
        return dict(solver=name, params=sample_params(C, spec, rng), t=rng.uniform(*tspan))

    def check(c):
        p, t = c['params'], c['t']
        dt = 1e-4 * t
        R1 = _locate_jump(name, p, t, 1e-6, 50.0, key)
        R2 = _locate_jump(name, p, t + dt, 1e-6, 50.0, key)
        if R1 is None or R2 is None:
            return None
        D = (R2 - R1) / dt
        eps = 1e-6 * R1
        fi = quiet_fields(name, p, [R1 - eps], t)
        fo = quiet_fields(name, p, [R1 + eps], t)
        if isinstance(fi, tuple) or isinstance(fo, tuple):
            return None
        m = fi['density'][0] * (fi['velocity'][0] - D)        # mass flux in +r direction relative to the shock
        up, down = (fi, fo) if m > 0 else (fo, fi)
        if not (down['density'][0] > up['density'][0] and down['pressure'][0] > up['pressure'][0]):
            return dict(site=site, detail='R=%r D=%r flux=%r upstream rho,p=%r,%r downstream rho,p=%r,%r'
                        % (R1, D, m, up['density'][0], up['pressure'][0], down['density'][0], down['pressure'][0]))
        return None
    return O.make(gen, check, 'c17.shock.' + name)


_vel_zero = lambda f, i, r: f['velocity'][i] == 0.0
noh_shock = shock_direction('Noh', SIGN_SPEC['Noh'], _vel_zero, 'Noh:shock-not-compressive')
cog19_shock = shock_direction('Cog19', SIGN_SPEC['Cog19'], _vel_zero, 'Cog19:shock-not-compressive')
cog21_shock = shock_direction('Cog21', {}, _vel_zero, 'Cog21:expansion-shock', tspan=(0.02, 0.06))


# ======================================================================================
# C20: constructors, domains, finiteness
# ======================================================================================
G123 = dict(param='geometry', valid=[1, 2, 3], violating=[0, 4, 1.5, -1, 2.0000001])
G23 = dict(param='geometry', valid=[2, 3], violating=[1, 0, 4, 2.5])
# the catalogue of EPV/Spec/AdmissibleHydro.lean, as values: valid / violating (boundary values included)
CATALOGUE = {
    'Noh': [G123, dict(param='u0', valid=[-1.0, -1e-300], violating=[0.0, 1e-300, 2.0])],
    'Noh2': [G123], 'Noh2Cog': [G123], 'Cog1': [G123], 'Cog2': [G123], 'Cog3': [G123],
    'Cog4': [G123, dict(param='gamma', valid=[0.5, 0.999999], violating=[1.0, 1.4, 3.0])],
    'Cog5': [], 'Cog6': [G123], 'Cog7': [G123], 'Cog8': [G123], 'Cog9': [G123], 'Cog10': [G23], 'Cog11': [G123],
    'Cog12': [G23], 'Cog13': [G123, dict(param='gamma', valid=[1.4, 0.999999, 1.000001], violating=[1.0])],
    'Cog14': [G123],
    'Cog16': [G23, dict(param='b', valid=[1.2, 1.999999], violating=[2.0], fixed=dict(geometry=3)),
              dict(param='b', valid=[1.2], violating=[1.0], fixed=dict(geometry=2))],
    'Cog17': [G123], 'Cog18': [G123, dict(param='alpha', valid=[-1.5, 1e-300, -1e-300], violating=[0.0, -0.0])],
    'Cog19': [G123, dict(param='u0', valid=[-2.3, -1e-300], violating=[0.0, 1e-300, 2.3])],
    'Cog20': [G123, dict(param='a', valid=[0.3, 1e-300, -0.3], violating=[0.0])],
    'Cog21': [],
}
NEEDS = {'Cog11': dict(Gamma=40.0)}          # parameters without a class default


def constructor(name, known_sites=None):
    """catalogue x {valid, violating/boundary}: accepted, resp. rejected with ValueError"""
    known_sites = known_sites or {}

    def gen(rng):
        ents = CATALOGUE[name]
        if not ents:
            return dict(solver=name, params={}, expect='ok', what='defaults')
        e = rng.choice(ents)
        kind = rng.choice(['valid', 'violating'])
        v = rng.choice(e[kind])
        p = dict(NEEDS.get(name, {}))
        p.update(e.get('fixed', {}))
        p[e['param']] = v
        return dict(solver=name, params=p, expect='ok' if kind == 'valid' else 'ValueError', what='%s=%r' % (e['param'], v))

    def check(c):
        with warnings.catch_warnings():
            warnings.simplefilter('ignore')
            try:
                import contextlib, io
                with contextlib.redirect_stdout(io.StringIO()):
                    O.construct(CLS[c['solver']], c['params'])
                got = 'ok'
            except Exception as ex:
                got = type(ex).__name__
        if got != c['expect']:
            par = c['what'].split('=')[0]
            site = known_sites.get(par, '%s:constructor:%s' % (c['solver'], par))
            return dict(site=site, detail='%s(%s): expected %s, got %s' % (c['solver'], c['what'], c['expect'], got))
        return None
    return O.make(gen, check, 'c20.constructor.' + name)


constructor_oracle = {n: constructor(n) for n in CATALOGUE}
constructor_oracle['Cog19'] = constructor('Cog19', {'u0': 'Cog19:u0=0'})
constructor_oracle['Cog4'] = constructor('Cog4', {'gamma': 'Cog4:gamma>=1'})

NAN_AT_T0 = ['Cog1', 'Cog2', 'Cog7', 'Cog8', 'Cog9', 'Cog11', 'Cog13', 'Cog17', 'Cog21']


def time_domain(name):
    """t <= 0 -> all NaN for the similarity solutions; t >= 1 -> ValueError for Noh2 / Noh2Cog"""
    def gen(rng):
        if name in ('Noh2', 'Noh2Cog'):
            t = rng.choice([1.0, 1.0 + 2 ** -52, 1.5, 7.0, 1.0 - 2 ** -53, 0.5, 0.0])
        else:
            # (t = 1e-300 overflows `pow(t, c)` into an OverflowError: rounding/overflow is outside the theorems)
            t = rng.choice([0.0, -0.0, -1e-300, -1.0, 1e-3, 0.3])
        return dict(solver=name, params=dict(NEEDS.get(name, {})), pts=[0.5, 1.0], t=t)

    def check(c):
        f = quiet_fields(name, c['params'], c['pts'], c['t'])
        t = c['t']
        if name in ('Noh2', 'Noh2Cog'):
            want = 'ValueError' if t >= 1 else 'fields'
            got = f[1] if isinstance(f, tuple) else 'fields'
            if got != want:
                return dict(site='%s:time-domain' % name, detail='t=%r: expected %s, got %s' % (t, want, got))
            return None
        if isinstance(f, tuple):
            return dict(site='%s:time-domain' % name, detail='t=%r raised %s' % (t, f[1]))
        vals = [v for n, col in f.items() if n != 'position' for v in col]
        allnan = all((not isinstance(v, complex)) and math.isnan(v) for v in vals)
        if (t <= 0) != allnan:
            return dict(site='%s:time-domain' % name, detail='t=%r: fields %r' % (t, vals[:3]))
        return None
    return O.make(gen, check, 'c20.time.' + name)


time_oracle = {n: time_domain(n) for n in NAN_AT_T0 + ['Noh2', 'Noh2Cog']}

FINITE_SPEC = dict(SIGN_SPEC)
FINITE_SPEC.update({
    'Cog3': dict(geometry=GEOM), 'Cog4': dict(geometry=GEOM, gamma=(0.2, 0.9)), 'Cog5': {},
    'Cog7': dict(geometry=GEOM, b=(0.1, 1.5)), 'Cog12': dict(geometry=[2, 3], gamma=(0.2, 0.9)),
    'Cog16': dict(geometry=[2, 3], b=(0.1, 0.9)), 'Cog20': dict(geometry=GEOM, gamma=(1.05, 3.0)),
    # the radiation-constant solvers on the range their own warnings call valid
    'Cog13': dict(geometry=GEOM, alpha=(-2.0, -1.0), beta=(1.0, 3.0)),
    'Cog14': dict(geometry=GEOM, alpha=(-2.0, -1.0), beta=(1.0, 3.0)),
    'Cog17': dict(geometry=GEOM, alpha=(-2.0, -1.0), beta=(1.0, 3.0)),
})


def finite(name, site=None):
    """valid requests inside the domain never produce NaN, infinity, complex numbers or a non-ValueError exception"""
    _, C = load(CLS[name])

    def gen(rng):
        lo, hi = TIME_RANGE.get(name, (0.05, 0.6))
        p = sample_params(C, FINITE_SPEC[name], rng)
        pts = sorted(rng.uniform(0.2, 3.0) for _ in range(5))
        if name == 'Cog7':
            # inside the shell: Ri/tau < r/sqrt(tau^2-t^2)
            pts = [x + 0.2 for x in pts]
        return dict(solver=name, params=p, pts=pts, t=rng.uniform(lo, hi))

    def check(c):
        f = quiet_fields(name, c['params'], c['pts'], c['t'])
        if isinstance(f, tuple):
            return dict(site=site or '%s:in-domain:raises' % name, detail='%s: %s' % (f[1], f[2]))
        for n, col in f.items():
            for i, v in enumerate(col):
                if isinstance(v, complex) and v.imag != 0:
                    return dict(site=site or '%s:in-domain:complex' % name, detail='%s[%d] = %r' % (n, i, v))
                if not math.isfinite(v.real if isinstance(v, complex) else v):
                    return dict(site=site or '%s:in-domain:nonfinite' % name, detail='%s[%d] = %r' % (n, i, v))
        return None
    return O.make(gen, check, 'c20.finite.' + name)


finite_oracle = {n: finite(n) for n in FINITE_SPEC if n not in ('Cog13', 'Cog14', 'Cog17')}
cog13_complex = finite('Cog13', 'Cog13:complex')
cog14_complex = finite('Cog14', 'Cog14:complex')
cog17_complex = finite('Cog17', 'Cog17:complex')


# ----- tie of the traced constructor models Init<Solver> with the real constructors -----------------------
def _consts(entry):
    """every numeric constant that appears in a traced condition of the model"""
    import re
    out = set()
    for txt in entry.get('conds', {}).values():
        for m in re.finditer(r'\((-?\d+(?:\.\d+)?)(?: / (\d+))? : ℝ\)', txt):
            out.add(float(m.group(1)) / (float(m.group(2)) if m.group(2) else 1.0))
    return sorted(out)


def init_tie(names=None):
    """samples parameters of every Init model — including, for each parameter, values exactly at and next to every
    constant of a traced condition — and compares the model's outcome (through its Float twin, line protocol) with
    what the real constructor does (accepted / exception class)."""
    import json
    import os
    import contextlib
    import io

    def tie(rng, deep):
        man = json.load(open(os.path.join(lean_io.LEAN_DIR, 'EPV', 'Gen', 'gen_manifest.json')))
        lines, cases = [], []
        for name in (names or ['Init' + n for n in CLS]):
            e = man.get(name)
            if not e or e.get('status') != 'ok':
                return dict(evaluations=0, distinct_nontrivial=0, samples=[],
                            mismatches=[dict(model=name, why='model was not generated')])
            _, C = load(CLS[name[4:]])
            consts = _consts(e) or [0.0]
            near = sorted(set(v for c in consts for v in (c, math.nextafter(c, math.inf), math.nextafter(c, -math.inf),
                                                          c + 0.5, c - 0.5)))
            n = 60 if deep else 14
            combos = []
            params = e['params']
            for _ in range(n):
                combos.append({q: rng.choice(near) if rng.random() < 0.8 else rng.uniform(-4, 4) for q in params})
            if not params:
                combos = [{}]
            for vals in combos:
                if 'geometry' in vals and rng.random() < 0.7:
                    vals['geometry'] = float(rng.choice([1, 2, 3]))
                lines.append(name + ''.join(' ' + lean_io.bits(vals[q]) for q in params))
                cases.append((name, C, vals))
        outs = lean_io.run_lines(lines)
        st = dict(evaluations=0, distinct_nontrivial=0, mismatches=[], samples=[], outcome_hist={})
        for (name, C, vals), line in zip(cases, outs):
            tag, _ = lean_io.parse_result(line)
            model = 'ok' if tag.startswith('ok') else tag.split(':')[-1]
            kw = dict(NEEDS.get(name[4:], {}))
            kw.update(vals)
            try:
                with warnings.catch_warnings():
                    warnings.simplefilter('ignore')
                    with contextlib.redirect_stdout(io.StringIO()):
                        C(**kw)
                real = 'ok'
            except Exception as ex:
                real = type(ex).__name__
            st['evaluations'] += 1
            st['outcome_hist'][real] = st['outcome_hist'].get(real, 0) + 1
            if real == 'ok':
                st['distinct_nontrivial'] += 1
            if model != real:
                st['mismatches'].append(dict(model=name, params=vals, why='model %s, constructor %s' % (tag, real)))
            if len(st['samples']) < 2:
                st['samples'].append(dict(model=name, params=vals, outcome=tag))
        return st
    return tie


FINDING_SITES = {
    'C08': ['Noh2:time-unit', 'Noh2Cog:time-unit', 'Cog7:mass-unit', 'Cog20:shock-position', 'Cog3:documented-dimensions'],
    'C17': ['Cog21:expansion-shock', 'Cog17:temperature<0', 'Cog3:sie<0', 'Cog4:sie<0', 'Cog5:sie<0', 'Cog12:sie<0'],
    'C20': ['Cog19:u0=0', 'Cog4:gamma>=1', 'Cog13:complex', 'Cog14:complex', 'Cog17:complex'],
}
