"""C20 (Blake share) oracles and ties on the REAL code.

  accept[XY]   documented-valid pairs (a positive-definite material, supplied values admissible, away from the
               1e-13 singular bands) are accepted; violating values are rejected with ValueError; whatever is
               accepted is one PD material (both directions of `accepts <-> Documented`, sampled)
  malformed    catalogue of documented-invalid constructions -> ValueError (geometry != 3, non-positive
               ref_density / cavity_radius / pressure_scale, one or three elastic parameters, blake_debug not a
               bool, unknown parameter name); documented-valid ones are accepted
  run_domain   negative radius -> ValueError; finite fields for r >= 0 below the overflow threshold
  overflow     (finding) OverflowError for n (t + a/c_L) > log(DBL_MAX) although the solution is finite
  tie_init[XY], tie_init_misc   Float twins of BlakeInit<XY>, BlakeInitDefault/1/3 vs the real constructor
"""
import math
import warnings

import numpy as np

from . import oracle as O
from . import lean_io
from . import o_c15
from .o_c15 import (MODULI, PAIRS, PAIR_NAME, construct, random_material, six, _manifest, _close, ARITH, _consts,
                    _problem)

PROBLEM = ('geometry', 'ref_density', 'cavity_radius', 'pressure_scale')
SING = {('shear_mod', 'youngs_mod'): 3.0, ('youngs_mod', 'bulk_mod'): 1 / 9.0}   # y = x * factor is singular


def given_ok(k, x):
    return (-1.0 < x < 0.5) if k == 'poisson_ratio' else x > 0.0


def _valid_problem(rng):
    return dict(geometry=3, ref_density=rng.uniform(500.0, 9000.0), cavity_radius=10 ** rng.uniform(-2, 0.5),
                pressure_scale=10 ** rng.uniform(3, 7))


# --------------------------------------------------------------------------
# accepts <-> documented, per pair
# --------------------------------------------------------------------------

def accept_oracle(pr):
    nm = PAIR_NAME[pr]

    def gen(rng):
        m = random_material(rng)
        kw = {pr[0]: m[pr[0]], pr[1]: m[pr[1]]}
        mode = rng.choice(['valid', 'valid', 'bad-first', 'bad-second', 'bad-problem'])
        prob = _valid_problem(rng)
        if mode == 'bad-first':
            kw[pr[0]] = rng.choice([-1.0, 0.5, 0.7, -1.5]) if pr[0] == 'poisson_ratio' else rng.choice([0.0, -abs(kw[pr[0]])])
        elif mode == 'bad-second':
            kw[pr[1]] = rng.choice([-1.0, 0.5, 0.7, -1.5]) if pr[1] == 'poisson_ratio' else rng.choice([0.0, -abs(kw[pr[1]])])
        elif mode == 'bad-problem':
            k = rng.choice(PROBLEM)
            prob[k] = rng.choice([1, 2, 3.5, 0, -3]) if k == 'geometry' else rng.choice([0.0, -prob[k]])
        kw.update(prob)
        return dict(kw=kw, mode=mode, material=m)

    def check(c):
        kw, mode, m = c['kw'], c['mode'], c['material']
        tag, s = construct(kw)
        if tag == 'raise:ZeroDivisionError' and kw.get('poisson_ratio') == 0.0 and 'lame_mod' in kw:
            return None        # C15 finding `Blake:zero_division`
        if mode == 'valid':
            x, y = kw[pr[0]], kw[pr[1]]
            if not (given_ok(pr[0], x) and given_ok(pr[1], y)):
                # a PD material whose value of this kind the constructor refuses by rule 1 (e.g. lame_mod <= 0)
                want = 'raise:ValueError'
            elif pr in SING and abs(y - x * SING[pr]) <= 1e-12 * abs(x * SING[pr]):
                return None
            else:
                want = 'ok'
            if tag != want:
                return dict(site='Blake:accepts:' + nm, detail='documented-%s input %r -> %s'
                            % ('valid' if want == 'ok' else 'invalid', kw, tag))
            return None
        if tag == 'raise:ValueError':
            return None
        if mode == 'bad-problem' or tag != 'ok':
            return dict(site='Blake:rejects:' + nm, detail='documented-invalid input (%s) %r -> %s' % (mode, kw, tag))
        # bad-first / bad-second: a modulus <= 0 or a Poisson ratio outside (-1, 1/2) was accepted
        return dict(site='Blake:rejects:' + nm, detail='input violating rule 1 (%s) %r -> accepted' % (mode, kw))
    return O.make(gen, check, 'c20.blake.accept.' + nm)


accept = {PAIR_NAME[pr]: accept_oracle(pr) for pr in PAIRS}


# --------------------------------------------------------------------------
# catalogue of malformed constructions
# --------------------------------------------------------------------------

def _malformed_gen(rng):
    m = random_material(rng, positive_lame=True)
    pr = rng.choice(PAIRS)
    kw = {pr[0]: m[pr[0]], pr[1]: m[pr[1]]}
    kw.update(_valid_problem(rng))
    what = rng.choice(['valid', 'default', 'default-problem', 'geometry', 'ref_density', 'cavity_radius', 'pressure_scale',
                       'one', 'three', 'debug', 'unknown'])
    if what == 'default':
        kw = {}
    elif what == 'default-problem':
        kw = _valid_problem(rng)
    elif what == 'geometry':
        kw['geometry'] = rng.choice([1, 2, 0, 4, 2.999999, 3.000001])
    elif what in ('ref_density', 'cavity_radius', 'pressure_scale'):
        kw[what] = rng.choice([0.0, -kw[what], -1e-300])
    elif what == 'one':
        del kw[pr[1]]
    elif what == 'three':
        k3 = rng.choice([k for k in MODULI if k not in pr])
        kw[k3] = m[k3]
    elif what == 'debug':
        kw['blake_debug'] = rng.choice([1, 0, 'yes', None, 1.0])
    elif what == 'unknown':
        kw['shear_modulus'] = 1.0e9
    return dict(kw=kw, what=what)


def _malformed_check(c):
    kw, what = dict(c['kw']), c['what']
    tag, s = construct(kw)
    want = 'ok' if what in ('valid', 'default', 'default-problem') else 'raise:ValueError'
    if tag != want:
        return dict(site='Blake:malformed:' + what, detail='Blake(%r) -> %s, documented: %s' % (kw, tag, want))
    return None


malformed = O.make(_malformed_gen, _malformed_check, 'c20.blake.malformed')


# --------------------------------------------------------------------------
# the call: domain, finiteness, overflow
# --------------------------------------------------------------------------

LOGMAX = math.log(1.7976931348623157e308)


def _run_gen(rng):
    kw, s = _problem(rng)
    cl, n = _consts(s)
    a = s.cavity_radius
    # n (t + a/c_L) <= 600: well below the regime of the overflow finding (products with e^{+x} reach DBL_MAX
    # from x ~ 680 on)
    tmax = 600.0 / n - a / cl
    t = rng.choice([0.0, rng.uniform(0, 1) * tmax, tmax])
    front = a + cl * t
    pts = [0.0, a * rng.random(), a, a * (1 + 1e-12), a + (front - a) * rng.random(), front, front * (1 + 1e-9), front * 7.0]
    return dict(kw=kw, t=t, pts=pts, neg=-a * rng.random() - 1e-9)


def _run_check(c):
    tag, s = construct(c['kw'])
    if tag != 'ok':
        return None
    with warnings.catch_warnings():
        warnings.simplefilter('ignore')
        with np.errstate(all='ignore'):
            try:
                s(np.array([c['pts'][2], c['neg']]), c['t'])
                return dict(site='Blake:negative-radius', detail='r=%r accepted' % c['neg'])
            except ValueError:
                pass
            except Exception as ex:
                return dict(site='Blake:negative-radius', detail='r=%r -> %s' % (c['neg'], type(ex).__name__))
            try:
                sol = s(np.array(c['pts']), c['t'])
            except Exception as ex:
                return dict(site='Blake:run:' + type(ex).__name__,
                            detail='t=%r (n(t+a/c)=%.1f) pts=%r -> %s' % (c['t'], _consts(s)[1] * (c['t'] + s.cavity_radius / _consts(s)[0]),
                                                                          c['pts'], ex))
    for k in sol.dtype.names:
        for r, v in zip(c['pts'], sol[k]):
            if r > 0 and not math.isfinite(float(v)):
                return dict(site='Blake:nonfinite:' + k, detail='r=%r t=%r: %r' % (r, c['t'], float(v)))
    return None


run_domain = O.make(_run_gen, _run_check, 'c20.blake.run_domain')


def _overflow_gen(rng):
    u = rng.random()
    if u < 0.3:
        # the default problem, t >= 0.0213 s
        return dict(kw={}, t=rng.choice([0.0206, 0.021, 0.0213, 0.022, 0.05, 1.0]), pts=[0.1, 0.2, 1.0, 500.0, 1.0e6])
    kw, s = _problem(rng)
    cl, n = _consts(s)
    t = rng.uniform(0.97, 3.0) * LOGMAX / n
    front = s.cavity_radius + cl * t
    return dict(kw=kw, t=t, pts=[s.cavity_radius, 0.5 * (s.cavity_radius + front), front * 2.0])


def _overflow_check(c):
    tag, s = construct(c['kw'])
    if tag != 'ok':
        return None
    cl, n = _consts(s)
    with warnings.catch_warnings():
        warnings.simplefilter('ignore')
        try:
            sol = s(np.array(c['pts']), c['t'])
        except OverflowError as ex:
            return dict(site='Blake:overflow',
                        detail='Blake(%r)(%r, t=%r): OverflowError (%s); n(t+a/c_L)=%.1f > log(DBL_MAX)=709.78, '
                               'the exact solution is finite' % (c['kw'], c['pts'], c['t'], ex, n * (c['t'] + s.cavity_radius / cl)))
        except Exception as ex:
            return dict(site='Blake:run:' + type(ex).__name__, detail='t=%r: %s' % (c['t'], ex))
    for k in sol.dtype.names:
        if not all(math.isfinite(float(v)) for v in sol[k]) or (k == 'density' and not all(float(v) > 0 for v in sol[k])):
            return dict(site='Blake:overflow:nonfinite',
                        detail='Blake(%r)(%r, t=%r): no exception, but %s = %r; n(t+a/c_L)=%.1f: the product '
                               '2 b c_L^2 exp(+n(t+a/c_L)) overflows to inf, the exact solution is finite'
                               % (c['kw'], c['pts'], c['t'], k, [float(v) for v in sol[k]], n * (c['t'] + s.cavity_radius / cl)))
    return None


overflow = O.make(_overflow_gen, _overflow_check, 'c20.blake.overflow')


# --------------------------------------------------------------------------
# ties: constructor twins
# --------------------------------------------------------------------------

def _init_case(pr, rng):
    kw = o_c15._pair_case(pr, rng) if pr else {}
    prob = _valid_problem(rng)
    u = rng.random()
    if u < 0.3:
        k = rng.choice(PROBLEM)
        prob[k] = rng.choice([1, 2, 4, 0, 2.5]) if k == 'geometry' else rng.choice([0.0, -prob[k], prob[k] * 1e6])
    kw.update(prob)
    return kw


def _tie_init(model, pr):
    def tie(rng, deep):
        ent = _manifest()[model]
        order = ent['params']
        n = 300 if deep else 50
        cases = [_init_case(pr, rng) for _ in range(n)]
        lines = [(model + ' ' + ' '.join(lean_io.bits(kw[a]) for a in order)).strip() for kw in cases]
        outs = lean_io.run_lines(lines)
        st = dict(evaluations=0, distinct_nontrivial=0, mismatches=[], samples=[], outcome_hist={})
        for kw, line in zip(cases, outs):
            tag, mv = lean_io.parse_result(line)
            kind = tag.split(':')[0]
            rtag, s = construct(kw)
            st['evaluations'] += 1
            bad = None
            if rtag == 'raise:ZeroDivisionError' and kw.get('poisson_ratio') == 0.0 and 'lame_mod' in kw:
                continue        # the C15 finding `Blake:zero_division` (Python divides by pnu = 0 before any check)
            if kind == 'ok':
                if rtag != 'ok':
                    if not (rtag.split(':')[1] in ARITH and any(not math.isfinite(v) for v in mv)):
                        bad = 'model ok, code %s' % rtag
                else:
                    for k, a in zip(ent['fields'], mv):
                        if not _close(float(getattr(s, k)), a, 1e-12):
                            bad = '%s: attribute %r, model %r' % (k, getattr(s, k), a)
                            break
                    else:
                        st['distinct_nontrivial'] += 1
            else:
                want = 'raise:' + tag.split(':')[2]
                if rtag != want:
                    bad = 'model %s, code %s' % (tag, rtag)
            oc = kind if kind == 'ok' else tag.split(':', 2)[-1]
            st['outcome_hist'][oc] = st['outcome_hist'].get(oc, 0) + 1
            if bad:
                st['mismatches'].append(dict(model=model, kw=kw, why=bad))
            if not st['samples']:
                st['samples'].append(dict(model=model, kw=kw, outcome=tag))
        return st
    tie.__name__ = 'tie_' + model
    return tie


tie_init = {PAIR_NAME[pr]: _tie_init('BlakeInit' + PAIR_NAME[pr], pr) for pr in PAIRS}
tie_default = _tie_init('BlakeInitDefault', ())


def tie_count(rng, deep):
    """one / three elastic parameters: the twins have no inputs and say ValueError; so does the constructor for
    every choice of the parameters and every value"""
    outs = lean_io.run_lines(['BlakeInit1', 'BlakeInit3'])
    st = dict(evaluations=0, distinct_nontrivial=0, mismatches=[], samples=[])
    for line, nm in zip(outs, ('BlakeInit1', 'BlakeInit3')):
        if not line.startswith('raise:') or not line.split()[0].endswith(':ValueError'):
            st['mismatches'].append(dict(model=nm, why='twin says %s' % line))
    for i in range(200 if deep else 40):
        m = random_material(rng)
        ks = rng.sample(MODULI, rng.choice([1, 3, 4, 5, 6]))
        kw = {k: m[k] * rng.choice([1.0, 1.0, -1.0, 0.0]) for k in ks}
        tag, s = construct(kw)
        st['evaluations'] += 1
        st['distinct_nontrivial'] += 1
        if tag != 'raise:ValueError':
            st['mismatches'].append(dict(model='BlakeInit%d' % len(ks), kw=kw, why='model raise ValueError, code %s' % tag))
    st['samples'].append(dict(model='BlakeInit1', kw=kw, outcome='raise:0:ValueError'))
    return st
