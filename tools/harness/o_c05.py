"""C05: the uniform call/return contract on the REAL code, for every public solver class
(discovered by introspection), and the tie of the hand model of base.py."""
import contextlib
import csv
import io
import json
import math
import os
import tempfile
import warnings

import numpy as np

from . import catalog, lean_io

GEN = os.path.join(lean_io.LEAN_DIR, 'EPV', 'Gen', 'gen_manifest.json')


def _eq(a, b):
    """bit-for-bit equality of two columns (NaN equals NaN; object columns by ==)"""
    a, b = np.asarray(a), np.asarray(b)
    if a.shape != b.shape:
        return False
    if a.dtype.kind in 'fc' and b.dtype.kind in 'fc':
        return bool(np.array_equal(a, b, equal_nan=True))
    return all((x == y) or (x is None and y is None) for x, y in zip(a.reshape(-1), b.reshape(-1)))


def _close(a, b, tol=1e-13):
    """equality up to the last bits: NumPy's vectorised loops may round differently depending on the
    alignment of an array, and a list is converted into a *new* array, so two requests for the same
    points are never compared bit-for-bit (lesson of C06)"""
    a, b = np.asarray(a), np.asarray(b)
    if a.shape != b.shape:
        return False
    if a.dtype.kind in 'fc' and b.dtype.kind in 'fc':
        with np.errstate(all='ignore'):
            same = (a == b) | (np.isnan(a) & np.isnan(b)) | (np.abs(a - b) <= tol * np.maximum(np.abs(a), np.abs(b)))
        return bool(np.all(same))
    return _eq(a, b)


def _table():
    try:
        rows = json.load(open(GEN))['Tables']['rows']
    except Exception:
        return {}
    return {r['path']: r for r in rows}


REDRAWS = 6


def _draws(call):
    """evaluate `call()` (which draws its own random request); a ValueError -- the solver's documented
    way of rejecting a request outside its domain -- means "this draw is no data": draw again"""
    for attempt in range(REDRAWS):
        try:
            return call()
        except ValueError:
            if attempt == REDRAWS - 1:
                raise


def _mentions(message, name):
    """does the message name this parameter (as a whole word)?"""
    import re
    return re.search(r'(?<![A-Za-z0-9_])' + re.escape(name) + r'(?![A-Za-z0-9_])', message) is not None


def contract(rng, deep):
    """tie + oracle in one pass over the class table"""
    st = dict(evaluations=0, distinct_nontrivial=0, mismatches=[], failures=[], samples=[], classes=0,
              uncatalogued=[], aspects={})
    table = _table()
    classes = catalog.discover()
    lines, expect = [], []
    sites = set()

    def fail(path, aspect, detail, case=None):
        site = '%s:%s' % (path.split(':')[1] if 'riemann2D' not in path else 'Riemann2D.IGEOS_Solver', aspect)
        if site not in sites:
            sites.add(site)
            st['failures'].append(dict(site=site, detail=detail, case=dict(cls=path, aspect=aspect, **(case or {}))))

    def count(aspect):
        st['aspects'][aspect] = st['aspects'].get(aspect, 0) + 1
        st['evaluations'] += 1

    with warnings.catch_warnings(), contextlib.redirect_stdout(io.StringIO()), np.errstate(all='ignore'):
        warnings.simplefilter('ignore')
        for path, c in sorted(classes.items()):
            e = catalog.entry(path)
            row = table.get(path)
            if row is None:
                st['uncatalogued'].append(path)
            st['classes'] += 1
            declared = list(c.parameters)
            defaulted = [p for p in declared if hasattr(c, p)]
            args = e.args() if e.args else ()
            # ---- constructor: unknown keyword / missing undefaulted parameter -------------
            # The hand model speaks for ExactSolver.__init__ : record what the base constructor
            # actually receives (subclasses may pre-process keywords, e.g. Blake's default
            # material) and what it does with it.
            given_sets = [['__no_such_parameter__'], []]
            if declared:
                given_sets.append([rng.choice(declared), 'zz_unknown'])
                given_sets.append(rng.sample(declared, rng.randint(1, len(declared))))
            for given in given_sets:
                rec = []
                import exactpack.base as _base
                orig = _base.ExactSolver.__init__

                def spy(self, verbose=False, **params):
                    item = dict(declared=list(self.parameters),
                                defaulted=[p for p in self.parameters if hasattr(self, p)], given=list(params))
                    rec.append(item)
                    try:
                        orig(self, verbose=verbose, **params)
                        item['real'] = 'ok'
                    except ValueError as ex:
                        # the contract is the exception type and the offending name, not the wording
                        item['real'] = 'ValueError'
                        item['message'] = str(ex)
                        raise
                    except Exception as ex:
                        item['real'] = type(ex).__name__        # never the model's outcome: reported as a mismatch
                        item['message'] = str(ex)
                        raise
                _base.ExactSolver.__init__ = spy
                try:
                    try:
                        c(*args, **{g: 1.0 for g in given})
                        whole = 'ok'
                    except Exception as ex:
                        whole = type(ex).__name__
                finally:
                    _base.ExactSolver.__init__ = orig
                for item in rec:
                    lines.append('base.construct %s %s %s' % (','.join(item['declared']) or '-',
                                                               ','.join(item['defaulted']) or '-',
                                                               ','.join(item['given']) or '-'))
                    expect.append((path, given, item['real'], item.get('message', ''), list(item['declared']), list(item['given'])))
                count('construct')
                if any(g not in declared for g in given) and whole != 'ValueError':
                    fail(path, 'unknown-keyword', 'unknown parameter name gave %s, not ValueError' % whole,
                         dict(given=given))
            if e.unconstructible:
                try:
                    catalog.build(path, c, rng)
                    fail(path, 'catalogue', 'catalogued as unusable but constructs')
                except Exception as ex:
                    fail(path, 'unusable', 'every construction raises %s: %s' % (type(ex).__name__, e.unconstructible))
                continue
            if e.slow and not deep:
                continue
            # ---- a class whose declared parameters all have class-level values must be usable
            #      with exactly the keywords that have none (a placeholder default defeats the
            #      "Missing parameter" check and fails later, inside _run) ----------------------
            if not (e.slow and not deep) and not e.grid:
                base_kw = e.kwargs(rng)
                required = [q for q in declared if q not in defaulted]
                kmin = {q: v for q, v in base_kw.items() if q in required or q == 'geometry' and e.dim > 1}
                try:
                    smin = c(*args, **kmin)
                    _draws(lambda: smin(e.points(rng, max(e.min_n, 3)), e.t(rng)))
                    count('minimal-keywords')
                except Exception as ex:
                    if path.split(':')[1] != 'PlanarCog14':
                        fail(path, 'minimal-keywords', 'constructed with only the undefaulted parameters %r, the call raised %s: %s'
                             % (sorted(kmin), type(ex).__name__, str(ex)[:100]))
            # ---- call contract -----------------------------------------------------------
            try:
                s, kw = catalog.build(path, c, rng)
                # half of the time with non-default parameter values (a position field that is
                # right only for the default detonator, a default-only formula ...)
                if rng.random() < 0.5:
                    kw2 = catalog.variant_kwargs(path, c, rng, kw)
                    if kw2 is not None:
                        try:
                            s, kw = c(*(e.args() if e.args else ()), **kw2), kw2
                        except Exception:
                            pass
            except Exception as ex:
                fail(path, 'construct', 'valid catalogue parameters rejected: %s: %s' % (type(ex).__name__, ex))
                continue
            if e.grid:
                continue
            nmax = 4 if e.slow else (40 if deep else 12)
            sol = None
            for attempt in range(REDRAWS):
                n = rng.randint(max(e.min_n, 3 if e.dim > 1 else 1), nmax)
                pts = e.points(rng, n)
                t = e.t(rng)
                keep = pts.copy()
                case = dict(kwargs={k: (v if isinstance(v, (int, float, str, bool)) else repr(v)) for k, v in kw.items()},
                            points=pts.tolist(), t=t)
                try:
                    sol = s(pts, t)
                    break
                except ValueError as ex:
                    # a documented rejection of this particular draw (a domain that depends on the batch,
                    # e.g. EPpiston's xmax = max of the points): draw again; only a class that rejects
                    # every draw fails the `call` aspect
                    if attempt == REDRAWS - 1:
                        fail(path, 'call', 'catalogue call raised %s: %s' % (type(ex).__name__, str(ex)[:120]), case)
                except Exception as ex:
                    fail(path, 'call', 'catalogue call raised %s: %s' % (type(ex).__name__, str(ex)[:120]), case)
                    break
            if sol is None:
                continue
            count('call')
            st['distinct_nontrivial'] += 1
            names = list(sol.dtype.names)
            if len(st['samples']) < 2:
                st['samples'].append(dict(cls=path, n=n, t=t, names=names))
            if not np.array_equal(pts, keep):
                fail(path, 'input-modified', 'the caller\'s array was changed', case)
            if len(sol) != n:
                fail(path, 'record-count', '%d points in, %d records out' % (n, len(sol)), case)
                continue
            if row is not None and row['fields'] and names != row['fields']:
                st['mismatches'].append(dict(why='field names differ from the generated table', cls=path,
                                             code=names, table=row['fields']))
            cols = [pts] if e.dim == 1 else [pts[:, i] for i in range(e.dim)]
            for i, col in enumerate(cols):
                if not _eq(sol[names[i]], col):
                    fail(path, 'positions', 'field %d (%s) is not the positions passed' % (i, names[i]), case)
            # containers
            for kind, conv in (('list', lambda a: a.tolist()), ('tuple', lambda a: tuple(map(tuple, a.tolist())) if a.ndim > 1 else tuple(a.tolist()))):
                try:
                    s2, _ = catalog.build(path, c, rng) if False else (s, None)
                    sol2 = s2(conv(pts), t)
                    count('container')
                    differ = [nm for nm in names if not _close(sol[nm], sol2[nm])] if list(sol2.dtype.names) == names else names
                    if differ and path.endswith(':SteadyDetonationReactionZone') and t > 1.0:
                        # sdrz.py reads xvec_rel[it1] from an np.empty array for t > 1 (the recorded C02 defect): uninitialised
                        # memory, so two identical requests differ — a false "container" alarm on replay taught us this
                        fail(path, 'position_relative-uninitialised', 'position_relative differs between two requests for the same points '
                                                                      'at t = %r > 1' % t, case)
                    elif differ:
                        fail(path, 'container-' + kind, 'result differs from the ndarray call', case)
                except Exception as ex:
                    fail(path, 'container-' + kind, '%s input raised %s: %s' % (kind, type(ex).__name__, str(ex)[:100]), case)
            # ordering: positions follow the order given
            perm = list(range(n))
            rng.shuffle(perm)
            try:
                sol3 = s(pts[perm], t)
                count('order')
                for i, col in enumerate(cols):
                    if not _eq(sol3[names[i]], col[perm]):
                        fail(path, 'order', 'records are not in the order the points were given', case)
                # ... and each record still belongs to its point (grid-dependent solvers: grossly)
                from .o_c06 import GRID_TOL
                nm0 = path.split(':')[1]
                if nm0 not in ('Mader', 'ie_Solver') and len(sol3) == n:
                    for nm in names[e.dim:]:
                        a, b = np.asarray(sol[nm])[perm], np.asarray(sol3[nm])
                        if a.dtype.kind not in 'fc':
                            continue
                        if nm0 == 'SteadyDetonationReactionZone' and t > 1.0:
                            continue          # uninitialised memory (see the container comparison)
                        if nm0 in GRID_TOL or 'Sedov' in nm0:
                            okv = np.all(np.isclose(a, b, rtol=0.05, atol=1e-12 + 0.05 * float(np.nanmax(np.abs(a)) if a.size else 0), equal_nan=True))
                        else:
                            okv = np.all(np.isclose(a, b, rtol=1e-13, atol=0.0, equal_nan=True))
                        if not okv:
                            fail(path, 'order-values', 'field %s: the value at a point changes with the order of the request' % nm, case)
                            break
            except Exception as ex:
                fail(path, 'order', 'shuffled points raised %s: %s' % (type(ex).__name__, str(ex)[:100]), case)
            # Mader's cell width comes from the first and the last point of the request (documented): with those two kept
            # in place the width is the same and every record must still belong to its point.  The interior is permuted by a
            # 3-cycle (a sort-and-restore that applies the permutation twice is right for swaps and wrong for cycles: seeded C05-9)
            if path.split(':')[1] == 'Mader':
                try:
                    P6 = np.sort(e.points(rng, 7))
                    q = [0, 2, 3, 1, 5, 4, 6]
                    r_sorted = s(P6, t)
                    r_perm = s(P6[q], t)
                    count('order')
                    for nm in r_sorted.dtype.names:
                        a_, b_ = np.asarray(r_sorted[nm])[q], np.asarray(r_perm[nm])
                        if a_.dtype.kind in 'fc' and not np.all(np.isclose(a_, b_, rtol=1e-12, atol=0.0, equal_nan=True)):
                            fail(path, 'order-values', 'field %s: with the end points of the request kept in place, the value at a point '
                                                       'changes with the order of the interior points' % nm,
                                 dict(case, points=P6[q].tolist()))
                            break
                except Exception as ex:
                    fail(path, 'order', 'permuted interior points raised %s: %s' % (type(ex).__name__, str(ex)[:100]), case)
            # csv round trip (also at times far from the catalogue's: a field whose dtype or precision depends on
            # the time — seeded C05-6 switched to extended precision at early times — does not survive the round trip)
            def csv_check(sol, n, case):
                try:
                    fd, fn = tempfile.mkstemp(suffix='.csv', dir=os.path.join(lean_io.ROOT, 'evidence'))
                    os.close(fd)
                    try:
                        sol.dump(fn)
                        with open(fn, newline='') as f:
                            rows = list(csv.reader(f))
                    finally:
                        os.remove(fn)
                    count('csv')
                    if rows[0] != names or len(rows) != n + 1:
                        fail(path, 'csv-roundtrip', 'header or row count differs', case)
                    else:
                        for j, nm in enumerate(names):
                            back = []
                            for r in rows[1:]:
                                try:
                                    kind = sol.dtype[nm].kind
                                    back.append(r[j] if kind in 'USO' else (complex(r[j]) if kind == 'c' else float(r[j])))
                                except ValueError:
                                    back.append(r[j])
                            orig = list(sol[nm])
                            if sol.dtype[nm].kind == 'O':
                                orig = [str(x) if x is not None else x for x in orig]
                            for x, y in zip(orig, back):
                                same = (x == y) or (isinstance(y, float) and isinstance(x, (float, np.floating)) and math.isnan(x) and math.isnan(y)) \
                                or (x is None and y == '')      # "no value" is written as an empty cell
                                if not same:
                                    fail(path, 'csv-roundtrip', 'field %s: wrote %r, read back %r' % (nm, x, y), case)
                                    break
                except Exception as ex:
                    fail(path, 'csv-roundtrip', 'dump/read raised %s: %s' % (type(ex).__name__, str(ex)[:100]), case)
            csv_check(sol, n, case)
            if not e.slow:
                for fac in (1e-3, 40.0):
                    t2 = t * fac
                    try:
                        with np.errstate(all='ignore'):
                            sol_t = s(pts, t2)
                    except Exception:
                        continue          # outside the solver's time domain: C20's business
                    count('other-time')
                    case2 = dict(case, t=t2)
                    if len(sol_t) != n or list(sol_t.dtype.names) != names:
                        fail(path, 'record-count', 'records or names change with the time of the request', case2)
                        continue
                    # only the precision of real fields is this check's business (a field that turns complex
                    # outside its time domain is C20's; string widths follow the values)
                    prec = lambda so: [so.dtype[nm].str if so.dtype[nm].kind == 'f' else so.dtype[nm].kind for nm in names]
                    if [x for x, y in zip(prec(sol), prec(sol_t)) if x != y and x.startswith('<f') and y.startswith('<f')]:
                        fail(path, 'dtype', 'field dtypes %r at t=%r, %r at t=%r' % ([sol.dtype[nm].str for nm in names], t,
                                                                                  [sol_t.dtype[nm].str for nm in names], t2), case2)
                    csv_check(sol_t, n, case2)
        # ---- the hand model of ExactSolver.__init__ vs the real constructors ---------------
        outs = lean_io.run_lines(lines)
        for out, (path, given, real, message, decl, received) in zip(outs, expect):
            count('construct-model')
            model = out.strip()
            if model == 'ok' or real == 'ok':
                same = model == real
            elif model == 'unknown':
                # rejected for a keyword that is not declared: the message names (at least) one of them
                same = real == 'ValueError' and any(_mentions(message, g) for g in received if g not in decl)
            elif model.startswith('missing:'):
                # rejected for a declared parameter without a value: the message names the first one (the
                # model's), possibly among others
                same = real == 'ValueError' and _mentions(message, model[len('missing:'):])
            else:
                same = False
            if not same:
                st['mismatches'].append(dict(why='ExactSolver.__init__ outcome differs from the model', cls=path,
                                             given=given, model=model, code=real, message=message[:120]))
    return st


def tie(rng, deep):
    st = contract(rng, deep)
    tie.last = st
    return dict(evaluations=st['evaluations'], distinct_nontrivial=st['distinct_nontrivial'],
                mismatches=st['mismatches'], samples=st['samples'], classes=st['classes'],
                aspects=st['aspects'], uncatalogued=st['uncatalogued'])


def oracle(rng, budget, deep, replay=None):
    if replay is not None:
        # re-run the whole pass and look for the same site
        st = contract(rng, True)
        site = replay.get('site')
        return dict(evaluations=st['evaluations'], failures=[f for f in st['failures'] if f['site'] == site])
    st = getattr(tie, 'last', None) or contract(rng, deep)
    tie.last = None
    return dict(evaluations=0, distinct_nontrivial=0, failures=st['failures'], samples=st['samples'])
