"""Ties and oracles of the work package `riemann` (1-D ideal-gas Riemann solver building blocks;
properties C02, C03, C07, C08, C09, C10, C17).

TIES (model vs real code, same inputs)
  tie_models(names)   Float twins of the generated function models of riemann/utils.py
                      (py2lean.targets.t_riemann.RIEM_FUNCS, RiemSetup) vs the real functions called on
                      a concrete stub `inst` — including the `==` side-detection branches (a third of
                      the cases pass the left state itself) and the JWL closures.
  tie_assembly        the hand model lean/EPV/Model/RiemannIG.lean (Float instance) vs the real
                      `RiemannIGEOS.driver` AND the public `IGEOS_Solver` at user points: pattern,
                      region-boundary speeds `Vregs`, and (p, rho, u, e) at the point, given the star
                      pressure `px` the real code obtained from scipy.  Random states cover all four
                      patterns WITH velocity differences (the pattern x sign(ur-ul) histogram and the
                      region histogram are measured and returned as `coverage`), the vacuum case
                      (NameError), and the degenerate boundary case L = R with unequal gammas.
                      The driver inserts the user points into its internal grid, so the values at user
                      points carry no interpolation error: tolerance 1e-11 relative.

ORACLES (numeric checks on the REAL public solver; tests, not proofs)
  rh        C02  Rankine-Hugoniot residuals across every shock and [p] = [u] = 0 across the contact,
                 from the fields returned at Xregs -/+ delta and the speeds `Vregs` of the solver object
  eos       C03  p = (gamma_side - 1) rho e at every returned point
  mirror    C09  two public calls: original at x, mirrored data at 2 xd0 - x
  boost     C09  two public calls: original at x, boosted data at x + v t
  similar   C10  two public calls at (x, t) and (xd0 + s (x - xd0), s t)
  fans      C17  monotonicity of p, rho, u inside every fan, compressive shocks
  units     C08  two public calls with inputs rescaled by (M, L, T)
  ig_vs_gen C07  IGEOS_Solver vs GenEOS_Solver on ideal-gas data (slow: ~1 s per case)

Sites are '<Solver>:<pattern>:<what>' so that a defect of one pattern is a different violation from a
defect of another."""
import contextlib
import io
import json
import math
import os
import warnings

import numpy as np

from . import lean_io
from . import oracle as O

IG = 'exactpack.solvers.riemann.ep_riemann:IGEOS_Solver'
GEN = 'exactpack.solvers.riemann.ep_riemann:GenEOS_Solver'
STATE = ('pl', 'rl', 'ul', 'gl', 'pr', 'rr', 'ur', 'gr')
PATTERNS = ('SCS', 'SCR', 'RCS', 'RCR')


@contextlib.contextmanager
def hush():
    with contextlib.redirect_stdout(io.StringIO()), warnings.catch_warnings(), np.errstate(all='ignore'):
        warnings.simplefilter('ignore')
        yield


def lu(rng, lo, hi):
    return math.exp(rng.uniform(math.log(lo), math.log(hi)))


def pattern_of(soln_type):
    s = str(soln_type)
    return s.split('-')[-1] if '-' in s else s


def gen_problem(rng, vel=True):
    """random admissible data; the velocity difference is drawn on the scale of the sound speeds so that
    all four patterns occur, each with both signs of ur - ul where the pattern allows it"""
    pl, pr = lu(rng, 0.1, 10.), lu(rng, 0.1, 10.)
    rl, rr = lu(rng, 0.1, 10.), lu(rng, 0.1, 10.)
    gl, gr = rng.uniform(1.1, 3.0), rng.uniform(1.1, 3.0)
    al, ar = math.sqrt(gl * pl / rl), math.sqrt(gr * pr / rr)
    ul = rng.uniform(-1., 1.) * al
    k = rng.random()
    if not vel:
        du = 0.0
    elif k < 0.5:
        du = rng.uniform(-1.2, 1.2) * (al + ar)
    else:
        du = rng.uniform(-0.3, 0.3) * (al + ar)
    return dict(pl=pl, rl=rl, ul=ul, gl=gl, pr=pr, rr=rr, ur=ul + du, gr=gr,
                xd0=rng.uniform(-1., 1.), t=rng.uniform(0.05, 1.0))


def drive(c, xs, num_x_pts=201):
    """run the real RiemannIGEOS driver; returns the instance or the name of the exception"""
    from exactpack.solvers.riemann import riemann as R
    try:
        with hush():
            prob = R.RiemannIGEOS(xmin=c['xd0'] - 1., xmax=c['xd0'] + 1., num_x_pts=num_x_pts,
                                  **{k: c[k] for k in STATE + ('xd0', 't')})
            prob.driver(np.array(xs, dtype=float))
        return prob
    except Exception as ex:
        return type(ex).__name__


def public(c, xs, cls=IG, **kw):
    """the public solver call; returns (fields dict, solver) or (None, exception name)"""
    from py2lean.trace import load
    _, C = load(cls)
    try:
        with hush():
            s = C(**{k: c[k] for k in STATE + ('xd0',)}, xmin=c['xd0'] - 1., xmax=c['xd0'] + 1., **kw)
            sol = s(np.array(xs, dtype=float), c['t'])
        return {n: np.array(sol[n], dtype=float) for n in sol.dtype.names}, s
    except Exception as ex:
        return None, type(ex).__name__


def rel(a, b, floor=1e-300):
    if not (math.isfinite(a) and math.isfinite(b)):
        return 0.0 if (math.isfinite(a) == math.isfinite(b)) else float('inf')
    return abs(a - b) / max(abs(a), abs(b), floor)


# ======================================================================================
# tie 1: generated function models vs the real helper functions
# ======================================================================================

def _manifest():
    return json.load(open(os.path.join(lean_io.LEAN_DIR, 'EPV', 'Gen', 'gen_manifest.json')))


def _sample_symbols(rng):
    """one value for every symbol that occurs in the function models"""
    v = dict(pl=lu(rng, 0.1, 10.), rl=lu(rng, 0.1, 10.), ul=rng.uniform(-2., 2.), gl=rng.uniform(1.1, 3.),
             pr=lu(rng, 0.1, 10.), rr=lu(rng, 0.1, 10.), ur=rng.uniform(-2., 2.), gr=rng.uniform(1.1, 3.),
             px=lu(rng, 0.03, 30.), pk=lu(rng, 0.1, 10.), rk=lu(rng, 0.1, 10.), uk=rng.uniform(-2., 2.),
             gk=rng.uniform(1.1, 3.), pz=lu(rng, 0.1, 10.), rz=lu(rng, 0.1, 10.), uz=rng.uniform(-2., 2.),
             ws=rng.choice([-1., 1.]), x=rng.uniform(-2., 2.), xd0=rng.uniform(-1., 1.), t=rng.uniform(0.05, 1.),
             rho=lu(rng, 0.3, 6.), A=lu(rng, 1., 700.), B=rng.uniform(-0.5, 0.5), R1=rng.uniform(3., 12.),
             R2=rng.uniform(0.8, 2.), r0=rng.uniform(1., 2.))
    k = rng.random()
    if k < 0.34:           # the generic state IS the left state: side detection says "left"
        v.update(pk=v['pl'], rk=v['rl'], uk=v['ul'])
    elif k < 0.45:         # partially equal: every inner branch of the `and` chain
        v.update(pk=v['pl'])
        if rng.random() < 0.5:
            v.update(uk=v['ul'])
        if rng.random() < 0.5:
            v.update(rk=v['rl'])
    if rng.random() < 0.1:
        v.update(pr=v['pl'])      # the boundary of max(pl, pr)
    return v


def _real_call(name, spec, v):
    """call the real function of riemann/utils.py (or the real constructor) on floats"""
    import importlib
    from py2lean.targets import t_riemann as TR
    U = importlib.import_module(TR.UT)
    if name == 'RiemSetup':
        R = importlib.import_module(TR.RM)
        s = R.RiemannIGEOS(**{k: v[k] for k in STATE})
        return [s.al, s.ar, s.el, s.er, s.pmax]
    inst = TR.make_inst(spec['problem'], lambda k: v[k])
    a = []
    for x in spec['args']:
        if x == 'inst':
            a.append(inst)
        elif isinstance(x, (tuple, list)) and x[0] == 'list':
            a.append([v[y] for y in x[1]])
        elif isinstance(x, (tuple, list)) and x[0] == 'arr':
            a.append(np.array([v[x[1]]]))
        else:
            a.append(v[x])
    r = getattr(U, spec['fn'])(*a)
    if isinstance(r, (tuple, list)):
        return [float(np.asarray(y).reshape(-1)[0]) for y in r]
    return [float(np.asarray(r).reshape(-1)[0])]


def tie_models(names, n_quick=40):
    """tie for a list of generated function models"""
    names = list(names)

    def tie(rng, deep):
        from py2lean.targets import t_riemann as TR
        man = _manifest()
        n = n_quick * (10 if deep else 1)
        lines, cases = [], []
        res = dict(evaluations=0, distinct_nontrivial=0, mismatches=[], samples=[], leaf_hist={})
        for name in names:
            ent = man.get(name)
            if not ent or ent.get('status') != 'ok':
                continue            # an untraceable model is reported through `models=` of the obligations
            order = ent['params'] + ent['pvars'] + ([ent['tvar']] if ent['tvar'] else [])
            spec = TR.RIEM_FUNCS.get(name)
            for _ in range(n):
                v = _sample_symbols(rng)
                try:
                    with hush():
                        real = _real_call(name, spec, v)
                except Exception as ex:
                    real = 'raise:' + type(ex).__name__
                lines.append(name + ' ' + ' '.join(lean_io.bits(v[a]) for a in order))
                cases.append((name, {a: v[a] for a in order}, real))
        outs = lean_io.run_lines(lines) if lines else []
        seen = set()
        for (name, args, real), line in zip(cases, outs):
            tag, mvals = lean_io.parse_result(line)
            res['evaluations'] += 1
            res['leaf_hist'][name + ':' + tag] = res['leaf_hist'].get(name + ':' + tag, 0) + 1
            bad = None
            if isinstance(real, str):
                if not tag.startswith('raise'):
                    bad = 'model %s, code %s' % (tag, real)
            elif not tag.startswith('ok'):
                bad = 'model %s, code returned %r' % (tag, real)
            elif len(real) != len(mvals):
                bad = 'model returns %d values, code %d' % (len(mvals), len(real))
            else:
                for a, b in zip(real, mvals):
                    if rel(a, b) > 1e-11:
                        bad = 'code %r model %r' % (a, b)
                        break
                if all(math.isfinite(a) for a in real) and line not in seen:
                    seen.add(line)
                    res['distinct_nontrivial'] += 1
            if bad:
                res['mismatches'].append(dict(model=name, args=args, why=bad))
            if len(res['samples']) < 2:
                res['samples'].append(dict(model=name, args=args, outcome=tag))
        return res
    tie.__name__ = 'tie_models'
    return tie


# ======================================================================================
# tie 2: the hand model of the assembly vs the real driver and the public solver
# ======================================================================================

def _user_points(rng, c, n=6):
    """points spread over the whole wave fan and beyond it"""
    al, ar = math.sqrt(c['gl'] * c['pl'] / c['rl']), math.sqrt(c['gr'] * c['pr'] / c['rr'])
    w = abs(c['ul']) + abs(c['ur']) + 3. * (al + ar)
    return [c['xd0'] + c['t'] * rng.uniform(-1., 1.) * w for _ in range(n)]


def tie_assembly(rng, deep):
    n = 1500 if deep else 150
    lines, cases = [], []
    res = dict(evaluations=0, distinct_nontrivial=0, mismatches=[], samples=[],
               coverage=dict(pattern_x_sign={}, region={}, outcome={}))
    cov = res['coverage']
    for i in range(n):
        c = gen_problem(rng)
        if i % 25 == 7:
            # boundary case: L = R in (p, rho, u) with unequal gammas (the `==` side detection mislabels R)
            c.update(pr=c['pl'], rr=c['rl'], ur=c['ul'])
        if i % 25 == 11:
            c.update(pr=c['pl'])          # equal pressures: every threshold coincides
        if i % 25 == 3:
            # beyond the vacuum threshold u_RCVR: the driver announces R,C,V,C,R and fails with NameError
            al, ar = math.sqrt(c['gl'] * c['pl'] / c['rl']), math.sqrt(c['gr'] * c['pr'] / c['rr'])
            c.update(ur=c['ul'] + rng.uniform(1.05, 2.0) * (2 * al / (c['gl'] - 1) + 2 * ar / (c['gr'] - 1)))
        xs = _user_points(rng, c)
        prob = drive(c, xs)
        if isinstance(prob, str):
            cov['outcome'][prob] = cov['outcome'].get(prob, 0) + 1
            if prob == 'NameError':
                # vacuum: the driver announces R,C,V,C,R and fails; the model must classify RCVCR
                lines.append('RiemannIG ' + ' '.join(lean_io.bits(c[a]) for a in STATE) + ' '
                             + ' '.join(lean_io.bits(v) for v in (1.0, c['xd0'], xs[0], c['t'])))
                cases.append((c, 'NameError', None))
            continue
        fields, solver = public(c, xs, num_x_pts=201)
        pat = pattern_of(prob.soln_type)
        sg = (c['ur'] > c['ul']) - (c['ur'] < c['ul'])
        key = '%s:%+d' % (pat, sg)
        cov['pattern_x_sign'][key] = cov['pattern_x_sign'].get(key, 0) + 1
        cov['outcome']['ok'] = cov['outcome'].get('ok', 0) + 1
        for j, x in enumerate(xs):
            k = int(np.argmin(abs(prob.x - x)))
            vals = [float(prob.p[k]), float(prob.r[k]), float(prob.u[k]), float(prob.e[k])]
            pub = None
            if fields is not None:
                pub = [float(fields[nm][j]) for nm in ('pressure', 'density', 'velocity', 'specific_internal_energy')]
            lines.append('RiemannIG ' + ' '.join(lean_io.bits(c[a]) for a in STATE) + ' '
                         + ' '.join(lean_io.bits(v) for v in (float(prob.px), c['xd0'], x, c['t'])))
            cases.append((c, (pat, vals, [float(v) for v in prob.Vregs], x, pub, float(prob.px)), None))
    outs = lean_io.run_lines(lines) if lines else []
    seen = set()
    for (c, want, _), line in zip(cases, outs):
        o = line.split()
        res['evaluations'] += 1
        bad = None
        if want == 'NameError':
            if o[0] != 'RCVCR':
                bad = 'code raises NameError (vacuum pattern), model classifies %s' % o[0]
            if bad:
                res['mismatches'].append(dict(case=c, why=bad))
            continue
        pat, vals, vregs, x, pub, px = want
        mvals = [lean_io.unbits(w) for w in o[2:6]]
        mv = [lean_io.unbits(w) for w in o[6:]]
        cov['region']['%s:%s' % (o[0], o[1])] = cov['region'].get('%s:%s' % (o[0], o[1]), 0) + 1
        if o[0] != pat:
            bad = 'pattern: code %s model %s' % (pat, o[0])
        elif len(mv) != len(vregs) or any(rel(a, b) > 1e-11 for a, b in zip(vregs, mv)):
            bad = 'Vregs: code %r model %r' % (vregs, mv)
        elif any(rel(a, b) > 1e-11 for a, b in zip(vals, mvals)):
            bad = 'fields (p,r,u,e) at x=%r: driver %r model %r' % (x, vals, mvals)
        elif pub is not None and any(rel(a, b) > 1e-11 for a, b in zip(pub, mvals)):
            bad = 'fields (p,r,u,e) at x=%r: public IGEOS_Solver %r model %r' % (x, pub, mvals)
        if bad:
            res['mismatches'].append(dict(case=c, px=px, x=x, why=bad))
        elif (json.dumps(c, sort_keys=True), x) not in seen:
            seen.add((json.dumps(c, sort_keys=True), x))
            res['distinct_nontrivial'] += 1
        if len(res['samples']) < 2:
            res['samples'].append(dict(model='RiemannIG', case=c, px=px, x=x, outcome=' '.join(o[:2])))
    # SCS needs ur <= u_SCN <= ul and RCR needs ur > u_NCR >= ul, so 'SCS:+1' and 'RCR:-1' cannot occur
    possible = [p + ':' + s for p in PATTERNS for s in ('+1', '-1') if (p, s) not in (('SCS', '+1'), ('RCR', '-1'))]
    cov['missing'] = [k for k in possible if cov['pattern_x_sign'].get(k, 0) == 0]
    if cov['missing'] and not res['mismatches']:
        res['mismatches'].append(dict(why='generator no longer covers pattern x sign(ur-ul) combinations %r'
                                          % cov['missing']))
    return res


# ======================================================================================
# oracles on the real public solver
# ======================================================================================

def _solve_with_waves(c, extra_kw=None):
    """first public call: learn Vregs and the pattern (both are left on the solver object)"""
    f, s = public(c, [c['xd0']], **(extra_kw or {}))
    if f is None:
        return None
    return pattern_of(s.soln_type), [float(v) for v in s.Vregs]


def _wave_kinds(pat):
    """kind of each entry of Vregs: S shock, C contact, H fan head, T fan tail"""
    return {'SCS': 'SCS', 'SCR': 'SCTH', 'RCS': 'HTCS', 'RCR': 'HTCTH'}[pat]


def _min_gap(c, V):
    X = sorted(c['xd0'] + c['t'] * v for v in V)
    return min([b - a for a, b in zip(X, X[1:])] + [1e9])


TOL_RH = 1e-8       # calibrated: worst 3e-11 on the unchanged tree (bisect xtol 2e-12 on px)


def _rh_check(c):
    w = _solve_with_waves(c)
    if w is None:
        return None
    pat, V = w
    if pat not in PATTERNS:
        return None
    kinds = _wave_kinds(pat)
    gap = _min_gap(c, V)
    scale = max(abs(c['xd0'] + c['t'] * v) for v in V) + 1.
    d = min(1e-6 * scale, gap / 4.)
    if d < 1e-9 * scale:
        return None       # two waves (numerically) coincide: no room to sample between them
    xs = []
    for v in V:
        X = c['xd0'] + c['t'] * v
        xs += [X - d, X + d]
    f, s = public(c, xs)
    if f is None:
        return None
    contact_i = kinds.index('C')
    for i, (k, v) in enumerate(zip(kinds, V)):
        a = {n: f[n][2 * i] for n in f}
        b = {n: f[n][2 * i + 1] for n in f}
        if k == 'S':
            D = v
            st = []
            for z in (a, b):
                r, u, p, e = z['density'], z['velocity'], z['pressure'], z['specific_internal_energy']
                m = r * (u - D)
                st.append((m, m * u + p, m * (e + u * u / 2.) + p * u, r, u, p, e))
            names = ('mass', 'momentum', 'energy')
            for j in range(3):
                sc = max(abs(st[0][j]), abs(st[1][j]), abs(st[0][3] * st[0][4] ** (j + 1)) + st[0][5], 1e-12)
                if abs(st[0][j] - st[1][j]) / sc > TOL_RH:
                    return dict(site='IGEOS:%s:shock%d:%s' % (pat, i, names[j]),
                                detail='D=%r left flux %r right flux %r' % (D, st[0][j], st[1][j]))
            if st[0][5] == st[1][5] and abs(st[0][3] - st[1][3]) < 1e-14 and abs(st[0][5] / max(
                    c['pl'], c['pr']) - 1) > 1e-6:
                return dict(site='IGEOS:%s:shock%d:no-jump' % (pat, i), detail='the fields do not jump at Vregs[%d]' % i)
        elif k == 'C':
            sp = max(abs(a['pressure']), abs(b['pressure']))
            su = max(abs(a['velocity']), abs(b['velocity']), math.sqrt(sp / max(a['density'], b['density'])))
            if abs(a['pressure'] - b['pressure']) / sp > TOL_RH:
                return dict(site='IGEOS:%s:contact:pressure' % pat, detail='p- %r p+ %r' % (a['pressure'], b['pressure']))
            if abs(a['velocity'] - b['velocity']) / su > TOL_RH:
                return dict(site='IGEOS:%s:contact:velocity' % pat, detail='u- %r u+ %r' % (a['velocity'], b['velocity']))
            if abs(a['velocity'] - v) / su > TOL_RH:
                return dict(site='IGEOS:%s:contact:speed' % pat, detail='u %r Vregs %r' % (a['velocity'], v))
    return None


rh = O.make(gen_problem, _rh_check, 'riemann.rh')


def _eos_check(c):
    w = _solve_with_waves(c)
    if w is None:
        return None
    pat, V = w
    if pat not in PATTERNS:
        return None
    Xc = c['xd0'] + c['t'] * V[_wave_kinds(pat).index('C')]
    span = max(abs(v) for v in V) * c['t'] + 0.5
    xs = np.linspace(c['xd0'] - 1.3 * span, c['xd0'] + 1.3 * span, 41)
    xs = [x for x in xs if abs(x - Xc) > 1e-9 * (1 + abs(Xc))]
    f, s = public(c, xs)
    if f is None:
        return None
    for i, x in enumerate(xs):
        g = c['gl'] if x < Xc else c['gr']
        p, r, e = f['pressure'][i], f['density'][i], f['specific_internal_energy'][i]
        if not all(map(math.isfinite, (p, r, e))):
            return dict(site='IGEOS:%s:nonfinite' % pat, detail='x=%r p=%r rho=%r e=%r' % (x, p, r, e))
        if rel(p, (g - 1) * r * e) > 1e-11:
            return dict(site='IGEOS:%s:p=(gamma-1)*rho*e' % pat,
                        detail='x=%r p=%r (gamma-1) rho e=%r (gamma of the %s side)' % (
                            x, p, (g - 1) * r * e, 'left' if x < Xc else 'right'))
    return None


eos = O.make(gen_problem, _eos_check, 'riemann.eos')


def _safe_points(c, V, n=9, margin=1e-6):
    """points across the fan, at least `margin` (relative) away from every wave position"""
    span = max(abs(v) for v in V) * c['t'] + 0.3
    X = [c['xd0'] + c['t'] * v for v in V]
    xs = []
    for k in range(n):
        x = c['xd0'] + span * (-1.25 + 2.5 * (k + 0.37) / n)
        if all(abs(x - Xi) > margin * (1 + abs(Xi)) + 1e-7 * span for Xi in X):
            xs.append(x)
    return xs


def _compare(fa, fb, sign_u, site, tol, shift=0.0, factors=None):
    names = ('pressure', 'density', 'velocity', 'specific_internal_energy')
    fac = factors or dict.fromkeys(names, 1.0)
    for n in names:
        for i in range(len(fa[n])):
            a = fa[n][i] * fac[n]
            b = fb[n][i]
            if n == 'velocity':
                a = sign_u * fa[n][i] * fac[n] + shift
                sc = max(abs(a), abs(b), math.sqrt(abs(fb['pressure'][i] / fb['density'][i])))
            else:
                sc = max(abs(a), abs(b))
            if abs(a - b) > tol * sc:
                return dict(site=site + ':' + n, detail='point %d: expected %r got %r' % (i, a, b))
    return None


TOL_SYM = 1e-8     # calibrated: worst 2e-11 (mirror), 6e-12 (boost), 3e-12 (units), 1e-13 (similarity)


def _mirror_check(c):
    w = _solve_with_waves(c)
    if w is None:
        return None
    pat, V = w
    if pat not in PATTERNS:
        return None
    xs = _safe_points(c, V)
    if not xs:
        return None
    fa, _ = public(c, xs)
    m = dict(c, pl=c['pr'], rl=c['rr'], ul=-c['ur'], gl=c['gr'], pr=c['pl'], rr=c['rl'], ur=-c['ul'], gr=c['gl'])
    fb, sb = public(m, [2 * c['xd0'] - x for x in xs])
    if fa is None:
        return None
    if fb is None:
        return dict(site='IGEOS:%s:mirror:raises' % pat, detail='mirrored problem raises %s' % sb)
    mp = {'SCR': 'RCS', 'RCS': 'SCR'}.get(pat, pat)
    if pattern_of(sb.soln_type) != mp:
        return dict(site='IGEOS:%s:mirror:pattern' % pat, detail='mirrored problem classified %s' % sb.soln_type)
    return _compare(fa, fb, -1.0, 'IGEOS:%s:mirror' % pat, TOL_SYM)


mirror = O.make(gen_problem, _mirror_check, 'riemann.mirror')


def _gen_boost(rng):
    c = gen_problem(rng)
    c['v'] = rng.uniform(-3., 3.)
    return c


def _boost_check(c):
    w = _solve_with_waves(c)
    if w is None:
        return None
    pat, V = w
    if pat not in PATTERNS:
        return None
    xs = _safe_points(c, V)
    if not xs:
        return None
    fa, _ = public(c, xs)
    v = c['v']
    b = dict(c, ul=c['ul'] + v, ur=c['ur'] + v)
    fb, sb = public(b, [x + v * c['t'] for x in xs])
    if fa is None:
        return None
    if fb is None:
        return dict(site='IGEOS:%s:boost:raises' % pat, detail='boosted problem raises %s' % sb)
    if pattern_of(sb.soln_type) != pat:
        return dict(site='IGEOS:%s:boost:pattern' % pat, detail='boosted problem classified %s' % sb.soln_type)
    return _compare(fa, fb, 1.0, 'IGEOS:%s:boost' % pat, TOL_SYM, shift=v)


boost = O.make(_gen_boost, _boost_check, 'riemann.boost')


def _gen_similar(rng):
    c = gen_problem(rng)
    c['s'] = lu(rng, 0.2, 5.)
    return c


def _similar_check(c):
    w = _solve_with_waves(c)
    if w is None:
        return None
    pat, V = w
    if pat not in PATTERNS:
        return None
    xs = _safe_points(c, V)
    if not xs:
        return None
    fa, _ = public(c, xs)
    s = c['s']
    fb, sb = public(dict(c, t=s * c['t']), [c['xd0'] + s * (x - c['xd0']) for x in xs])
    if fa is None or fb is None:
        return None
    return _compare(fa, fb, 1.0, 'IGEOS:%s:self-similar' % pat, TOL_SYM)


similar = O.make(_gen_similar, _similar_check, 'riemann.similar')


def _gen_units(rng):
    c = gen_problem(rng)
    c.update(M=lu(rng, 1e-3, 1e3), L=lu(rng, 1e-2, 1e2), T=lu(rng, 1e-2, 1e2))
    return c


def _units_check(c):
    w = _solve_with_waves(c)
    if w is None:
        return None
    pat, V = w
    if pat not in PATTERNS:
        return None
    xs = _safe_points(c, V)
    if not xs:
        return None
    fa, _ = public(c, xs)
    M, L, T = c['M'], c['L'], c['T']
    P, Rr, U = M / (L * T * T), M / L ** 3, L / T
    b = dict(c, pl=P * c['pl'], pr=P * c['pr'], rl=Rr * c['rl'], rr=Rr * c['rr'], ul=U * c['ul'], ur=U * c['ur'],
             xd0=L * c['xd0'], t=T * c['t'])
    from py2lean.trace import load
    _, C = load(IG)
    try:
        with hush():
            s = C(**{k: b[k] for k in STATE + ('xd0',)}, xmin=L * (c['xd0'] - 1.), xmax=L * (c['xd0'] + 1.))
            sol = s(np.array([L * x for x in xs]), b['t'])
        fb = {n: np.array(sol[n], dtype=float) for n in sol.dtype.names}
    except Exception as ex:
        return dict(site='IGEOS:%s:units:raises' % pat, detail='rescaled problem raises %s' % type(ex).__name__)
    if fa is None:
        return None
    if pattern_of(s.soln_type) != pat:
        return dict(site='IGEOS:%s:units:pattern' % pat, detail='rescaled problem classified %s' % s.soln_type)
    # (P) of C08: scipy's bisect stops at the ABSOLUTE tolerance xtol = 2e-12 on the star pressure, which is
    # not scale free; the comparison allows for it (relative error xtol / p in the rescaled units)
    tol = TOL_SYM + 100. * 2e-12 / float(np.min(fb['pressure']))
    return _compare(fa, fb, 1.0, 'IGEOS:%s:units' % pat, tol,
                    factors=dict(pressure=P, density=Rr, velocity=U, specific_internal_energy=U * U))


units = O.make(_gen_units, _units_check, 'riemann.units')


def _fans_check(c):
    w = _solve_with_waves(c)
    if w is None:
        return None
    pat, V = w
    if pat not in PATTERNS:
        return None
    kinds = _wave_kinds(pat)
    # fans: strictly between head and tail
    xs, seg = [], []
    for i, k in enumerate(kinds):
        if k == 'H' and i + 1 < len(kinds) and kinds[i + 1] == 'T':
            lo, hi, side = V[i], V[i + 1], 'left'
        elif k == 'T' and i + 1 < len(kinds) and kinds[i + 1] == 'H':
            lo, hi, side = V[i], V[i + 1], 'right'
        else:
            continue
        if not hi - lo > 1e-9 * (abs(hi) + abs(lo) + 1):
            continue
        pts = [c['xd0'] + c['t'] * (lo + (hi - lo) * (j + 0.5) / 12.) for j in range(12)]
        seg.append((len(xs), len(xs) + len(pts), side))
        xs += pts
    # shocks: one point on either side
    sh = []
    gap = _min_gap(c, V)
    for i, k in enumerate(kinds):
        if k == 'S':
            X = c['xd0'] + c['t'] * V[i]
            d = min(1e-6 * (1 + abs(X)), gap / 4.)
            if d > 0:
                sh.append((len(xs), i))
                xs += [X - d, X + d]
    if not xs:
        return None
    f, s = public(c, xs)
    if f is None:
        return None
    for a, b, side in seg:
        for n, inc in (('pressure', side == 'right'), ('density', side == 'right'), ('velocity', True)):
            v = f[n][a:b]
            dv = np.diff(v)
            ok = np.all(dv > 0) if inc else np.all(dv < 0)
            if not ok:
                return dict(site='IGEOS:%s:%s-fan:%s-not-monotone' % (pat, side, n), detail='values %r' % list(v))
    for k0, i in sh:
        left_going = i == 0
        ahead = k0 if left_going else k0 + 1
        behind = k0 + 1 if left_going else k0
        for n in ('pressure', 'density'):
            if f[n][behind] < f[n][ahead] * (1 - 1e-12):
                return dict(site='IGEOS:%s:shock%d:not-compressive:%s' % (pat, i, n),
                            detail='ahead %r behind %r' % (f[n][ahead], f[n][behind]))
    return None


fans = O.make(gen_problem, _fans_check, 'riemann.fans')


# ---- FINDING reproductions: identical (p, rho, u), unequal gammas -----------------------------

def _gen_identical(rng):
    c = gen_problem(rng)
    c.update(pr=c['pl'], rr=c['rl'], ur=c['ul'])
    if abs(c['gl'] - c['gr']) < 0.05:
        c['gr'] = c['gl'] + 0.3
    return c


def _identical_eos_check(c):
    """C03: between xd0 + t (ur - ar) and the interface xd0 + t ul the LEFT gas is returned with the
    RIGHT gas's energy: p != (gamma_L - 1) rho e"""
    ar = math.sqrt(c['gr'] * c['pr'] / c['rr'])
    Xc = c['xd0'] + c['t'] * c['ul']
    x = Xc - 0.5 * c['t'] * ar
    f, s = public(c, [x])
    if f is None:
        return None
    p, r, e = f['pressure'][0], f['density'][0], f['specific_internal_energy'][0]
    if rel(p, (c['gl'] - 1) * r * e) > 1e-9:
        return dict(site='IGEOS:identical-states:p=(gamma-1)*rho*e',
                    detail='x=%r (left of the interface %r): p=%r (gamma_L-1) rho e=%r' % (x, Xc, p, (c['gl'] - 1) * r * e))
    return None


identical_eos = O.make(_gen_identical, _identical_eos_check, 'riemann.identical_eos')


def _identical_rh_check(c):
    """C02: the energy jumps at xd0 + t Vregs[2] with Vregs[2] = ur - ar; energy flux is not continuous there"""
    w = _solve_with_waves(c)
    if w is None:
        return None
    pat, V = w
    if pat != 'SCS' or len(V) != 3:
        return None
    D = V[2]
    X = c['xd0'] + c['t'] * D
    d = 1e-6 * (1 + abs(X))
    f, s = public(c, [X - d, X + d])
    if f is None:
        return None
    fl = []
    for i in (0, 1):
        r, u, p, e = f['density'][i], f['velocity'][i], f['pressure'][i], f['specific_internal_energy'][i]
        fl.append(r * (u - D) * (e + u * u / 2.) + p * u)
    if abs(fl[0] - fl[1]) > 1e-8 * max(abs(fl[0]), abs(fl[1]), 1e-12):
        return dict(site='IGEOS:identical-states:energy-jump',
                    detail='D=Vregs[2]=%r (gas velocity %r): energy flux left %r right %r' % (D, c['ul'], fl[0], fl[1]))
    return None


identical_rh = O.make(_gen_identical, _identical_rh_check, 'riemann.identical_rh')


# ---- C07: ideal-gas solver vs general-EOS solver on ideal-gas data --------------------------

TOL_GEN = 2e-4      # P-U tables on num_int_pts = 2001 levels, linearly interpolated (1.4e-7 at the default 10001)


def _gen_ivg(rng):
    # moderate strengths: the general solver's shock bracket and table range are limited to pmax
    pl, pr = lu(rng, 0.3, 3.), lu(rng, 0.3, 3.)
    rl, rr = lu(rng, 0.3, 3.), lu(rng, 0.3, 3.)
    g = rng.uniform(1.2, 2.5)
    al, ar = math.sqrt(g * pl / rl), math.sqrt(g * pr / rr)
    ul = rng.uniform(-0.5, 0.5) * al
    return dict(pl=pl, rl=rl, ul=ul, gl=g, pr=pr, rr=rr, ur=ul + rng.uniform(-0.5, 0.5) * (al + ar), gr=g,
                xd0=0.5, t=rng.uniform(0.1, 0.3))


def _ivg_check(c):
    w = _solve_with_waves(c)
    if w is None:
        return None
    pat, V = w
    if pat not in PATTERNS:
        return None
    # stay 2 % of the fan width away from every wave: the general solver smears discontinuities over a cell
    span = max(abs(v) for v in V) * c['t'] + 0.3
    xs = [x for x in _safe_points(c, V, n=11) if all(abs(x - (c['xd0'] + c['t'] * v)) > 0.02 * span for v in V)]
    if not xs:
        return None
    fa, _ = public(c, xs)
    fb, sb = public(c, xs, cls=GEN, num_int_pts=2001, num_x_pts=2001)
    if fa is None or fb is None:
        return None
    gp = str(sb.soln_type)
    if gp != pat:
        return dict(site='IGvsGen:%s:pattern' % pat, detail='GenEOS_Solver selects %s' % gp)
    return _compare(fa, fb, 1.0, 'IGvsGen:%s' % pat, TOL_GEN)


ig_vs_gen = O.make(_gen_ivg, _ivg_check, 'riemann.ig_vs_gen')


# ======================================================================================
# oracles on the real HELPER functions of riemann/utils.py (cheap; they give the search for a failing
# input something to work with when a helper-level theorem or its model breaks)
# ======================================================================================

def _inst(v, problem='igeos'):
    from py2lean.targets import t_riemann as TR
    return TR.make_inst(problem, lambda k: v.get(k, 1.5))     # unused attributes: any admissible number


def _utils():
    import importlib
    return importlib.import_module('exactpack.solvers.riemann.utils')


def _gen_state(rng):
    c = gen_problem(rng)
    c['px'] = lu(rng, 0.03, 30.)
    c['px2'] = c['px'] * lu(rng, 1.001, 3.)
    c['v'] = rng.uniform(-3., 3.)
    c.update(M=lu(rng, 1e-2, 1e2), L=lu(rng, 1e-2, 1e2), T=lu(rng, 1e-2, 1e2))
    return c


def _xcall_check(c):
    """C17/C09/C08 at helper level: monotone residuals, threshold identities, mirror, boost, homogeneity"""
    U = _utils()
    with hush():
        i = _inst(c)
        calls = dict(SCS=U.SCS_call, SCR=U.SCR_call, RCS=U.RCS_call, RCR=U.RCR_call)
        sign = dict(SCS=1, RCS=1, SCR=-1, RCR=-1)
        sc = math.sqrt(c['gl'] * c['pl'] / c['rl']) + math.sqrt(c['gr'] * c['pr'] / c['rr']) + abs(c['ul']) + abs(c['ur'])
        for n, f in calls.items():
            a, b = f(c['px'], i), f(c['px2'], i)
            if not sign[n] * (b - a) > 0:
                return dict(site='utils:%s_call:monotone' % n, detail='f(%r)=%r f(%r)=%r' % (c['px'], a, c['px2'], b))
        # thresholds = residuals at pl, pr
        pl, pr, ur = c['pl'], c['pr'], c['ur']
        ids = [('SCS@pr', U.SCS_call(pr, i), ur - U.u_SCN(pr, i)), ('SCS@pl', U.SCS_call(pl, i), ur - U.u_NCS(pr, i)),
               ('SCR@pr', U.SCR_call(pr, i), -(ur - U.u_SCN(pr, i))), ('SCR@pl', U.SCR_call(pl, i), -(ur - U.u_NCR(pr, i))),
               ('RCS@pl', U.RCS_call(pl, i), ur - U.u_NCS(pr, i)), ('RCS@pr', U.RCS_call(pr, i), ur - U.u_RCN(pr, i)),
               ('RCR@pl', U.RCR_call(pl, i), -(ur - U.u_NCR(pr, i))), ('RCR@pr', U.RCR_call(pr, i), -(ur - U.u_RCN(pr, i)))]
        for n, a, b in ids:
            if abs(a - b) > 1e-11 * sc:
                return dict(site='utils:threshold:%s' % n, detail='residual %r threshold form %r' % (a, b))
        # mirror
        m = dict(c, pl=c['pr'], rl=c['rr'], ul=-c['ur'], gl=c['gr'], pr=c['pl'], rr=c['rl'], ur=-c['ul'], gr=c['gl'])
        im = _inst(m)
        for n, mn, sg in (('SCR', 'RCS', -1), ('RCS', 'SCR', -1), ('SCS', 'SCS', 1), ('RCR', 'RCR', 1)):
            a, b = calls[n](c['px'], im), sg * calls[mn](c['px'], i)
            if abs(a - b) > 1e-11 * sc:
                return dict(site='utils:%s_call:mirror' % n, detail='mirrored %r expected %r' % (a, b))
        # boost
        ib = _inst(dict(c, ul=c['ul'] + c['v'], ur=c['ur'] + c['v']))
        for n, f in calls.items():
            a, b = f(c['px'], ib), f(c['px'], i)
            if abs(a - b) > 1e-11 * (sc + abs(c['v'])):
                return dict(site='utils:%s_call:boost' % n, detail='boosted %r original %r' % (a, b))
        for n in ('u_SCN', 'u_NCS', 'u_NCR', 'u_RCN'):
            a, b = getattr(U, n)(pr, ib), getattr(U, n)(pr, i) + c['v']
            if abs(a - b) > 1e-11 * (sc + abs(c['v'])):
                return dict(site='utils:%s:boost' % n, detail='boosted %r expected %r' % (a, b))
        # homogeneity
        M, L, T = c['M'], c['L'], c['T']
        P, Rr, Uu = M / (L * T * T), M / L ** 3, L / T
        isc = _inst(dict(c, pl=P * c['pl'], pr=P * c['pr'], rl=Rr * c['rl'], rr=Rr * c['rr'], ul=Uu * c['ul'], ur=Uu * c['ur']))
        for n, f in calls.items():
            a, b = f(P * c['px'], isc), Uu * f(c['px'], i)
            if abs(a - b) > 1e-11 * Uu * sc:
                return dict(site='utils:%s_call:units' % n, detail='rescaled %r expected %r' % (a, b))
        for n, d in (('sound_speed', Uu), ('sie', Uu * Uu)):
            a = getattr(U, n)(P * c['pl'], Rr * c['rl'], c['gl'], isc)
            b = d * getattr(U, n)(c['pl'], c['rl'], c['gl'], i)
            if rel(a, b) > 1e-12:
                return dict(site='utils:%s:units' % n, detail='rescaled %r expected %r' % (a, b))
        a = U.rho_star_shock(P * c['px'], P * c['pl'], Rr * c['rl'], c['gl'], isc)
        b = Rr * U.rho_star_shock(c['px'], c['pl'], c['rl'], c['gl'], i)
        if rel(a, b) > 1e-12:
            return dict(site='utils:rho_star_shock:units', detail='rescaled %r expected %r' % (a, b))
    return None


xcall = O.make(_gen_state, _xcall_check, 'riemann.xcall')


def _gen_jwl(rng):
    return dict(A=lu(rng, 1., 700.), B=rng.uniform(-0.5, 0.5), R1=rng.uniform(3., 12.), R2=rng.uniform(0.8, 2.),
                r0=rng.uniform(1., 2.), gk=rng.uniform(1.2, 3.), rho=lu(rng, 0.4, 5.), pk=lu(rng, 0.2, 20.))


def _jwl_check(c):
    """C03 JWL closures on the real functions: sie inverts the pressure form; JWL_dfdr = d JWL_f / d rho;
    sound_speed^2 = (p/rho^2 - de/drho|p) / (de/dp|rho)  (central differences, confirmed by step halving)"""
    U = _utils()
    with hush():
        i = _inst(c, 'JWL')
        g, r, p = c['gk'], c['rho'], c['pk']
        w = g - 1.
        e = U.sie(p, r, g, i)
        form = (c['A'] * (1 - w * r / (c['R1'] * c['r0'])) * math.exp(-c['R1'] * c['r0'] / r)
                + c['B'] * (1 - w * r / (c['R2'] * c['r0'])) * math.exp(-c['R2'] * c['r0'] / r) + w * r * e)
        if rel(form, p, floor=1e-6) > 1e-10:
            return dict(site='utils:sie[JWL]:inverts-pressure-form', detail='p=%r JWL form at sie=%r' % (p, form))

        def fd(f, x, h):
            return (f(x + h) - f(x - h)) / (2 * h)
        exact = U.JWL_dfdr(r, g, i)
        errs = [abs(fd(lambda y: U.JWL_f(y, g, i), r, h) - exact) for h in (1e-4 * r, 5e-5 * r)]
        scale = abs(exact) + abs(U.JWL_f(r, g, i)) / r + 1e-9
        if errs[1] > 1e-6 * scale and errs[1] > 0.5 * errs[0]:
            return dict(site='utils:JWL_dfdr:derivative-of-JWL_f', detail='coded %r finite difference errors %r' % (exact, errs))
        a2 = U.sound_speed(p, r, g, i) ** 2
        if math.isfinite(a2):
            dedr = [fd(lambda y: U.sie(p, y, g, i), r, h) for h in (1e-4 * r, 5e-5 * r)]
            dedp = fd(lambda y: U.sie(y, r, g, i), p, 1e-4 * p)
            gen = [(p / r ** 2 - d) / dedp for d in dedr]
            er = [abs(x - a2) for x in gen]
            if er[1] > 1e-5 * (abs(a2) + p / r) and er[1] > 0.5 * er[0]:
                return dict(site='utils:sound_speed[JWL]:general-formula', detail='coded a^2=%r general %r' % (a2, gen))
    return None


jwl = O.make(_gen_jwl, _jwl_check, 'riemann.jwl')


def _c07_helpers_check(c):
    """C07 (partial) on the real functions: Hugoniot root, star velocity, the closed-form fan solves drdp_dudp"""
    U = _utils()
    with hush():
        i = _inst(c)
        for side, (p0, r0, u0, g) in (('left', (c['pl'], c['rl'], c['ul'], c['gl'])), ('right', (c['pr'], c['rr'], c['ur'], c['gr']))):
            if side == 'right' and (c['pr'], c['rr'], c['ur']) == (c['pl'], c['rl'], c['ul']):
                continue
            px = p0 * (1. + (c['px2'] / c['px'] - 1.))          # a pressure above p0
            rx = U.rho_star_shock(px, p0, r0, g, i)
            res = U.shock_jump(p0, r0, g, px, rx, i)
            if abs(res) > 1e-10 * (px + p0) / min(r0, rx):
                return dict(site='utils:shock_jump:root=rho_star_shock:%s' % side, detail='residual %r' % res)
            us = float(U.star_velocity(p0, r0, u0, np.array([px]), np.array([rx]), i)[0])
            sg = -1. if side == 'left' else 1.
            want = u0 + sg * U.shock(px, p0, r0, 0., g, i)
            if abs(us - want) > 1e-10 * (abs(want) + math.sqrt(g * p0 / r0)):
                return dict(site='utils:star_velocity=shock:%s' % side, detail='star_velocity %r ideal-gas %r' % (us, want))
            # fan: derivative of the closed forms vs the right-hand side of the ODE
            pf = p0 / (c['px2'] / c['px'])
            errs = []
            for h in (1e-4 * pf, 5e-5 * pf):
                drho = (U.rho_star_rarefaction(pf + h, p0, r0, g, i) - U.rho_star_rarefaction(pf - h, p0, r0, g, i)) / (2 * h)
                du = sg * -1. * (U.rarefaction(pf + h, p0, r0, 0., g, i) - U.rarefaction(pf - h, p0, r0, 0., g, i)) / (2 * h)
                rhs = U.drdp_dudp(pf, [U.rho_star_rarefaction(pf, p0, r0, g, i), 0.], g, sg, i)
                errs.append((abs(drho - rhs[0]) / abs(rhs[0]), abs(du - rhs[1]) / abs(rhs[1])))
            if max(errs[1]) > 1e-6 and max(errs[1]) > 0.5 * max(errs[0]):
                return dict(site='utils:drdp_dudp:closed-form-fan:%s' % side, detail='relative errors %r' % (errs,))
    return None


c07_helpers = O.make(_gen_state, _c07_helpers_check, 'riemann.c07_helpers')
